import Driver.Common
import Logrange.Model.MixTree
import Logrange.Model.MixerErr
import Logrange.Generated.C04
/-! Model driver for C04 (multi-partition merge). One self-contained request per line (batch mode):

* `mix <tree> | <op>*`      — run the operations on an explicitly given tree of mixers
* `cur <k> <leaf>{k} | <op>*` — build the iterator the way `newCursor` does (in-place pairwise reduction) from the
                               `k` sources in the given (map iteration) order, then run the operations
* `curs <k> (<hexline> <leaf>){k} | <op>*` — the same from a *map*: entries (tag line, source) in the iteration order given;
                               the order of the sources is what `newCursor` makes of it now (regenerated fact: sorted by
                               tag line), then reduction and operations as for `cur`
* `mixe <etree> | <op>*`     — the error model (`Model/MixerErr.lean`): `<etree>` is `M <etree> <etree>` | `E <sticky 0|1> <k> <badidx>{k} <leaf>`
                               (records of the leaf that cannot be read); ops as for `mix` (no append) plus `G` = Get, and once
                               more if it failed; `D` = drain with that retry. `g`/`G` answer `err` for a non-EOF error, `d`/`D` end
                               with `!err` when an error ended them.
* `qry <offs> <lim> <k> (<idx> <eleaf>){k}` — `Query` after the cursor exists, on the error model: the `k` sources (in tag-line order,
                               each standing at index `idx`; `<eleaf>` = `E <sticky> <n> <badidx>{n} <leaf>` | `<leaf>`) are
                               reduced like `newCursor` does, then `crsr.Offset(offs)` (errors dropped) and the read loop with
                               limit `lim`: `fail` (the loop ended with a non-EOF error: no page) or `page <events|->`
* `spec.merge <0|1> <leafrecs> | <leafrecs>` — SPEC: `mergeSpec bk xs ys` on two event lists given as leaves
* `gj <maxLimit> <n>`       — `GetJournals` over `n` matching partitions: `ok <n>` / `err`, then `held=<sum of readers>`
* `limit`                   — the regenerated merge limit of `newCursor`

`<tree>` is prefix notation: `M <tree> <tree>` | `<leaf>`; `<leaf>` is `L <tags> <n> <ts>:<msg>{n}`.
`<op>`: `g` Get, `n` Next, `r` Release, `b1`/`b0` SetBackward(true/false), `d` drain (Get/Next until EOF),
`a<k>:<ts>:<msg>` append a record to the k-th source (left to right from 0) behind the mixers' back,
`p<k>:<idx>` move the k-th source to index idx (SetPos) behind the mixers' back.
Answer: one token per op — `g`: `<ts>:<msg>:<tags>` or `eof`, followed (when the root is a mixer) by
`/<st><eof1><eof2>`; `n`,`r`,`b*`: `.` plus the same suffix; `d`: the events joined by `,` (or `-`) . -/
open Go Logrange.Mixer Logrange.MixTree Driver

def parseRec (s : String) : Rec :=
  match s.splitOn ":" with
  | [t, m] => ⟨t.toInt?.getD 0, m.toNat?.getD 0⟩
  | _ => ⟨0, 0⟩

def parseLeaf : List String → Option (Leaf × List String)
  | "L" :: tags :: n :: rest =>
    let k := n.toNat?.getD 0
    if rest.length < k then none else
    some ({ tags := tags.toNat?.getD 0, les := (rest.take k).map parseRec }, rest.drop k)
  | _ => none

def parseTree : Nat → List String → Option (It Leaf × List String)
  | 0, _ => none
  | fuel+1, "M" :: rest =>
    match parseTree fuel rest with
    | some (a, r1) => match parseTree fuel r1 with
      | some (b, r2) => some (It.init a b, r2)
      | none => none
    | none => none
  | _, toks => (parseLeaf toks).map (fun (l, r) => (It.leaf l, r))

def parseLeaves : Nat → List String → Option (List Leaf × List String)
  | 0, r => some ([], r)
  | k+1, toks => match parseLeaf toks with
    | some (l, r) => (parseLeaves k r).map (fun (ls, r') => (l :: ls, r'))
    | none => none

def parseKeyed : Nat → List String → Option (List (Bytes × Leaf) × List String)
  | 0, r => some ([], r)
  | k+1, key :: toks => match parseLeaf toks with
    | some (l, r) => (parseKeyed k r).map (fun (ls, r') => ((unhex key, l) :: ls, r'))
    | none => none
  | _, _ => none

def showEv (e : Ev) : String := s!"{e.ts}:{e.msg}:{e.tags}"

def b01 (b : Bool) : String := if b then "1" else "0"

def suffix : It Leaf → String
  | .leaf _ => ""
  | .mix m _ _ => s!"/{m.st}{b01 m.eof1}{b01 m.eof2}"

def drainAll : Nat → It Leaf → It Leaf × List Ev
  | 0, it => (it, [])
  | f+1, it =>
    match it.get with
    | (it', some e) => let (it'', es) := drainAll f it'.next; (it'', e :: es)
    | (it', none) => (it', [])

def totalRecs : It Leaf → Nat
  | .leaf l => l.les.length
  | .mix _ a b => totalRecs a + totalRecs b

def runOps (it : It Leaf) : List String → List String
  | [] => []
  | "g" :: ops => let (it', r) := it.get
    ((match r with | some e => showEv e | none => "eof") ++ suffix it') :: runOps it' ops
  | "n" :: ops => let it' := it.next; ("." ++ suffix it') :: runOps it' ops
  | "r" :: ops => let it' := it.release; ("." ++ suffix it') :: runOps it' ops
  | "b1" :: ops => let it' := it.setBackward true; ("." ++ suffix it') :: runOps it' ops
  | "b0" :: ops => let it' := it.setBackward false; ("." ++ suffix it') :: runOps it' ops
  | "d" :: ops => let (it', es) := drainAll (totalRecs it + 2) it
    ((if es.isEmpty then "-" else ",".intercalate (es.map showEv)) ++ suffix it') :: runOps it' ops
  | op :: ops =>
    -- `a<k>:<ts>:<msg>`: a record is appended to the k-th source (left to right, from 0)
    if op.startsWith "a" then
      match (op.drop 1).toString.splitOn ":" with
      | [k, t, m] =>
        let it' := it.modifyLeaf (Leaf.append ⟨t.toInt?.getD 0, m.toNat?.getD 0⟩) (k.toNat?.getD 0)
        ("." ++ suffix it') :: runOps it' ops
      | _ => "bad-op" :: runOps it ops
    -- `p<k>:<idx>`: the k-th source is moved to index idx (`SetPos` on the journal iterator, behind the mixers' back)
    else if op.startsWith "p" then
      match (op.drop 1).toString.splitOn ":" with
      | [k, i] =>
        let it' := it.modifyLeaf (fun l => { l with idx := i.toInt?.getD 0 }) (k.toNat?.getD 0)
        ("." ++ suffix it') :: runOps it' ops
      | _ => "bad-op" :: runOps it ops
    else "bad-op" :: runOps it ops

def parseETree : Nat → List String → Option (It LeafE × List String)
  | 0, _ => none
  | fuel+1, "M" :: rest =>
    match parseETree fuel rest with
    | some (a, r1) => match parseETree fuel r1 with
      | some (b, r2) => some (It.init a b, r2)
      | none => none
    | none => none
  | _, "E" :: st :: k :: rest =>
    let n := k.toNat?.getD 0
    if rest.length < n then none else
    match parseLeaf (rest.drop n) with
    | some (l, r) => some (It.leaf { l := l, bad := (rest.take n).map (fun x => x.toNat?.getD 0), sticky := st == "1" }, r)
    | none => none
  | _, toks => (parseLeaf toks).map (fun (l, r) => (It.leaf { l := l }, r))

def suffixE : It LeafE → String
  | .leaf _ => ""
  | .mix m _ _ => s!"/{m.st}{b01 m.eof1}{b01 m.eof2}"

def showRes : Res → String
  | .ok e => showEv e
  | .eof => "eof"
  | .err => "err"

def getRetry (retry : Bool) (it : It LeafE) : It LeafE × Res :=
  match it.getE with
  | (it', .err) => if retry then it'.getE else (it', .err)
  | r => r

def drainE (retry : Bool) : Nat → It LeafE → It LeafE × List Ev × Bool
  | 0, it => (it, [], false)
  | f+1, it =>
    match getRetry retry it with
    | (it', .ok e) => let (it'', es, er) := drainE retry f it'.nextE; (it'', e :: es, er)
    | (it', .eof) => (it', [], false)
    | (it', .err) => (it', [], true)

def totalRecsE : It LeafE → Nat
  | .leaf s => s.l.les.length
  | .mix _ a b => totalRecsE a + totalRecsE b

def runOpsE (it : It LeafE) : List String → List String
  | [] => []
  | op :: ops =>
    if op == "g" || op == "G" then
      let (it', r) := getRetry (op == "G") it
      (showRes r ++ suffixE it') :: runOpsE it' ops
    else if op == "n" then let it' := it.nextE; ("." ++ suffixE it') :: runOpsE it' ops
    else if op == "r" then let it' := it.release; ("." ++ suffixE it') :: runOpsE it' ops
    else if op == "b1" then let it' := it.setBackward true; ("." ++ suffixE it') :: runOpsE it' ops
    else if op == "b0" then let it' := it.setBackward false; ("." ++ suffixE it') :: runOpsE it' ops
    else if op == "d" || op == "D" then
      let (it', es, er) := drainE (op == "D") (totalRecsE it + 2) it
      ((if es.isEmpty then "-" else ",".intercalate (es.map showEv)) ++ (if er then "!err" else "") ++ suffixE it') :: runOpsE it' ops
    else "bad-op" :: runOpsE it ops

def parseELeaf : List String → Option (LeafE × List String)
  | "E" :: st :: k :: rest =>
    let n := k.toNat?.getD 0
    if rest.length < n then none else
    match parseLeaf (rest.drop n) with
    | some (l, r) => some ({ l := l, bad := (rest.take n).map (fun x => x.toNat?.getD 0), sticky := st == "1" }, r)
    | none => none
  | toks => (parseLeaf toks).map (fun (l, r) => ({ l := l }, r))

def parseQLeaves : Nat → List String → Option (List LeafE × List String)
  | 0, r => some ([], r)
  | k+1, idx :: toks => match parseELeaf toks with
    | some (l, r) => (parseQLeaves k r).map (fun (ls, r') => ({ l with l := { l.l with idx := idx.toInt?.getD 0 } } :: ls, r'))
    | none => none
  | _, _ => none

def afterBar (toks : List String) : List String := (toks.dropWhile (· ≠ "|")).drop 1
def beforeBar (toks : List String) : List String := toks.takeWhile (· ≠ "|")

def leafEvents (l : Leaf) : List Ev := l.les.map l.ev

def step (_ : Unit) (toks : List String) : Unit × String :=
  match toks with
  | "mix" :: rest =>
    match parseTree 1000 (beforeBar rest) with
    | some (it, []) => ((), " ".intercalate (runOps it (afterBar rest)))
    | _ => ((), "bad-tree")
  | "mixe" :: rest =>
    match parseETree 1000 (beforeBar rest) with
    | some (it, []) => ((), " ".intercalate (runOpsE it (afterBar rest)))
    | _ => ((), "bad-tree")
  | "cur" :: k :: rest =>
    match parseLeaves (k.toNat?.getD 0) (beforeBar rest) with
    | some (ls, []) =>
      (match build ls with
       | some it => ((), " ".intercalate (runOps it (afterBar rest)))
       | none => ((), "nosources"))
    | _ => ((), "bad-leaves")
  | "curs" :: k :: rest =>
    match parseKeyed (k.toNat?.getD 0) (beforeBar rest) with
    | some (ls, []) =>
      (match buildFromMap Logrange.Generated.C04.newCursorSortsSources ls with
       | some it => ((), " ".intercalate (runOps it (afterBar rest)))
       | none => ((), "nosources"))
    | _ => ((), "bad-leaves")
  | "qry" :: offs :: lim :: k :: rest =>
    match parseQLeaves (k.toNat?.getD 0) rest with
    | some (ls, []) =>
      (match build ls with
       | some it =>
         let total := (ls.map (fun l => l.l.les.length)).foldl (· + ·) 0
         (match it.queryE (2 * total + 4) (decide (ls.length > 1)) (offs.toInt?.getD 0) (lim.toNat?.getD 0) with
          | none => ((), "fail")
          | some es => ((), "page " ++ (if es.isEmpty then "-" else ",".intercalate (es.map showEv))))
       | none => ((), "nosources"))
    | _ => ((), "bad-leaves")
  | "spec.merge" :: bk :: rest =>
    match parseLeaf (beforeBar rest), parseLeaf (afterBar rest) with
    | some (a, []), some (b, []) =>
      let es := mergeSpec (bk == "1") (leafEvents a) (leafEvents b)
      ((), if es.isEmpty then "-" else ",".intercalate (es.map showEv))
    | _, _ => ((), "bad-leaves")
  | ["gj", lim, n] =>
    let k := n.toNat?.getD 0
    let parts := (List.range k).map (fun i => (⟨i, i⟩ : Part))
    let (rd, r) := getJournals (lim.toNat?.getD 0) parts (fun _ => 0)
    let held := ((List.range k).map rd).foldl (· + ·) 0
    ((), (match r with | some res => s!"ok {res.length}" | none => "err") ++ s!" held={held}")
  | ["limit"] => ((), s!"{Logrange.Generated.C04.mergeLimit}")
  | _ => ((), "bad-op")

def main (args : List String) : IO Unit := Driver.run step () args
