import Driver.Common
/-! Model driver for C04 — not built yet. -/
def main (_args : List String) : IO Unit := pure ()
