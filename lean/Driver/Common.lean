import Logrange.Go.Basic
/-!
Line protocol shared by the per-property model drivers: one request per line on stdin, one answer line on
stdout. Fields are separated by single blanks; byte strings travel hex-encoded (`-` = empty).
With the argument `-i` the driver flushes after every answer (request/response use); otherwise it runs in
batch mode (stdout block-buffered, flushed at the end).
-/
namespace Driver

def tokens (l : String) : List String :=
  (l.trimAscii.toString.splitOn " ").filter (· ≠ "")

def optInt (s : String) : Option (Option Int) :=
  if s == "none" then some none else (s.toInt?).map some

partial def loop {σ : Type} (step : σ → List String → σ × String) (s : σ) (inp out : IO.FS.Stream) (flush : Bool) : IO Unit := do
  let line ← inp.getLine
  if line.isEmpty then return ()
  let (s', ans) := step s (tokens line)
  out.putStrLn ans
  if flush then out.flush
  loop step s' inp out flush

def run {σ : Type} (step : σ → List String → σ × String) (init : σ) (args : List String) : IO Unit := do
  let inp ← IO.getStdin
  let out ← IO.getStdout
  loop step init inp out (args.contains "-i")
  out.flush

def hexList (l : List Bytes) : String := " ".intercalate (l.map Go.hex)

end Driver
