import Driver.Common
import Logrange.Model.Where
import Logrange.Model.FIter
import Logrange.Model.PathMatchGreedy
/-! Model driver for C05 (WHERE evaluation). Requests (byte strings hex, `-` = empty):

* `case U|L <in> <out>`       — one entry of Go's strings.ToUpper / ToLower for a non-ASCII string → `ok`
* `tslit <value> <int|err>`   — what the real time-literal parser answers for a condition value → `ok`
* `reset`                     — forget tables, expression, iterator
* `expr <ast…>` / `noexpr`    — set the current WHERE expression (noexpr = nil expression);
                                 answer `build=<ok|err:kind> supported=<0|1> wf=<0|1>`
    ast:  Expr  = `E <n> And*n`     And = `A <n> X*n`
          X     = `C <not01> Ident <op> <value>` | `S <not01> Expr`
          Ident = `I <operand> <n> Ident*n`
* `specexpr <ast…>`           — set the expression the SPEC answers are computed from (default: the current one)
* `ev <ts> <msg> <fields>`    — evaluate on one event: `model=<0|1|err> spec=<0|1|rej> fwf=<0|1>`
* `match <pattern> <name>`    — path.Match model: `1|0|bad`
* `specmatch <pattern> <name>` — SPEC of the pattern language (PathSpec.specMatch): `1|0|bad`, and for a well-formed pattern
                                 ` g=<leftmost-commit reading 0|1> safe=<starSafe> safeA=<starSafeAscii> plain=<plainStars>`
* `value <fields> <name>`     — Fields.Value model: `ok <hex>|panic` then ` spec=<hex|malformed>`
* `fit.new <min> <max> <n> (<ts> <msg> <fields>)*n` — a fiterator over a list iterator, filter = current expression;
  `<min>`/`<max>` = `dflt`: the code's default range without a RANGE clause (regenerated `Generated.C05.fiterDefaultRange*`)
  (`fit.newjump`: the list iterator moves one step on a direction switch)
* `fit.get` `fit.next` `fit.back <0|1>` `fit.drain` — operations; get → `ok <index>` | `eof`; drain → indices
* `spec.filter <min> <max> <n> (<ts> <msg> <fields>)*n` — SPEC: indices of the events for which evalRef holds and
                                 the timestamp is in range
-/
open Go Logrange.Where Logrange.FIter Driver

abbrev IEv := Nat × Event

structure St where
  ups : List (Bytes × Bytes) := []
  los : List (Bytes × Bytes) := []
  tss : List (Bytes × Option Int) := []
  expr : Option Expr := none
  specExpr : Option (Option Expr) := none
  built : Except BuildErr Pred := .ok positive
  fit : FIt (ListPos IEv) IEv := ⟨⟨[], 0, false, false⟩, none, false⟩
  fitMin : Int := 0
  fitMax : Int := 0

def St.env (s : St) : Env := tableEnv s.ups s.los s.tss
/-- SPEC environment: numeric time literals mean their exact integer value (not what the real parser answered) -/
def St.senv (s : St) : Env := exactEnv s.env

/-! ### AST parser over tokens (fuel = number of tokens) -/

mutual
partial def pIdent : List String → Option (Ident × List String)
  | "I" :: o :: n :: rest => do
    let (ps, rest') ← pIdList n.toNat! rest
    pure (.mk (unhex o) ps, rest')
  | _ => none
partial def pIdList : Nat → List String → Option (IdList × List String)
  | 0, r => some (.nil, r)
  | k+1, r => do
    let (i, r1) ← pIdent r
    let (t, r2) ← pIdList k r1
    pure (.cons i t, r2)
end

mutual
partial def pExpr : List String → Option (Expr × List String)
  | "E" :: n :: rest => pOrs n.toNat! rest
  | _ => none
partial def pOrs : Nat → List String → Option (Expr × List String)
  | 0, r => some (.nil, r)
  | k+1, r => do
    let (a, r1) ← pAnd r
    let (t, r2) ← pOrs k r1
    pure (.cons a t, r2)
partial def pAnd : List String → Option (AndL × List String)
  | "A" :: n :: rest => pXs n.toNat! rest
  | _ => none
partial def pXs : Nat → List String → Option (AndL × List String)
  | 0, r => some (.nil, r)
  | k+1, r => do
    let (x, r1) ← pX r
    let (t, r2) ← pXs k r1
    pure (.cons x t, r2)
partial def pX : List String → Option (XCond × List String)
  | "C" :: n :: rest => do
    let (id, r1) ← pIdent rest
    match r1 with
    | op :: v :: r2 => pure (.cond (n == "1") ⟨id, unhex op, unhex v⟩, r2)
    | _ => none
  | "S" :: n :: rest => do
    let (e, r1) ← pExpr rest
    pure (.sub (n == "1") e, r1)
  | _ => none
end

def errName : BuildErr → String
  | .operand => "operand" | .tsFunc => "tsfunc" | .tsLiteral => "tsliteral" | .tsOp => "tsop"
  | .fnArity => "fnarity" | .fnName => "fnname" | .msgOp => "msgop" | .fldOp => "fldop" | .likePattern => "like"

def b01 (b : Bool) : String := if b then "1" else "0"

def parseEvents : Nat → Nat → List String → List IEv
  | 0, _, _ => []
  | k+1, i, ts :: m :: f :: rest => (i, ⟨ts.toInt!, unhex m, unhex f⟩) :: parseEvents k (i+1) rest
  | _, _, _ => []

def fltOf (s : St) : IEv → Bool := fun p => match s.built with | .ok f => f p.2 | .error _ => false
def rangeArg (a : String) (dflt : Int) : Int := if a == "dflt" then dflt else a.toInt!

def rngOf (s : St) : IEv → Bool := fun p => inRange s.fitMin s.fitMax p.2.ts

def specSupported (s : St) (e : Option Expr) : Bool := match e with | none => true | some x => supported s.senv x

def step (s : St) (toks : List String) : St × String :=
  match toks with
  | ["reset"] => ({}, "ok")
  | ["case", "U", i, o] => ({ s with ups := (unhex i, unhex o) :: s.ups }, "ok")
  | ["case", "L", i, o] => ({ s with los := (unhex i, unhex o) :: s.los }, "ok")
  | ["tslit", v, r] => ({ s with tss := (unhex v, r.toInt?) :: s.tss }, "ok")
  | ["noexpr"] =>
    let s' := { s with expr := none, specExpr := none, built := buildWhere s.env none }
    (s', "build=ok supported=1 wf=1")
  | "expr" :: rest =>
    match pExpr rest with
    | some (e, []) =>
      let b := buildWhere s.env (some e)
      let s' := { s with expr := some e, specExpr := none, built := b }
      (s', s!"build={match b with | .ok _ => "ok" | .error k => "err:" ++ errName k} supported={b01 (supported s.env e)} wf={b01 (wellFormed e)}")
    | _ => (s, "bad-ast")
  | "specexpr" :: rest =>
    match pExpr rest with
    | some (e, []) => ({ s with specExpr := some (some e) }, s!"supported={b01 (supported s.senv e)} wf={b01 (wellFormed e)}")
    | _ => (s, "bad-ast")
  | ["ev", ts, m, f] =>
    let ev : Event := ⟨ts.toInt!, unhex m, unhex f⟩
    let model := match s.built with | .ok p => b01 (p ev) | .error _ => "err"
    let se := s.specExpr.getD s.expr
    let spec := if specSupported s se then b01 (evalWhereRef s.senv se ev) else "rej"
    (s, s!"model={model} spec={spec} fwf={b01 (decide (Logrange.Fields.WF ev.fields))}")
  | ["match", p, n] =>
    (s, match Logrange.PathMatch.pathMatch (unhex p) (unhex n) with | none => "bad" | some true => "1" | some false => "0")
  | ["specmatch", p, n] =>
    (s, match Logrange.PathSpec.items? (unhex p) with
        | none => "bad"
        | some its =>
          s!"{b01 (Logrange.PathSpec.matchItems its (unhex n))} g={b01 (Logrange.PathSpec.greedyMatch its (unhex n))} safe={b01 (Logrange.PathSpec.starSafe its)} safeA={b01 (Logrange.PathSpec.starSafeAscii its)} plain={b01 (Logrange.PathSpec.plainStars (unhex p) its)}")
  | ["value", f, n] =>
    let m := match Logrange.Fields.valueP (unhex f) (unhex n) with | some v => "ok " ++ hex v | none => "panic"
    let sp := match Logrange.Fields.pairs? (unhex f) with
      | some ps => hex ((Logrange.Fields.firstValue ps (unhex n)).getD [])
      | none => "malformed"
    (s, s!"{m} spec={sp}")
  | "fit.new" :: mn :: mx :: n :: rest =>
    let evs := parseEvents n.toNat! 0 rest
    ({ s with fit := new ⟨evs, 0, false, false⟩, fitMin := rangeArg mn Logrange.Generated.C05.fiterDefaultRangeMin, fitMax := rangeArg mx Logrange.Generated.C05.fiterDefaultRangeMax }, "ok")
  | "fit.newjump" :: mn :: mx :: n :: rest =>
    let evs := parseEvents n.toNat! 0 rest
    ({ s with fit := new ⟨evs, 0, false, true⟩, fitMin := rangeArg mn Logrange.Generated.C05.fiterDefaultRangeMin, fitMax := rangeArg mx Logrange.Generated.C05.fiterDefaultRangeMax }, "ok")
  | ["fit.get"] =>
    let (f', r) := get (listIt IEv) (fltOf s) (rngOf s) (s.fit.it.items.length + 2) s.fit
    ({ s with fit := f' }, match r with | .ok e => s!"ok {e.1}" | .eof => "eof" | .outOfFuel => "fuel")
  | ["fit.next"] => ({ s with fit := next (listIt IEv) s.fit }, "ok")
  | ["fit.back", b] => ({ s with fit := setBackward (listIt IEv) (b == "1") s.fit }, "ok")
  | ["fit.drain"] =>
    let n := s.fit.it.items.length + 2
    let out := drain (listIt IEv) (fltOf s) (rngOf s) n n s.fit
    (s, "ok" ++ String.join (out.map (fun e => s!" {e.1}")))
  | "spec.filter" :: mn :: mx :: n :: rest =>
    let evs := parseEvents n.toNat! 0 rest
    let se := s.specExpr.getD s.expr
    if !specSupported s se then (s, "rej") else
    let out := evs.filter (fun p => evalWhereRef s.senv se p.2 && inRange mn.toInt! mx.toInt! p.2.ts)
    (s, "ok" ++ String.join (out.map (fun e => s!" {e.1}")))
  | _ => (s, "bad-op")

def main (args : List String) : IO Unit := Driver.run step ({} : St) args
