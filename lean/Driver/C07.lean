import Driver.Common
import Logrange.Model.PersistJson
import Logrange.Model.PersistReach
/-! Model driver for C07 (stored state survives restart / crash-shaped disks). Stateful; batch or `-i`.

Byte strings are hex (`-` = empty). Requests (server must be "up" for the operations of a running server):

* `reset`                                  empty base directory, nothing running
* `start`                                  `recover` on the current disk →
                                           `ok parts=<tagline,…|.> pipes=<name,…|.> cls=…` or `refuse:tindex cls=…` / `refuse:pipes cls=…`
                                           `cls=collision:<0|1>,defslost:<0|1>,cut:<0|1>` are the class predicates of F33 / F07 / F05
                                           evaluated on the memory of the server that ran before and on the disk
* `part <tags> <src>` · `write <src> <cid>:<ts>,<ts>… …` · `dropchunks <src> <n>` · `droppart <src>`
* `mkpipe <name> <tags> <flt>` · `rmpipe <name>` · `pipesave <name> <src>:<cid>:<idx> …`
* `stop`                                   graceful shutdown (files written), `crash` — the process is gone, disk as it is
* `cutpart <tags> <src> <k> <len>`         crash inside the tag-index save of creating that partition: first `k` steps, `len` ∈ 0|1|h|m|f
* `cutstop <k> <len>` · `cutpipesave <name> <k> <len> <src>:<cid>:<idx> …`   likewise for the shutdown saves / one position save
* `fsave <slot> <path>` · `frestore <slot> <path>` · `frm <path>` · `ftorn <path> <len>`   file surgery on an image;
                                           paths: `tindex.dat`, `tindex.bak`, `cindex.dat`, `pipes.dat`, `pipeinfo:<name>`
* `range <src> <lo> <hi>`                  → `vis=<ts,…|.> spec=<ts,…|.> stale=<0|1>`
* `parts` · `pipes` (→ `name|tags|flt,…`) · `ppos <name>` (→ `src:cid:idx,…` sorted) · `fname <name>` (→ hex of `pipeFileName`)
* `steps.stop`                             → the step list of a graceful shutdown's saves · `savepipes` — run `savePipes` once more
* `steps.part <tags> <src>`                → the step list of that save, e.g. `rename:tindex.dat:tindex.bak truncate:tindex.dat append:tindex.dat`
* `steps.mkpipe <n> <t> <f>` · `cutmkpipe <n> <t> <f> <k> <len>` · `steps.rmpipe <n>` · `cutrmpipe <n> <k> <len>`
                                           step list of / crash inside the metadata update of CREATE / DELETE PIPE (`opSteps`)
* `enabled.part <tags>` · `enabled.mkpipe <n> <t> <f>`   → `1`/`0`: the guard (`enabled`) of creating that partition / pipe now
* `inv`                                    → `1` when the running server's memory is consistent with its disk (`invB`, the
                                           decidable form of the proved invariant `Persist.Inv`), `0` otherwise, `down`
* `sanitize <hex>`                         → hex of `sanitize` (a Go string after `json.Marshal` + `json.Unmarshal`)
-/
open Go Driver Logrange.Persist

structure DS where
  srv : Srv
  pre : Mem
  up : Bool
  cutIn : Bool
  loaded : CMap     -- the time index as loaded at the last start (class of F06)
  everColl : Bool   -- a pipe whose position file is the registry file exists or existed in this history (F33's class)
  slots : List (String × Option Bytes)

/-- a concrete codec that satisfies the contract (`stdCodecs_laws`) behind `encoding/json`'s treatment of strings -/
def K : Codecs := jsonish stdCodecs
def emptyMem : Mem := ⟨[], [], []⟩
def DS.init : DS := ⟨⟨emptyMem, Disk.fresh⟩, emptyMem, false, false, [], false, []⟩

def insSorted (x : Bytes) : List Bytes → List Bytes
  | [] => [x]
  | y :: ys => if bytesLe x y then x :: y :: ys else y :: insSorted x ys
def sortB (l : List Bytes) : List Bytes := l.foldr insSorted []

def commaList (l : List String) : String := if l.isEmpty then "." else ",".intercalate l
def hexSorted (l : List Bytes) : String := commaList ((sortB l).map hex)
def intList (l : List Int) : String := commaList (l.map toString)
def b2s (b : Bool) : String := if b then "1" else "0"

def splitC (c : Char) (s : String) : List String := s.splitOn (String.singleton c)

def parsePieces (toks : List String) : List (Nat × List Int) :=
  toks.filterMap fun t =>
    match splitC ':' t with
    | [c, tss] => some (c.toNat!, (splitC ',' tss).filterMap (·.toInt?))
    | _ => none

def parsePosMap' (toks : List String) : PosMap :=
  toks.filterMap fun t =>
    match splitC ':' t with
    | [s, c, i] => some (unhex s, ⟨c.toNat!, i.toNat!⟩)
    | _ => none

def pathOf (s : String) : Option Path :=
  if s == "tindex.dat" then some .tindexDat
  else if s == "tindex.bak" then some .tindexBak
  else if s == "cindex.dat" then some .cindexDat
  else if s == "pipes.dat" then some pipesDat
  else match splitC ':' s with
    | ["pipeinfo", n] => some (pipeInfoPath (unhex n))
    | _ => none

def lenOf (cls : String) (n : Nat) : Nat :=
  if cls == "0" then 0 else if cls == "1" then min 1 n else if cls == "h" then n / 2
  else if cls == "m" then n - 1 else n

/-- the cut (k, class) on a step list: the class is resolved against the bytes of step k when it is an append -/
def mkCut (steps : List Step) (k : Nat) (cls : String) : Cut :=
  match steps[k]? with
  | some (.append _ bs) => ⟨k, lenOf cls bs.length⟩
  | _ => ⟨k, 0⟩

def pathName : Path → String
  | .tindexDat => "tindex.dat" | .tindexBak => "tindex.bak" | .tindexTmp => "tindex.dat.tmp" | .cindexDat => "cindex.dat"
  | .pipesDir f => "pipes/" ++ hex f

def stepName : Step → String
  | .rename a b => s!"rename:{pathName a}:{pathName b}"
  | .truncate p => s!"truncate:{pathName p}"
  | .append p _ => s!"append:{pathName p}"
  | .remove p => s!"remove:{pathName p}"
  | .link a b => s!"link:{pathName a}:{pathName b}"

/-- class of F-C07-901/902: a tag line or a pipe's name / conditions held by the server that ran before is not valid UTF-8 -/
def utf8Cls (m : Mem) : Bool :=
  m.tmap.any (fun e => changedByJson e.1) ||
    m.pipes.any (fun p => changedByJson p.cfg.name || changedByJson p.cfg.tags || changedByJson p.cfg.flt)

def clsOf (d : DS) : String :=
  s!"cls=collision:{b2s (nameCollision d.pre.pipes || d.everColl)},defslost:{b2s (pipeDefsNotOnDisk K d.pre d.srv.disk.files)},cut:{b2s d.cutIn},utf8:{b2s (utf8Cls d.pre)}"

def withFiles (d : DS) (f : Files) : DS := { d with srv := { d.srv with disk := { d.srv.disk with files := f } } }

def crashed (d : DS) (f : Files) (cutIn : Bool) : DS :=
  { withFiles d f with pre := d.srv.mem, up := false, cutIn := cutIn }

def dstep (d : DS) (toks : List String) : DS × String :=
  let s := d.srv
  let op (o : Op) : DS × String := if d.up then ({ d with srv := step K s o }, "ok") else (d, "down")
  match toks with
  | ["reset"] => (DS.init, "ok")
  | ["start"] =>
    if d.up then (d, "already-up") else
    match recover K (fun _ => true) s.disk with
    | .refusedTIndex => (d, s!"refuse:tindex {clsOf d}")
    | .refusedPipes => (d, s!"refuse:pipes {clsOf d}")
    | .started s' =>
      ({ d with srv := s', up := true, cutIn := false, loaded := s'.mem.cidx },
       s!"ok parts={hexSorted (s'.mem.tmap.map (·.1))} pipes={hexSorted (s'.mem.pipes.map (·.cfg.name))} {clsOf d}")
  | ["part", tg, src] => op (.newPartition (unhex tg) (unhex src))
  | "write" :: src :: pieces => op (.write (unhex src) (parsePieces pieces))
  | ["dropchunks", src, n] => op (.dropChunks (unhex src) n.toNat!)
  | ["droppart", src] => op (.dropPartition (unhex src))
  | ["mkpipe", n, t, f] =>
    let (d', a) := op (.createPipe ⟨unhex n, unhex t, unhex f⟩)
    ({ d' with everColl := d'.everColl || decide (pipeInfoPath (unhex n) = pipesDat) }, a)
  | ["savepipes"] =>
    -- `savePipes` once more (the harness saw the registry file written after the removal of a colliding position file)
    if d.up then (withFiles d (runSteps s.disk.files (savePipesSteps K.pipes (s.mem.pipes.map (·.cfg)))), "ok") else (d, "down")
  | ["steps.stop"] => (d, " ".intercalate ((shutdownSteps K s.mem).map stepName))
  | ["rmpipe", n] => op (.deletePipe (unhex n))
  | "pipesave" :: n :: pm => op (.savePipeInfo (unhex n) (parsePosMap' pm))
  | ["stop"] =>
    if !d.up then (d, "down") else
    ({ d with srv := shutdown K s, pre := s.mem, up := false, cutIn := false }, "ok")
  | ["crash"] => if !d.up then (d, "down") else (crashed d s.disk.files false, "ok")
  | ["cutpart", tg, src, k, cls] =>
    if !d.up then (d, "down") else
    let m := s.mem.tmap ++ [(unhex tg, unhex src)]
    let steps := tindexSaveSteps K.tidx s.disk.files m
    let c := mkCut steps k.toNat! cls
    (crashed d (diskAt s.disk.files steps c) (cutInsideSave steps c), "ok")
  | ["steps.part", tg, src] =>
    let m := s.mem.tmap ++ [(unhex tg, unhex src)]
    (d, " ".intercalate ((tindexSaveSteps K.tidx s.disk.files m).map stepName))
  | ["steps.mkpipe", n, t, f] => (d, " ".intercalate ((opSteps K s (.createPipe ⟨unhex n, unhex t, unhex f⟩)).map stepName))
  | ["steps.rmpipe", n] => (d, " ".intercalate ((opSteps K s (.deletePipe (unhex n))).map stepName))
  | ["cutmkpipe", n, t, f, k, cls] =>
    if !d.up then (d, "down") else
    let steps := opSteps K s (.createPipe ⟨unhex n, unhex t, unhex f⟩)
    (crashed d (diskAt s.disk.files steps (mkCut steps k.toNat! cls)) false, "ok")
  | ["cutrmpipe", n, k, cls] =>
    if !d.up then (d, "down") else
    let steps := opSteps K s (.deletePipe (unhex n))
    (crashed d (diskAt s.disk.files steps (mkCut steps k.toNat! cls)) false, "ok")
  | ["enabled.part", tg] => (d, b2s (enabled (fun _ => true) s (.newPartition (unhex tg) [])))
  | ["enabled.mkpipe", n, t, f] => (d, b2s (enabled (fun _ => true) s (.createPipe ⟨unhex n, unhex t, unhex f⟩)))
  | ["inv"] => if d.up then (d, b2s (invB K (fun _ => true) s)) else (d, "down")
  | ["sanitize", x] => (d, hex (sanitize (unhex x)))
  | ["cutstop", k, cls] =>
    if !d.up then (d, "down") else
    let steps := shutdownSteps K s.mem
    let c := mkCut steps k.toNat! cls
    (crashed d (diskAt s.disk.files steps c) false, "ok")
  | "cutpipesave" :: n :: k :: cls :: pm =>
    if !d.up then (d, "down") else
    let steps := savePipeInfoSteps K.pinfo (unhex n) (parsePosMap' pm)
    let c := mkCut steps k.toNat! cls
    (crashed d (diskAt s.disk.files steps c) false, "ok")
  | ["fsave", slot, p] =>
    match pathOf p with
    | some q => ({ d with slots := (slot, s.disk.files q) :: d.slots }, "ok")
    | none => (d, "bad-path")
  | ["frestore", slot, p] =>
    match pathOf p, d.slots.find? (·.1 == slot) with
    | some q, some (_, v) => (withFiles d (s.disk.files.set q v), "ok")
    | _, _ => (d, "bad-path-or-slot")
  | ["frm", p] =>
    match pathOf p with
    | some q => (withFiles d (s.disk.files.set q none), "ok")
    | none => (d, "bad-path")
  | ["ftorn", p, cls] =>
    match pathOf p with
    | some q =>
      (match s.disk.files q with
       | some bs => (withFiles d (s.disk.files.set q (some (bs.take (lenOf cls bs.length)))), "ok")
       | none => (d, "missing"))
    | none => (d, "bad-path")
  | ["range", src, lo, hi] =>
    match lo.toInt?, hi.toInt? with
    | some l, some h =>
      let cks := (alookup s.disk.db (unhex src)).getD []
      let hs := hullView s.mem.cidx (unhex src) cks
      (d, s!"vis={intList (rangeVisible hs cks l h)} spec={intList (rangeSpec cks l h)} stale={b2s (staleSnapshotFor d.loaded s (unhex src))}")
    | _, _ => (d, "bad-op")
  | ["parts"] => (d, hexSorted (s.mem.tmap.map (·.1)))
  | ["pipes"] =>
    let names := sortB (s.mem.pipes.map (·.cfg.name))
    (d, commaList (names.filterMap fun n =>
      (s.mem.pipes.find? (·.cfg.name == n)).map fun p => s!"{hex p.cfg.name}|{hex p.cfg.tags}|{hex p.cfg.flt}"))
  | ["ppos", n] =>
    match s.mem.pipes.find? (·.cfg.name == unhex n) with
    | none => (d, "nopipe")
    | some p =>
      let srcs := sortB (p.poss.map (·.1))
      (d, commaList (srcs.filterMap fun src => (alookup p.poss src).map fun q => s!"{hex src}:{q.cid}:{q.idx}"))
  | ["fname", n] => (d, hex (pipeFileName (unhex n)))
  | _ => (d, "bad-op")

def main (args : List String) : IO Unit := Driver.run dstep DS.init args
