import Driver.Common
import Logrange.Model.Wire
import Logrange.Model.WireFields
import Logrange.Model.EscapeJson
import Logrange.Model.PosStr
import Logrange.Model.Nesting
import Logrange.Model.Format
import Logrange.Model.ShowPartitions
import Logrange.Generated.C13
import Logrange.Model.LqlSites
import Logrange.Generated.C13Sites
/-! Model driver for C13 (decoders, escaper, positions, field lists). Byte strings are hex (`-` = empty). Requests:

* `uvarint <buf>` · `bytes <buf>` · `ev.unmarshal <buf>` · `le.unmarshal <buf>` · `qreq <buf>` · `qres <buf>`
    → `ok <n> <values…>` | `err` | `panic f13=<0|1>` (`f13` = the class predicate `lensSafe buf = false`)
* `wptexts <buf>` → the field texts (KV strings) the Write decoding would hand to `NewFieldsFromKVString`
* `wpdecode <buf> <text>:<fields|!>…` → `ok <tags> <k> <ts>/<msg>/<fields>…` | `err` | `panic f13=…`; the table is the
  answer of the real `field.NewFieldsFromKVString` for each text (`!` = error)
* `ev.marshal <ts> <msg> <fields>` · `le.write <ts> <msg> <tags> <fields>` · `qreq.write <id> <q> <pos> <wt> <off> <lim>` ·
  `wpencode <tags> <flds> (<ts> <msg> <tags> <fields>)*` → encoded bytes
* `escjson <s>` → `ok <out>` | `fuel` | `panic`
* `pos <s>` → `ok <cid> <idx>` | `err` | `panic`;  `statepos <s>` → `ok <jrnl>=<cid>.<idx>…` | `err` | `panic`
* `f.value <fields> <name>` · `f.items <fields>` · `f.check <fields>` · `f.build (<part> <trimmed> <unquoted|!|=>)*`
* `nest <budget> <text>` → `ok <depth>` | `err` (refused by the nesting guard, when /repo has one) | `panic` (stack budget exhausted)
* `showparts <n> <offset|none> <limit|none>` → `ok <k>` (partitions on the page) | `err` | `panic f55=<0|1>`: `SHOW PARTITIONS` paging over n partitions
* `nest.hole <text>` → `1` | `0`: the class of F25b (the byte-scan guard lets the text pass, its token nesting exceeds the limit)
* `fmt.parse <fstr>` → `ok <field>…` (`ts:<layout>` `msg:<arg>` `var:<name>` `vars` `const:<text>`) | `err` | `panic`; `strings.ToLower`
  is ASCII lower-casing here (the harness only compares format strings on which the two agree)
* `reldt <s>` → `ok <text handed to ParseFloat>` | `err` | `panic`: the indexing of `lql.parseRalativeDateTime` (first byte and accepted
  last bytes regenerated)
-/
open Go Logrange Logrange.Wire Driver

def cls (buf : Bytes) : String := if lensSafe buf then "panic f13=0" else "panic f13=1"

def showOut {α : Type} (buf : Bytes) (f : α → String) : Outcome α → String
  | .ok a => "ok " ++ f a
  | .err => "err"
  | .panic _ => cls buf
  | .outOfFuel => "fuel"

def showApiEv (e : ApiEvent) : String := s!"{e.ts}/{hex e.msg}/{hex e.tags}/{hex e.fields}"
def showEv (e : Event) : String := s!"{e.ts}/{hex e.msg}/{hex e.fields}"
def showReq (q : QueryRequest) : String := s!"{q.reqId} {hex q.query} {hex q.pos} {q.waitTimeout} {q.offset} {q.limit}"

/-- driver-only helper: the KV texts a Write body contains (decoding as far as it goes, every text accepted) -/
def evTexts : Nat → Bytes → List Bytes
  | 0, _ => []
  | f + 1, b =>
    match unmarshalLogEvent b with
    | .ok (n, le) => le.fields :: evTexts f (b.drop n)
    | _ => []

def wpTexts (buf : Bytes) : List Bytes :=
  match unmarshalString buf with
  | .ok (n1, _) =>
    match unmarshalString (buf.drop n1) with
    | .ok (n2, flds) =>
      match unmarshalUint32 (buf.drop (n1 + n2)) with
      | .ok (n3, ln) => flds :: evTexts (min ln buf.length) (buf.drop (n1 + n2 + n3))
      | _ => [flds]
    | _ => []
  | _ => []

def parseTable (toks : List String) : List (Bytes × Option Bytes) :=
  toks.filterMap fun t =>
    match t.splitOn ":" with
    | [k, v] => some (unhex k, if v == "!" then none else some (unhex v))
    | _ => none

def lookup (tbl : List (Bytes × Option Bytes)) (k : Bytes) : Option Bytes :=
  match tbl.find? (fun e => e.1 == k) with
  | some e => e.2
  | none => none

def evList : List String → List ApiEvent
  | ts :: m :: t :: f :: r => ⟨ts.toNat!, unhex m, unhex t, unhex f⟩ :: evList r
  | _ => []

def buildParts : List String → List (Bytes × Bytes × String)
  | p :: t :: u :: r => (unhex p, unhex t, u) :: buildParts r
  | _ => []

def dedupe (l : List Bytes) : List Bytes := l.foldl (fun acc x => if acc.contains x then acc else acc ++ [x]) []

def step (_ : Unit) (toks : List String) : Unit × String :=
  ((), match toks with
  | ["uvarint", b] => let buf := unhex b; showOut buf (fun (p : Nat × Nat) => s!"{p.1} {p.2}") (unmarshalUint buf)
  | ["bytes", b] => let buf := unhex b; showOut buf (fun (p : Nat × Bytes) => s!"{p.1} {hex p.2}") (unmarshalBytes buf)
  | ["ev.unmarshal", b] => let buf := unhex b; showOut buf (fun (p : Nat × Event) => s!"{p.1} {showEv p.2}") (Event.unmarshal buf)
  | ["le.unmarshal", b] => let buf := unhex b; showOut buf (fun (p : Nat × ApiEvent) => s!"{p.1} {showApiEv p.2}") (unmarshalLogEvent buf)
  | ["qreq", b] => let buf := unhex b; showOut buf (fun (p : Nat × QueryRequest) => s!"{p.1} {showReq p.2}") (unmarshalQueryRequest buf)
  | ["qres", b] =>
    let buf := unhex b
    showOut buf (fun (p : Nat × (List ApiEvent × QueryRequest)) =>
      s!"{p.1} {p.2.1.length} {" ".intercalate (p.2.1.map showApiEv)} | {showReq p.2.2}") (unmarshalQueryResult buf)
  | ["wptexts", b] => hexList (dedupe (wpTexts (unhex b)))
  | "wpdecode" :: b :: tbl =>
    let buf := unhex b
    let kv := lookup (parseTable tbl)
    (match wpInit kv buf with
     | .ok it =>
       (match wpDrain kv (wpFuel it) it [] with
        | .ok evs => s!"ok {hex it.tags} {evs.length} {" ".intercalate (evs.map showEv)}".trimAscii.toString
        | .err => "err"
        | .panic _ => cls buf
        | .outOfFuel => "fuel")
     | .err => "err"
     | .panic _ => cls buf
     | .outOfFuel => "fuel")
  | ["ev.marshal", ts, m, f] => hex (Event.marshal ⟨ts.toNat!, unhex m, unhex f⟩)
  | ["le.write", ts, m, t, f] => hex (writeLogEvent ⟨ts.toNat!, unhex m, unhex t, unhex f⟩)
  | ["qreq.write", id, q, p, wt, off, lim] =>
    hex (writeQueryRequest ⟨id.toNat!, unhex q, unhex p, wt.toNat!, off.toInt!, lim.toNat!⟩)
  | "wpencode" :: t :: f :: evs => hex (wpEncode (unhex t) (unhex f) (evList evs))
  | ["escjson", s] =>
    (match EscapeJson.escapeJson Logrange.Generated.C13.escapeJsonSkipsValidRunes (unhex s) with
     | .ok o => "ok " ++ hex o
     | .err => "err"
     | .panic _ => "panic"
     | .outOfFuel => "fuel")
  | ["pos", s] =>
    (match PosStr.parsePos (unhex s) with
     | .ok (c, i) => s!"ok {c} {i}"
     | .err => "err"
     | .panic _ => "panic"
     | .outOfFuel => "fuel")
  | ["statepos", s] =>
    (match PosStr.applyStatePos (unhex s) with
     | .ok m => ("ok " ++ " ".intercalate (m.map fun e => s!"{hex e.1}={e.2.1}.{e.2.2}")).trimAscii.toString
     | .err => "err"
     | .panic _ => "panic"
     | .outOfFuel => "fuel")
  | ["f.value", f, n] =>
    (match WireFields.value (unhex f) (unhex n) with
     | .ok v => "ok " ++ hex v
     | .err => "err"
     | .panic _ => "panic"
     | .outOfFuel => "fuel")
  | ["f.items", f] =>
    (match WireFields.items (unhex f) with
     | .ok l => ("ok " ++ hexList l).trimAscii.toString
     | .err => "err"
     | .panic _ => "panic"
     | .outOfFuel => "fuel")
  | ["f.check", f] => if WireFields.check (unhex f) then "1" else "0"
  | "f.build" :: ps =>
    let parts := buildParts ps
    let trim : Bytes → Bytes := fun v => match parts.find? (fun e => e.1 == v) with | some e => e.2.1 | none => v
    let unq : Bytes → Option Bytes := fun v =>
      match parts.find? (fun e => e.2.1 == v) with
      | some e => if e.2.2 == "!" then none else if e.2.2 == "=" then some v else some (unhex e.2.2)
      | none => none
    (match WireFields.build trim unq (parts.map (·.1)) with
     | some f => "ok " ++ hex f
     | none => "err")
  | ["nest", budget, s] =>
    (match Nesting.parseNow budget.toNat! (unhex s) with
     | .ok d => s!"ok {d}"
     | .err => "err"
     | .panic _ => "panic"
     | .outOfFuel => "fuel")
  | ["showparts", n, o, l] =>
    (match Driver.optInt o, Driver.optInt l with
     | some off, some lim =>
       (match ShowPartitions.showPartitionsNow n.toNat! off lim with
        | .ok idx => s!"ok {idx.length}"
        | .err => "err"
        | .panic _ => if ShowPartitions.negativeArg off lim then "panic f55=1" else "panic f55=0"
        | .outOfFuel => "fuel")
     | _, _ => "bad-op")
  | ["nest.hole", s] => if Nesting.holeClass Logrange.Generated.C13.lqlMaxNesting (unhex s) then "1" else "0"
  | ["fmt.parse", f] =>
    let lower : Bytes → Bytes := fun b => b.map fun c => if 65 ≤ c.toNat ∧ c.toNat ≤ 90 then UInt8.ofNat (c.toNat + 32) else c
    (match Format.parse lower (unhex f) with
     | .ok fs => ("ok " ++ " ".intercalate (fs.map fun x => match x with
         | .ts l => "ts:" ++ hex l | .msg j => "msg:" ++ hex j | .var n => "var:" ++ hex n | .vars => "vars" | .const c => "const:" ++ hex c)).trimAscii.toString
     | .err => "err"
     | .panic _ => "panic"
     | .outOfFuel => "fuel")
  | ["reldt", s] =>
    (match LqlSites.relDateTime (UInt8.ofNat Logrange.Generated.C13Sites.relDateFirst)
        (Logrange.Generated.C13Sites.relDateDims.map UInt8.ofNat) (unhex s) with
     | .ok b => "ok " ++ hex b
     | .err => "err"
     | .panic _ => "panic"
     | .outOfFuel => "fuel")
  | _ => "bad-op")

def main (args : List String) : IO Unit := Driver.run step () args
