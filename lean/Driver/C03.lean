import Driver.RdProto
/-! Model driver for C03 (paged and resumed reading): protocol in `Driver/RdProto.lean`. -/
def main (args : List String) : IO Unit := Driver.run Driver.Rd.step ({} : Driver.Rd.DSt) args
