import Driver.Common
import Logrange.Proofs.LqlLex
/-! Model driver for C12 (LQL print / re-parse). Requests (byte strings hex, `-` = empty):

* `facts` → `ok layout=<hex> format=<0|1>`: how `DateTime.String()` renders an instant in /repo now (regenerated)
* `lits` → `ok (<struct> <n> <literal>*)*`: the literals of every struct's regenerated grammar, in order (the harness'
  generators spell keywords the way the struct tags do)
* `lex <text>` → `ok <n> (<type> <value>)*` | `err`                        (token stream after participle's unquote)
* `stmt <text> <k> (<lit> <ok 0|1> <unixnano> <rendered>)*`                 whole statement, root `Lql`
    → `ok <canonical AST> | <printed text> | <classes,comma separated or -> | <td>` | `err | <td>`
    `<td>`: the statement through the direct parser `directLql` (all statement kinds): `same:<wfLql><lexable>` (both on the normalised AST) |
    `diff:<what the direct parser returns>`
  the table is the opaque date parser/printer (C20's territory): literal text → parse result and `time.String()` of it
* `expr <text>` / `source <text>` → `E=<ok canon|err> D=<ok canon|err> P=<printed|-> C=<classes>`
    engine on the regenerated grammar (root `Expression` / `Source`) and the direct parser, printed text of the engine's AST
-/
open Go Logrange.Lql Driver

def ttName : TT → String
  | .keyword => "K" | .ident => "I" | .string => "S" | .operator => "O" | .number => "N" | .tags => "T"

structure DateRow where
  lit : Bytes
  ok : Bool
  val : Int
  rendered : Bytes

def parseRows : List String → List DateRow
  | l :: o :: v :: r :: rest => ⟨unhex l, o == "1", (v.toInt?).getD 0, unhex r⟩ :: parseRows rest
  | _ => []

def dpOf (rows : List DateRow) (lit : Bytes) : Option Int :=
  match rows.find? (fun r => r.lit == lit) with
  | some r => if r.ok then some r.val else none
  | none => none

def rdOf (rows : List DateRow) (v : Int) : Bytes :=
  match rows.find? (fun r => r.ok && r.val == v) with
  | some r => r.rendered
  | none => Go.ofAscii "?"

def g := Logrange.Generated.C12.grammar

/-- meaning-preserving normal form (as `Props.C12.normalize`): `Format = ""` ≡ nil, `Pipes.Void` unused -/
def normLql (l : Lql) : Lql :=
  { l with
    select := l.select.map (fun s => { s with format := match s.format with | some [] => none | x => x }),
    show_ := l.show_.map (fun s => { s with pipes := s.pipes.map (fun p => { p with void := none }) }) }

/-- the literals of a grammar node, in order of appearance -/
partial def litsOf : Node → List Bytes
  | .seq ns => ns.flatMap litsOf
  | .disj ns => ns.flatMap litsOf
  | .group n _ => litsOf n
  | .capture _ n => litsOf n
  | .ref _ => []
  | .lit s => [s]
  | .strct _ => []

def joinC (l : List String) : String := if l.isEmpty then "-" else ",".intercalate l

def step (_ : Unit) (toks : List String) : Unit × String :=
  match toks with
  | ["lex", t] =>
    (match lex (unhex t) with
     | none => ((), "err")
     | some ts => ((), s!"ok {ts.length}" ++ String.join (ts.map (fun tk => " " ++ ttName tk.t ++ " " ++ hex tk.v))))
  | "stmt" :: t :: _k :: rows =>
    let rows := parseRows rows
    (match lex (unhex t) with
     | none => ((), "err | na")
     | some ts =>
       let eng := (runEngine g "Lql" ts).bind (fun v => toLqlChecked (dpOf rows) (8 * ts.length + 50) v)
       -- TRUNCATE statements also go through the direct parser the theorems are about (+ its two decidable hypotheses)
       let td :=
         match eng, directLql (dpOf rows) ts with
         | none, none => "same"
         | some l, some d =>
           if canonLql l == canonLql d then
             -- the decidable hypotheses of C12_wf / print_parse_lql on the (normalised) AST: wfLql, Lexable
             let n := normLql d
             "same:" ++ (if wfLql (rdOf rows) n then "1" else "0")
               ++ (if lex (printLql (rdOf rows) d) == some (toksLql (rdOf rows) n) then "1" else "0")
           else "diff:" ++ canonLql d
         | some _, none => "diff:err"
         | none, some d => "diff:" ++ canonLql d
       match eng with
       | none => ((), s!"err | {td}")
       | some l => ((), s!"ok {canonLql l} | {hex (printLql (rdOf rows) l)} | {joinC (classes (rdOf rows) l)} | {td}"))
  | ["expr", t] =>
    (match lex (unhex t) with
     | none => ((), "E=err D=err P=- C=- W=---")
     | some ts =>
       let e := (runEngine g "Expression" ts).bind (fun v => toExpr (8 * ts.length + 50) v)
       let d := directExpr ts
       let sh := fun (x : Option Expr) => match x with | some a => "ok " ++ canonExpr a | none => "err"
       let w := match e with | some a => (if wfExpr a then "1" else "0") ++ (if lex (printExpr a) == some (toksExpr a) then "1" else "0") ++ (if laExpr a then "1" else "0") | none => "---"
       ((), s!"E={sh e} D={sh d} P={match e with | some a => hex (printExpr a) | none => "-"} C=- W={w}"))
  | ["source", t] =>
    (match lex (unhex t) with
     | none => ((), "E=err D=err P=- C=- W=---")
     | some ts =>
       let e := (runEngine g "Source" ts).bind (fun v => toSource (8 * ts.length + 50) v)
       let d := directSource ts
       let sh := fun (x : Option Source) => match x with | some a => "ok " ++ canonSource a | none => "err"
       let w := match e with | some a => (if wfSource a then "1" else "0") ++ (if lex (printSource a) == some (toksSource a) then "1" else "0") ++ (match a with | .expr x => (if laExpr x then "1" else "0") | .tags _ => "-") | none => "---"
       ((), s!"E={sh e} D={sh d} P={match e with | some a => hex (printSource a) | none => "-"} C={match e with | some a => joinC (sourceClasses a) | none => "-"} W={w}"))
  | ["facts"] =>
    ((), s!"ok layout={hex Logrange.Generated.C12.dateLayout} format={if Logrange.Generated.C12.dateUsesFormat then 1 else 0}")
  | ["lits"] =>
    ((), "ok" ++ String.join (Logrange.Generated.C12.structNames.map (fun n =>
      match g n with
      | some node => let ls := litsOf node; s!" {n} {ls.length}" ++ String.join (ls.map (fun l => " " ++ hex l))
      | none => s!" {n} 0")))
  | _ => ((), "bad-op")

def main (args : List String) : IO Unit := Driver.run step () args
