import Driver.Common
import Logrange.Model.RangedIter
import Logrange.Model.PartScan
import Logrange.Model.RebuildHist
import Logrange.Model.ITree
import Logrange.Model.PartHist
import Logrange.Model.IdxTree
import Logrange.Model.PipeHist
/-! Model driver for C02 (time-range queries). Requests (one per line):

block tree / abstract points (unit)
* `tree.reset` · `tree.add t0 i0 t1 i1` → `ok|adderr` (also applied to the `Points` list)
* `tree.points` → `c|NC ts:idx,…` (traversal; `NC` = intervals not contiguous) · `pts.points` → the `Points` list
* `itree.points` → the point list of the inductive tree model `ITree`
* `tree.probe t` → `greq=<idx|all> less=<idx|all> pgreq=<idx|all> pless=<idx|all> level=<n> igreq= iless= ilevel=` (i… = `ITree`)

selector (unit)
* `sel.adv min max count pos` · `sel.red min max count pos` → `<pos> <0|1>`
* `sel.upd rmin rmax hmin hmax <greq-answer> <less-answer>` (answers `ok:N|nf|oor|cor`) → `<minPos> <maxPos> <rebuild requests> <asked grEq ts|-> <asked less ts|->`

chunk index (unit)
* `ci.reset` · `ci.write first last cid min max` → `ok|corrupted` · `ci.greq cid t` · `ci.less cid t` · `ci.info cid` ·
  `ci.points cid` · `ci.upd cid rmin rmax` → `<minPos> <maxPos> <rebuild requests>`

ranged pipeline (system)
* `rw.reset maxChunkSize` · `rw.write ts:msgLen:fldLen[*N],…` → OnWrite calls, start/end, `CORRUPTED c,…`
* `rw.writenoindex …` (journal only: the writer is parked before `onWriteCIndex`) · `rw.notify` (the parked notifications are delivered) · `rw.forgetchunk c` (a reader's `syncChunks` with an older chunk list forgot chunk `c`) · `rw.dropstale` (a reader's `dropStale` has removed the entries older than their chunk, its `lightFill` has not finished)
* `rw.restart clean|crash` · `rw.sync` · `rw.heal` (restart on the same directory / on a crash image; one SyncChunks; non-forced rebuild of every chunk)
* `rw.rebuild <dense chunk id|all>` · `rw.autorebuild` (rebuild the chunks the last write reported corrupted) · `rw.hull` → `cid:cnt:min:max …` · `rw.points cid`
* `r.windows lo hi` → `cid:minPos:maxPos:count …` of a fresh selector (bounds `none` = absent)
* `r.scan lo hi page` → `got=<runs> spec=<runs> cls=<2,3,41,4,24> fix2=<0|1|-> fix3=<0|1|-> fix23=<0|1|-> fix41=<0|1|-> fixset=<smallest set of repairs {3,2,41} that restores the specification answer|->`
* `rw.rebuildcounts c1,c2,…` (rebuild chunk i from its first ci records only; `-` = not rebuilt)
* `c.open lo hi` · `c.page n` (a cached cursor continued across writes; answers the runs of one page)
* `r.new lo hi` · `r.get` · `r.next` · `r.setpos cid idx` · `r.bkwd 0|1` (JIterator step by step)
-/
open Logrange Driver

structure DS where
  store : IdxTree.Store := #[]
  root : Option Nat := none
  pts : List Points.Pt := []
  itree : Option ITree.T := some (.leaf [])   -- the inductive tree model (the one the tree theorems are about)
  cidx : CIndex.St := {}
  wj : WriteLoop.J := { maxSize := 100 }
  rcidx : CIndex.St := {}
  rcidx2 : CIndex.St := {}
  rcidx3 : CIndex.St := {}       -- variant: rebuild with a proper segment maximum (repair of #41)
  rcidx4 : CIndex.St := {}       -- variant: both repairs (#2 and #41)
  rebuiltNeg : Bool := false     -- a chunk holding a negative timestamp was rebuilt
  allTs : Array Int := #[]
  batches : List (List Int) := []
  layout : Option (Selector.Journal × Array (Array Int) × Array Nat) := none
  rg : Option RangedIter.St := none
  pendingReb : List Nat := []
  snap : Option (CIndex.St × CIndex.St × CIndex.St × CIndex.St) := none   -- cindex.dat: the chunk index as of the last clean stop
  pendingCalls : List (Nat × Nat × Nat × Int × Int) := []   -- OnWrite calls of a `rw.writenoindex` batch not yet delivered
  ph : List PartHist.PChunk := []     -- the Points-level partition model of the history theorem (`PartHist`)
  phLive : Bool := true              -- no rebuild has happened yet (PartHist has no rebuild step)
  pipe : PipeHist.PSt := {}           -- the history model of the end-to-end theorem (`Props/C02Pipe`): calls = pieces, rebuilds
  pipeLive : Bool := true            -- only calls and rebuilds so far (no parked notification, restart, sync, forget …)

def ptStr (ts : Int) (idx : Nat) : String := toString ts ++ ":" ++ toString idx

def treePointsStr (d : DS) : String :=
  match d.root with
  | none => "empty"
  | some r =>
    let ivs : List IdxTree.Interval := IdxTree.traversal 64 d.store r
    let pts : List IdxTree.Rec := match ivs with
      | [] => []
      | i0 :: _ => i0.p0 :: ivs.map (fun (i : IdxTree.Interval) => i.p1)
    let contiguous := (ivs.zip (ivs.drop 1)).all (fun ((a : IdxTree.Interval), (b : IdxTree.Interval)) => a.p1 == b.p0)
    (if contiguous then "c " else "NC ") ++ ",".intercalate (pts.map (fun (p : IdxTree.Rec) => ptStr p.ts p.idx))

def parseAns (s : String) : CIndex.Ans :=
  match s.splitOn ":" with
  | ["ok", n] => .ok (n.toNat?.getD 0)
  | ["nf"] => .notFound
  | ["oor"] => .outOfRange
  | _ => .corrupted

def parseRecs (spec : String) : List WriteLoop.Rec :=
  (if spec == "-" then [] else spec.splitOn ",").flatMap (fun e =>
    let (body, rep) := match e.splitOn "*" with
      | [b, n] => (b, n.toNat?.getD 1)
      | _ => (e, 1)
    match body.splitOn ":" with
    | [a, b, c] => (match a.toInt?, b.toNat?, c.toNat? with
        | some ts, some ml, some fl => List.replicate rep (⟨ts, WriteLoop.recLen ml fl⟩ : WriteLoop.Rec)
        | _, _, _ => [])
    | _ => [])

/-- runs of consecutive numbers: `3-7,9,12-13`; `-` for the empty sequence -/
def runs (xs : Array Nat) : String :=
  if xs.isEmpty then "-" else
  let fin (a b : Nat) : String := if a == b then toString a else toString a ++ "-" ++ toString b
  let (parts, a, b) := (xs.extract 1 xs.size).foldl (fun (acc : Array String × Nat × Nat) x =>
      let (parts, a, b) := acc
      if x == b + 1 then (parts, a, x) else (parts.push (fin a b), x, x)) (#[], xs[0]!, xs[0]!)
  ",".intercalate (parts.push (fin a b)).toList

def mkLayout (d : DS) : Selector.Journal × Array (Array Int) × Array Nat :=
  let (cks, tss, offs, _) := d.wj.chunks.foldl (fun (acc : Selector.Journal × Array (Array Int) × Array Nat × Nat) c =>
      let (cks, tss, offs, o) := acc
      (cks.push ⟨c.id * 10, c.cnt⟩, tss.push (d.allTs.extract o (o + c.cnt)), offs.push o, o + c.cnt)) (#[], #[], #[], 0)
  (cks, tss, offs)

def withLayout (d : DS) : DS × (Selector.Journal × Array (Array Int) × Array Nat) :=
  match d.layout with
  | some l => (d, l)
  | none => let l := mkLayout d; ({ d with layout := some l }, l)

def optBound (s : String) : Option (Option Int) := if s == "none" then some none else s.toInt?.map some

def seqOf (lay : Selector.Journal × Array (Array Int) × Array Nat) (p : Nat × Nat) : Nat :=
  let i := (lay.1.findIdx? (·.id == p.1)).getD 0
  lay.2.2[i]! + p.2

def doScan (lay : Selector.Journal × Array (Array Int) × Array Nat) (cidx : CIndex.St) (mn mx : Int) (page total : Nat) : Array Nat :=
  let st : RangedIter.St := { cks := lay.1, cidx := cidx, tss := lay.2.1, rmin := mn, rmax := mx }
  let (_, got) := RangedIter.scan st page (total + 2)
  got.map (seqOf lay)

def b01 (b : Bool) : String := if b then "1" else "0"

/-- the chunk index of the history model `PipeHist` and the one the pipeline ops produced: same entries, same trees -/
def cidxSame (a b : CIndex.St) : Bool :=
  a.chunks.length == b.chunks.length &&
  (a.chunks.zip b.chunks).all (fun ((x : CIndex.Chk), (y : CIndex.Chk)) =>
    x.id == y.id && x.minTs == y.minTs && x.maxTs == y.maxTs && x.recs == y.recs && x.lastRec == y.lastRec &&
    x.corrupted == y.corrupted && x.loaded == y.loaded &&
    (x.root.map (fun t => (ITree.points t, ITree.traversal t, ITree.rootLevel t))) == (y.root.map (fun t => (ITree.points t, ITree.traversal t, ITree.rootLevel t))))

def pipeSame (p : PipeHist.PSt) (ci : CIndex.St) (lay : Selector.Journal × Array (Array Int) × Array Nat) : Bool :=
  cidxSame p.cidx ci && (PipeHist.journal p.tss).map (fun c => (c.id, c.cnt)) == lay.1.toList.map (fun c => (c.id, c.cnt)) &&
  p.tss == lay.2.1.toList.map (·.toList)

def refresh (d : DS) (st : RangedIter.St) : DS × RangedIter.St :=
  let (d, lay) := withLayout d
  (d, { st with cks := lay.1, tss := lay.2.1, cidx := d.rcidx })

def step (d : DS) (toks : List String) : DS × String :=
  match toks with
  | ["tree.reset"] => ({ d with store := #[], root := none, pts := [], itree := some (.leaf []) }, "ok")
  | ["tree.add", a, b, c, e] =>
    (match a.toInt?, b.toNat?, c.toInt?, e.toNat? with
     | some t0, some i0, some t1, some i1 =>
       let (s', r') := IdxTree.add 8 d.store d.root ⟨⟨t0, i0⟩, ⟨t1, i1⟩⟩
       let pts' := Points.add d.pts ⟨⟨t0, i0⟩, ⟨t1, i1⟩⟩
       let it' := d.itree.bind (fun t => ITree.add ITree.maxRecs t ⟨⟨t0, i0⟩, ⟨t1, i1⟩⟩)
       (match r' with
        | some r => ({ d with store := s', root := some r, pts := pts', itree := it' }, "ok")
        | none => ({ d with store := s', pts := pts', itree := it' }, "adderr"))
     | _, _, _, _ => (d, "bad-op"))
  | ["tree.points"] => (d, treePointsStr d)
  | ["itree.points"] =>
    (d, match d.itree with
      | none => "adderr"
      | some t => let ps := ITree.points t; if ps.isEmpty then "empty" else ",".intercalate (ps.map (fun p => ptStr p.ts p.idx)))
  | ["pts.points"] => (d, if d.pts.isEmpty then "empty" else ",".intercalate (d.pts.map (fun p => ptStr p.ts p.idx)))
  | ["tree.probe", t] =>
    (match t.toInt?, d.root with
     | some ts, some r =>
       let sh (x : Option IdxTree.Rec) : String := match x with | none => "all" | some (y : IdxTree.Rec) => toString y.idx
       let pg := if Points.cntLE d.pts ts == 0 then "all" else toString (Points.grEqPos d.pts ts)
       let pl := match Points.lessPos d.pts ts with | none => "all" | some i => toString i
       let shp (x : Option Points.Pt) : String := match x with | none => "all" | some y => toString y.idx
       let (ig, il, ilv) := match d.itree with
         | some t => (shp (ITree.grEq t ts), shp (ITree.less t ts), toString (ITree.rootLevel t))
         | none => ("err", "err", "err")
       (d, s!"greq={sh (IdxTree.grEq 64 d.store r ts)} less={sh (IdxTree.less 64 d.store r ts)} pgreq={pg} pless={pl} level={(d.store[r]!).level} igreq={ig} iless={il} ilevel={ilv}")
     | _, _ => (d, "bad-op"))
  | ["sel.adv", a, b, c, p] =>
    (match a.toNat?, b.toNat?, c.toNat?, p.toNat? with
     | some mn, some mx, some cnt, some pos => let (np, ok) := Selector.checkAdvance ⟨mn, mx, cnt⟩ pos; (d, s!"{np} {b01 ok}")
     | _, _, _, _ => (d, "bad-op"))
  | ["sel.red", a, b, c, p] =>
    (match a.toNat?, b.toNat?, c.toNat?, p.toNat? with
     | some mn, some mx, some cnt, some pos => let (np, ok) := Selector.checkReduce ⟨mn, mx, cnt⟩ pos; (d, s!"{np} {b01 ok}")
     | _, _, _, _ => (d, "bad-op"))
  | ["sel.upd", a, b, c, e, g, l] =>
    (match a.toInt?, b.toInt?, c.toInt?, e.toInt? with
     | some rmin, some rmax, some hmin, some hmax =>
       let (st, k) := Selector.updatePossWith rmin rmax hmin hmax (fun _ => parseAns g) (fun _ => parseAns l) {}
       let (ag, al) := Selector.asks rmin rmax hmin hmax
       let sh (x : Option Int) : String := match x with | none => "-" | some t => toString t
       (d, s!"{st.minPos} {st.maxPos} {k} {sh ag} {sh al}")
     | _, _, _, _ => (d, "bad-op"))
  | ["ci.reset"] => ({ d with cidx := {} }, "ok")
  | ["ci.write", a, b, c, e, f] =>
    (match a.toNat?, b.toNat?, c.toNat?, e.toInt?, f.toInt? with
     | some fi, some la, some cid, some mn, some mx =>
       let (s', r) := CIndex.onWrite d.cidx fi la cid mn mx
       ({ d with cidx := s' }, if r == .ok then "ok" else "corrupted")
     | _, _, _, _, _ => (d, "bad-op"))
  | ["ci.greq", c, t] => (match c.toNat?, t.toInt? with | some cid, some ts => (d, CIndex.grEqPos d.cidx cid ts) | _, _ => (d, "bad-op"))
  | ["ci.less", c, t] => (match c.toNat?, t.toInt? with | some cid, some ts => (d, CIndex.lessPos d.cidx cid ts) | _, _ => (d, "bad-op"))
  | ["ci.info", c] => (match c.toNat? with | some cid => (d, CIndex.info d.cidx cid) | none => (d, "bad-op"))
  | ["ci.points", c] => (match c.toNat? with | some cid => (d, CIndex.points d.cidx cid) | none => (d, "bad-op"))
  | ["ci.upd", c, a, b] =>
    (match c.toNat?, a.toInt?, b.toInt? with
     | some cid, some rmin, some rmax =>
       (match CIndex.findChk d.cidx cid with
        | none => (d, "notfound")
        | some ch =>
          let (st, k) := Selector.updatePossWith rmin rmax ch.minTs ch.maxTs (CIndex.grEqAns d.cidx cid) (CIndex.lessAns d.cidx cid) {}
          (d, s!"{st.minPos} {st.maxPos} {k}"))
     | _, _, _ => (d, "bad-op"))
  | ["rw.reset", m] => ({ d with wj := { maxSize := m.toNat?.getD 100 }, rcidx := {}, rcidx2 := {}, rcidx3 := {}, rcidx4 := {}, rebuiltNeg := false, ph := [], phLive := true, pipe := {}, pipeLive := true, snap := none, rg := none, allTs := #[], batches := [], layout := none }, "ok")
  | ["rw.writenoindex", spec] =>
    -- the records are in the journal (readable) but `onWriteCIndex` has not run yet (writer parked before it)
    let recs := parseRecs spec
    let (j', out) := WriteLoop.serviceWrite d.wj recs
    ({ d with wj := j', allTs := d.allTs ++ (recs.map (·.ts)).toArray, batches := (recs.map (·.ts)) :: d.batches, layout := none, pendingCalls := out.calls, phLive := false, pipeLive := false }, WriteLoop.render out)
  | ["rw.dropstale"] =>
    -- a reader's `syncChunks` has run its first critical section (`dropStale`): entries older than their chunk are gone;
    -- the reader is still busy with `lightFill`, so nothing has been re-derived yet
    let drop (ci : CIndex.St) : CIndex.St := { ci with chunks := ci.chunks.filter (fun c =>
        match d.wj.chunks.find? (fun k => k.id == c.id) with
        | some k => !((!Generated.C02.staleDropOnlyForSnapshotEntries || c.loaded) && k.cnt > c.recs)
        | none => true) }
    ({ d with rcidx := drop d.rcidx, rcidx2 := drop d.rcidx2, rcidx3 := drop d.rcidx3, rcidx4 := drop d.rcidx4, pipeLive := false }, "ok")
  | ["rw.forgetchunk", c] =>
    -- a reader's `syncChunks` that was given a chunk list taken before chunk `c` existed has run its second critical
    -- section: the entry of `c` (created by the writer in between) is treated as removed and forgotten with its tree
    (match c.toNat? with
     | some cid =>
       -- with the repair of F53 a chunk newer than the reader's list stays known
       let drop (ci : CIndex.St) : CIndex.St :=
         if Generated.C02.syncChunksKeepsNewerChunks then ci else { ci with chunks := ci.chunks.filter (fun ch => ch.id != cid) }
       ({ d with rcidx := drop d.rcidx, rcidx2 := drop d.rcidx2, rcidx3 := drop d.rcidx3, rcidx4 := drop d.rcidx4, phLive := false, pipeLive := false }, "ok")
     | none => (d, "bad-op"))
  | ["rw.restart", how] =>
    -- clean: the server stops (cindex.dat written) and starts on the same directory; crash: it starts on an image of the
    -- directory taken while it was running — the journal is current, cindex.dat is the one of the last clean stop (or absent).
    -- What is loaded: Id, MinTs, MaxTs, Recs, IdxRoot; lastRec and the corrupted flag are not persisted; `loaded` is set
    let load (ci : CIndex.St) : CIndex.St := { ci with chunks := ci.chunks.map (fun c => { c with lastRec := 0, corrupted := false, loaded := true }) }
    if how == "clean" then
      ({ d with snap := some (d.rcidx, d.rcidx2, d.rcidx3, d.rcidx4), rcidx := load d.rcidx, rcidx2 := load d.rcidx2, rcidx3 := load d.rcidx3, rcidx4 := load d.rcidx4, phLive := false, pipeLive := false, rg := none }, "ok")
    else
      let (a, b, c, e) := d.snap.getD ({}, {}, {}, {})
      ({ d with rcidx := load a, rcidx2 := load b, rcidx3 := load c, rcidx4 := load e, phLive := false, pipeLive := false, rg := none }, "ok")
  | ["rw.sync"] =>
    -- one `SyncChunks` over the journal's current chunk list (stale snapshot entries dropped, unknown chunks light-filled)
    let (d, lay) := withLayout d
    let sy (ci : CIndex.St) : CIndex.St := (RangedIter.syncChunks { cks := lay.1, cidx := ci, tss := lay.2.1 }).cidx
    ({ d with rcidx := sy d.rcidx, rcidx2 := sy d.rcidx2, rcidx3 := sy d.rcidx3, rcidx4 := sy d.rcidx4, pipeLive := false }, "ok")
  | ["rw.failsync"] =>
    -- one `SyncChunks` whose `lightFill` cannot read any record (I/O error, cancelled context): an unknown chunk gets the
    -- entry of an empty chunk — hull [MaxInt64, 0], Recs = 0 — and, being known from then on, is never filled again
    let (d, lay) := withLayout d
    let sy (ci : CIndex.St) : CIndex.St :=
      (RangedIter.syncChunks { cks := lay.1.map (fun k => { k with cnt := 0 }), cidx := ci, tss := lay.2.1 }).cidx
    ({ d with rcidx := sy d.rcidx, rcidx2 := sy d.rcidx2, rcidx3 := sy d.rcidx3, rcidx4 := sy d.rcidx4, pipeLive := false }, "ok")
  | ["rw.heal"] =>
    -- `RebuildIndex(force = false)` for every chunk: those without a usable tree are rebuilt
    let (d, lay) := withLayout d
    let heal (rebuildF : CIndex.St → Nat → List Int → CIndex.St) (ci : CIndex.St) : CIndex.St :=
      (List.range lay.1.size).foldl (fun ci i =>
        let id := (lay.1[i]!).id / 10
        match CIndex.findChk ci id with
        | some ch => if ch.corrupted || ch.root.isNone then rebuildF ci id ((lay.2.1[i]?).getD #[]).toList else ci
        | none => ci) ci
    ({ d with rcidx := heal CIndex.rebuild d.rcidx, rcidx2 := heal CIndex.rebuild d.rcidx2, rcidx3 := heal CIndex.rebuildRepaired d.rcidx3, rcidx4 := heal CIndex.rebuildRepaired d.rcidx4, pipeLive := false }, "ok")
  | ["rw.notify"] =>
    -- the parked writer continues: its OnWrite notifications reach the chunk index now
    let app (ci : CIndex.St) : CIndex.St := d.pendingCalls.foldl (fun ci (call : Nat × Nat × Nat × Int × Int) =>
        let (fi, la, cid, mn, mx) := call
        (CIndex.onWrite ci fi la cid mn mx).1) ci
    ({ d with rcidx := app d.rcidx, rcidx2 := app d.rcidx2, rcidx3 := app d.rcidx3, rcidx4 := app d.rcidx4, pendingCalls := [], pipeLive := false }, "ok")
  | ["rw.write", spec] =>
    let recs := parseRecs spec
    let (j', ci', out, bad) := RangedIter.write d.wj d.rcidx recs
    let (_, ci2, _, _) := RangedIter.writeWith WriteLoop.IW.repaired d.wj d.rcidx2 recs
    let (_, ci3, _, _) := RangedIter.write d.wj d.rcidx3 recs
    let (_, ci4, _, _) := RangedIter.writeWith WriteLoop.IW.repaired d.wj d.rcidx4 recs
    -- the same call on the Points-level partition model: one piece per OnWrite notification
    let tsArr := (recs.map (·.ts)).toArray
    let (pieces, _) := out.calls.foldl (fun (acc : List PartHist.Piece × Nat) (call : Nat × Nat × Nat × Int × Int) =>
        let (fi, la, _, _, _) := call
        let k := la + 1 - fi
        (acc.1 ++ [({ newChunk := fi == 0, l := (tsArr.extract acc.2 (acc.2 + k)).toList } : PartHist.Piece)], acc.2 + k)) ([], 0)
    let ph' := PartHist.writeCall CIndex.sparseSpace CIndex.bigGap d.ph pieces
    let phLive := d.phLive && bad.isEmpty
    -- the same call on the history model of the end-to-end theorem: one `CIndex.onWrite` per piece, hull from the call's iwrapper
    let pipe' := PipeHist.step d.pipe (.call pieces)
    let pipeOk : Bool := !d.pipeLive || (cidxSame pipe'.cidx ci' &&
      pipe'.tss.map (·.length) == j'.chunks.map (·.cnt) && pipe'.tss.flatten == (d.allTs ++ tsArr).toList)
    let allTs' := d.allTs ++ tsArr
    let phOk : Bool :=
      if !phLive || RangedIter.classNonMonotone allTs'.toList then true else
      ph'.length == ci'.chunks.length &&
      (ph'.zip ci'.chunks).all (fun ((pc : PartHist.PChunk), (ch : CIndex.Chk)) =>
        pc.idx.hull == some ⟨ch.minTs, ch.maxTs⟩ && pc.idx.lastRec == ch.lastRec && pc.idx.corrupted == ch.corrupted &&
        (ch.corrupted || pc.idx.pts == (match ch.root with | some t => ITree.points t | none => [])))
    ({ d with ph := ph', phLive := phLive, pipe := pipe', wj := j', rcidx := ci', rcidx2 := ci2, rcidx3 := ci3, rcidx4 := ci4, allTs := d.allTs ++ (recs.map (·.ts)).toArray, batches := (recs.map (·.ts)) :: d.batches, layout := none, pendingReb := bad },
      WriteLoop.render out ++ (if phOk then "" else " PARTHIST-DIFFERS") ++ (if pipeOk then "" else " PIPEHIST-DIFFERS") ++ (if bad.isEmpty then "" else " CORRUPTED " ++ ",".intercalate (bad.map toString)))
  | "rw.rebuild" :: _ | "rw.autorebuild" :: _ =>
    let (d, lay) := withLayout d
    let auto := toks.head? == some "rw.autorebuild"
    let c : String := (toks.drop 1).headD ""
    let ids : List Nat := if auto then d.pendingReb else if c == "all" then d.wj.chunks.map (·.id) else (match c.toNat? with | some i => [i] | none => [])
    let reb (ci : CIndex.St) : CIndex.St := ids.foldl (fun ci id =>
        let i := (lay.1.findIdx? (·.id == id * 10)).getD 0
        CIndex.rebuild ci id ((lay.2.1[i]?).getD #[]).toList) ci
    let reb3 (ci : CIndex.St) : CIndex.St := ids.foldl (fun ci id =>
        let i := (lay.1.findIdx? (·.id == id * 10)).getD 0
        CIndex.rebuildRepaired ci id ((lay.2.1[i]?).getD #[]).toList) ci
    let neg := ids.any (fun id => let i := (lay.1.findIdx? (·.id == id * 10)).getD 0; ((lay.2.1[i]?).getD #[]).any (· < 0))
    let ci' := reb d.rcidx
    -- the flat (Points-level) rebuild the theorem `rebuild_sound` is about must give the level-0 records of the tree
    let flatBad := ids.filter (fun id =>
      let i := (lay.1.findIdx? (·.id == id * 10)).getD 0
      let tss := ((lay.2.1[i]?).getD #[]).toList
      let flat := RebuildHist.rebuildPts Generated.C02.sparseSpace Generated.C02.rebuildSegmentMaxInit tss
      let tree : List Points.Pt := match CIndex.findChk ci' id with
        | some ch => (match ch.root with
          | some t => ITree.points t
          | none => [])
        | none => []
      flat != tree)
    -- the same rebuilds as events of the history model
    let pipe' := ids.foldl (fun p id => PipeHist.step p (.rebuild (id - 1) ((p.tss.getD (id - 1) []).length))) d.pipe
    let pipeBad := d.pipeLive && !(pipeSame pipe' ci' lay)
    ({ d with pipe := pipe', phLive := d.phLive && ids.isEmpty, rcidx := ci', rcidx2 := reb d.rcidx2, rcidx3 := reb3 d.rcidx3, rcidx4 := reb3 d.rcidx4, rebuiltNeg := d.rebuiltNeg || neg, pendingReb := if auto then [] else d.pendingReb },
      if !flatBad.isEmpty then "flat-differs " ++ ",".intercalate (flatBad.map toString)
      else if pipeBad then "pipehist-differs" else "ok")
  | ["rw.hull"] =>
    (d, " ".intercalate (d.wj.chunks.map (fun c => match CIndex.findChk d.rcidx c.id with
        | some ch => s!"{c.id}:{c.cnt}:{ch.minTs}:{ch.maxTs}"
        | none => s!"{c.id}:{c.cnt}:?:?")))
  | ["rw.points", c] => (match c.toNat? with | some cid => (d, CIndex.points d.rcidx cid) | none => (d, "bad-op"))
  | ["r.windows", a, b] =>
    (match optBound a, optBound b with
     | some lo, some hi =>
       let (d, lay) := withLayout d
       let (mn, mx) := RangedIter.rangeOf lo hi
       let st : RangedIter.St := { cks := lay.1, cidx := d.rcidx, tss := lay.2.1, rmin := mn, rmax := mx }
       let st := RangedIter.rebuildStatuses st
       (d, " ".intercalate (st.stats.map (fun (id, cs) => s!"{id / 10}:{cs.minPos}:{cs.maxPos}:{cs.count}")))
     | _, _ => (d, "bad-op"))
  | ["r.scan", a, b, pg] =>
    (match optBound a, optBound b, pg.toNat? with
     | some lo, some hi, some page =>
       let (d, lay) := withLayout d
       let (mn, mx) := RangedIter.rangeOf lo hi
       let total := d.allTs.size
       let got := doScan lay d.rcidx mn mx page total
       let spec : Array Nat := (Array.range total).filter (fun i =>
         let t := d.allTs[i]!
         (match lo with | some l => decide (l ≤ t) | none => true) && (match hi with | some h => decide (t ≤ h) | none => true))
       let cls : List String :=
         (if RangedIter.classZeroSentinel d.batches then ["2"] else []) ++
         (if RangedIter.classOpenLower lo d.allTs.toList then ["3"] else []) ++
         (if d.rebuiltNeg then ["41"] else []) ++
         (if RangedIter.classNonMonotone d.allTs.toList then
            (if d.rcidx.chunks.any (fun c => match c.root with | some t => ITree.rootLevel t > 0 | none => false) then ["4", "24"] else ["4"])
          else [])
       let clsS := if cls.isEmpty then "-" else ",".intercalate cls
       -- the abstract scan the partition theorem is proved about (PartScan: fold over chunks of the window positions,
       -- then the range re-check) must deliver what the executable pipeline model delivers
       let absGot : Array Nat := (PipeRead.absScan { cks := lay.1, cidx := d.rcidx, tss := lay.2.1, rmin := mn, rmax := mx }).toArray.map
           (fun (kp : Nat × Nat) => lay.2.2[kp.1]! + kp.2)
       -- … and the read of the history model's state (`PipeHist.read (run evs)`: what `range_eq_filter_pipeline` is about)
       let pipeGot : Array Nat := (PipeHist.read d.pipe mn mx).toArray.map (fun (kp : Nat × Nat) => lay.2.2[kp.1]! + kp.2)
       let absS := b01 (absGot == got && (!d.pipeLive || (cidxSame d.pipe.cidx d.rcidx && pipeGot == got)))
       if got == spec then (d, s!"got={runs got} spec={runs spec} cls={clsS} fix2=- fix3=- fix23=- fix41=- fixset=- abs={absS} absgot={runs absGot}")
       else
         let lo3 : Int := lo.getD Points.minI64
         let f2 := doScan lay d.rcidx2 mn mx page total == spec
         let f3 := doScan lay d.rcidx lo3 mx page total == spec
         let f23 := doScan lay d.rcidx2 lo3 mx page total == spec
         let f41 := d.rebuiltNeg && doScan lay d.rcidx3 mn mx page total == spec
         -- the smallest set of repairs (among the classes that apply) after which the model returns the specification answer
         let c2 := RangedIter.classZeroSentinel d.batches
         let c3 := RangedIter.classOpenLower lo d.allTs.toList
         let c41 := d.rebuiltNeg
         let tryset (u2 u3 u41 : Bool) : Bool :=
           (!u2 || c2) && (!u3 || c3) && (!u41 || c41) &&
           doScan lay (if u2 && u41 then d.rcidx4 else if u2 then d.rcidx2 else if u41 then d.rcidx3 else d.rcidx) (if u3 then lo3 else mn) mx page total == spec
         let cands : List (Bool × Bool × Bool × String) :=
           [(false, true, false, "3"), (true, false, false, "2"), (false, false, true, "41"),
            (true, true, false, "3,2"), (false, true, true, "3,41"), (true, false, true, "2,41"), (true, true, true, "3,2,41")]
         let fixset := match cands.find? (fun (a, b, c, _) => tryset a b c) with
           | some (_, _, _, nm) => nm
           | none => "-"
         -- a hidden event whose timestamp lies outside the hull the index holds for its chunk (or whose chunk the index does not
         -- know): a HULL defect. Every way a hull comes about is exact or over-wide on any data (onWrite merges batch hulls, rebuild
         -- and — since 3cb83a3 — lightFill scan every record), so this is never the open finding #4 (sparse skip / merge inside a sound hull)
         let hidden := spec.filter (fun i => !got.contains i)
         let hullBad := hidden.any (fun i =>
           let k := ((List.range lay.1.size).find? (fun k => lay.2.2[k]! ≤ i && i < lay.2.2[k]! + (lay.1[k]!).cnt)).getD 0
           match CIndex.findChk d.rcidx ((lay.1[k]!).id / 10) with
           | some ch => decide (d.allTs[i]! < ch.minTs) || decide (d.allTs[i]! > ch.maxTs)
           | none => true)
         (d, s!"got={runs got} spec={runs spec} cls={clsS} fix2={b01 f2} fix3={b01 f3} fix23={b01 f23} fix41={b01 f41} fixset={fixset} abs={absS} absgot={runs absGot} hullbad={b01 hullBad}")
     | _, _, _ => (d, "bad-op"))
  | ["rw.rebuildcounts", spec] =>
    -- rebuilds that saw only the first `count` records of each chunk (records written but not yet confirmed are invisible
    -- to the rebuild); `-` = chunk not rebuilt
    let (d, lay) := withLayout d
    let cnts := spec.splitOn ","
    let reb (rebuildF : CIndex.St → Nat → List Int → CIndex.St) (ci : CIndex.St) : CIndex.St :=
      (List.range cnts.length).foldl (fun ci i =>
        match (cnts.getD i "-").toNat?, lay.1[i]? with
        | some cnt, some ck => rebuildF ci (ck.id / 10) (((lay.2.1[i]?).getD #[]).extract 0 cnt).toList
        | _, _ => ci) ci
    let ci' := reb CIndex.rebuild d.rcidx
    let pipe' := (List.range cnts.length).foldl (fun p i =>
        match (cnts.getD i "-").toNat? with
        | some cnt => PipeHist.step p (.rebuild i cnt)
        | none => p) d.pipe
    let pipeBad := d.pipeLive && !(pipeSame pipe' ci' lay)
    ({ d with pipe := pipe', phLive := false, rcidx := ci', rcidx2 := reb CIndex.rebuild d.rcidx2, rcidx3 := reb CIndex.rebuildRepaired d.rcidx3, rcidx4 := reb CIndex.rebuildRepaired d.rcidx4 },
      if pipeBad then "pipehist-differs" else "ok")
  | ["c.open", a, b] =>
    -- a server-held (cached) cursor: selector statuses, iterator and filter state live across pages and writes
    (match optBound a, optBound b with
     | some lo, some hi => let (mn, mx) := RangedIter.rangeOf lo hi; ({ d with rg := some { rmin := mn, rmax := mx } }, "ok")
     | _, _ => (d, "bad-op"))
  | ["c.page", n] =>
    (match d.rg, n.toNat? with
     | some st, some limit =>
       let (d, st) := refresh d st
       let (d, lay) := withLayout d
       let rec go (fuel : Nat) (st : RangedIter.St) (left : Nat) (acc : Array Nat) : RangedIter.St × Array Nat :=
         match fuel with
         | 0 => (st, acc)
         | fuel+1 =>
           if left == 0 then (st, acc) else
           match RangedIter.curGet (d.allTs.size + 2) st with
           | (st', none) => (st', acc)
           | (st', some p) => go fuel (RangedIter.curNext st') (left - 1) (acc.push (seqOf lay p))
       let (st', got) := go (d.allTs.size + 2) st limit #[]
       ({ d with rg := some st' }, runs got)
     | _, _ => (d, "bad-op"))
  | ["r.new", a, b] =>
    (match a.toInt?, b.toInt? with
     | some mn, some mx => ({ d with rg := some { rmin := mn, rmax := mx } }, "ok")
     | _, _ => (d, "bad-op"))
  | ["r.get"] =>
    (match d.rg with
     | some st =>
       let (d, st) := refresh d st
       let (st', v) := RangedIter.itGet st
       ({ d with rg := some st' }, (match v with | none => "eof" | some p => s!"{p.1}:{p.2}") ++ s!" pos={st'.cid}:{st'.idx}")
     | none => (d, "bad-op"))
  | ["r.next"] =>
    (match d.rg with
     | some st => let (d, st) := refresh d st; let st' := RangedIter.itNext st; ({ d with rg := some st' }, s!"pos={st'.cid}:{st'.idx}")
     | none => (d, "bad-op"))
  | ["r.setpos", a, b] =>
    (match d.rg, a.toNat?, b.toNat? with
     | some st, some cid, some idx => let (d, st) := refresh d st; let st' := RangedIter.setPos st cid idx; ({ d with rg := some st' }, s!"pos={st'.cid}:{st'.idx}")
     | _, _, _ => (d, "bad-op"))
  | ["r.bkwd", b] =>
    (match d.rg with
     | some st => ({ d with rg := some (RangedIter.setBackward st (b == "1")) }, "ok")
     | none => (d, "bad-op"))
  | _ => (d, "bad-op")

def main (args : List String) : IO Unit := Driver.run step ({} : DS) args
