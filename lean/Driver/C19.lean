import Driver.Common
import Logrange.Model.Registry
import Logrange.Generated.C19
/-! Model driver for C19 (pipe registry). Requests:

* `getpipes <name>*`            — `GetPipes` over the given map iteration order → the listing's names
* `reset`                       — empty registry
* `create|ensure <name> <tags> <flt> <parses 0|1>`, `delete <name>`, `get <name>`
* `show <limit|none> <offset|none>` — `SHOW PIPES` paging over the model's own (sorted) listing
* `spec.sorted <name>*`         — SPEC: the names sorted in Go string order, duplicates kept
-/
open Go Logrange.Registry Driver

def showRes : Res → String
  | .ok p => s!"ok {hex p.name} {hex p.tagsCond} {hex p.fltCond}"
  | .exists_ => "exists"
  | .badCond => "badcond"
  | .conflict => "conflict"
  | .notFound => "notfound"
  | .deleted => "deleted"
  | .failed => "failed"

def insertSorted (x : Bytes) : List Bytes → List Bytes
  | [] => [x]
  | y :: ys => if bytesLe x y then x :: y :: ys else y :: insertSorted x ys
def sortBytes (l : List Bytes) : List Bytes := l.foldr insertSorted []

def step (r : Reg) (toks : List String) : Reg × String :=
  match toks with
  | "getpipes" :: names =>
    let order := names.map (fun n => (⟨unhex n, [], []⟩ : Pipe))
    (r, hexList ((getPipesShape Logrange.Generated.C19.getPipesLibrarySort Logrange.Generated.C19.getPipesIncrementsCnt order).map (·.name)))
  | "spec.sorted" :: names => (r, hexList (sortBytes (names.map unhex)))
  | ["reset"] => ([], "ok")
  | ["create", n, t, f, ok] =>
    let (r', res) := Logrange.Registry.step r (.create ⟨unhex n, unhex t, unhex f⟩ (ok == "1")); (r', showRes res)
  | ["ensure", n, t, f, ok] =>
    let (r', res) := Logrange.Registry.step r (.ensure ⟨unhex n, unhex t, unhex f⟩ (ok == "1")); (r', showRes res)
  | ["delete", n] => let (r', res) := Logrange.Registry.step r (.delete (unhex n)); (r', showRes res)
  | ["get", n] => let (r', res) := Logrange.Registry.step r (.get (unhex n)); (r', showRes res)
  | ["show", lim, offs] =>
    match optInt lim, optInt offs with
    | some l, some o =>
      -- the listing of the current registry; the registry list is in reverse insertion order, any order does
      let names := (getPipesShape Logrange.Generated.C19.getPipesLibrarySort Logrange.Generated.C19.getPipesIncrementsCnt r).map (·.name)
      (match showPipes names l o with
       | none => (r, "rej")
       | some ns => (r, if ns.isEmpty then s!"ok {names.length}" else s!"ok {names.length} {hexList ns}"))
    | _, _ => (r, "bad-op")
  | _ => (r, "bad-op")

def main (args : List String) : IO Unit := Driver.run step ([] : Reg) args
