import Driver.Common
import Logrange.Model.Registry
import Logrange.Model.RegistryJson
import Logrange.Generated.C19
/-! Model driver for C19 (pipe registry). Requests:

* `getpipes <name>*`            — `GetPipes` over the given map iteration order → the listing's names
* `reset`                       — empty registry
* `create|ensure <name> <tags> <flt> <parses 0|1>`, `delete <name>`, `get <name>`
* `show <limit|none> <offset|none>` — `SHOW PIPES` paging over the model's own (sorted) listing
* `saverace <name>,<name>,… <actor>*` — concurrent creates of the given (fresh) names with persistence: the schedule of atomic
                                  steps (two critical sections, snapshot, write; a step blocked on the save mutex is skipped)
                                  → `disk <sorted names on disk> acked <actors told "created">`
* `ensurerace <name> <tags>,<tags>,… <actor>*` — concurrent EnsurePipe callers of one name with the given tag conditions, schedule
                                  of critical sections (GetPipe, CreatePipe's two sections) → per caller `ok:<tags>` | `conflict` | `failed` | `pending`
* `restart` / `crash`           — clean stop + start / start on what `savePipes` left on disk → `ok <n> <sorted names>` or `refused`
* `spec.sorted <name>*`         — SPEC: the names sorted in Go string order, duplicates kept
* `jstr <s>`                    — `json.Marshal(string)` → hex of the quoted text
* `junq <text>`                 — one JSON string literal at the head of the text → `ok <decoded> <rest>` | `err`
* `jenc (<name> <tags> <flt>)*` — `json.Marshal([]Pipe)` = the content of pipes.dat → hex
* `jdec <text>`                 — `json.Unmarshal` on the fragment the encoder emits + `Init`'s loop into the map →
                                  `ok <n> (<name> <tags> <flt>)* | map <n> (<name> <tags> <flt>)*` or `outside`
-/
open Go Logrange.Registry Driver

def showRes : Res → String
  | .ok p => s!"ok {hex p.name} {hex p.tagsCond} {hex p.fltCond}"
  | .exists_ => "exists"
  | .badCond => "badcond"
  | .conflict => "conflict"
  | .notFound => "notfound"
  | .deleted => "deleted"
  | .failed => "failed"

def insertSorted (x : Bytes) : List Bytes → List Bytes
  | [] => [x]
  | y :: ys => if bytesLe x y then x :: y :: ys else y :: insertSorted x ys
def sortBytes (l : List Bytes) : List Bytes := l.foldr insertSorted []

/-- which operations persist the registry, as regenerated from the source -/
def cfgNow : PCfg :=
  ⟨Logrange.Generated.C19.createPipeSaves, Logrange.Generated.C19.deletePipeSaves, Logrange.Generated.C19.shutdownSaves⟩

def listingOf (r : Reg) : List Bytes :=
  (getPipesShape Logrange.Generated.C19.getPipesLibrarySort Logrange.Generated.C19.getPipesIncrementsCnt r).map (·.name)

def regOp (s : PState) (o : Op) : PState × String :=
  let (s', res) := opStep cfgNow s o; (s', showRes res)

def startOp (s : PState) (o : POp) : PState × String :=
  -- every stored definition was accepted by newPPipe when it was created; the harness reports a refused start
  let (s', r) := pstep cfgNow (fun _ => true) s o
  match r with
  | none => let ns := listingOf s'.mem
            (s', if ns.isEmpty then "ok 0" else s!"ok {ns.length} {hexList ns}")
  | some _ => (s', "refused")

def pipesOfToks : List String → List Pipe
  | n :: t :: f :: rest => ⟨unhex n, unhex t, unhex f⟩ :: pipesOfToks rest
  | _ => []

def showPipes3 (l : List Pipe) : String :=
  " ".intercalate (toString l.length :: l.flatMap (fun p => [hex p.name, hex p.tagsCond, hex p.fltCond]))

def step (s : PState) (toks : List String) : PState × String :=
  match toks with
  | "getpipes" :: names =>
    let order := names.map (fun n => (⟨unhex n, [], []⟩ : Pipe))
    (s, hexList (listingOf order))
  | "spec.sorted" :: names => (s, hexList (sortBytes (names.map unhex)))
  | ["jstr", x] => (s, hex (jsonString (unhex x)))
  | ["junq", x] =>
    (match junquote (unhex x) with
     | some (d, rest) => (s, s!"ok {hex d} {hex rest}")
     | none => (s, "err"))
  | "jenc" :: toks => (s, hex (encPipes (pipesOfToks toks)))
  | ["jdec", x] =>
    (match decPipes (unhex x) with
     | none => (s, "outside")
     | some l => (s, s!"ok {showPipes3 l} | map {showPipes3 (loadMap l)}"))
  | ["reset"] => (⟨[], none⟩, "ok")
  | ["create", n, t, f, ok] => regOp s (.create ⟨unhex n, unhex t, unhex f⟩ (ok == "1"))
  | ["ensure", n, t, f, ok] => regOp s (.ensure ⟨unhex n, unhex t, unhex f⟩ (ok == "1"))
  | ["delete", n] => regOp s (.delete (unhex n))
  | ["get", n] => regOp s (.get (unhex n))
  | "saverace" :: names :: sched =>
    let wants : List Pipe := (names.splitOn ",").map (fun n => (⟨unhex n, [], []⟩ : Pipe))
    let fin := srun Logrange.Generated.C19.savePipesSerialized
      ⟨[], [], none, wants.map (fun w => (w, SPc.start))⟩ (sched.filterMap String.toNat?)
    let acked := (List.range fin.pcs.length).filter (fun i => match fin.pcs[i]? with
      | some (_, .done true) => true
      | _ => false)
    (s, s!"disk {hexList (sortBytes (fin.disk.map (·.name)))} acked {" ".intercalate (acked.map toString)}")
  | "ensurerace" :: name :: tags :: sched =>
    -- concurrent EnsurePipe callers of one name, caller i with tags condition tags[i] (empty filter)
    let callers : List Pipe := (tags.splitOn ",").map (fun t => (⟨unhex name, unhex t, []⟩ : Pipe))
    let fin := erun ⟨[], callers.map (fun p => (p, Epc.get 0))⟩ (sched.filterMap String.toNat?)
    let show1 : Pipe × Epc → String := fun x => match x.2 with
      | .done (.ok q) => s!"ok:{hex q.tagsCond}"
      | .done .conflict => "conflict"
      | .done _ => "failed"
      | _ => "pending"
    (s, " ".intercalate (fin.pcs.map show1))
  | ["restart"] => startOp s .restart
  | ["crash"] => startOp s .crash
  | ["show", lim, offs] =>
    match optInt lim, optInt offs with
    | some l, some o =>
      -- the listing of the current registry; the registry list is in reverse insertion order, any order does
      let names := listingOf s.mem
      (match showPipes names l o with
       | none => (s, "rej")
       | some ns => (s, if ns.isEmpty then s!"ok {names.length}" else s!"ok {names.length} {hexList ns}"))
    | _, _ => (s, "bad-op")
  | _ => (s, "bad-op")

def main (args : List String) : IO Unit := Driver.run step (⟨[], none⟩ : PState) args
