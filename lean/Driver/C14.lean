import Driver.Common
import Logrange.Model.TIndexLts
/-! Model driver for C14 (tag index lock protocol). State: the LTS state `St` (protected maps + ghost tokens).

Labels (actor `a`, source index `s` = creation order, tag-line id `t`; answers in brackets):
* `reset`                                   [ok]
* `shutdown`                                [ok]       Shutdown(): sets `done`
* `goc a t create`                          [ok <s> | wait | notfound | down]      getOrCreateJournal / GetJournal, one loop iteration
                                            (`down` = after shutdown: the error "already shut-down.", nothing changes)
* `gt a s lock`                             [ok | wait | notfound | down]          GetJournalTags, one loop iteration
* `rel a s`                                 [ok | panic | disabled]         Release
* `lock a s`                                [true | false | disabled]       LockExclusively
* `unlock a s`                              [ok | panic | disabled]         UnlockExclusively
* `del a s`                                 [ok | notfound | wrongstate | disabled]   Delete
* `vbegin a skipping noRelease t*`          [ok <n> | down | disabled]   first locked section of Visit; n = size of the snapshot;
                                            `down` = after shutdown: Visit returns the error, no visit starts
* `vtry a s`                                [acq | gone | wait | down | disabled]  waiting flavour, per-item section; `down` = after
                                            shutdown the section ends the visit at once, without its final section
* `vwait a`                                 [wait | nowait | down]   is some pending entry of a's waiting visit exclusively locked?
                                            (`down` = after shutdown, a has a waiting visit: it would not wait but end)
* `vdown a`                                 [down | disabled]  after shutdown: the next per-item section of a's waiting visit
                                            (not aborted, no callback running, something pending) ends it: `visitTry a s` for the
                                            first pending s (the effect does not depend on s); what it owes stays acquired
* `vdrain a`                                [ok | live <s>]   the remaining pending entries are all gone (each `vtry` = gone)
* `vcb a s cont`                            [ok | disabled]   the callback on s returns cont
* `vend a`                                  [ok | disabled]   final locked section
* `state`                                   [<s>:<readers>:<excl>|<s>:gone … holds=<n> panicked=<0|1>]
Raw critical sections (no ghost, no protocol; for the misuse unit section):
* `raw.rel s` [ok|absent|panic]  `raw.lock s` [true|false]  `raw.unlock s` [ok|absent|panic]  `raw.del s` [ok|notfound|wrongstate]
  `raw.acq s` [ok|notfound|wait]
-/
open Logrange.TIndexLts Driver

def b01 (s : String) : Bool := s == "1"

def stateStr (st : St) : String :=
  let parts := (List.range st.c.next).map (fun s =>
    match st.c.parts s with
    | none => s!"{s}:gone"
    | some p => s!"{s}:{p.readers}:{if p.exclusive then 1 else 0}")
  " ".intercalate (parts ++ [s!"holds={st.c.holds.length}", s!"panicked={if st.panicked then 1 else 0}"])

def apply (st : St) (l : Lbl) (ok : St → String) : St × String :=
  match step st l with
  | none => (st, "disabled")
  | some st' => (st', ok st')

def setParts (st : St) (parts : Nat → Option Part) : St := { st with c := { st.c with parts := parts } }

def stepLine (st : St) (toks : List String) : St × String :=
  match toks with
  | ["reset"] => (init, "ok")
  | ["state"] => (st, stateStr st)
  | ["shutdown"] => apply st .shutdown (fun _ => "ok")
  | ["goc", a, t, cr] =>
    let a := a.toNat!; let t := t.toNat!
    if st.done then apply st (.getOrCreate a t (b01 cr)) (fun _ => "down") else
    (match findTags st.c.parts t st.c.next with
     | some s =>
       (match st.c.parts s with
        | some p => if p.exclusive then apply st (.getOrCreate a t (b01 cr)) (fun _ => "wait")
                    else apply st (.getOrCreate a t (b01 cr)) (fun _ => s!"ok {s}")
        | none => (st, "bad-model-state"))
     | none =>
       if b01 cr then apply st (.getOrCreate a t true) (fun _ => s!"ok {st.c.next}")
       else apply st (.getOrCreate a t false) (fun _ => "notfound"))
  | ["gt", a, s, lk] =>
    let a := a.toNat!; let s := s.toNat!
    if st.done then apply st (.getTags a s (b01 lk)) (fun _ => "down") else
    (match st.c.parts s with
     | none => apply st (.getTags a s (b01 lk)) (fun _ => "notfound")
     | some p => apply st (.getTags a s (b01 lk)) (fun _ => if p.exclusive then "wait" else "ok"))
  | ["rel", a, s] =>
    apply st (.release a.toNat! s.toNat!) (fun st' => if st'.panicked && !st.panicked then "panic" else "ok")
  | ["lock", a, s] =>
    let s := s.toNat!
    apply st (.lockX a.toNat! s) (fun st' =>
      match st.c.parts s, st'.c.parts s with
      | some p, some p' => if !p.exclusive && p'.exclusive then "true" else "false"
      | _, _ => "false")
  | ["unlock", a, s] =>
    apply st (.unlockX a.toNat! s.toNat!) (fun st' => if st'.panicked && !st.panicked then "panic" else "ok")
  | ["del", a, s] =>
    let s := s.toNat!
    apply st (.delete a.toNat! s) (fun st' =>
      match st.c.parts s, st'.c.parts s with
      | none, _ => "notfound"
      | some _, none => "ok"
      | some _, some _ => "wrongstate")
  | "vbegin" :: a :: sk :: nr :: sel =>
    let a := a.toNat!
    if st.done then apply st (.visitBegin a (sel.map String.toNat!) (b01 sk) (b01 nr)) (fun _ => "down") else
    apply st (.visitBegin a (sel.map String.toNat!) (b01 sk) (b01 nr)) (fun st' =>
      match st'.vis a with
      | some v => s!"ok {v.pending.length}"
      | none => "ok ?")
  | ["vtry", a, s] =>
    let a := a.toNat!; let s := s.toNat!
    if st.done then apply st (.visitTry a s) (fun _ => "down") else
    apply st (.visitTry a s) (fun st' =>
      match st.c.parts s with
      | none => "gone"
      | some p => if p.exclusive then "wait" else
        match st'.vis a with
        | some v => if v.cur == some s then "acq" else "bad"
        | none => "bad")
  | ["vdown", a] =>
    let a := a.toNat!
    (match st.vis a with
     | some v =>
       if st.done && !v.skipping && !v.aborted && v.cur.isNone then
         (match v.pending with
          | s :: _ => apply st (.visitTry a s) (fun _ => "down")
          | [] => (st, "disabled"))
       else (st, "disabled")
     | none => (st, "disabled"))
  | ["vwait", a] =>
    (match st.vis a.toNat! with
     | some v =>
       if st.done && !v.skipping then (st, "down") else
       if !v.skipping && !v.aborted && v.cur.isNone &&
          v.pending.any (fun s => match st.c.parts s with | some p => p.exclusive | none => false)
       then (st, "wait") else (st, "nowait")
     | none => (st, "nowait"))
  | ["vdrain", a] =>
    let a := a.toNat!
    (match st.vis a with
     | some v =>
       (match v.pending.find? (fun s => (st.c.parts s).isSome) with
        | some s => (st, s!"live {s}")
        | none =>
          -- (the harness reports vanished entries lazily: their per-item sections ran before the callback that has
          -- just returned — when the service is shut down by now they ran before the shutdown, so they are dropped
          -- here directly instead of through `visitTry`, which would meet the flag)
          if st.done then ({ st with vis := upd st.vis a (some { v with pending := [] }) }, "ok")
          else (v.pending.foldl (fun st s => (step st (.visitTry a s)).getD st) st, "ok"))
     | none => (st, "disabled"))
  | ["vcb", a, s, cont] => apply st (.visitCb a.toNat! s.toNat! (b01 cont)) (fun _ => "ok")
  | ["vend", a] => apply st (.visitEnd a.toNat!) (fun _ => "ok")
  | ["raw.rel", s] =>
    (match relRaw st.c.parts s.toNat! with
     | (parts', .ok) => (setParts st parts', "ok")
     | (_, .absent) => (st, "absent")
     | (_, _) => (st, "panic"))
  | ["raw.lock", s] =>
    let r := lockRaw st.c.parts s.toNat!
    (setParts st r.1, if r.2 then "true" else "false")
  | ["raw.unlock", s] =>
    (match unlockRaw st.c.parts s.toNat! with
     | (parts', .ok) => (setParts st parts', "ok")
     | (_, .absent) => (st, "absent")
     | (_, .panic) => (st, "panic"))
  | ["raw.del", s] =>
    (match deleteRaw st.c.parts s.toNat! with
     | (parts', .ok) => (setParts st parts', "ok")
     | (_, .notFound) => (st, "notfound")
     | (_, .wrongState) => (st, "wrongstate"))
  | ["raw.acq", s] =>
    let s := s.toNat!
    (match st.c.parts s with
     | none => (st, "notfound")
     | some p => if p.exclusive then (st, "wait") else (setParts st (incDesc st.c.parts s p), "ok"))
  | _ => (st, "bad-op")

def main (args : List String) : IO Unit := Driver.run stepLine init args
