import Driver.Common
import Logrange.Model.TIndexId
import Logrange.Model.TIndexSave
import Logrange.Model.TIndexGuard
import Logrange.Model.TIndexUtf8
/-! Model driver for C06 (partition identity and FROM selection). State: the tag index (`TIndexId.St`).

* `reset` → `ok`
* `goc <raw> <create 0|1>` → `ok <id>` | `badtags` | `empty` | `notfound`         (`getOrCreateJournal`, the index save succeeds)
* `gocf <raw> <create 0|1>` → the same, or `savefailed`: the index save fails in this call (model `TIndexSave`, roll-back as the
  regenerated facts say); ids are renamed densely in order of first appearance in an answer (as the harness does)
* `visit <source>` → `model=<ok id*|rej> spec=<ok id*|rej>`  (ids sorted; spec = filter by the reference evaluator)
* `eval <source> | <k> <v> …` → `model=<0|1|rej> spec=<0|1|rej>`                   (one tag set, stateless)
* `like <pattern> <name>` → `1|0|bad`                                              (`path.Match`)
* `goc`/`gocf` answer `badutf8` when the regenerated fact `utf8GuardOnCreate` holds and the call may create a partition whose
  canonical line is not valid UTF-8 (`Props.C06Utf8.code_step_decomp`)
* `reparses <text>` → `0|1|rej` (the canonical line of the parsed set reads back as the same set — the guard of proposed-fixes/F08r.diff);
  when the regenerated fact `Generated.C06.reparseGuardBeforeLookup` is true, `goc`/`gocf` answer `unwritable` for a text the guard
  refuses (`Props.C06Guard.guarded_step_decomp`)
* `safe <text>` → `0|1` (the parsed set is Safe; 1 for rejected texts), `safest` → `0|1` (every stored set is Safe)

`<source>` is `none` | `tags <k> <v> … ;` | `expr <ast>`, with the AST in prefix form:
`O <n> <and>*n`, and = `A <n> <x>*n`, x = `C <not> <ident> <op> <value>` | `E <not> <or>`,
ident = `L <operand>` | `F <operand> <ident>` | `B <operand>`, op ∈ lt gt le ge ne eq like contains prefix suffix other.
Case mapping in the driver is ASCII only (the harness uses ASCII operands under UPPER/LOWER).
-/
open Go Logrange Logrange.KV Logrange.Tags Logrange.TagsEval Logrange.TIndexId Logrange.TIndexSave Driver

def so : StrOps := ⟨asciiUpper, asciiLower, Logrange.PathMatch.pathMatch⟩

def opOf : String → Op
  | "lt" => .lt | "gt" => .gt | "le" => .le | "ge" => .ge | "ne" => .ne | "eq" => .eq
  | "like" => .like | "contains" => .contains | "prefix" => .prefix_ | "suffix" => .suffix | _ => .other

partial def pIdent : List String → Option (Ident × List String)
  | "L" :: o :: r => some (.leaf (unhex o), r)
  | "B" :: o :: r => some (.bad (unhex o), r)
  | "F" :: o :: r => (pIdent r).map (fun (p, r') => (.call (unhex o) p, r'))
  | _ => none

mutual
  partial def pOr : List String → Option (OrList × List String)
    | "O" :: n :: r => pOrN n.toNat! r
    | _ => none
  partial def pOrN : Nat → List String → Option (OrList × List String)
    | 0, r => some (.nil, r)
    | k + 1, r => do
      let (a, r1) ← pAnd r
      let (t, r2) ← pOrN k r1
      pure (.cons a t, r2)
  partial def pAnd : List String → Option (AndList × List String)
    | "A" :: n :: r => pAndN n.toNat! r
    | _ => none
  partial def pAndN : Nat → List String → Option (AndList × List String)
    | 0, r => some (.nil, r)
    | k + 1, r => do
      let (x, r1) ← pX r
      let (t, r2) ← pAndN k r1
      pure (.cons x t, r2)
  partial def pX : List String → Option (XCond × List String)
    | "C" :: nt :: r => do
      let (id, r1) ← pIdent r
      match r1 with
      | op :: v :: r2 => pure (.cond (nt == "1") ⟨id, opOf op, unhex v⟩, r2)
      | _ => none
    | "E" :: nt :: r => do
      let (e, r1) ← pOr r
      pure (.expr (nt == "1") e, r1)
    | _ => none
end

def pairsOfToks : List String → List (Bytes × Bytes)
  | k :: v :: r => (unhex k, unhex v) :: pairsOfToks r
  | _ => []

def pSource : List String → Option (Source × List String)
  | "none" :: r => some (.none, r)
  | "tags" :: r =>
    let kv := r.takeWhile (· != ";")
    some (.tags (Map.ofPairs (pairsOfToks kv)), (r.dropWhile (· != ";")).drop 1)
  | "expr" :: r => (pOr r).map (fun (e, r') => (.expr e, r'))
  | _ => none

def insertNat (x : Nat) : List Nat → List Nat
  | [] => [x]
  | y :: ys => if x ≤ y then x :: y :: ys else y :: insertNat x ys
def sortNat (l : List Nat) : List Nat := l.foldr insertNat []

def showIds (l : List Nat) : String :=
  if l.isEmpty then "ok" else "ok " ++ " ".intercalate ((sortNat l).map toString)

def b01 (o : Option Bool) : String := match o with | some true => "1" | some false => "0" | none => "rej"

structure DSt where
  st : StS := {}
  /-- model ids in order of first appearance in an answer -/
  seen : List Nat := []

def dense (seen : List Nat) (i : Nat) : String :=
  match seen.findIdx? (· == i) with
  | some k => toString k
  | none => s!"u{i}"      -- an id that was never handed out

def showIdsD (seen : List Nat) (l : List Nat) : String :=
  let known := sortNat (l.filterMap (fun i => seen.findIdx? (· == i)))
  let unknown := (l.filter (fun i => !seen.contains i)).map (fun i => s!"u{i}")
  let all := known.map toString ++ unknown
  if all.isEmpty then "ok" else "ok " ++ " ".intercalate all

def gocStep (d : DSt) (raw : Bytes) (create saveOK : Bool) : DSt × String :=
  -- fix a7918dd (regenerated fact): refused when the call may create and the canonical line is not valid UTF-8
  if Logrange.Generated.C06.utf8GuardOnCreate && Logrange.TIndexUtf8.utf8Rejects d.st.base raw create then (d, "badutf8") else
  if Logrange.TIndexGuard.codeGuard && Logrange.TIndexGuard.guardRejects d.st.base raw then (d, "unwritable") else
  let (s', r) := getOrCreateS codeFacts d.st raw create saveOK
  match r with
  | .saveFailed => ({ d with st := s' }, "savefailed")
  | .res (.ok i) =>
    let seen := if d.seen.contains i then d.seen else d.seen ++ [i]
    ({ st := s', seen := seen }, s!"ok {dense seen i}")
  | .res .badTags => ({ d with st := s' }, "badtags")
  | .res .empty => ({ d with st := s' }, "empty")
  | .res .notFound => ({ d with st := s' }, "notfound")

def step (d : DSt) (toks : List String) : DSt × String :=
  let s := d.st.base
  match toks with
  | ["reset"] => ({}, "ok")
  | ["goc", raw, c] => gocStep d (unhex raw) (c == "1") true
  | ["gocf", raw, c] => gocStep d (unhex raw) (c == "1") false
  | "visit" :: src =>
    (match pSource src with
     | some (sc, _) =>
       let m := match visitS so d.st sc with | some ds => showIdsD d.seen (ds.map Desc.src) | none => "rej"
       -- SPEC: filter ALL partitions of the index by the reference evaluator; rejected iff it rejects
       let all := s.tmap.map (·.2)
       let sp := if (evalTagsRef so sc []).isNone || all.any (fun x => (evalTagsRef so sc x.tags).isNone) then "rej"
                 else showIdsD d.seen ((all.filter (fun x => evalTagsRef so sc x.tags == some true)).map Desc.src)
       (d, s!"model={m} spec={sp}")
     | none => (d, "bad-source"))
  | "eval" :: rest =>
    (match pSource rest with
     | some (sc, r) =>
       let m := Map.ofPairs (pairsOfToks ((r.dropWhile (· != "|")).drop 1))
       let mo := (buildSource so sc).map (fun f => f m)
       (d, s!"model={b01 mo} spec={b01 (evalTagsRef so sc m)}")
     | none => (d, "bad-source"))
  | ["like", p, n] => (d, match Logrange.PathMatch.pathMatch (unhex p) (unhex n) with | some true => "1" | some false => "0" | none => "bad")
  | ["reparses", t] => (d, match parse (unhex t) with | some m => (if reparses m then "1" else "0") | none => "rej")
  | ["safe", t] => (d, match parse (unhex t) with | some m => (if safePinned m then "1" else "0") | none => "1")
  | ["safest"] => (d, if s.tmap.all (fun e => safePinned e.2.tags) then "1" else "0")
  | _ => (d, "bad-op")

def main (args : List String) : IO Unit := Driver.run step ({} : DSt) args
