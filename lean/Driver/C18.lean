import Driver.Common
import Logrange.Model.Forwarder
import Logrange.Generated.C18
/-! Model driver for C18 (forwarder worker loop). Request:

`fw <N0> <start> <label>*` with labels `qt` (transport error), `qs` (server error), `qe` (empty result),
`p<k>a` / `p<k>r` (page of up to k events, sink accepts / rejects), `P` (persist tick), `S` (stop gracefully,
final persist, restart), `G` (cancel, final persist, restart), `C` (crash, restart from what is persisted),
`g<k>` (the partition grows by k), `x<k>` (the sink accepts a page of up to k events and the process dies before
`setPosition`; restart).
Answer: `deliv=<a-b;c-d;…|-> pos=<n> desc=<n> persisted=<n>` (accepted batches `[a,b)` in order).
-/
open Go Driver Logrange.Forwarder

def genCfg : Cfg :=
  { setAfterAccept := Logrange.Generated.C18.setPositionAfterAccept,
    retryRejected := Logrange.Generated.C18.requestReplacedOnlyAfterAccept && Logrange.Generated.C18.failuresRetry }

def parseLabel (t : String) : Option L :=
  if t == "qt" then some .qTransport
  else if t == "qs" then some .qServer
  else if t == "qe" then some .qEmpty
  else if t == "P" then some .persist
  else if t == "S" then some .stop
  else if t == "G" then some .graceful
  else if t == "C" then some .crash
  else if t.startsWith "g" then (t.drop 1).toString.toNat?.map L.grow
  else if t.startsWith "x" then (t.drop 1).toString.toNat?.map L.crashAfterAccept
  else if t.startsWith "p" && t.endsWith "a" then ((t.drop 1).dropEnd 1).toString.toNat?.map (L.page · true)
  else if t.startsWith "p" && t.endsWith "r" then ((t.drop 1).dropEnd 1).toString.toNat?.map (L.page · false)
  else none

def showS (s : S) : String :=
  let d := if s.batches.isEmpty then "-" else ";".intercalate (s.batches.map (fun (a, b) => s!"{a}-{b}"))
  s!"deliv={d} pos={s.pos} desc={s.desc} persisted={s.persisted}"

def step (_ : Unit) (toks : List String) : Unit × String :=
  match toks with
  | "fw" :: n :: start :: labels =>
    match n.toNat?, start.toNat?, labels.mapM parseLabel with
    | some n, some st, some ls => ((), showS (run genCfg (init n st) ls))
    | _, _, _ => ((), "bad-op")
  | _ => ((), "bad-op")

def main (args : List String) : IO Unit := Driver.run step () args
