import Driver.Common
import Logrange.Model.WaitLts
import Logrange.Generated.C11
/-! Model driver for C11 (waiting at the end of a stream). Requests:

* `sched <stored> <tok>*` — one partition, one waiter whose reader has read all `stored` records and got EOF.
  Tokens in the order the harness produced them: `A<k>` (writer appends `k` records), `F` (flush: confirm + the whole
  `OnNewData`, as far as enabled), `S` (the reader leaves the hook: `start`, `inc`, locked check, subscribe — as far as
  enabled). At the end everything enabled on the writer side and the waiter's wake/locked check are run to a fixed point.
  → `woken` (WaitNewData returns nil) | `asleep` (keeps waiting: only the timeout ends it) | `notstarted`
* `lts <nWaiters> <stored> <label>*` — raw labels: `a<k> c l x s<w>:<pos> i<w> k<w> u<w> w<w> n<w> r<w>`
  → `cfrmd=<n> pend=<n>/<n> lock=<w|-> <pc>:<pos>:<sub>:<woke>*`
* `queryloop <wt> <lim> <fuel> <visible e,e,…|-> <future>*` — futures: `T` (the wait times out) | `D:<e,e,…|->`
  → `ok <e,e,…|->` | `outOfFuel`
* `querycall <rpc|backend> <wt> <lim> <fuel> <visible> <future>*` — the whole Query call of that path with the loop shape
  regenerated from the source → same answers
* `queryreq <rpc|backend> <wt> <reqLimit> <fuel> <visible> <future>*` — the whole request with the `Limit` the client sent:
  clamp to the regenerated `QueryMaxLimit`, comparison value of the wait condition as regenerated per path → same answers
* `selectstream <stored> <tail|n> <gap:during>*` — the client loop `api.Select` (stream mode) with the loop fact regenerated from
  api/client.go → the global indices the handler receives, `-` if none
* `queryempty <wt> <lim> <fuel>` — the empty cursor as the source defines it now → same answers
* `eofpos <idx> <c1> <c2>` → `eof <pos>` | `rec <idx>`
-/
open Go Logrange.WaitLts Driver

def nat (s : String) : Nat := s.toNat?.getD 0

def tryS (st : State) (l : Label) : State := (step st l).getD st

def writerSettle (st : State) : State := [Label.loadWaiters, .closeAll].foldl tryS st

/-- run the waiter and the writer side to a fixed point (bounded: every round either changes something or not) -/
def settle (st : State) : Nat → State
  | 0 => st
  | n+1 => settle ([Label.loadWaiters, .closeAll, .inc 0, .lockCheck 0, .subscribe 0, .loadWaiters, .closeAll, .wake 0].foldl tryS st) n

def parseNats (s : String) : List Nat := if s == "-" then [] else (s.splitOn ",").map nat
def showNats (l : List Nat) : String := if l.isEmpty then "-" else ",".intercalate (l.map toString)

def showPc : Pc → String
  | .idle => "idle" | .started => "started" | .counted => "counted" | .holding => "holding"
  | .asleep => "asleep" | .returning => "returning"

def parseLabel (t : String) : Option Label :=
  let rest := (t.drop 1).toString
  match t.front with
  | 'a' => some (.append (nat rest))
  | 'c' => some .confirm
  | 'l' => some .loadWaiters
  | 'x' => some .closeAll
  | 's' => match rest.splitOn ":" with
    | [w, p] => some (.start (nat w) (nat p))
    | _ => none
  | 'i' => some (.inc (nat rest))
  | 'k' => some (.lockCheck (nat rest))
  | 'u' => some (.subscribe (nat rest))
  | 'w' => some (.wake (nat rest))
  | 'n' => some (.cancel (nat rest))
  | 'r' => some (.ret (nat rest))
  | _ => none

def showQ : QRes → String
  | .ok evs => s!"ok {showNats evs}"
  | .outOfFuel => "outOfFuel"

def parseFuture (t : String) : Option (List Nat) :=
  if t == "T" then none else some (parseNats ((t.drop 2).toString))

def handle (u : Unit) (toks : List String) : Unit × String :=
  match toks with
  | "sched" :: stored :: ts =>
    let k := nat stored
    let st := ts.foldl (fun st t =>
      if t == "F" then writerSettle (tryS st .confirm)
      else if t == "S" then [Label.start 0 k, .inc 0, .lockCheck 0, .subscribe 0].foldl tryS st
      else if t.front == 'A' then tryS st (.append (nat ((t.drop 1).toString)))
      else st) (init 1 k)
    let st := settle st 4
    match st.ws[0]? with
    | some x =>
      (u, if x.pc == .returning && x.woke then "woken" else if x.pc == .asleep then "asleep"
          else if x.pc == .idle then "notstarted" else s!"stuck:{showPc x.pc}")
    | none => (u, "bad-op")
  | "lts" :: n :: stored :: ls =>
    let st := ls.foldl (fun st t => match parseLabel t with
      | some l => tryS st l
      | none => st) (init (nat n) (nat stored))
    let lk := match st.lock with
      | some w => toString w
      | none => "-"
    (u, s!"cfrmd={st.cfrmd} pend={st.pendNotif}/{st.pendClose} lock={lk} " ++
      " ".intercalate (st.ws.map (fun x => s!"{showPc x.pc}:{x.pos}:{if x.sub then 1 else 0}:{if x.woke then 1 else 0}")))
  | "queryloop" :: wt :: lim :: fuel :: vis :: futs =>
    (u, showQ (queryLoop scriptCur (nat wt) (nat lim) (nat fuel) (nat lim) (parseNats vis, futs.map parseFuture) []))
  | "querycall" :: path :: wt :: lim :: fuel :: vis :: futs =>
    let b := Logrange.Generated.C11.backendLoopShape
    let r := Logrange.Generated.C11.rpcLoopShape
    let k : LoopShape := if path == "rpc" then ⟨r.1, r.2.1, r.2.2, Logrange.Generated.C11.rpcEarlyEmptyForZeroLimit⟩
      else ⟨b.1, b.2.1, b.2.2, false⟩
    (u, showQ (queryCall k scriptCur (nat wt) (nat lim) (nat fuel) (parseNats vis, futs.map parseFuture)))
  | "queryreq" :: path :: wt :: lim :: fuel :: vis :: futs =>
    let b := Logrange.Generated.C11.backendLoopShape
    let r := Logrange.Generated.C11.rpcLoopShape
    let k : LoopShape := if path == "rpc" then ⟨r.1, r.2.1, r.2.2, Logrange.Generated.C11.rpcEarlyEmptyForZeroLimit⟩
      else ⟨b.1, b.2.1, b.2.2, false⟩
    let ls : LimitShape := if path == "rpc" then ⟨Logrange.Generated.C11.rpcLimitShape.1, Logrange.Generated.C11.rpcLimitShape.2⟩
      else ⟨Logrange.Generated.C11.backendLimitShape.1, Logrange.Generated.C11.backendLimitShape.2⟩
    (u, showQ (queryRequest k ls Logrange.Generated.C11.queryMaxLimit scriptCur (nat wt) (nat lim) (nat fuel) (parseNats vis, futs.map parseFuture)))
  | "selectstream" :: stored :: pos :: rounds =>
    let rp : ReqPos := if pos == "tail" then .tail else .at (nat pos)
    let rs : List Round := rounds.map (fun t => match t.splitOn ":" with
      | [g, d] => ⟨nat g, nat d⟩
      | _ => ⟨0, 0⟩)
    (u, showNats (selectStream Logrange.Generated.C11.clientSelectTakesNextRequest (nat stored) rp rs))
  | ["queryempty", wt, lim, fuel] =>
    (u, showQ (queryLoop (emptyCur Logrange.Generated.C11.emptyCursorWaitReturnsAtOnce) (nat wt) (nat lim) (nat fuel) (nat lim) () []))
  | ["eofpos", i, c1, c2] =>
    match jget (nat i) (nat c1) (nat c2) with
    | (.eof, p) => (u, s!"eof {p}")
    | (.record r, _) => (u, s!"rec {r}")
  | _ => (u, "bad-op")

def main (args : List String) : IO Unit := Driver.run handle () args
