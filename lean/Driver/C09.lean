import Driver.Common
import Logrange.Model.Truncate
import Logrange.Model.TruncateHolders
import Logrange.Generated.C09
/-! Model driver for C09 (TRUNCATE). Requests (all numbers decimal):

* `choose <dry 0|1> <max> <min> <before> <jsize> <k> (<id> <size> <maxTs>){k}`
    — `Service.truncate` on a chunk list → `<n> <removed> <bySize> <byTime> <ids left, comma separated | ->`
* `hull <k> (<min> <max>){k}` — the time hull of a chunk after k write notifications (`chkInfo` creation + `update`)
* `dropat <users> <k> (<id> <size> <maxTs>){k}` — `deleteJournal` under its exclusive lock over these chunks
* `run <dry 0|1> <max|none> <min|none> <before|none> <maxdb|none> <np> (<src> <sel 0|1> <users> <k> (<id> <size> <maxTs>){k}){np}`
    — the whole command (`cmdTruncate` parameter mapping, `Service.Truncate`, `truncateGlobally`) for EVERY visiting
      order of the partitions → `tie=<0|1> n=<number of distinct outcomes> ; <outcome> ; <outcome> …`, outcomes sorted;
      an outcome is `R <src>:<before>:<after>:<chunks>:<deleted 0|1>,… D <src>=<id.id.…>,… P <src>:<phase-I chunks>:<phase-II chunks>,…`
      (R = report lines sorted by src, D = partitions afterwards sorted by src, P = which phase took how many chunks).
      `tie` = the MAXDBSIZE pass runs and two of its candidates share their latest timestamp (class of finding F31).
* `holders <label>…` — a trace of the product system `Model/TruncateHolders.lean` (tag index protocol × acknowledged bytes ×
    `deleteJournal` statement by statement, with the regenerated shape facts); labels, comma separated fields:
    `goc,a,tags,create` `gt,a,s,lock` `rel,a,s` `w,a,s,n` `fl,s` `rm,a,s,k1,k2` `djl,a,s` `djc,a` `djd,a` `dju,a`; labels that are not
    enabled are skipped → `drops=<src:conf:unfl:toks,…|-> live=<src:conf:unfl:readers,…|-> panicked=<0|1>`
-/
open Logrange.Truncate Driver

def strict : Bool := Logrange.Generated.C09.timeLoopStrict
def gMin : Nat := Logrange.Generated.C09.globalMinSrcSize
def gMax : Nat := Logrange.Generated.C09.globalMaxSrcSize
def acct : Bool := Logrange.Generated.C09.globalAccountsWhenDropRefused

def natOf (s : String) : Nat := s.toNat?.getD 0
def intOf (s : String) : Int := s.toInt?.getD 0
def optNat (s : String) : Option Nat := if s == "none" then none else s.toNat?
def optI (s : String) : Option Int := if s == "none" then none else s.toInt?

/-- read `k` chunks (3 tokens each) -/
def readChunks : Nat → List String → List Chunk × List String
  | 0, ts => ([], ts)
  | k+1, i :: s :: m :: ts =>
    let r := readChunks k ts
    (⟨natOf i, natOf s, intOf m⟩ :: r.1, r.2)
  | _, _ => ([], [])

def readParts : Nat → List String → List Part
  | 0, _ => []
  | n+1, src :: sel :: users :: k :: ts =>
    let r := readChunks (natOf k) ts
    ⟨natOf src, sel == "1", natOf users, r.1⟩ :: readParts n r.2
  | _, _ => []

def joinWith (sep : String) (l : List String) : String := if l.isEmpty then "-" else sep.intercalate l

def insertBy {α} (lt : α → α → Bool) (x : α) : List α → List α
  | [] => [x]
  | y :: ys => if lt y x then y :: insertBy lt x ys else x :: y :: ys
def sortBy {α} (lt : α → α → Bool) (l : List α) : List α := l.foldr (insertBy lt) []

def perms {α} : List α → List (List α)
  | [] => [[]]
  | x :: xs => (perms xs).flatMap (fun p => (List.range (p.length + 1)).map (fun i => p.take i ++ x :: p.drop i))

def b01 (b : Bool) : String := if b then "1" else "0"

def showOutcome (p : Params) (order : List Part) : String :=
  let st1 := phase1 strict p order
  let out := phase2 acct strict gMin gMax p st1
  let reps := sortBy (fun (a b : Info) => a.src < b.src) out.reports
  let r := joinWith "," (reps.map (fun i => s!"{i.src}:{i.before}:{i.after}:{i.chunksDeleted}:{b01 i.deleted}"))
  let db := sortBy (fun (a b : Part) => a.src < b.src) out.db
  let d := joinWith "," (db.map (fun q => s!"{q.src}={joinWith "." (q.chunks.map (fun c => toString c.id))}"))
  let ph := sortBy (fun (a b : Info) => a.src < b.src) st1.infos
  let phs := ph.map (fun i =>
    let fin := (out.reports.find? (fun r => r.src == i.src)).map (·.chunksDeleted) |>.getD i.chunksDeleted
    s!"{i.src}:{i.chunksDeleted}:{fin - i.chunksDeleted}")
  s!"R {r} D {d} P {joinWith "," phs}"

def hasTie (p : Params) (order : List Part) : Bool :=
  let st1 := phase1 strict p order
  let cands := st1.infos.filter (fun i => 0 < i.after)
  decide (p.maxDB < totalAfter st1.infos) &&
    cands.any (fun a => cands.any (fun b => a.src != b.src && a.latestTs == b.latestTs))

def dedup (l : List String) : List String := l.foldr (fun x acc => if acc.contains x then acc else x :: acc) []

def holdersLbl (t : String) : Option Logrange.TruncHolders.Lbl :=
  match t.splitOn "," with
  | ["goc", a, tags, c] => some (.idx (.getOrCreate (natOf a) (natOf tags) (c == "1")))
  | ["gt", a, s, l] => some (.idx (.getTags (natOf a) (natOf s) (l == "1")))
  | ["rel", a, s] => some (.idx (.release (natOf a) (natOf s)))
  | ["w", a, s, n] => some (.write (natOf a) (natOf s) (natOf n))
  | ["fl", s] => some (.flush (natOf s))
  | ["rm", a, s, k1, k2] => some (.remove (natOf a) (natOf s) (natOf k1) (natOf k2))
  | ["djl", a, s] => some (.djLock (natOf a) (natOf s))
  | ["djc", a] => some (.djCheck (natOf a))
  | ["djd", a] => some (.djDelete (natOf a))
  | ["dju", a] => some (.djUnlock (natOf a))
  | _ => none

def showHolders (st : Logrange.TruncHolders.St) : String :=
  let drops := st.drops.reverse.map (fun d => s!"{d.src}:{d.conf}:{d.unfl}:{d.toks}")
  let live := (List.range st.t.c.next).filterMap (fun s =>
    (st.t.c.parts s).map (fun p => s!"{s}:{(st.data s).conf}:{(st.data s).unfl}:{p.readers}"))
  s!"drops={joinWith "," drops} live={joinWith "," live} panicked={b01 st.t.panicked}"

def step (u : Unit) (toks : List String) : Unit × String :=
  match toks with
  | "holders" :: rest =>
    (match rest.mapM holdersLbl with
     | some tr =>
       (u, showHolders (Logrange.TruncHolders.run Logrange.Generated.C09.deleteJournalRechecksSize
         Logrange.Generated.C09.deleteJournalSyncsBeforeRecheck Logrange.TruncHolders.init tr))
     | none => (u, "bad-label"))
  | "choose" :: dry :: mx :: mn :: bef :: jsize :: k :: rest =>
    let cks := (readChunks (natOf k) rest).1
    let p : Params := { dryRun := dry == "1", maxSrc := natOf mx, minSrc := natOf mn, oldestTs := intOf bef }
    -- `jsize` (what Journal.Size() would answer) is no longer read by truncate: the total is the snapshot sum
    let _ := jsize
    let ch := choose strict p cks
    let r := truncate strict p cks
    (u, s!"{r.n} {r.removed} {ch.bySize} {ch.byTime} {joinWith "," (r.chunks.map (fun c => toString c.id))}")
  | "run" :: dry :: mx :: mn :: bef :: mdb :: np :: rest =>
    let parts := readParts (natOf np) rest
    let p := mkParams (dry == "1") (optNat mn) (optNat mx) (optI bef) (optNat mdb)
    let outs := sortBy (fun (a b : String) => a < b) (dedup ((perms parts).map (showOutcome p)))
    (u, s!"tie={b01 (hasTie p parts)} n={outs.length} ; {" ; ".intercalate outs}")
  | "hull" :: k :: rest =>
    -- `hull <k> (<min> <max>){k}`: the chunk hull after k write notifications → `<min> <max>`
    let rec rd : Nat → List String → List Hull
      | 0, _ => []
      | n+1, a :: b :: ts => ⟨intOf a, intOf b⟩ :: rd n ts
      | _, _ => []
    (match chunkHull Logrange.Generated.C09.hullUpdateIndependentIfs (rd (natOf k) rest) with
     | some h => (u, s!"{h.minTs} {h.maxTs}")
     | none => (u, "none"))
  | "dropat" :: users :: k :: rest =>
    -- `dropat <users> <k> (<id> <size> <maxTs>){k}`: deleteJournal holding the exclusive lock over these chunks →
    -- `<as the code is now> <without the size re-check>`
    let cks := (readChunks (natOf k) rest).1
    (u, s!"drops={b01 (deleteJournalAt Logrange.Generated.C09.deleteJournalRechecksSize (natOf users) cks)} withoutRecheck={b01 (deleteJournalAt false (natOf users) cks)}")
  | _ => (u, "bad-op")

def main (args : List String) : IO Unit := Driver.run step () args
