// Package lrsrv starts the real logrange server in-process, wired exactly like server.Start does
// (same components, same names), but keeping references to the components so that a harness can
// drive them directly as well as through the loop-back RPC client.
package lrsrv

import (
	"context"
	"fmt"
	"net"
	"os"
	"path"
	"strings"
	"sync"
	"time"

	"github.com/jrivets/log4g"
	"github.com/logrange/linker"
	"github.com/logrange/logrange/api"
	"github.com/logrange/logrange/api/rpc"
	"github.com/logrange/logrange/pkg/backend"
	"github.com/logrange/logrange/pkg/cursor"
	"github.com/logrange/logrange/pkg/partition"
	"github.com/logrange/logrange/pkg/pipe"
	"github.com/logrange/logrange/pkg/tindex"
	"github.com/logrange/logrange/pkg/tmindex"
	"github.com/logrange/logrange/server"
	cmodel "github.com/logrange/range/pkg/cluster/model"
	"github.com/logrange/range/pkg/kv/inmem"
	"github.com/logrange/range/pkg/records/journal"
	"github.com/logrange/range/pkg/records/journal/ctrlr"
	"github.com/logrange/range/pkg/transport"
	"github.com/logrange/range/pkg/utils/bytes"
)

func init() { log4g.SetLogLevel("", log4g.FATAL) }

type Opts struct {
	MaxChunkSize  int // 0 = default
	MaxRecordSize int
	WriteFlushMs  int // 0 = 2
	WriteIdleSec  int // 0 = library default (30): chunk writers close (and release their descriptors) when idle that long
	NoRPC         bool
}

type Srv struct {
	Dir      string
	Addr     string
	Cfg      *server.Config
	Ctx      context.Context
	cancel   context.CancelFunc
	inj      *linker.Injector
	Parts    *partition.Service
	Journals journal.Controller
	TIndex   tindex.Service
	TsIdx    tmindex.TsIndexer
	Cursors  cursor.Provider
	Pipes    *pipe.Service
	Admin    *backend.Admin
	Querier  *backend.Querier
	ItF      cursor.ItFactory
	Client   api.Client
	stopped  bool
	mu       sync.Mutex
}

// addrOverride is used by the package's own test to force a port collision
var addrOverride func() string

func freeAddr() string {
	if addrOverride != nil {
		if a := addrOverride(); a != "" {
			return a
		}
	}
	l, err := net.Listen("tcp", "127.0.0.1:0")
	if err != nil {
		panic(err)
	}
	a := l.Addr().String()
	l.Close()
	return a
}

// NewDir makes a fresh base directory (caller removes it with os.RemoveAll).
func NewDir() string {
	base := os.Getenv("VERIF_TMP")
	d, err := os.MkdirTemp(base, "lrverif")
	if err != nil {
		panic(err)
	}
	return d
}

// Start starts a server on dir (an existing dir means "restart"). A failing component makes the
// injector panic; Start returns that as an error.
func Start(dir string, o Opts) (s *Srv, err error) {
	// the listen address is probed and then released before the server binds it: another server (of a parallel worker or of
	// another harness process on the machine) can take the port in between. That is a property of this harness, not of the
	// code under test: such a start is repeated with another port.
	for attempt := 0; attempt < 8; attempt++ {
		s, err = start1(dir, o)
		if err == nil || !strings.Contains(err.Error(), "address already in use") {
			return s, err
		}
		time.Sleep(time.Duration(10*(attempt+1)) * time.Millisecond)
	}
	return s, err
}

func start1(dir string, o Opts) (s *Srv, err error) {
	cfg := server.GetDefaultConfig()
	cfg.BaseDir = dir
	cfg.PublicApiRpc.ListenAddr = freeAddr()
	cfg.JrnlCtrlConfig.WriteFlushMs = 2
	if o.WriteFlushMs > 0 {
		cfg.JrnlCtrlConfig.WriteFlushMs = o.WriteFlushMs
	}
	if o.WriteIdleSec > 0 {
		cfg.JrnlCtrlConfig.WriteIdleSec = o.WriteIdleSec
	}
	if o.MaxChunkSize > 0 {
		cfg.JrnlCtrlConfig.MaxChunkSize = int64(o.MaxChunkSize)
	}
	if o.MaxRecordSize > 0 {
		cfg.JrnlCtrlConfig.MaxRecordSize = int64(o.MaxRecordSize)
	}
	cfg.PipesConfig.Dir = path.Join(dir, "pipes")
	cfg.JrnlCtrlConfig.JournalsDir = path.Join(dir, "db")
	ctx, cancel := context.WithCancel(context.Background())
	s = &Srv{Dir: dir, Addr: cfg.PublicApiRpc.ListenAddr, Cfg: cfg, Ctx: ctx, cancel: cancel}
	s.Parts = partition.NewService()
	s.Journals = ctrlr.NewJournalController()
	s.TIndex = tindex.NewInmemService()
	s.TsIdx = tmindex.NewTsIndexer()
	s.Cursors = cursor.NewProvider()
	s.Pipes = pipe.NewService()
	s.Admin = backend.NewAdmin()
	s.Querier = backend.NewQuerier()
	s.ItF = cursor.NewItFactory()
	inj := linker.New()
	inj.SetLogger(log4g.GetLogger("injector"))
	inj.Register(
		linker.Component{Name: "HostRegistryConfig", Value: cfg},
		linker.Component{Name: "JournalControllerConfig", Value: &cfg.JrnlCtrlConfig},
		linker.Component{Name: "", Value: &cfg.PipesConfig},
		linker.Component{Name: "publicRpcTransport", Value: cfg.PublicApiRpc},
		linker.Component{Name: "tindexInMemCfg", Value: &tindex.InMemConfig{WorkingDir: path.Join(dir, "tindex")}},
		linker.Component{Name: "", Value: &tmindex.TsIndexerConfig{Dir: path.Join(dir, "cindex")}},
		linker.Component{Name: "mainCtx", Value: ctx},
		linker.Component{Name: "", Value: new(bytes.Pool)},
		linker.Component{Name: "", Value: inmem.New()},
		linker.Component{Name: "", Value: s.TIndex},
		linker.Component{Name: "", Value: s.Parts},
		linker.Component{Name: "", Value: s.ItF},
		linker.Component{Name: "", Value: s.TsIdx},
		linker.Component{Name: "", Value: s.Pipes},
		linker.Component{Name: "", Value: cmodel.NewHostRegistry()},
		linker.Component{Name: "", Value: cmodel.NewJournalCatalog()},
		linker.Component{Name: "", Value: rpc.NewServerIngestor()},
		linker.Component{Name: "", Value: rpc.NewServerQuerier()},
		linker.Component{Name: "", Value: rpc.NewServerAdmin()},
		linker.Component{Name: "", Value: rpc.NewServerPipes()},
		linker.Component{Name: "", Value: rpc.NewServer()},
		linker.Component{Name: "", Value: s.Journals},
		linker.Component{Name: "", Value: s.Cursors},
		linker.Component{Name: "", Value: s.Admin},
		linker.Component{Name: "", Value: s.Querier},
	)
	s.inj = inj
	func() {
		defer func() {
			if r := recover(); r != nil {
				err = fmt.Errorf("server refused to start: %v", r)
			}
		}()
		inj.Init(ctx)
	}()
	if err != nil {
		cancel()
		// release whatever the injector had initialised before the failing component
		func() {
			defer func() { recover() }()
			inj.Shutdown()
		}()
		return nil, err
	}
	if !o.NoRPC {
		var c *rpc.Client
		for i := 0; i < 2000; i++ {
			c, err = rpc.NewClient(transport.Config{ListenAddr: s.Addr})
			if err == nil {
				break
			}
			time.Sleep(5 * time.Millisecond)
		}
		if err != nil {
			s.Stop()
			return nil, fmt.Errorf("rpc client: %v", err)
		}
		s.Client = c
	}
	return s, nil
}

// Stop is a graceful shutdown (what cancelling server.Start's context does).
func (s *Srv) Stop() {
	if s == nil {
		return
	}
	s.mu.Lock()
	defer s.mu.Unlock()
	if s.stopped {
		return
	}
	s.stopped = true
	if s.Client != nil {
		s.Client.Close()
	}
	s.cancel()
	s.inj.Shutdown()
}

// FlushWait sleeps long enough for written records to become readable.
func (s *Srv) FlushWait() {
	time.Sleep(time.Duration(s.Cfg.JrnlCtrlConfig.WriteFlushMs*3+3) * time.Millisecond)
}

// Exec runs an admin statement through the loop-back RPC client; the error is the transport error or the
// operation error reported by the server.
func (s *Srv) Exec(q string) (string, error) {
	r, err := s.Client.Execute(context.Background(), api.ExecRequest{Query: q})
	if err != nil {
		return "", err
	}
	if r.Err != nil {
		return "", r.Err
	}
	return r.Output, nil
}
