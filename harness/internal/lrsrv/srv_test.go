//go:build verif

package lrsrv

import (
	"net"
	"os"
	"testing"
)

// a start that loses the race for its probed port is repeated on another port
func TestStartRetriesOnBusyPort(t *testing.T) {
	l, err := net.Listen("tcp", "127.0.0.1:0")
	if err != nil {
		t.Fatal(err)
	}
	defer l.Close()
	n := 0
	addrOverride = func() string {
		n++
		if n == 1 {
			return l.Addr().String() // busy
		}
		return ""
	}
	defer func() { addrOverride = nil }()
	dir := NewDir()
	defer os.RemoveAll(dir)
	s, err := Start(dir, Opts{})
	if err != nil {
		t.Fatalf("start: %v", err)
	}
	if s.Addr == l.Addr().String() {
		t.Fatal("bound the busy address?")
	}
	if _, err := s.Exec("show pipes"); err != nil {
		t.Fatal(err)
	}
	s.Stop()
	if n < 2 {
		t.Fatal("no retry happened")
	}
}
