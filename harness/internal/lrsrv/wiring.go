package lrsrv

import (
	"bytes"
	"fmt"
	"go/ast"
	"go/parser"
	"go/printer"
	"go/token"
	"os"
	"path/filepath"
	"strings"
)

// expectedWiring is the component list of server.Start that Start() above reproduces (name, value expression as
// written in server/server.go). The harness keeps references to some of the values instead of constructing them
// inline; apart from that the two lists must be the same, in the same order.
var expectedWiring = []string{
	`"HostRegistryConfig"|cfg`,
	`"JournalControllerConfig"|&cfg.JrnlCtrlConfig`,
	`""|&cfg.PipesConfig`,
	`"publicRpcTransport"|cfg.PublicApiRpc`,
	`"tindexInMemCfg"|imsCfg`,
	`""|tmidxCfg`,
	`"mainCtx"|ctx`,
	`""|new(bytes.Pool)`,
	`""|inmem.New()`,
	`""|tindex.NewInmemService()`,
	`""|partition.NewService()`,
	`""|cursor.NewItFactory()`,
	`""|tmindex.NewTsIndexer()`,
	`""|pipe.NewService()`,
	`""|model.NewHostRegistry()`,
	`""|model.NewJournalCatalog()`,
	`""|rpc.NewServerIngestor()`,
	`""|rpc.NewServerQuerier()`,
	`""|rpc.NewServerAdmin()`,
	`""|rpc.NewServerPipes()`,
	`""|rpc.NewServer()`,
	`""|ctrlr.NewJournalController()`,
	`""|cursor.NewProvider()`,
	`""|backend.NewAdmin()`,
	`""|backend.NewQuerier()`,
}

var expectedDirs = map[string]string{"tindexDir": `"tindex"`, "cindexDir": `"cindex"`, "pipeDir": `"pipes"`, "dbDir": `"db"`}

// RepoDir is the repository the harness was built against (VERIF_REPO, default /repo).
func RepoDir() string {
	if d := os.Getenv("VERIF_REPO"); d != "" {
		return d
	}
	return "/repo"
}

// CheckWiring re-reads server/server.go and compares the components server.Start registers (and the sub-directory
// names it derives from BaseDir) with what this package's Start wires. "" = same. A difference means the in-process
// server of the harness no longer is the server the repository builds, i.e. the correspondence is broken.
func CheckWiring() string {
	fset := token.NewFileSet()
	f, err := parser.ParseFile(fset, filepath.Join(RepoDir(), "server", "server.go"), nil, 0)
	if err != nil {
		return "cannot parse server/server.go: " + err.Error()
	}
	show := func(e ast.Expr) string {
		var b bytes.Buffer
		printer.Fprint(&b, fset, e)
		return b.String()
	}
	var got []string
	dirs := map[string]string{}
	ast.Inspect(f, func(n ast.Node) bool {
		switch x := n.(type) {
		case *ast.CompositeLit:
			if se, ok := x.Type.(*ast.SelectorExpr); ok && se.Sel.Name == "Component" {
				name, val := "", ""
				for _, el := range x.Elts {
					if kv, ok := el.(*ast.KeyValueExpr); ok {
						switch show(kv.Key) {
						case "Name":
							name = show(kv.Value)
						case "Value":
							val = show(kv.Value)
						}
					}
				}
				got = append(got, name+"|"+val)
			}
		case *ast.AssignStmt:
			// tindexDir := path.Join(cfg.BaseDir, "tindex")
			if len(x.Lhs) == 1 && len(x.Rhs) == 1 {
				if id, ok := x.Lhs[0].(*ast.Ident); ok {
					if c, ok := x.Rhs[0].(*ast.CallExpr); ok && show(c.Fun) == "path.Join" && len(c.Args) == 2 && show(c.Args[0]) == "cfg.BaseDir" {
						dirs[id.Name] = show(c.Args[1])
					}
				}
			}
		}
		return true
	})
	var diffs []string
	if strings.Join(got, "\n") != strings.Join(expectedWiring, "\n") {
		diffs = append(diffs, fmt.Sprintf("components registered by server.Start differ from the harness wiring:\n  server.go: %v\n  harness:   %v", got, expectedWiring))
	}
	for k, v := range expectedDirs {
		if dirs[k] != v {
			diffs = append(diffs, fmt.Sprintf("server.Start derives %s = %s, the harness uses %s", k, dirs[k], v))
		}
	}
	return strings.Join(diffs, "\n")
}
