// Package rdh is shared by the C03 and C16 harnesses: partitions with known content on the in-process
// server, their real chunk layout rendered for the Lean reading model, chunk-id and position translation.
package rdh

import (
	"context"
	"fmt"
	"io"
	"sort"
	"strconv"
	"strings"
	"time"

	"github.com/logrange/logrange/api"
	"github.com/logrange/logrange/pkg/model"
	"github.com/logrange/logrange/pkg/model/field"
	"github.com/logrange/logrange/pkg/model/tag"
	"github.com/logrange/logrange/pkg/partition"
	"github.com/logrange/range/pkg/records"
	"github.com/logrange/range/pkg/records/chunk"
	"github.com/logrange/range/pkg/records/journal"
	"verifharness/internal/lrsrv"
)

const TailCid = 1000000000
const MaxU32 = 4294967295

// Ev is one stored event: label (unique: partition*100000+seq), timestamp, and whether WHERE keeps it.
type Ev struct {
	Lbl  int   `json:"l"`
	Ts   int64 `json:"t"`
	Keep bool  `json:"k"`
	// Fld selects the event's fields: 0 = none, 1..3 = one field `code` with one of three values of EQUAL length
	// (so that consecutive events differ in field content only, not in any length)
	Fld int `json:"f,omitempty"`
}

var fldValues = []string{"", "code=200", "code=404", "code=500"}

// FieldsOf is the KV text of the event's fields, as the query API returns it.
func FieldsOf(e Ev) string {
	if e.Fld <= 0 || e.Fld >= len(fldValues) {
		return ""
	}
	return fldValues[e.Fld]
}

func Msg(e Ev) string {
	// fixed width: all messages have the same length, so the fields of consecutive records sit at the same offset
	if e.Keep {
		return fmt.Sprintf("k%06d", e.Lbl)
	}
	return fmt.Sprintf("d%06d", e.Lbl)
}

// ParseMsg gives the label of a delivered message (-1 when it is not one of ours).
func ParseMsg(m string) int {
	if len(m) < 2 || (m[0] != 'k' && m[0] != 'd') {
		return -1
	}
	n, err := strconv.Atoi(m[1:])
	if err != nil {
		return -1
	}
	return n
}

const WhereClause = ` where msg like "k*"`

type Part struct {
	Idx   int
	Tags  string
	Src   string
	Jr    journal.Journal
	Evs   []Ev
	order []chunk.Id
}

type World struct {
	Srv   *lrsrv.Srv
	Grp   string
	Parts []*Part
	Ctx   context.Context
	// FieldWhere: WHERE tests a FIELD (`fields:code = "200"`) instead of the message; the histories then give exactly the
	// kept events that field value and mix events with other values and events WITHOUT any fields among the rest
	FieldWhere bool
}

// FieldWhereClause is the WHERE of the field mode.
const FieldWhereClause = ` where fields:code = "200"`

// SetFieldMode makes `Keep` a statement about the event's fields: kept events carry code=200, the others carry another
// value or (pick even) no fields at all — a field-less event must not inherit the fields of a record visited before it.
func SetFieldMode(e *Ev, pick int) {
	if e.Keep {
		e.Fld = 1
		return
	}
	e.Fld = []int{0, 2, 0, 3}[pick%4]
}

type wit struct {
	evs []model.LogEvent
	i   int
}

func (m *wit) Next(ctx context.Context) { m.i++ }
func (m *wit) Get(ctx context.Context) (model.LogEvent, tag.Line, error) {
	if m.i >= len(m.evs) {
		return model.LogEvent{}, "", io.EOF
	}
	return m.evs[m.i], "", nil
}
func (m *wit) Release()                        {}
func (m *wit) SetBackward(bool)                {}
func (m *wit) CurrentPos() records.IteratorPos { return m.i }

func NewWorld(srv *lrsrv.Srv, grp string) *World {
	return &World{Srv: srv, Grp: grp, Ctx: context.Background()}
}

// Part returns partition i, creating the descriptor (not the partition) when needed.
func (w *World) Part(i int) *Part {
	for len(w.Parts) <= i {
		k := len(w.Parts)
		w.Parts = append(w.Parts, &Part{Idx: k, Tags: fmt.Sprintf("grp=%s,p=%d", w.Grp, k)})
	}
	return w.Parts[i]
}

// Write appends events to partition i (creating it) and waits until they are readable.
func (w *World) Write(i int, evs []Ev) error {
	p := w.Part(i)
	les := make([]model.LogEvent, len(evs))
	for k, e := range evs {
		les[k] = model.LogEvent{Timestamp: e.Ts, Msg: []byte(Msg(e))}
		if f := FieldsOf(e); f != "" {
			fl, err := field.NewFieldsFromKVString(f)
			if err != nil {
				return err
			}
			les[k].Fields = fl
		}
	}
	var werr error
	func() {
		// the library's journal controller dereferences a nil holder when it cannot create a journal: report, do not crash
		defer func() {
			if r := recover(); r != nil {
				src, _, e2 := w.Srv.TIndex.GetOrCreateJournal(p.Tags)
				werr = fmt.Errorf("partition.Service.Write panicked for tags %q (journal %q, %v): %v", p.Tags, src, e2, r)
			}
		}()
		werr = w.Srv.Parts.Write(w.Ctx, p.Tags, &wit{evs: les}, true)
	}()
	if werr != nil {
		return werr
	}
	p.Evs = append(p.Evs, evs...)
	if p.Jr == nil {
		src, _, err := w.Srv.TIndex.GetOrCreateJournal(p.Tags)
		if err != nil {
			return err
		}
		p.Src = src
		p.Jr, err = w.Srv.Journals.GetOrCreate(w.Ctx, src)
		w.Srv.TIndex.Release(src)
		if err != nil {
			return err
		}
	}
	for k := 0; k < 2000 && int(p.Jr.Count()) < len(p.Evs); k++ {
		time.Sleep(time.Millisecond)
	}
	if int(p.Jr.Count()) < len(p.Evs) {
		return fmt.Errorf("written records did not become readable: %d of %d", p.Jr.Count(), len(p.Evs))
	}
	return nil
}

// Exists tells whether partition i has been written.
func (w *World) Exists(i int) bool { return i < len(w.Parts) && w.Parts[i].Jr != nil }

func (p *Part) chunks(ctx context.Context) chunk.Chunks {
	cks, _ := p.Jr.Chunks().Chunks(ctx)
	for _, c := range cks {
		known := false
		for _, o := range p.order {
			if o == c.Id() {
				known = true
			}
		}
		if !known {
			p.order = append(p.order, c.Id())
		}
	}
	return cks
}

// Counts returns the record counts of the chunks, in order.
func (w *World) Counts(i int) []int {
	p := w.Parts[i]
	var r []int
	for _, c := range p.chunks(w.Ctx) {
		r = append(r, int(c.Count()))
	}
	return r
}

// Layout renders `src <i> <chunk>*` for the model; rng != nil adds the real selector's windows for that range.
func (w *World) Layout(i int, rng *model.TimeRange) string {
	p := w.Parts[i]
	cks := p.chunks(w.Ctx)
	var win [][3]uint32
	if rng != nil {
		_, win = partition.VerifChunkWindows(w.Ctx, *rng, p.Jr, w.Srv.TsIdx, w.Srv.Parts.GetTmIndexRebuilder())
	}
	var sb strings.Builder
	fmt.Fprintf(&sb, "src %d", i)
	k := 0
	for ci, c := range cks {
		mn, mx := uint32(0), uint32(MaxU32)
		if rng != nil && ci < len(win) {
			mn, mx = win[ci][0], win[ci][1]
		}
		fmt.Fprintf(&sb, " %d;%d;%d;", w.Dense(i, c.Id()), mn, mx)
		n := int(c.Count())
		for r := 0; r < n && k < len(p.Evs); r++ {
			if r > 0 {
				sb.WriteByte(',')
			}
			e := p.Evs[k]
			kp := 0
			if e.Keep {
				kp = 1
			}
			fmt.Fprintf(&sb, "%d/%d/%d", e.Lbl, e.Ts, kp)
			k++
		}
	}
	return sb.String()
}

// Dense maps a real chunk id (or a neighbour of one, as advanceChunk produces) to the model's id.
func (w *World) Dense(i int, id chunk.Id) int {
	p := w.Parts[i]
	p.chunks(w.Ctx)
	for k, o := range p.order {
		switch id {
		case o:
			return (k + 1) * 10
		case o + 1:
			return (k+1)*10 + 1
		case o - 1:
			return (k+1)*10 - 1
		}
	}
	if id == 0 {
		return 0
	}
	if id == 0xFFFFFFFFFFFFFFFF {
		return TailCid
	}
	return -1
}

// Real is the inverse of Dense.
func (w *World) Real(i int, d int) chunk.Id {
	p := w.Parts[i]
	p.chunks(w.Ctx)
	if d == 0 {
		return 0
	}
	if d == TailCid {
		return 0xFFFFFFFFFFFFFFFF
	}
	k := (d+1)/10 - 1
	r := (d+1)%10 - 1
	if k < 0 || k >= len(p.order) {
		return 0
	}
	return chunk.Id(int64(p.order[k]) + int64(r))
}

func (w *World) bySrc(src string) int {
	for _, p := range w.Parts {
		if p.Src == src {
			return p.Idx
		}
	}
	return -1
}

// PosToModel turns a cursor position text (`name=pos:name=pos`) into the model's `<i>:<cid>:<idx>,…` sorted by i.
func (w *World) PosToModel(pos string) string {
	switch strings.ToLower(pos) {
	case "":
		return "empty"
	case "head", "tail":
		return strings.ToLower(pos)
	}
	type it struct {
		i int
		s string
	}
	var items []it
	for _, kv := range strings.Split(pos, ":") {
		pr := strings.Split(kv, "=")
		if len(pr) != 2 {
			return "bad:" + pos
		}
		i := w.bySrc(pr[0])
		jp, err := journal.ParsePos(pr[1])
		if i < 0 || err != nil {
			return "bad:" + pos
		}
		items = append(items, it{i, fmt.Sprintf("%d:%d:%d", i, w.Dense(i, jp.CId), jp.Idx)})
	}
	sort.Slice(items, func(a, b int) bool { return items[a].i < items[b].i })
	ss := make([]string, len(items))
	for k, x := range items {
		ss[k] = x.s
	}
	return strings.Join(ss, ",")
}

// PartPos is one partition's entry of a cursor position text, resolved against the real chunk layout.
type PartPos struct {
	Part  int  // partition index
	Chunk int  // index of the chunk in the partition's chunk list (-1: the id names no existing chunk)
	Idx   int  // record index inside the chunk, as written in the text
	Count int  // number of records of that chunk (0 when Chunk < 0)
	Last  bool // the chunk is the last one of the partition
}

// ParsePosText splits a cursor position text (`name=pos:name=pos`) into per-partition entries; ok is false for
// head/tail/empty and for texts that do not parse.
func (w *World) ParsePosText(pos string) (r []PartPos, ok bool) {
	switch strings.ToLower(pos) {
	case "", "head", "tail":
		return nil, false
	}
	for _, kv := range strings.Split(pos, ":") {
		pr := strings.Split(kv, "=")
		if len(pr) != 2 {
			return nil, false
		}
		i := w.bySrc(pr[0])
		jp, err := journal.ParsePos(pr[1])
		if i < 0 || err != nil {
			return nil, false
		}
		pp := PartPos{Part: i, Chunk: -1, Idx: int(jp.Idx)}
		cks := w.Parts[i].chunks(w.Ctx)
		for k, c := range cks {
			if c.Id() == jp.CId {
				pp.Chunk, pp.Count, pp.Last = k, int(c.Count()), k == len(cks)-1
			}
		}
		r = append(r, pp)
	}
	sort.Slice(r, func(a, b int) bool { return r[a].Part < r[b].Part })
	return r, true
}

// Locate gives the chunk index and the index inside that chunk of the seq-th record of partition i.
func (w *World) Locate(i, seq int) (chunkIdx, idx int, ok bool) {
	for k, n := range w.Counts(i) {
		if seq < n {
			return k, seq, true
		}
		seq -= n
	}
	return 0, 0, false
}

// PosText builds a cursor position text from per-partition positions given in the model's vocabulary.
func (w *World) PosText(m map[int][2]int) string {
	var keys []int
	for i := range m {
		keys = append(keys, i)
	}
	sort.Ints(keys)
	var ss []string
	for _, i := range keys {
		ss = append(ss, w.Parts[i].Src+"="+journal.Pos{CId: w.Real(i, m[i][0]), Idx: uint32(m[i][1])}.String())
	}
	return strings.Join(ss, ":")
}

// Query text for this world.
func (w *World) Query(where bool, rng *[2]int64) string {
	q := "select from grp=" + w.Grp
	if rng != nil {
		q += fmt.Sprintf(` range ["%d":"%d"]`, rng[0], rng[1])
	}
	if where {
		if w.FieldWhere {
			q += FieldWhereClause
		} else {
			q += WhereClause
		}
	}
	return q
}

// Matches is the reference meaning of WHERE and RANGE on one event.
func Matches(e Ev, where bool, rng *[2]int64) bool {
	if where && !e.Keep {
		return false
	}
	if rng != nil && (e.Ts < rng[0] || e.Ts > rng[1]) {
		return false
	}
	return true
}

// PartOf tells which partition a label belongs to.
func PartOf(lbl int) int { return lbl / 100000 }

// IntsStr renders labels like the driver does.
func IntsStr(xs []int) string {
	if len(xs) == 0 {
		return "-"
	}
	ss := make([]string, len(xs))
	for i, x := range xs {
		ss[i] = strconv.Itoa(x)
	}
	return strings.Join(ss, ",")
}

// PosToModelStart renders a start position ("" / head / tail) for the model.
func PosToModelStart(pos string) string {
	if pos == "" {
		return "empty"
	}
	return strings.ToLower(pos)
}

// TagLine is the tag line the query API reports for events of partition i.
func (w *World) TagLine(i int) string {
	ts, err := tag.Parse(w.Parts[i].Tags)
	if err != nil {
		return w.Parts[i].Tags
	}
	return string(ts.Line())
}

// Verify compares a delivered event with what was written under its label: timestamp, message, tags and
// fields. "" = identical; otherwise a description of the first difference.
func (w *World) Verify(e *api.LogEvent) string {
	lbl := ParseMsg(e.Message)
	if lbl < 0 {
		return fmt.Sprintf("foreign message %q", e.Message)
	}
	p, idx := PartOf(lbl), lbl%100000
	if p >= len(w.Parts) || idx >= len(w.Parts[p].Evs) {
		return fmt.Sprintf("event %d was never written", lbl)
	}
	ev := w.Parts[p].Evs[idx]
	switch {
	case e.Message != Msg(ev):
		return fmt.Sprintf("event %d: message %q, written %q", lbl, e.Message, Msg(ev))
	case e.Timestamp != ev.Ts:
		return fmt.Sprintf("event %d: timestamp %d, written %d", lbl, e.Timestamp, ev.Ts)
	case e.Fields != FieldsOf(ev):
		return fmt.Sprintf("event %d: fields %q, written %q", lbl, e.Fields, FieldsOf(ev))
	case e.Tags != w.TagLine(p):
		return fmt.Sprintf("event %d: tags %q, partition has %q", lbl, e.Tags, w.TagLine(p))
	}
	return ""
}

// VerifyAll verifies a page; it returns the first difference.
func (w *World) VerifyAll(evs []*api.LogEvent) string {
	for _, e := range evs {
		if d := w.Verify(e); d != "" {
			return d
		}
	}
	return ""
}
