// Package vh is the shared part of the verification harness: seeded PRNG, the line protocol to the
// Lean model driver, the result file every per-property harness binary writes, and small helpers.
//
// A per-property harness binary (cmd/cNN) is started by /verif/check as
//
//	cNN -tier quick|thorough -seed N -driver <lrmodel_cNN> -out <result.json> -corpus <dir> [-replay <file>]
//
// and reports what it did as one JSON document (type Result). It never decides the verdict: it lists
// IMPL-vs-MODEL mismatches (correspondence) and IMPL-vs-SPEC failures (property search); the
// orchestrator classifies them against known_findings.json and the proof obligations.
package vh

import (
	"bufio"
	"encoding/hex"
	"encoding/json"
	"flag"
	"fmt"
	"io"
	"io/ioutil"
	"os"
	"os/exec"
	"path/filepath"
	"sort"
	"strings"
	"sync"
	"time"
)

// ---------------------------------------------------------------------------------------------
// PRNG: splitmix64. Every random choice of a harness derives from one of these, seeded by VERIF_SEED.

type Rng struct{ s uint64 }

func NewRng(seed int64) *Rng { return &Rng{s: uint64(seed)*0x9E3779B97F4A7C15 + 0x1234567} }

func (r *Rng) U64() uint64 {
	r.s += 0x9E3779B97F4A7C15
	z := r.s
	z = (z ^ (z >> 30)) * 0xBF58476D1CE4E5B9
	z = (z ^ (z >> 27)) * 0x94D049BB133111EB
	return z ^ (z >> 31)
}

// Intn returns a value in [0,n); n<=0 gives 0.
func (r *Rng) Intn(n int) int {
	if n <= 0 {
		return 0
	}
	return int(r.U64() % uint64(n))
}

// Range returns a value in [lo,hi].
func (r *Rng) Range(lo, hi int) int { return lo + r.Intn(hi-lo+1) }
func (r *Rng) Bool() bool           { return r.U64()&1 == 1 }

// Chance is true with probability num/den.
func (r *Rng) Chance(num, den int) bool { return r.Intn(den) < num }
func (r *Rng) PickS(xs []string) string { return xs[r.Intn(len(xs))] }
func (r *Rng) PickI(xs []int) int       { return xs[r.Intn(len(xs))] }
func (r *Rng) PickI64(xs []int64) int64 { return xs[r.Intn(len(xs))] }

// Fork gives an independent stream (so that adding draws in one section does not shift another).
func (r *Rng) Fork(label string) *Rng {
	h := uint64(1469598103934665603)
	for i := 0; i < len(label); i++ {
		h = (h ^ uint64(label[i])) * 1099511628211
	}
	return &Rng{s: r.s ^ h}
}

// Perm returns a permutation of 0..n-1.
func (r *Rng) Perm(n int) []int {
	p := make([]int, n)
	for i := range p {
		p[i] = i
	}
	for i := n - 1; i > 0; i-- {
		j := r.Intn(i + 1)
		p[i], p[j] = p[j], p[i]
	}
	return p
}

// ---------------------------------------------------------------------------------------------
// hex transport ("-" is the empty string)

func Hx(b []byte) string {
	if len(b) == 0 {
		return "-"
	}
	return hex.EncodeToString(b)
}
func HxS(s string) string { return Hx([]byte(s)) }
func UnHx(s string) []byte {
	if s == "-" || s == "" {
		return nil
	}
	b, err := hex.DecodeString(s)
	if err != nil {
		panic("bad hex from driver: " + s)
	}
	return b
}

// ---------------------------------------------------------------------------------------------
// Lean model driver

type Driver struct {
	path string
	cmd  *exec.Cmd
	in   io.WriteCloser
	w    *bufio.Writer
	r    *bufio.Reader
	mu   sync.Mutex
}

// Batch runs the driver once over all lines and returns one answer line per request line.
func Batch(path string, lines []string) ([]string, error) {
	if len(lines) == 0 {
		return nil, nil
	}
	cmd := exec.Command(path)
	in, err := cmd.StdinPipe()
	if err != nil {
		return nil, err
	}
	outp, err := cmd.StdoutPipe()
	if err != nil {
		return nil, err
	}
	cmd.Stderr = os.Stderr
	if err := cmd.Start(); err != nil {
		return nil, err
	}
	go func() {
		w := bufio.NewWriterSize(in, 1<<20)
		for _, l := range lines {
			w.WriteString(l)
			w.WriteByte('\n')
		}
		w.Flush()
		in.Close()
	}()
	rd := bufio.NewReaderSize(outp, 1<<20)
	res := make([]string, 0, len(lines))
	for range lines {
		l, err := rd.ReadString('\n')
		if err != nil {
			cmd.Wait()
			return res, fmt.Errorf("driver %s ended after %d of %d answers: %v", filepath.Base(path), len(res), len(lines), err)
		}
		res = append(res, strings.TrimRight(l, "\n"))
	}
	io.Copy(ioutil.Discard, rd)
	cmd.Wait()
	return res, nil
}

// Open starts an interactive driver (the driver flushes after every line).
func Open(path string) (*Driver, error) {
	cmd := exec.Command(path, "-i")
	in, err := cmd.StdinPipe()
	if err != nil {
		return nil, err
	}
	outp, err := cmd.StdoutPipe()
	if err != nil {
		return nil, err
	}
	cmd.Stderr = os.Stderr
	if err := cmd.Start(); err != nil {
		return nil, err
	}
	return &Driver{path: path, cmd: cmd, in: in, w: bufio.NewWriter(in), r: bufio.NewReaderSize(outp, 1<<20)}, nil
}

// Ask sends one line and waits for its answer.
func (d *Driver) Ask(line string) string {
	d.mu.Lock()
	defer d.mu.Unlock()
	d.w.WriteString(line)
	d.w.WriteByte('\n')
	d.w.Flush()
	l, err := d.r.ReadString('\n')
	if err != nil {
		return "DRIVER-ERROR " + err.Error()
	}
	return strings.TrimRight(l, "\n")
}

func (d *Driver) Close() {
	d.in.Close()
	d.cmd.Wait()
}

// ---------------------------------------------------------------------------------------------
// result file

type Mismatch struct {
	Section  string      `json:"section"`
	Function string      `json:"function"`
	Input    interface{} `json:"input"`
	Impl     string      `json:"impl"`
	Model    string      `json:"model"`
}

type SpecFailure struct {
	Section     string      `json:"section"`
	Kind        string      `json:"kind"` // failure kind: hidden-event, not-sorted, panic, hang, ...
	Input       interface{} `json:"input"`
	Impl        string      `json:"impl"`
	Spec        string      `json:"spec"`
	Model       string      `json:"model,omitempty"`
	ImplEqModel bool        `json:"impl_eq_model"`
	Finding     string      `json:"finding,omitempty"` // id of the known-finding class this failure falls in ("" = none)
	What        string      `json:"what"`
}

type Section struct {
	Name               string         `json:"name"`
	Kind               string         `json:"kind"` // unit-correspondence | system-correspondence | spec-search | corpus | stress
	Evaluations        int            `json:"evaluations"`
	DistinctNontrivial int            `json:"distinct_nontrivial"`
	Exhaustive         bool           `json:"exhaustive,omitempty"`
	Rule               string         `json:"rule"`
	Distribution       map[string]int `json:"distribution,omitempty"`
	WallS              float64        `json:"wall_s"`
}

type Result struct {
	Property     string        `json:"property"`
	Tier         string        `json:"tier"`
	Seed         int64         `json:"seed"`
	Sections     []*Section    `json:"sections"`
	Samples      []interface{} `json:"samples"`
	Mismatches   []Mismatch    `json:"mismatches"`
	SpecFailures []SpecFailure `json:"spec_failures"`
	Notes        []string      `json:"notes,omitempty"`
	Error        string        `json:"error,omitempty"` // harness could not run (infrastructure)
	WallS        float64       `json:"wall_s"`

	mu     sync.Mutex
	seen   map[string]map[string]bool
	starts map[string]time.Time
	t0     time.Time
}

type Args struct {
	Tier, Driver, Out, Corpus, Replay string
	Seed                              int64
	Thorough                          bool
}

func ParseArgs() Args {
	var a Args
	flag.StringVar(&a.Tier, "tier", "quick", "quick|thorough")
	flag.Int64Var(&a.Seed, "seed", 1, "VERIF_SEED")
	flag.StringVar(&a.Driver, "driver", "", "path of the Lean model driver")
	flag.StringVar(&a.Out, "out", "", "result file")
	flag.StringVar(&a.Corpus, "corpus", "", "corpus directory")
	flag.StringVar(&a.Replay, "replay", "", "replay file")
	flag.Parse()
	a.Thorough = a.Tier == "thorough"
	return a
}

func NewResult(prop string, a Args) *Result {
	return &Result{Property: prop, Tier: a.Tier, Seed: a.Seed, seen: map[string]map[string]bool{}, starts: map[string]time.Time{},
		Mismatches: []Mismatch{}, SpecFailures: []SpecFailure{}, Samples: []interface{}{}, t0: time.Now()}
}

func (r *Result) Section(name, kind, rule string) *Section {
	r.mu.Lock()
	defer r.mu.Unlock()
	for _, s := range r.Sections {
		if s.Name == name {
			return s
		}
	}
	s := &Section{Name: name, Kind: kind, Rule: rule, Distribution: map[string]int{}}
	r.Sections = append(r.Sections, s)
	r.seen[name] = map[string]bool{}
	r.starts[name] = time.Now()
	return s
}

// Eval counts one evaluated case in a section; key != "" marks it non-trivial, distinct by key.
func (r *Result) Eval(s *Section, nontrivialKey string) {
	r.mu.Lock()
	s.Evaluations++
	if nontrivialKey != "" {
		m := r.seen[s.Name]
		if !m[nontrivialKey] {
			// keep memory bounded: hash long keys
			m[nontrivialKey] = true
			s.DistinctNontrivial++
		}
	}
	r.mu.Unlock()
}

func (r *Result) Dist(s *Section, key string) {
	r.mu.Lock()
	s.Distribution[key]++
	r.mu.Unlock()
}

func (r *Result) Done(s *Section) {
	r.mu.Lock()
	s.WallS = time.Since(r.starts[s.Name]).Seconds()
	r.mu.Unlock()
}

func (r *Result) Sample(x interface{}) {
	r.mu.Lock()
	if len(r.Samples) < 12 {
		r.Samples = append(r.Samples, x)
	}
	r.mu.Unlock()
}

func (r *Result) Mismatch(m Mismatch) {
	r.mu.Lock()
	if len(r.Mismatches) < 50 {
		r.Mismatches = append(r.Mismatches, m)
	}
	r.mu.Unlock()
}

func (r *Result) SpecFail(f SpecFailure) {
	r.mu.Lock()
	// keep at most 5 per (finding, kind) so that a frequent known class does not hide a new one
	n := 0
	for _, x := range r.SpecFailures {
		if x.Finding == f.Finding && x.Kind == f.Kind && x.Section == f.Section {
			n++
		}
	}
	if n < 5 {
		r.SpecFailures = append(r.SpecFailures, f)
	}
	r.mu.Unlock()
}

func (r *Result) Note(format string, a ...interface{}) {
	r.mu.Lock()
	r.Notes = append(r.Notes, fmt.Sprintf(format, a...))
	r.mu.Unlock()
}

func (r *Result) Write(path string) {
	r.WallS = time.Since(r.t0).Seconds()
	b, err := json.MarshalIndent(r, "", " ")
	if err != nil {
		panic(err)
	}
	if path == "" {
		os.Stdout.Write(b)
		return
	}
	if err := ioutil.WriteFile(path, b, 0644); err != nil {
		panic(err)
	}
}

// Fatal records an infrastructure error (not a verdict) and ends the harness.
func (r *Result) Fatal(out string, format string, a ...interface{}) {
	r.Error = fmt.Sprintf(format, a...)
	r.Write(out)
	os.Exit(3)
}

// ---------------------------------------------------------------------------------------------
// corpus: minimised past failures, one JSON document per file, replayed first on every run

func CorpusFiles(dir string) []string {
	fs, _ := filepath.Glob(filepath.Join(dir, "*.json"))
	sort.Strings(fs)
	return fs
}

func ReadJSON(path string, v interface{}) error {
	b, err := ioutil.ReadFile(path)
	if err != nil {
		return err
	}
	return json.Unmarshal(b, v)
}

// Recover runs f and turns a panic into a string ("" = no panic).
func Recover(f func()) (p string) {
	defer func() {
		if r := recover(); r != nil {
			p = fmt.Sprint(r)
		}
	}()
	f()
	return ""
}

// WithTimeout runs f in a goroutine; false = it did not finish in time (the goroutine is abandoned).
func WithTimeout(d time.Duration, f func()) bool {
	done := make(chan struct{})
	go func() { defer close(done); f() }()
	select {
	case <-done:
		return true
	case <-time.After(d):
		return false
	}
}
