// C07 harness — stored state survives restart, including crash-shaped on-disk states.
//
// Sections
//
//	corpus     witnesses of the open findings (F05 window/torn, F06, F07, F33 crash/clean, F41) and minimised past failures
//	unit       codec contract of encoding/json on the four persisted files (every strict prefix fails to decode, the whole
//	           file decodes, registry and position files do not decode as each other); persister.pipeFileName vs the model's
//	           file-name function; the model's step list of the tag-index save vs what the real save leaves on disk
//	graceful   system histories (writes with monotone tied timestamps over several partitions and tiny chunks, pipe
//	           create/delete, truncates) with graceful Stop/Start at generated moments (also right after an acknowledgement);
//	           after every restart the SPEC oracle (full reads, RANGE probes, SHOW PARTITIONS/PIPES, DESCRIBE PIPE, pipe
//	           positions, no duplicates in pipe partitions) and the MODEL comparison
//	crash      constructed crash images of running servers: plain copy, every cut of the tag-index save, of the shutdown
//	           saves (pipes.dat, cindex.dat) and of a position save, snapshot missing/torn/stale, tree files
//	           missing/zeroed/cut in half; a second in-process server is started on each image; repeated crash/restart sequences
//
// The harness never decides the verdict: IMPL≠MODEL is a Mismatch, IMPL-vs-SPEC is a SpecFail, attributed to an open
// finding only when the model shows the same behaviour, the class predicate (evaluated by the model driver) holds and
// the failure kind matches.
package main

import (
	"context"
	"encoding/json"
	"fmt"
	"io"
	"io/ioutil"
	"math"
	"os"
	"os/exec"
	"path/filepath"
	"runtime/debug"
	"sort"
	"strconv"
	"strings"
	"sync"
	"syscall"
	"time"

	"github.com/logrange/logrange/api"
	"github.com/logrange/logrange/pkg/lql"
	"github.com/logrange/logrange/pkg/model"
	"github.com/logrange/logrange/pkg/model/tag"
	"github.com/logrange/logrange/pkg/partition"
	"github.com/logrange/logrange/pkg/pipe"
	"github.com/logrange/logrange/pkg/utils/verifhook"
	"github.com/logrange/range/pkg/records"
	"github.com/logrange/range/pkg/records/journal"
	"verifharness/internal/lrsrv"
	"verifharness/internal/vh"
)

var (
	args vh.Args
	res  *vh.Result
)

// ---------------------------------------------------------------------------------------------
// inputs

type hop struct {
	Kind    string `json:"kind"` // write | writeooo | mkpipe | rmpipe | truncate | restart
	Part    int    `json:"part,omitempty"`
	N       int    `json:"n,omitempty"`
	Name    string `json:"name,omitempty"`
	Sel     string `json:"sel,omitempty"`     // pipe source condition
	Quiesce bool   `json:"quiesce,omitempty"` // restart: wait for the pipes to catch up before stopping
}

type crashSpec struct {
	Kind string `json:"kind"` // image | tindex-cut | stop-cut | pipesave-cut | mkpipe-cut | rmpipe-cut | snap-missing | snap-torn | tree-missing | tree-zero-intact | tree-zero | tree-half | pipeinfo-torn
	K    int    `json:"k,omitempty"`
	Len  string `json:"len,omitempty"`  // 0 | 1 | h | m | f
	Pipe string `json:"pipe,omitempty"` // pipesave-cut, pipeinfo-torn
	// what follows the first crash start: each element is "crash" (plain image of the started server) or "restart"
	Then []string `json:"then,omitempty"`
}

type scase struct {
	ChunkSize int        `json:"chunk_size"`
	Ops       []hop      `json:"ops"`
	Crash     *crashSpec `json:"crash,omitempty"`
	// Rounds: a corpus case whose failure was schedule-dependent is replayed this many times (thorough: twice as often)
	Rounds int `json:"rounds,omitempty"`
	// FlushMs: the chunk writers' flush period (default 2 ms). With a long period a stop right after an acknowledgement
	// comes before the timer, so only a shutdown that syncs the journals keeps the events (finding F42, repaired)
	FlushMs int `json:"flush_ms,omitempty"`
	// Utf8: a case of the section utf8 (utf8.go) instead of Ops
	Utf8 *utf8Case `json:"utf8,omitempty"`
	// Conc: a case of the sections busystop / ack (conc.go) instead of Ops; they use process-wide hooks and run one at a time
	Conc *concCase `json:"conc,omitempty"`
}

// ---------------------------------------------------------------------------------------------
// simulation state (the SPEC side is plain Go data)

type ev struct {
	Ts  int64
	Msg string
}

type chunkL struct {
	id    uint64
	dense int
	n     int
}

type part struct {
	lastWrite int    // opSeq of the last acknowledged write
	tags      string // canonical tag line
	src       string // real journal id
	dense     string // model journal id
	events    []ev   // acknowledged + flushed events, in order (for pipe partitions: what was read back at the last sync)
	chunks    []chunkL
	dest      bool
	lastTs    int64
	seq       int
	// ooo: windows of out-of-order timestamps (far above everything written before and after) written by "writeooo"
	ooo [][2]int64
}

type sim struct {
	sec   string
	in    interface{}
	dir   string
	srv   *lrsrv.Srv
	opts  lrsrv.Opts
	drv   *vh.Driver
	log   []string // state-changing model lines so far (for forks)
	parts map[string]*part
	pipes map[string]pipe.Pipe // acknowledged, not deleted
	// pipes ever deleted (a crash may resurrect them)
	deleted    map[string]bool
	chunkDense map[uint64]int
	nextChunk  int
	nextSrc    int
	opSeq      int            // counts writes / starts / pipe creations
	startSeq   int            // opSeq at the last server start
	pipeSince  map[string]int // opSeq at which a pipe was created
	// lastPos: the positions last reported to the model per pipe. savePipeInfo runs only when a worker made progress; since
	// the registry is rewritten on every create/delete, the ORDER of position saves and registry saves matters for a pipe
	// whose position file is the registry file, so a position save is reported only when the positions changed
	lastPos map[string]string
	// treeDamaged: the image has zero-filled / cut tree files AND the snapshot that refers to them (class of the repaired
	// finding F47; cindex.init now forgets such roots, so the comparison with the model is strict again)
	treeDamaged bool
	noOoo       bool // a plain crash image after the out-of-order window: its first access is a read (lightFill on a non-monotone chunk = C02's class), the window probe does not apply
	crashMode   bool // the running server was started on a crash image
	dead        bool // the server refused to start / infrastructure problem: stop the case
	sect        *vh.Section
}

func newSim(sec string, sect *vh.Section, in interface{}, chunkSize int) *sim {
	flushMs := 0
	if c, ok := in.(scase); ok {
		flushMs = c.FlushMs
	}
	s := &sim{sec: sec, sect: sect, in: in, dir: lrsrv.NewDir(), opts: lrsrv.Opts{MaxChunkSize: chunkSize, WriteFlushMs: flushMs},
		parts: map[string]*part{}, pipes: map[string]pipe.Pipe{}, deleted: map[string]bool{}, chunkDense: map[uint64]int{}, nextChunk: 1}
	d, err := vh.Open(args.Driver)
	if err != nil {
		res.Fatal(args.Out, "driver: %v", err)
	}
	s.drv = d
	s.model("reset", true)
	return s
}

func (s *sim) close() {
	if s.srv != nil {
		s.srv.Stop()
		s.srv = nil
	}
	if s.drv != nil {
		s.drv.Close()
	}
	os.RemoveAll(s.dir)
}

// model sends one line; state-changing lines are logged for forks
func (s *sim) model(line string, changes bool) string {
	if changes {
		s.log = append(s.log, line)
	}
	return s.drv.Ask(line)
}

// expect compares the model's answer with the implementation's
func (s *sim) expect(line string, changes bool, impl, fn string) string {
	ans := s.model(line, changes)
	if ans != impl {
		res.Mismatch(vh.Mismatch{Section: s.sec, Function: fn + ": " + line, Input: s.in, Impl: impl, Model: ans})
	}
	return ans
}

func (s *sim) specFail(kind, what, impl, spec, model string, eq bool, finding string) {
	res.SpecFail(vh.SpecFailure{Section: s.sec, Kind: kind, Input: s.in, Impl: impl, Spec: spec, Model: model, ImplEqModel: eq, Finding: finding, What: what})
}

// fork: a copy of the simulation on a copy of the directory (the server is NOT started), with its own model driver
func (s *sim) fork(dir string) *sim {
	c := &sim{sec: s.sec, sect: s.sect, in: s.in, dir: dir, opts: s.opts, parts: map[string]*part{}, pipes: map[string]pipe.Pipe{},
		deleted: map[string]bool{}, chunkDense: map[uint64]int{}, nextChunk: s.nextChunk, nextSrc: s.nextSrc, treeDamaged: s.treeDamaged, opSeq: s.opSeq, noOoo: s.noOoo}
	for k, p := range s.parts {
		q := *p
		q.events = append([]ev{}, p.events...)
		q.chunks = append([]chunkL{}, p.chunks...)
		c.parts[k] = &q
	}
	for k, v := range s.pipes {
		c.pipes[k] = v
	}
	for k, v := range s.deleted {
		c.deleted[k] = v
	}
	c.lastPos = map[string]string{}
	for k, v := range s.lastPos {
		c.lastPos[k] = v
	}
	for k, v := range s.chunkDense {
		c.chunkDense[k] = v
	}
	d, err := vh.Open(args.Driver)
	if err != nil {
		res.Fatal(args.Out, "driver: %v", err)
	}
	c.drv = d
	for _, l := range s.log {
		c.model(l, true)
	}
	return c
}

func copyDir(src, dst string) error {
	out, err := exec.Command("cp", "-a", src, dst).CombinedOutput()
	if err != nil {
		return fmt.Errorf("cp -a: %v %s", err, out)
	}
	return nil
}

// ---------------------------------------------------------------------------------------------
// observing the implementation

func hexList(xs []string) string {
	if len(xs) == 0 {
		return "."
	}
	c := append([]string{}, xs...)
	sort.Strings(c)
	h := make([]string, len(c))
	for i, x := range c {
		h[i] = vh.HxS(x)
	}
	return strings.Join(h, ",")
}

func (s *sim) implParts() map[string]string { // tag line -> src
	m := map[string]string{}
	s.srv.TIndex.Visit(nil, func(tags tag.Set, src string) bool {
		m[tags.Line().String()] = src
		return true
	}, 0)
	return m
}

func (s *sim) implPipeNames() []string {
	var ns []string
	for _, p := range s.srv.Pipes.GetPipes() {
		ns = append(ns, p.Name)
	}
	return ns
}

func (s *sim) query(q string) ([]ev, error) {
	var out []ev
	r := &api.QueryResult{}
	err := s.srv.Client.Query(context.Background(), &api.QueryRequest{Query: q, Limit: 9000}, r)
	if err != nil {
		return nil, err
	}
	if r.Err != nil {
		return nil, r.Err
	}
	for _, e := range r.Events {
		out = append(out, ev{e.Timestamp, string(append([]byte{}, e.Message...))})
	}
	return out, nil
}

func fromOf(tags string) string { return "{" + tags + "}" }

func evsStr(es []ev) string {
	if len(es) > 12 {
		return fmt.Sprintf("%d events %v … %v", len(es), es[:4], es[len(es)-4:])
	}
	return fmt.Sprint(es)
}

func sameEvs(a, b []ev) bool {
	if len(a) != len(b) {
		return false
	}
	for i := range a {
		if a[i] != b[i] {
			return false
		}
	}
	return true
}

func tsList(es []ev) string {
	if len(es) == 0 {
		return "."
	}
	x := make([]string, len(es))
	for i, e := range es {
		x[i] = strconv.FormatInt(e.Ts, 10)
	}
	return strings.Join(x, ",")
}

// layout reads the real chunk layout of a partition
func (s *sim) layout(p *part) ([]chunkL, error) {
	j, err := s.srv.Journals.GetOrCreate(context.Background(), p.src)
	if err != nil {
		return nil, err
	}
	cks, err := j.Chunks().Chunks(context.Background())
	if err != nil {
		return nil, err
	}
	var l []chunkL
	for _, c := range cks {
		l = append(l, chunkL{id: uint64(c.Id()), n: int(c.Count())})
	}
	return l, nil
}

func (s *sim) denseChunk(id uint64) int {
	d, ok := s.chunkDense[id]
	if !ok {
		d = s.nextChunk
		s.nextChunk++
		s.chunkDense[id] = d
	}
	return d
}

// discover registers partitions the model does not know yet (created by a first write or by a pipe worker)
func (s *sim) discover() {
	ip := s.implParts()
	var tl []string
	for t := range ip {
		tl = append(tl, t)
	}
	sort.Strings(tl)
	for _, t := range tl {
		if _, ok := s.parts[t]; ok {
			continue
		}
		p := &part{tags: t, src: ip[t], dense: fmt.Sprintf("j%d", s.nextSrc), dest: strings.HasPrefix(t, "logrange.pipe=")}
		s.nextSrc++
		s.parts[t] = p
		s.expect(fmt.Sprintf("part %s %s", vh.HxS(t), vh.HxS(p.dense)), true, "ok", "tindex create")
	}
}

// syncWrite tells the model which records went to which chunk: newEvs are the events appended to p since the last sync
func (s *sim) syncWrite(p *part, newEvs []ev) bool {
	l, err := s.layout(p)
	if err != nil {
		res.Note("%s: layout of %s: %v", s.sec, p.tags, err)
		return false
	}
	// removed oldest chunks (truncate) are handled by syncTruncate; here chunk ids only grow at the end
	known := map[uint64]int{}
	for _, c := range p.chunks {
		known[c.id] = c.n
	}
	var pieces []string
	rest := newEvs
	var nl []chunkL
	for _, c := range l {
		grow := c.n - known[c.id]
		c.dense = s.denseChunk(c.id)
		nl = append(nl, c)
		if grow <= 0 {
			continue
		}
		if grow > len(rest) {
			res.Note("%s: layout of %s grew by more records than were written (%d > %d)", s.sec, p.tags, grow, len(rest))
			return false
		}
		ts := make([]string, grow)
		for i := 0; i < grow; i++ {
			ts[i] = strconv.FormatInt(rest[i].Ts, 10)
		}
		rest = rest[grow:]
		pieces = append(pieces, fmt.Sprintf("%d:%s", c.dense, strings.Join(ts, ",")))
	}
	if len(rest) != 0 {
		// not all records are visible in the layout yet (not flushed): the caller waits and retries
		return false
	}
	p.chunks = nl
	p.events = append(p.events, newEvs...)
	if len(pieces) > 0 {
		s.expect(fmt.Sprintf("write %s %s", vh.HxS(p.dense), strings.Join(pieces, " ")), true, "ok", "partition write")
	}
	return true
}

// syncDest reads pipe partitions back and feeds their growth to the model
func (s *sim) syncDest() {
	s.discover()
	for _, t := range s.sortedTags() {
		p := s.parts[t]
		if !p.dest {
			continue
		}
		for try := 0; try < 40; try++ {
			all, err := s.query("select from " + fromOf(p.tags))
			if err != nil {
				res.Note("%s: reading pipe partition %s: %v", s.sec, p.tags, err)
				break
			}
			if len(all) < len(p.events) {
				break
			}
			if s.syncWrite(p, all[len(p.events):]) {
				break
			}
			time.Sleep(5 * time.Millisecond)
		}
	}
}

func (s *sim) sortedTags() []string {
	var tl []string
	for t := range s.parts {
		tl = append(tl, t)
	}
	sort.Strings(tl)
	return tl
}

// pipeBehind: some pipe has not yet consumed a source partition up to its end. The pipe service learns about a write
// through an asynchronous notification, so "every known position equals the last notified position" (VerifC07CaughtUp)
// can hold before the notification of the latest write was even processed; the end of the source journal is the
// reference. Only partitions written since the pipe exists and since the last start are required (a pipe hears about a
// source through write notifications only).
func (s *sim) pipeBehind() bool {
	for name, def := range s.pipes {
		sel := strings.NewReplacer(" ", "", "\"", "").Replace(def.TagsCond)
		pm, ok := s.srv.Pipes.VerifC07Positions(name)
		if !ok {
			continue
		}
		since := s.pipeSince[name]
		if s.startSeq > since {
			since = s.startSeq
		}
		for _, p := range s.parts {
			if p.dest || p.lastWrite <= since || len(p.chunks) == 0 {
				continue
			}
			match := false
			for _, t := range strings.Split(p.tags, ",") {
				if t == sel {
					match = true
				}
			}
			if !match {
				continue
			}
			last := p.chunks[len(p.chunks)-1]
			pos, ok := pm[p.src]
			if !ok || uint64(pos.CId) != last.id || int(pos.Idx) != last.n {
				return true
			}
		}
	}
	return false
}

func (s *sim) waitPipes() bool {
	ok := false
	for i := 0; i < 1500; i++ {
		if s.srv.Pipes.VerifC07CaughtUp() && !s.pipeBehind() {
			ok = true
			break
		}
		time.Sleep(4 * time.Millisecond)
	}
	if !ok {
		res.Dist(s.sect, "pipes-not-caught-up-after-6s")
	}
	// what the workers wrote to the pipe partitions sits in chunk writer buffers until their timer fires: flush explicitly
	s.discover()
	for _, p := range s.parts {
		if !p.dest {
			continue
		}
		if j, err := s.srv.Journals.GetOrCreate(context.Background(), p.src); err == nil {
			j.Sync()
		}
	}
	s.srv.FlushWait()
	return ok
}

func (s *sim) posLine(name string) (string, bool) {
	pm, ok := s.srv.Pipes.VerifC07Positions(name)
	if !ok {
		return "nopipe", false
	}
	bySrc := map[string]*part{}
	for _, p := range s.parts {
		bySrc[p.src] = p
	}
	var xs []string
	for src, pos := range pm {
		p := bySrc[src]
		if p == nil {
			continue
		}
		xs = append(xs, fmt.Sprintf("%s:%d:%d", vh.HxS(p.dense), s.chunkDense[uint64(pos.CId)], pos.Idx))
	}
	sort.Strings(xs)
	if len(xs) == 0 {
		return ".", true
	}
	return strings.Join(xs, ","), true
}

// syncPipes: after the pipes caught up, tell the model the positions that were saved
func (s *sim) syncPipes() {
	s.syncDest()
	var names []string
	for n := range s.pipes {
		names = append(names, n)
	}
	sort.Strings(names)
	for _, n := range names {
		pl, ok := s.posLine(n)
		if !ok || pl == "." {
			continue
		}
		if s.lastPos == nil {
			s.lastPos = map[string]string{}
		}
		if s.lastPos[n] == pl {
			continue
		}
		s.lastPos[n] = pl
		// savePipeInfo writes the whole map; sorted hex of the dense ids is also the model's order
		s.expect("pipesave "+vh.HxS(n)+" "+strings.ReplaceAll(pl, ",", " "), true, "ok", "savePipeInfo")
	}
}

// ---------------------------------------------------------------------------------------------
// operations on the running server

func partTags(i int) string {
	if i == 99 {
		return "z=9" // matches no pipe selector of the generators
	}
	if i >= 50 {
		return fmt.Sprintf("d=%d", i) // partitions that get deleted: matched by no pipe selector either
	}
	return partTagsG(i)
}

func partTagsG(i int) string { return fmt.Sprintf("g=%s,p=%d", []string{"a", "b"}[i%2], i) }

func (s *sim) doWrite(o hop, rng *vh.Rng, flush bool) (p *part, evs []ev) {
	tags := partTags(o.Part)
	p = s.parts[tags]
	var lastTs int64
	seq := 0
	if p != nil {
		lastTs, seq = p.lastTs, p.seq
	} else {
		lastTs = int64(1000 * (o.Part + 1))
	}
	var aevs []*api.LogEvent
	for i := 0; i < o.N; i++ {
		lastTs += int64(rng.PickI([]int{0, 0, 1, 1, 2, 3}))
		e := ev{lastTs, fmt.Sprintf("p%d-%d", o.Part, seq)}
		seq++
		evs = append(evs, e)
		aevs = append(aevs, &api.LogEvent{Timestamp: e.Ts, Message: e.Msg})
	}
	var wr api.WriteResult
	err := s.srv.Client.Write(context.Background(), tags, "", aevs, &wr)
	if err == nil {
		err = wr.Err
	}
	if err != nil {
		res.Note("%s: write to %s failed: %v", s.sec, tags, err)
		return nil, nil
	}
	if p == nil {
		s.discover()
		p = s.parts[tags]
		if p == nil {
			s.specFail("partition-missing", "an acknowledged write created no partition", "absent", tags, "", false, "")
			return nil, nil
		}
	}
	p.lastTs, p.seq = lastTs, seq
	s.opSeq++
	p.lastWrite = s.opSeq
	if flush {
		s.flushAndSync(p, evs)
	}
	return p, evs
}

// doWriteOoo: a batch whose timestamps lie far above everything written to the partition before and after it (a client
// with out-of-order timestamps); p.lastTs is not advanced, so later batches continue below the window
func (s *sim) doWriteOoo(o hop) {
	tags := partTags(o.Part)
	p := s.parts[tags]
	if p == nil {
		return
	}
	base := p.lastTs + 1000000 + int64(len(p.ooo))*1000
	var evs []ev
	var aevs []*api.LogEvent
	seq := p.seq
	for i := 0; i < o.N; i++ {
		e := ev{base + int64(i), fmt.Sprintf("p%d-%d", o.Part, seq)}
		seq++
		evs = append(evs, e)
		aevs = append(aevs, &api.LogEvent{Timestamp: e.Ts, Message: e.Msg})
	}
	var wr api.WriteResult
	err := s.srv.Client.Write(context.Background(), tags, "", aevs, &wr)
	if err == nil {
		err = wr.Err
	}
	if err != nil {
		res.Note("%s: write to %s failed: %v", s.sec, tags, err)
		return
	}
	p.seq = seq
	p.ooo = append(p.ooo, [2]int64{base, base + int64(o.N) - 1})
	s.opSeq++
	p.lastWrite = s.opSeq
	s.flushAndSync(p, evs)
}

// oooProbe: RANGE queries over each out-of-order window must return exactly its events. Applies where the hull was built from
// ALL records of the chunk (the rebuild that a first write after a crash start sets in motion, and a clean restart after it)
func (s *sim) oooProbe(how string) {
	if s.noOoo || s.srv == nil {
		return
	}
	for _, t := range s.sortedTags() {
		p := s.parts[t]
		for _, w := range p.ooo {
			for _, r := range [][2]int64{{w[0], w[1]}, {w[0] - 5, w[1] + 5}} {
				got, err := s.query(fmt.Sprintf("select from %s range [\"%d\":\"%d\"]", fromOf(p.tags), r[0], r[1]))
				var want []ev
				for _, e := range p.events {
					if e.Ts >= r[0] && e.Ts <= r[1] {
						want = append(want, e)
					}
				}
				ans := s.model(fmt.Sprintf("range %s %d %d", vh.HxS(p.dense), r[0], r[1]), false)
				vis, stale := "", false
				for _, f := range strings.Fields(ans) {
					if strings.HasPrefix(f, "vis=") {
						vis = f[4:]
					}
					if f == "stale=1" {
						stale = true
					}
				}
				impl := tsList(got)
				if err != nil {
					impl = "error: " + err.Error()
				}
				eq := impl == vis
				res.Dist(s.sect, "range-probe-out-of-order-window")
				if !eq {
					res.Mismatch(vh.Mismatch{Section: s.sec, Function: fmt.Sprintf("RANGE [%d:%d] (out-of-order window) over %s after %s", r[0], r[1], p.tags, how), Input: s.in, Impl: impl, Model: vis})
				}
				if err != nil || !sameEvs(got, want) {
					finding := ""
					if eq && stale && len(got) < len(want) {
						finding = "F06"
					}
					s.specFail("hidden-event", fmt.Sprintf("RANGE [%d:%d] over partition %s after %s does not return the flushed events of the out-of-order window written between the snapshot and the crash", r[0], r[1], p.tags, how),
						evsStr(got), evsStr(want), vis, eq, finding)
				}
			}
		}
	}
}

func (s *sim) flushAndSync(p *part, evs []ev) {
	for try := 0; try < 200; try++ {
		// flush explicitly instead of waiting for the writer's timer (which can be starved on a loaded machine)
		if j, err := s.srv.Journals.GetOrCreate(context.Background(), p.src); err == nil {
			j.Sync()
		}
		s.srv.FlushWait()
		if s.syncWrite(p, evs) {
			return
		}
	}
	res.Note("%s: written records of %s never became visible in the chunk layout", s.sec, p.tags)
	s.dead = true // the bookkeeping of this case is no longer reliable
}

func (s *sim) doMkPipe(o hop) {
	if _, ok := s.pipes[o.Name]; ok {
		return
	}
	for n := range s.pipes {
		if pipe.VerifC07PipeFileName("", n) == "pipes.dat" {
			// keep the model's order of position saves and registry saves the real one
			s.waitPipes()
			s.syncPipes()
			break
		}
	}
	_, err := s.srv.Exec("create pipe " + o.Name + " from " + o.Sel)
	if err != nil {
		res.Note("%s: create pipe %s: %v", s.sec, o.Name, err)
		return
	}
	d, err := s.srv.Pipes.GetPipe(o.Name)
	if err != nil {
		s.specFail("pipe-missing", "an acknowledged CREATE PIPE is not in the registry", "absent", o.Name, "", false, "")
		return
	}
	s.pipes[o.Name] = d.Pipe
	s.opSeq++
	if s.pipeSince == nil {
		s.pipeSince = map[string]int{}
	}
	s.pipeSince[o.Name] = s.opSeq
	delete(s.deleted, o.Name)
	s.expect(fmt.Sprintf("mkpipe %s %s %s", vh.HxS(d.Name), vh.HxS(d.TagsCond), vh.HxS(d.FltCond)), true, "ok", "CreatePipe")
}

func (s *sim) doRmPipe(o hop) {
	if _, ok := s.pipes[o.Name]; !ok {
		return
	}
	s.waitPipes()
	s.syncPipes()
	if _, err := s.srv.Exec("delete pipe " + o.Name); err != nil {
		res.Note("%s: delete pipe %s: %v", s.sec, o.Name, err)
		return
	}
	// ppipe.delete runs in its own goroutine: wait for the position file to go
	fn := pipe.VerifC07PipeFileName(filepath.Join(s.dir, "pipes"), o.Name)
	for i := 0; i < 100; i++ {
		if _, err := os.Stat(fn); os.IsNotExist(err) {
			break
		}
		time.Sleep(2 * time.Millisecond)
	}
	time.Sleep(3 * time.Millisecond)
	delete(s.pipes, o.Name)
	s.deleted[o.Name] = true
	s.expect("rmpipe "+vh.HxS(o.Name), true, "ok", "DeletePipe")
	if filepath.Base(fn) == "pipes.dat" {
		// ppipe.delete (its own goroutine) removes the "position file" = the registry file, DeletePipe's savePipes writes it:
		// the order is not determined; the model removes last, the harness reports when the file is there
		if _, err := os.Stat(fn); err == nil {
			s.expect("savepipes", true, "ok", "savePipes after the removal")
			res.Dist(s.sect, "rmpipe-colliding:registry-file-survived")
		} else {
			res.Dist(s.sect, "rmpipe-colliding:registry-file-removed")
		}
	}
}

func (s *sim) doTruncate(o hop) {
	p := s.parts[partTags(o.Part)]
	if p == nil || len(p.chunks) < 2 {
		return
	}
	s.waitPipes()
	s.syncPipes()
	j, err := s.srv.Journals.GetOrCreate(context.Background(), p.src)
	if err != nil {
		return
	}
	max := j.Size() / 2
	if max < 1 {
		max = 1
	}
	if _, err := s.srv.Exec(fmt.Sprintf("truncate %s minsize 1 maxsize %d", fromOf(p.tags), max)); err != nil {
		res.Note("%s: truncate %s: %v", s.sec, p.tags, err)
		return
	}
	l, err := s.layout(p)
	if err != nil {
		return
	}
	// the removed chunks are a prefix of the known list (C09's property); follow what happened
	removed, nev := 0, 0
	for removed < len(p.chunks) && (len(l) == 0 || p.chunks[removed].id != l[0].id) {
		nev += p.chunks[removed].n
		removed++
	}
	if removed == 0 {
		return
	}
	// the library removes the files of a truncated chunk asynchronously, once no reader holds the chunk; a stop or an image
	// taken before that brings the chunk back (C09's matter, schedule-dependent): wait for the files to go
	if !s.waitChunkFilesGone(p.chunks[:removed]) {
		res.Dist(s.sect, "truncate-chunk-files-still-there(case ended)")
		s.dead = true
		return
	}
	p.chunks = p.chunks[removed:]
	p.events = p.events[nev:]
	s.expect(fmt.Sprintf("dropchunks %s %d", vh.HxS(p.dense), removed), true, "ok", "truncate")
	res.Dist(s.sect, "truncate-removed-chunks")
}

func (s *sim) waitChunkFilesGone(cs []chunkL) bool {
	for try := 0; try < 600; try++ {
		left := 0
		for _, c := range cs {
			m, _ := filepath.Glob(filepath.Join(s.dir, "db", "*", "*", fmt.Sprintf("%016X.*", c.id)))
			left += len(m)
		}
		if left == 0 {
			return true
		}
		time.Sleep(5 * time.Millisecond)
	}
	return false
}

// doDropPart: TRUNCATE that removes every chunk, after which the partition itself is deleted (tindex.Delete + directory)
func (s *sim) doDropPart(o hop) {
	p := s.parts[partTags(o.Part)]
	if p == nil || len(p.events) == 0 {
		return
	}
	if _, err := s.srv.Exec(fmt.Sprintf("truncate %s maxsize 1", fromOf(p.tags))); err != nil {
		res.Note("%s: truncate(all) %s: %v", s.sec, p.tags, err)
		return
	}
	if _, still := s.implParts()[p.tags]; still {
		// not deleted (somebody held it): follow what happened to the chunks
		l, err := s.layout(p)
		if err == nil {
			removed, nev := 0, 0
			for removed < len(p.chunks) && (len(l) == 0 || p.chunks[removed].id != l[0].id) {
				nev += p.chunks[removed].n
				removed++
			}
			if removed > 0 {
				p.chunks = p.chunks[removed:]
				p.events = p.events[nev:]
				s.expect(fmt.Sprintf("dropchunks %s %d", vh.HxS(p.dense), removed), true, "ok", "truncate")
			}
		}
		res.Dist(s.sect, "droppart-not-deleted")
		return
	}
	delete(s.parts, p.tags)
	s.expect("droppart "+vh.HxS(p.dense), true, "ok", "deleteJournal")
	res.Dist(s.sect, "partition-deleted")
}

// ---------------------------------------------------------------------------------------------
// start / stop

// startImpl starts a server on s.dir and renders the outcome in the model's vocabulary
func startRetry(dir string, o lrsrv.Opts) (*lrsrv.Srv, error) {
	srv, err := lrsrv.Start(dir, o)
	for try := 0; try < 12 && err != nil && (strings.Contains(err.Error(), "rpc.Server") || strings.Contains(err.Error(), "rpc client")); try++ {
		// the loop-back port chosen for this server was taken by a neighbour in the meantime: not a property of the disk
		time.Sleep(15 * time.Millisecond)
		srv, err = lrsrv.Start(dir, o)
	}
	return srv, err
}

func (s *sim) startImpl() string {
	srv, err := startRetry(s.dir, s.opts)
	if err != nil {
		s.srv = nil
		e := err.Error()
		switch {
		case strings.Contains(e, "pipe.Service"):
			return "refuse:pipes"
		case strings.Contains(e, "tindex"):
			return "refuse:tindex"
		}
		return "refuse:" + e
	}
	s.srv = srv
	ip := s.implParts()
	var tl []string
	for t := range ip {
		tl = append(tl, t)
	}
	return fmt.Sprintf("ok parts=%s pipes=%s", hexList(tl), hexList(s.implPipeNames()))
}

// everS: a pipe whose position file is the registry file exists or existed
func (s *sim) everS() bool {
	for n := range s.pipes {
		if pipe.VerifC07PipeFileName("", n) == "pipes.dat" {
			return true
		}
	}
	for n := range s.deleted {
		if pipe.VerifC07PipeFileName("", n) == "pipes.dat" {
			return true
		}
	}
	return false
}

func splitCls(ans string) (string, map[string]bool) {
	cls := map[string]bool{}
	i := strings.Index(ans, " cls=")
	if i < 0 {
		return ans, cls
	}
	for _, kv := range strings.Split(ans[i+5:], ",") {
		x := strings.Split(kv, ":")
		if len(x) == 2 {
			cls[x[0]] = x[1] == "1"
		}
	}
	return ans[:i], cls
}

// start starts IMPL and MODEL and compares; crashKind != "" says how the disk was produced (for attribution)
func (s *sim) start(crashKind string) bool {
	s.opSeq++
	s.startSeq = s.opSeq
	impl := s.startImpl()
	ans := s.model("start", true)
	mod, cls := splitCls(ans)
	eq := impl == mod
	if !eq {
		res.Mismatch(vh.Mismatch{Section: s.sec, Function: "server start (recover) after " + crashKind, Input: s.in, Impl: impl, Model: mod})
	}
	if strings.HasPrefix(impl, "refuse") {
		s.dead = true
		finding := ""
		if eq {
			// (F05 — tag-index save — and F41 — registry save — are repaired: a refusal there is a violation again)
			if impl == "refuse:pipes" && cls["collision"] && crashKind != "restart" && crashKind != "fresh" {
				finding = "F33"
			}
		}
		s.specFail("refuse-to-start", "the server does not start on this disk ("+crashKind+")", impl, "starts", mod, eq, finding)
		return false
	}
	if strings.HasPrefix(mod, "refuse") {
		s.dead = true
		if s.srv != nil {
			s.srv.Stop()
			s.srv = nil
		}
		return false
	}
	// the proved invariant (`Persist.Inv`: memory consistent with disk), evaluated on the model's state: it must hold on every
	// history the harness drives (outside F33's class, where `cex_reachable_pipe_s` shows that it does not)
	if inv := s.model("inv", false); inv != "1" {
		if cls["collision"] || s.everS() {
			res.Dist(s.sect, "inv-broken-in-class-F33")
		} else {
			res.Mismatch(vh.Mismatch{Section: s.sec, Function: "the invariant Persist.Inv on the model's state after a start (" + crashKind + ")", Input: s.in, Impl: "1", Model: inv})
		}
	} else {
		res.Dist(s.sect, "inv-holds-after-start")
	}
	// re-bind the real journal ids (they are stable) — nothing to do; remember class flags for the pipe check
	s.checkPipeSet(cls, eq, crashKind)
	// baseline of "positions reported to the model": what the model holds after its own start
	s.lastPos = map[string]string{}
	for n := range s.pipes {
		s.lastPos[n] = s.model("ppos "+vh.HxS(n), false)
	}
	return true
}

func (s *sim) checkPipeSet(cls map[string]bool, eq bool, crashKind string) {
	have := map[string]pipe.Pipe{}
	for _, p := range s.srv.Pipes.GetPipes() {
		have[p.Name] = p
	}
	var names []string
	for n := range s.pipes {
		names = append(names, n)
	}
	sort.Strings(names)
	for _, n := range names {
		w := s.pipes[n]
		g, ok := have[n]
		if !ok {
			// (F07 is repaired: definitions are saved on create/delete.) What remains is F33: the position file of a pipe
			// named like the registry file IS the registry file, and removing it with the pipe removes the registry
			finding := ""
			if eq && cls["collision"] && cls["defslost"] && crashKind != "" && crashKind != "restart" {
				finding = "F33"
			}
			s.specFail("pipe-definition-lost", "an acknowledged pipe definition is gone after the restart ("+crashKind+")", "pipe "+n+" absent", fmt.Sprint(w), "", eq, finding)
			delete(s.pipes, n)
			continue
		}
		if g != w {
			s.specFail("pipe-definition-changed", "a pipe definition changed across the restart", fmt.Sprint(g), fmt.Sprint(w), "", eq, "")
		}
	}
	if crashKind == "restart" {
		for n := range have {
			if _, ok := s.pipes[n]; !ok {
				s.specFail("pipe-resurrected", "a pipe that does not exist appeared after a graceful restart", n, "absent", "", eq, "")
			}
		}
	} else {
		// a crash may bring a deleted pipe back (the registry file is older): follow the implementation, the model comparison
		// of the start line has checked that this is the predicted set
		for n, g := range have {
			if _, ok := s.pipes[n]; !ok {
				if s.deleted[n] {
					// SPEC: an acknowledged DELETE PIPE survives a crash (DeletePipe saves the registry before it returns, 9273e4f;
					// `deleted_pipe_stays_deleted_after_crash`). `deleted` holds acknowledged deletions (and, for a cut inside
					// DELETE, the case where the registry without the pipe had reached the disk); a later CREATE clears it.
					// F33's class: position saves of a pipe named s overwrite the registry, an older list can come back
					finding := ""
					if eq && (cls["collision"] || s.everS()) {
						finding = "F33"
					}
					s.specFail("deleted-pipe-resurrected", "a pipe whose DELETE was acknowledged exists again after a start on a crash image ("+crashKind+")", n, "absent", "", eq, finding)
				}
				s.pipes[n] = g
				res.Dist(s.sect, "crash-start-has-a-pipe-the-harness-does-not-hold")
			}
		}
	}
}

// ---------------------------------------------------------------------------------------------
// the SPEC oracle after a (re)start

func monotone(es []ev) bool {
	for i := 1; i < len(es); i++ {
		if es[i].Ts < es[i-1].Ts {
			return false
		}
	}
	return true
}

func (s *sim) ranges(p *part, rng *vh.Rng) [][2]int64 {
	if len(p.events) == 0 {
		return nil
	}
	first, last := p.events[0].Ts, p.events[len(p.events)-1].Ts
	var bs []int64
	off := 0
	for _, c := range p.chunks {
		if c.n > 0 && off+c.n <= len(p.events) {
			bs = append(bs, p.events[off].Ts, p.events[off+c.n-1].Ts)
		}
		off += c.n
	}
	rs := [][2]int64{{last, last + 3}, {first - 3, first}, {first, last}, {last + 1, last + 9}}
	// upper bound strictly inside a chunk's time hull (the look-up goes through `less` on the chunk's index tree)
	for i := 0; i+1 < len(bs); i += 2 {
		if bs[i+1]-bs[i] >= 2 {
			mid := bs[i] + 1 + int64(rng.Intn(int(bs[i+1]-bs[i]-1)))
			rs = append(rs, [2]int64{first - 2, mid})
			if len(rs) > 9 {
				break
			}
		}
	}
	if len(p.events) >= 2 {
		// the tail: what a stale snapshot does not cover
		t := p.events[len(p.events)-1-rng.Intn(minI(len(p.events)-1, 6))].Ts
		rs = append(rs, [2]int64{t, last})
	}
	for i := 0; i < 3 && len(bs) > 0; i++ {
		a := bs[rng.Intn(len(bs))] + int64(rng.Range(-1, 1))
		b := bs[rng.Intn(len(bs))] + int64(rng.Range(-1, 1))
		if a > b {
			a, b = b, a
		}
		if a < 1 {
			a = 1
		}
		rs = append(rs, [2]int64{a, b})
	}
	return rs
}

func minI(a, b int) int {
	if a < b {
		return a
	}
	return b
}

// oracle: partitions, full reads, RANGE probes (first: nothing that could trigger an index rebuild has run yet)
// probe: the RANGE answers of the running server (the reference "as it did" for the next restart / crash image)
type probeRef map[string]string

func (s *sim) probe(rng *vh.Rng, withDest bool) probeRef {
	ref := probeRef{}
	for _, t := range s.sortedTags() {
		p := s.parts[t]
		if len(p.events) == 0 || (p.dest && !withDest) {
			continue
		}
		for _, r := range s.ranges(p, rng) {
			got, err := s.query(fmt.Sprintf("select from %s range [\"%d\":\"%d\"]", fromOf(p.tags), r[0], r[1]))
			if err == nil {
				ref[fmt.Sprintf("%s|%d|%d", t, r[0], r[1])] = tsList(got)
			}
		}
	}
	return ref
}

func (s *sim) oracle(rng *vh.Rng, how string, ref probeRef) {
	ip := s.implParts()
	// RANGE probes
	for _, t := range s.sortedTags() {
		p := s.parts[t]
		if _, ok := ip[t]; !ok || len(p.events) == 0 {
			continue
		}
		if !monotone(p.events) {
			if s.crashMode {
				res.Dist(s.sect, "range-skipped-nonmonotone-partition(crash)")
				continue
			}
		}
		var rs [][2]int64
		if ref == nil {
			if p.dest {
				continue // no reference answers: pipe partitions (many small batches) are probed only against a reference
			}
			rs = s.ranges(p, rng)
		} else {
			for k := range ref {
				x := strings.Split(k, "|")
				if x[0] == t {
					lo, _ := strconv.ParseInt(x[1], 10, 64)
					hi, _ := strconv.ParseInt(x[2], 10, 64)
					rs = append(rs, [2]int64{lo, hi})
				}
			}
			sort.Slice(rs, func(i, j int) bool { return rs[i][0] < rs[j][0] || (rs[i][0] == rs[j][0] && rs[i][1] < rs[j][1]) })
		}
		for _, r := range rs {
			got, err := s.query(fmt.Sprintf("select from %s range [\"%d\":\"%d\"]", fromOf(p.tags), r[0], r[1]))
			var want []ev
			for _, e := range p.events {
				if e.Ts >= r[0] && e.Ts <= r[1] {
					want = append(want, e)
				}
			}
			ans := s.model(fmt.Sprintf("range %s %d %d", vh.HxS(p.dense), r[0], r[1]), false)
			vis, stale := "", false
			for _, f := range strings.Fields(ans) {
				if strings.HasPrefix(f, "vis=") {
					vis = f[4:]
				}
				if f == "stale=1" {
					stale = true
				}
			}
			impl := tsList(got)
			if err != nil {
				impl = "error: " + err.Error()
			}
			eq := impl == vis
			res.Dist(s.sect, "range-probe")
			if ref != nil {
				was, ok := ref[fmt.Sprintf("%s|%d|%d", t, r[0], r[1])]
				if ok && was == impl && err == nil && !sameEvs(got, want) {
					// the running server answered the same before the stop / the crash: not a restart matter (inside-chunk index
					// look-up over many small batches: C02, DESIGN §7 #4)
					res.Dist(s.sect, "range-deviates-from-filter-before-and-after(C02)")
					continue
				}
				if ok && was != impl && err == nil && sameEvs(got, want) {
					res.Dist(s.sect, "range-exact-after-restart-but-not-before(C02)")
					continue
				}
			}
			if !eq {
				res.Mismatch(vh.Mismatch{Section: s.sec, Function: fmt.Sprintf("RANGE [%d:%d] over %s after %s", r[0], r[1], p.tags, how), Input: s.in, Impl: impl, Model: vis})
			}
			if err != nil || !sameEvs(got, want) {
				// both findings are repaired: the tags mark a recurrence ("the defect is back")
				finding := ""
				if eq && stale && len(got) < len(want) {
					finding = "F06"
				} else if s.treeDamaged && err == nil && len(got) < len(want) {
					finding = "F47" // a root into a damaged tree file is trusted again
				}
				s.specFail("hidden-event", fmt.Sprintf("RANGE [%d:%d] over partition %s after %s does not return exactly the flushed events in range", r[0], r[1], p.tags, how),
					evsStr(got), evsStr(want), vis, eq, finding)
			}
		}
	}
	for _, t := range s.sortedTags() {
		if _, ok := ip[t]; ok {
			s.truncateProbe(s.parts[t], how)
		}
	}
	// partitions and full reads
	for _, t := range s.sortedTags() {
		p := s.parts[t]
		if _, ok := ip[t]; !ok {
			if len(p.events) > 0 || !s.crashMode {
				s.specFail("partition-lost", "partition "+t+" is gone after "+how, "absent", fmt.Sprintf("%d events", len(p.events)), "", false, "")
			}
			continue
		}
		got, err := s.query("select from " + fromOf(p.tags))
		if err != nil || !sameEvs(got, p.events) {
			kind := "event-lost-or-changed"
			s.specFail(kind, "the full read of partition "+t+" after "+how+" is not the acknowledged, flushed events in write order", evsStr(got)+fmt.Sprint(err), evsStr(p.events), "", false, "")
		}
		res.Dist(s.sect, "full-read")
	}
	if !s.crashMode {
		for t := range ip {
			if _, ok := s.parts[t]; !ok {
				s.specFail("partition-appeared", "a partition nobody wrote exists after "+how, t, "absent", "", false, "")
			}
		}
	}
	// SHOW PARTITIONS / SHOW PIPES / DESCRIBE PIPE through the admin API
	if out, err := s.srv.Exec("show partitions"); err == nil {
		for _, t := range s.sortedTags() {
			if _, ok := ip[t]; ok && len(s.parts[t].events) > 0 && !strings.Contains(out, s.parts[t].tagsShown()) {
				s.specFail("show-partitions", "SHOW PARTITIONS does not list "+t+" after "+how, out, t, "", false, "")
			}
		}
	}
	if out, err := s.srv.Exec("show pipes"); err == nil {
		ls := strings.Split(strings.TrimRight(out, "\n"), "\n")
		var names []string
		for n := range s.pipes {
			names = append(names, n)
		}
		sort.Strings(names)
		if strings.Join(ls[1:], ",") != strings.Join(names, ",") {
			s.specFail("show-pipes", "SHOW PIPES after "+how+" is not the list of existing pipes", out, fmt.Sprint(names), "", false, "")
		}
	}
	for n, w := range s.pipes {
		out, err := s.srv.Exec("describe pipe " + n)
		if err != nil || !strings.Contains(out, "From:      "+w.TagsCond+"\n") {
			s.specFail("describe-pipe", "DESCRIBE PIPE "+n+" after "+how+" does not report the stored definition", out, fmt.Sprint(w), "", false, "")
		}
	}
	mp := s.model("pipes", false)
	var ds []string
	var names []string
	for n := range s.pipes {
		names = append(names, n)
	}
	sort.Strings(names)
	for _, n := range names {
		w := s.pipes[n]
		ds = append(ds, vh.HxS(w.Name)+"|"+vh.HxS(w.TagsCond)+"|"+vh.HxS(w.FltCond))
	}
	impl := "."
	if len(ds) > 0 {
		impl = strings.Join(ds, ",")
	}
	if mp != impl {
		res.Mismatch(vh.Mismatch{Section: s.sec, Function: "pipe registry after " + how, Input: s.in, Impl: impl, Model: mp})
	}
}

// truncateProbe: TRUNCATE DRYRUN … BEFORE <timestamp of the newest event> must not select a chunk that holds an event
// at or after that timestamp. It decides on the chunk hulls the time index reports, so it observes an unsound hull even
// where RANGE queries are protected by other means (the selector keeps a chunk open while the index accounts for fewer
// records than the chunk holds). A dry run changes nothing.
func (s *sim) truncateProbe(p *part, how string) {
	if p.dest || len(p.events) == 0 || !monotone(p.events) {
		return
	}
	t := p.events[len(p.events)-1].Ts
	src, err := lql.ParseSource(fromOf(p.tags))
	if err != nil {
		return
	}
	selected := 0
	err = s.srv.Parts.Truncate(context.Background(), partition.TruncateParams{DryRun: true, TagsExpr: src, OldestTs: t, MaxDBSize: math.MaxUint64},
		func(ti partition.TruncateInfo) { selected += ti.ChunksDeleted })
	if err != nil {
		return
	}
	allowed, off := 0, 0
	for _, c := range p.chunks {
		if c.n == 0 || off+c.n > len(p.events) {
			break
		}
		if p.events[off+c.n-1].Ts >= t {
			break
		}
		allowed++
		off += c.n
	}
	res.Dist(s.sect, "truncate-dryrun-probe")
	if selected > allowed {
		finding := ""
		if s.crashMode {
			finding = "F06" // the chunk hull after recovery does not contain the flushed events: the shape of the repaired finding
		}
		s.specFail("truncate-would-remove-newer-events", fmt.Sprintf("TRUNCATE DRYRUN BEFORE %d over partition %s after %s selects a chunk that holds events at or after that time (the chunk hull the time index reports does not contain the flushed events)", t, p.tags, how),
			fmt.Sprintf("%d chunks selected", selected), fmt.Sprintf("at most %d (chunks wholly older)", allowed), "", false, finding)
	}
}

func (p *part) tagsShown() string {
	ts, err := tag.Parse(p.tags)
	if err != nil {
		return p.tags
	}
	return ts.String()
}

// ---------------------------------------------------------------------------------------------
// graceful restart

func (s *sim) restart(o hop, rng *vh.Rng, pending *part, pendingEvs []ev) {
	quiet := o.Quiesce
	var before map[string]string
	if quiet {
		s.waitPipes()
		s.syncPipes()
		before = map[string]string{}
		for n := range s.pipes {
			before[n], _ = s.posLine(n)
		}
	}
	var ref probeRef
	if pending == nil {
		ref = s.probe(rng, quiet)
	}
	s.srv.Stop()
	s.srv = nil
	if pending != nil {
		// In a real server the process ends here. In-process the stopped server's chunk writer goroutines live on and may
		// flush later; the copy taken now is what the exit leaves on disk, and the case continues on the copy.
		nd := s.dir + "-x"
		if err := copyDir(s.dir, nd); err == nil {
			os.RemoveAll(s.dir)
			s.dir = nd
		}
	}
	if pending != nil || !quiet {
		// the stop came right after an acknowledgement / while pipe workers were copying: what reached the journals is read
		// from a restarted server, and the model gets those lines before its `stop`
		if !s.startTmpForLayout(pending, pendingEvs) {
			s.dead = true
			return
		}
	}
	s.expect("stop", true, "ok", "graceful shutdown")
	if !s.start("restart") {
		return
	}
	res.Dist(s.sect, fmt.Sprintf("restart quiesce=%v afterAck=%v", quiet, pending != nil))
	s.oracle(rng, "a graceful restart", ref)
	if quiet {
		var names []string
		for n := range s.pipes {
			names = append(names, n)
		}
		sort.Strings(names)
		for _, n := range names {
			after, _ := s.posLine(n)
			mod := s.model("ppos "+vh.HxS(n), false)
			eq := after == mod
			if !eq {
				res.Mismatch(vh.Mismatch{Section: s.sec, Function: "pipe positions after a graceful restart: " + n, Input: s.in, Impl: after, Model: mod})
			}
			if after != before[n] {
				finding := ""
				if eq && pipe.VerifC07PipeFileName("", n) == "pipes.dat" {
					finding = "F33"
				}
				s.specFail("pipe-progress-lost", "the positions of pipe "+n+" differ after a graceful restart", after, before[n], mod, eq, finding)
			}
		}
	}
}

// startTmpForLayout: the server was stopped right after an acknowledged write whose chunk layout is not known yet. The
// layout is needed for the model's `write` line, which must precede `stop`; it is read from the restarted server, so
// the restart happens first on the implementation side and the model lines are sent in their logical order afterwards.
func (s *sim) startTmpForLayout(p *part, evs []ev) bool {
	srv, err := startRetry(s.dir, s.opts)
	if err != nil {
		s.specFail("refuse-to-start", "the server does not start after a graceful stop", err.Error(), "starts", "", false, "")
		return false
	}
	s.srv = srv
	defer func() { srv.Stop(); s.srv = nil }()
	s.discover()
	s.syncDest()
	if p == nil {
		return true
	}
	// how many of the acknowledged records reached the journal: ask the server
	got, err := s.query("select from " + fromOf(p.tags))
	if err != nil || len(got) < len(p.events) || !sameEvs(got[:len(p.events)], p.events) || len(got) > len(p.events)+len(evs) ||
		!sameEvs(got[len(p.events):], evs[:len(got)-len(p.events)]) {
		s.specFail("event-lost-or-changed", "after a graceful restart partition "+p.tags+" is not the flushed events followed by a prefix of the last acknowledged batch", evsStr(got)+fmt.Sprint(err), evsStr(append(append([]ev{}, p.events...), evs...)), "", false, "")
		return false
	}
	kept := len(got) - len(p.events)
	ok := false
	for try := 0; try < 60 && !ok; try++ {
		ok = s.syncWrite(p, evs[:kept])
		if !ok {
			time.Sleep(5 * time.Millisecond)
		}
	}
	if !ok {
		res.Note("%s: chunk layout of %s does not add up to the %d records the server returns", s.sec, p.tags, len(got))
		return false
	}
	if kept < len(evs) {
		// MODEL: the shutdown sequence syncs the journals (Generated.C07.partitionShutdownSyncsJournals, finding F42 repaired):
		// every acknowledged record is in the journal after a graceful stop (Props.C07.acked_events_survive_graceful_stop)
		res.Dist(s.sect, "acked-lost-at-graceful-stop")
		s.specFail("acked-event-lost", fmt.Sprintf("%d of %d events acknowledged right before a graceful stop are not in partition %s after the restart", len(evs)-kept, len(evs), p.tags),
			fmt.Sprintf("%d kept", kept), evsStr(evs), "all kept: the shutdown syncs the journals", false, "")
	}
	return true
}

// ---------------------------------------------------------------------------------------------
// running a case

func (s *sim) runOps(ops []hop, rng *vh.Rng) {
	for i, o := range ops {
		if s.dead {
			return
		}
		res.Dist(s.sect, "op:"+o.Kind)
		switch o.Kind {
		case "write":
			// a write directly followed by a non-quiescing restart is the "stop right after the acknowledgement" moment
			if i+1 < len(ops) && ops[i+1].Kind == "restart" && !ops[i+1].Quiesce && len(s.pipes) == 0 {
				p, evs := s.doWrite(o, rng, false)
				if p != nil {
					s.restart(ops[i+1], rng, p, evs)
					ops[i+1].Kind = "done"
				}
				continue
			}
			s.doWrite(o, rng, true)
		case "writeooo":
			s.doWriteOoo(o)
		case "mkpipe":
			s.doMkPipe(o)
		case "rmpipe":
			s.doRmPipe(o)
		case "truncate":
			s.doTruncate(o)
		case "droppart":
			s.doDropPart(o)
		case "restart":
			s.restart(o, rng, nil, nil)
		}
	}
	// the invariant on the model's state of the RUNNING server after the history
	if !s.dead && s.srv != nil {
		if inv := s.model("inv", false); inv == "1" {
			res.Dist(s.sect, "inv-holds-after-history")
		} else if s.everS() {
			res.Dist(s.sect, "inv-broken-in-class-F33")
		} else if inv == "0" {
			res.Mismatch(vh.Mismatch{Section: s.sec, Function: "the invariant Persist.Inv on the model's state after the history", Input: s.in, Impl: "1", Model: inv})
		}
	}
}

func runGraceful(c scase, sec string, sect *vh.Section, rng *vh.Rng) {
	s := newSim(sec, sect, c, c.ChunkSize)
	defer s.close()
	if !s.start("fresh") {
		return
	}
	ops := append([]hop{}, c.Ops...)
	s.runOps(ops, rng)
	if s.dead {
		return
	}
	// final: after the pipes caught up no event was copied twice
	if s.srv != nil && len(s.pipes) > 0 {
		s.waitPipes()
		s.syncPipes()
		for _, t := range s.sortedTags() {
			p := s.parts[t]
			if !p.dest {
				continue
			}
			seen := map[string]int{}
			for _, e := range p.events {
				seen[e.Msg]++
				if seen[e.Msg] == 2 {
					s.specFail("pipe-duplicate", "pipe partition "+t+" holds an event twice after restarts", e.Msg, "once", "", false, "")
				}
			}
		}
	}
}

// applySteps applies the first k steps of the model's step list by hand; `after` is the content the file has when
// the save completes
func applySteps(dirOf func(string) string, steps []string, k int, lenCls string, content func(path string) []byte) error {
	for i, st := range steps {
		if i > k {
			break
		}
		x := strings.Split(st, ":")
		switch x[0] {
		case "rename":
			if i < k {
				if _, err := os.Stat(dirOf(x[1])); err == nil { // a rename of a missing file fails and changes nothing
					if err := os.Rename(dirOf(x[1]), dirOf(x[2])); err != nil {
						return err
					}
				}
			}
		case "truncate":
			if i < k {
				if err := ioutil.WriteFile(dirOf(x[1]), nil, 0640); err != nil {
					return err
				}
			}
		case "link":
			if i < k {
				if _, err := os.Stat(dirOf(x[1])); err == nil {
					if _, err := os.Stat(dirOf(x[2])); os.IsNotExist(err) {
						if err := os.Link(dirOf(x[1]), dirOf(x[2])); err != nil {
							return err
						}
					}
				}
			}
		case "append":
			after := content(x[1])
			n := len(after)
			if i == k {
				switch lenCls {
				case "0":
					n = 0
				case "1":
					n = minI(1, n)
				case "h":
					n = n / 2
				case "m":
					n = n - 1
				}
			}
			if i < k || n > 0 {
				old, _ := ioutil.ReadFile(dirOf(x[1]))
				if err := ioutil.WriteFile(dirOf(x[1]), append(old, after[:n]...), 0640); err != nil {
					return err
				}
			}
		case "remove":
			if i < k {
				os.Remove(dirOf(x[1]))
			}
		}
	}
	return nil
}

func pathIn(dir string) func(string) string {
	return func(p string) string {
		switch {
		case p == "tindex.dat" || p == "tindex.bak" || p == "tindex.dat.tmp":
			return filepath.Join(dir, "tindex", p)
		case p == "cindex.dat":
			return filepath.Join(dir, "cindex", p)
		case strings.HasPrefix(p, "pipes/"):
			return filepath.Join(dir, "pipes", string(vh.UnHx(p[6:])))
		}
		return filepath.Join(dir, p)
	}
}

func runCrash(c scase, sec string, sect *vh.Section, rng *vh.Rng) {
	base := newSim(sec, sect, c, c.ChunkSize)
	defer base.close()
	if !base.start("fresh") {
		return
	}
	base.runOps(append([]hop{}, c.Ops...), rng)
	if base.dead || base.srv == nil {
		return
	}
	base.waitPipes()
	base.syncPipes()
	ref := base.probe(rng, true)
	cs := c.Crash
	img := base.dir + "-img"
	defer os.RemoveAll(img)
	if err := copyDir(base.dir, img); err != nil {
		res.Note("%s: %v", sec, err)
		return
	}
	v := base.fork(img)
	defer v.close()
	v.crashMode = true
	res.Dist(sect, "crash:"+cs.Kind)
	kind := cs.Kind
	switch cs.Kind {
	case "image":
		v.model("crash", true)
	case "tindex-cut":
		// the save that creates a new partition: take its content from the live server
		np := 99
		tags := partTags(np)
		stepsLine := base.model(fmt.Sprintf("steps.part %s %s", vh.HxS(tags), vh.HxS("jn")), false)
		p, _ := base.doWrite(hop{Kind: "write", Part: np, N: 2}, rng, true)
		if p == nil {
			return
		}
		after, err := ioutil.ReadFile(filepath.Join(base.dir, "tindex", "tindex.dat"))
		if err != nil {
			res.Note("%s: %v", sec, err)
			return
		}
		if err := applySteps(pathIn(img), strings.Fields(stepsLine), cs.K, cs.Len, func(string) []byte { return after }); err != nil {
			res.Note("%s: applying steps: %v", sec, err)
			return
		}
		v.model(fmt.Sprintf("cutpart %s %s %d %s", vh.HxS(tags), vh.HxS(fmt.Sprintf("j%d", v.nextSrc)), cs.K, cs.Len), true)
		if cs.K >= len(strings.Fields(stepsLine)) {
			// the record reached the disk (the acknowledgement did not): the partition may exist, empty
			v.parts[tags] = &part{tags: tags, src: p.src, dense: fmt.Sprintf("j%d", v.nextSrc)}
			v.nextSrc++
		}
	case "stop-cut":
		// crash inside the saves of a graceful shutdown: the final contents come from really stopping the base server
		stopSteps := strings.Fields(base.model("steps.stop", false))
		base.srv.Stop()
		base.srv = nil
		base.model("stop", true)
		pd, _ := ioutil.ReadFile(filepath.Join(base.dir, "pipes", "pipes.dat"))
		cd, _ := ioutil.ReadFile(filepath.Join(base.dir, "cindex", "cindex.dat"))
		err := applySteps(pathIn(img), stopSteps, cs.K, cs.Len, func(p string) []byte {
			if p == "cindex.dat" {
				return cd
			}
			return pd // pipes.dat or its temp file
		})
		if err != nil {
			res.Note("%s: applying steps: %v", sec, err)
			return
		}
		v.model(fmt.Sprintf("cutstop %d %s", cs.K, cs.Len), true)
	case "pipesave-cut", "pipeinfo-torn":
		if _, ok := v.pipes[cs.Pipe]; !ok {
			return
		}
		fn := pipe.VerifC07PipeFileName(filepath.Join(img, "pipes"), cs.Pipe)
		after, err := ioutil.ReadFile(fn)
		if err == nil && filepath.Base(fn) == "pipes.dat" {
			// the position file IS the registry file (F33): what it holds right now may be either; a plain image is taken instead
			err = fmt.Errorf("collision")
		}
		if err != nil {
			res.Dist(sect, "crash:"+cs.Kind+":no-position-file")
			v.model("crash", true)
			kind = "image"
			break
		}
		// re-do the last position save on the image, cut
		steps := []string{"truncate:pipes/" + vh.HxS(filepath.Base(fn)), "append:pipes/" + vh.HxS(filepath.Base(fn))}
		if err := applySteps(pathIn(img), steps, cs.K, cs.Len, func(string) []byte { return after }); err != nil {
			res.Note("%s: applying steps: %v", sec, err)
			return
		}
		pl, _ := base.posLine(cs.Pipe)
		v.model(fmt.Sprintf("cutpipesave %s %d %s %s", vh.HxS(cs.Pipe), cs.K, cs.Len, strings.ReplaceAll(pl, ",", " ")), true)
		if filepath.Base(fn) == "pipes.dat" {
			kind = "image" // the position file IS the registry file: F33's class decides
		}
	case "mkpipe-cut", "rmpipe-cut":
		// crash inside the metadata update of CREATE / DELETE PIPE (registry save through its temp file; DELETE then removes
		// the position file): the step list is the model's (`opSteps`), the final registry content comes from really doing the
		// operation on the base server
		for n := range base.pipes {
			if pipe.VerifC07PipeFileName("", n) == "pipes.dat" {
				kind = "" // F33's class (position saves and registry saves share the file): a plain image instead
			}
		}
		name := "zq"
		if cs.Kind == "rmpipe-cut" {
			name = cs.Pipe
			if _, ok := base.pipes[name]; !ok {
				kind = ""
			}
		}
		if kind == "" {
			res.Dist(sect, "crash:"+cs.Kind+":plain-image-instead")
			v.model("crash", true)
			kind = "image"
			break
		}
		var stepsLine, cutLine string
		if cs.Kind == "mkpipe-cut" {
			stepsLine = base.model(fmt.Sprintf("steps.mkpipe %s - -", vh.HxS(name)), false)
			base.doMkPipe(hop{Kind: "mkpipe", Name: name, Sel: "g=b"})
			d, ok := base.pipes[name]
			if !ok {
				return
			}
			cutLine = fmt.Sprintf("cutmkpipe %s %s %s %d %s", vh.HxS(d.Name), vh.HxS(d.TagsCond), vh.HxS(d.FltCond), cs.K, cs.Len)
		} else {
			stepsLine = base.model("steps.rmpipe "+vh.HxS(name), false)
			base.doRmPipe(hop{Kind: "rmpipe", Name: name})
			if _, ok := base.pipes[name]; ok {
				return
			}
			cutLine = fmt.Sprintf("cutrmpipe %s %d %s", vh.HxS(name), cs.K, cs.Len)
		}
		steps := strings.Fields(stepsLine)
		after, err := ioutil.ReadFile(filepath.Join(base.dir, "pipes", "pipes.dat"))
		if err != nil {
			res.Note("%s: %v", sec, err)
			return
		}
		if err := applySteps(pathIn(img), steps, cs.K, cs.Len, func(string) []byte { return after }); err != nil {
			res.Note("%s: applying steps: %v", sec, err)
			return
		}
		v.model(cutLine, true)
		if cs.Kind == "rmpipe-cut" {
			for i, st := range steps {
				if strings.HasPrefix(st, "rename:") && cs.K > i {
					// the registry without the pipe reached the disk (the acknowledgement did not): the pipe is gone
					delete(v.pipes, name)
					v.deleted[name] = true
				}
			}
		}
		res.Dist(sect, fmt.Sprintf("crash:%s:k=%d/%d", cs.Kind, cs.K, len(steps)))
	case "snap-missing":
		os.Remove(filepath.Join(img, "cindex", "cindex.dat"))
		v.model("crash", true)
		v.model("frm cindex.dat", true)
	case "snap-torn":
		fn := filepath.Join(img, "cindex", "cindex.dat")
		b, err := ioutil.ReadFile(fn)
		v.model("crash", true)
		if err == nil && len(b) > 0 {
			n := map[string]int{"0": 0, "1": 1, "h": len(b) / 2, "m": len(b) - 1}[cs.Len]
			ioutil.WriteFile(fn, b[:n], 0640)
			v.model("ftorn cindex.dat "+cs.Len, true)
		}
	case "tree-zero-intact":
		// every tree file zero-filled (its pages never reached the disk), the snapshot of the clean stop intact and complete:
		// nothing was written since the last graceful restart
		trees, _ := filepath.Glob(filepath.Join(img, "cindex", "*.tidx"))
		for _, f := range trees {
			st, _ := os.Stat(f)
			ioutil.WriteFile(f, make([]byte, st.Size()), 0640)
		}
		res.Dist(sect, fmt.Sprintf("tree-zero-intact:files=%d", len(trees)))
		v.model("crash", true)
	case "tree-missing", "tree-zero", "tree-half":
		trees, _ := filepath.Glob(filepath.Join(img, "cindex", "*.tidx"))
		for _, f := range trees {
			st, _ := os.Stat(f)
			switch cs.Kind {
			case "tree-missing":
				os.Remove(f)
			case "tree-zero":
				ioutil.WriteFile(f, make([]byte, st.Size()), 0640)
			case "tree-half":
				// torn: the second half of the file never reached the disk
				os.Truncate(f, st.Size()/2)
			}
		}
		if cs.K == 0 && cs.Kind != "tree-missing" {
			v.treeDamaged = true
		}
		if cs.K == 1 {
			os.Remove(filepath.Join(img, "cindex", "cindex.dat"))
			v.model("crash", true)
			v.model("frm cindex.dat", true)
		} else {
			v.model("crash", true)
		}
	}
	if !v.start(kind) {
		return
	}
	if len(cs.Then) > 0 && cs.Then[0] == "write-first" {
		// the first thing that touches each partition on the restarted server is a WRITE (any read would register the chunks
		// with their real hulls first): the time index has no entry for the source, creates it from the notified batch and
		// must hand the chunk — which already holds records — to the background rebuilder
		v.writeFirst(rng, cs.Kind)
		ref = nil // the answers of the server before the crash no longer apply
	} else {
		v.oracle(rng, "a crash ("+cs.Kind+")", ref)
	}
	// repeated crash / restart sequences on the image
	cur := v
	for i, th := range cs.Then {
		if cur.dead || cur.srv == nil {
			break
		}
		switch th {
		case "write-first":
			// done above
		case "restart":
			cur.srv.Stop()
			cur.srv = nil
			cur.expect("stop", true, "ok", "graceful shutdown")
			if !cur.start("restart-after-crash") {
				return
			}
			cur.oracle(rng, "a graceful restart after a crash", ref)
			if len(cs.Then) > 0 && cs.Then[0] == "write-first" {
				cur.oooProbe("a crash, a first write and a graceful restart")
			}
		case "crash":
			img2 := fmt.Sprintf("%s-%d", img, i)
			defer os.RemoveAll(img2)
			if err := copyDir(cur.dir, img2); err != nil {
				return
			}
			n := cur.fork(img2)
			defer n.close()
			n.crashMode = true
			n.noOoo = true
			n.model("crash", true)
			if !n.start("crash") {
				return
			}
			n.oracle(rng, "a second crash", ref)
			cur = n
		}
		res.Dist(sect, "then:"+th)
	}
}

func (s *sim) writeFirst(rng *vh.Rng, kind string) {
	type pre struct {
		p      *part
		n      int
		lastTs int64
	}
	var pres []pre
	for _, t := range s.sortedTags() {
		p := s.parts[t]
		if p.dest || len(p.events) == 0 {
			continue
		}
		idx := -1
		for _, tok := range strings.Split(t, ",") {
			if strings.HasPrefix(tok, "p=") {
				idx, _ = strconv.Atoi(tok[2:])
			}
		}
		if idx < 0 {
			continue
		}
		pres = append(pres, pre{p, len(p.events), p.events[len(p.events)-1].Ts})
		s.doWrite(hop{Kind: "write", Part: idx, N: rng.PickI([]int{1, 3, 12})}, rng, true)
		res.Dist(s.sect, "write-first-after-crash:"+kind)
	}
	if len(s.pipes) > 0 {
		s.waitPipes()
		s.syncPipes()
	}
	// the rebuild runs in the background (event-driven, no timer in the rebuilder: milliseconds on an idle machine): poll until
	// the events written before the crash are all visible to a RANGE query that ends before the new batch. The deadline is
	// only reached when the rebuild does not happen at all (20 s: the machine is shared, load averages of 50..100 occur);
	// whatever the outcome, the oracle below reports
	deadline := time.Now().Add(20 * time.Second)
	for _, x := range pres {
		first := x.p.events[0].Ts
		var want int
		for _, e := range x.p.events {
			if e.Ts >= first-2 && e.Ts <= x.lastTs {
				want++
			}
		}
		for {
			got, err := s.query(fmt.Sprintf("select from %s range [\"%d\":\"%d\"]", fromOf(x.p.tags), first-2, x.lastTs))
			if (err == nil && len(got) == want) || time.Now().After(deadline) {
				if err != nil || len(got) != want {
					res.Dist(s.sect, "write-first:not-visible-after-20s")
				}
				break
			}
			time.Sleep(10 * time.Millisecond)
		}
	}
	s.oracle(rng, "a crash ("+kind+") and a first write", nil)
	s.oooProbe("a crash (" + kind + ") and a first write")
}

// ---------------------------------------------------------------------------------------------
// generators

var pipeNames = []string{"s", "t", "pa", "s", "p_1", "x"}

func genOps(rng *vh.Rng, nops int, withRestarts bool) []hop {
	var ops []hop
	np := rng.Range(1, 4)
	pipesMade := []string{}
	for i := 0; i < nops; i++ {
		switch r := rng.Intn(20); {
		case r < 10:
			ops = append(ops, hop{Kind: "write", Part: rng.Intn(np), N: rng.PickI([]int{1, 2, 5, 17, 40, 90, 260})})
		case r < 12:
			n := rng.PickS(pipeNames)
			ops = append(ops, hop{Kind: "mkpipe", Name: n, Sel: rng.PickS([]string{"g=a", "g=b", "p=0", "p=1"})})
			pipesMade = append(pipesMade, n)
		case r < 13:
			if len(pipesMade) > 0 {
				ops = append(ops, hop{Kind: "rmpipe", Name: rng.PickS(pipesMade)})
			}
		case r < 14:
			ops = append(ops, hop{Kind: "truncate", Part: rng.Intn(np)})
		case r < 15:
			// a partition that is deleted completely; in two of three cases the deletion is the last change of the tag index
			// before the next graceful stop
			d := 50 + rng.Intn(2)
			ops = append(ops, hop{Kind: "write", Part: d, N: rng.PickI([]int{1, 4, 60})}, hop{Kind: "droppart", Part: d})
			if rng.Chance(2, 3) {
				ops = append(ops, hop{Kind: "restart", Quiesce: true})
			}
		default:
			if withRestarts {
				ops = append(ops, hop{Kind: "restart", Quiesce: rng.Chance(2, 3)})
			} else if rng.Chance(1, 3) {
				ops = append(ops, hop{Kind: "restart", Quiesce: true})
			} else {
				ops = append(ops, hop{Kind: "write", Part: rng.Intn(np), N: rng.PickI([]int{1, 3, 30})})
			}
		}
	}
	return ops
}

func genGraceful(rng *vh.Rng) scase {
	c := scase{ChunkSize: rng.PickI([]int{700, 1500, 4000, 20000}), Ops: genOps(rng, rng.Range(4, 14), true)}
	if rng.Chance(1, 6) {
		// slow flush timer: a stop right after an acknowledgement certainly precedes the periodic flush
		c = scase{ChunkSize: c.ChunkSize, FlushMs: 120, Ops: []hop{{Kind: "write", Part: 0, N: rng.PickI([]int{3, 40})}, {Kind: "write", Part: 1, N: 2}}}
		for i := rng.Range(1, 3); i > 0; i-- {
			c.Ops = append(c.Ops, hop{Kind: "write", Part: rng.Intn(3), N: rng.PickI([]int{1, 2, 30})}, hop{Kind: "restart"})
		}
	}
	c.Ops = append(c.Ops, hop{Kind: "restart", Quiesce: true})
	return c
}

// tree-zero / tree-half exist as replayable kinds but are not generated: see design-notes/C07.md (damaged tree files give wrong RANGE answers; C02's tree)
var crashKinds = []string{"image", "image", "tindex-cut", "tindex-cut", "stop-cut", "pipesave-cut", "snap-missing", "snap-torn", "tree-missing", "tree-zero-intact", "stop-cut", "tree-zero", "tree-half", "mkpipe-cut", "rmpipe-cut"}
var lenClasses = []string{"0", "1", "h", "m", "f"}

func genCrash(rng *vh.Rng, i int) scase {
	if os.Getenv("C07_TREE_EXPERIMENT") != "" && i%2 == 0 {
		// exploration switch (not used by the check): damaged tree files in every combination with the snapshot
		c := scase{ChunkSize: rng.PickI([]int{700, 1500, 4000, 20000}), Ops: genOps(rng, rng.Range(3, 10), false)}
		c.Ops = append(c.Ops, hop{Kind: "write", Part: 0, N: 300}, hop{Kind: "write", Part: 0, N: 280})
		if rng.Bool() {
			c.Ops = append(c.Ops, hop{Kind: "restart", Quiesce: true})
		}
		if rng.Bool() {
			c.Ops = append(c.Ops, hop{Kind: "write", Part: 0, N: 3})
		}
		c.Crash = &crashSpec{Kind: rng.PickS([]string{"tree-zero", "tree-half"}), K: rng.Intn(2)}
		return c
	}
	c := scase{ChunkSize: rng.PickI([]int{700, 1500, 4000, 20000}), Ops: genOps(rng, rng.Range(3, 10), false)}
	cs := &crashSpec{Kind: crashKinds[i%len(crashKinds)]}
	switch cs.Kind {
	case "tindex-cut":
		cs.K, cs.Len = rng.Range(0, 5), rng.PickS(lenClasses)
	case "stop-cut":
		cs.K, cs.Len = rng.Range(0, 5), rng.PickS(lenClasses)
	case "pipesave-cut":
		cs.K, cs.Len = rng.Range(0, 2), rng.PickS(lenClasses)
		cs.Pipe = rng.PickS(pipeNames)
		c.Ops = append([]hop{{Kind: "mkpipe", Name: cs.Pipe, Sel: "g=a"}, {Kind: "write", Part: 0, N: 5}}, c.Ops...)
	case "mkpipe-cut":
		cs.K, cs.Len = rng.Range(0, 4), rng.PickS(lenClasses)
	case "rmpipe-cut":
		cs.K, cs.Len = rng.Range(0, 5), rng.PickS(lenClasses)
		cs.Pipe = rng.PickS([]string{"t", "pa", "a_b"})
		c.Ops = append(c.Ops, hop{Kind: "mkpipe", Name: cs.Pipe, Sel: "g=a"}, hop{Kind: "write", Part: 0, N: 5})
	case "snap-torn":
		cs.Len = rng.PickS(lenClasses[:4])
		c.Ops = append(c.Ops, hop{Kind: "restart", Quiesce: true}, hop{Kind: "write", Part: 0, N: 3})
	case "snap-missing":
		if rng.Bool() {
			c.Ops = append(c.Ops, hop{Kind: "restart", Quiesce: true}, hop{Kind: "write", Part: 0, N: 3})
		}
	case "tree-missing":
		cs.K = 1 // tree damage is exercised together with a missing snapshot (see design-notes/C07.md: with a snapshot that still refers to a damaged tree the answers depend on C02's tree and on the asynchronous rebuilder)
		c.Ops = append(c.Ops, hop{Kind: "write", Part: 0, N: 300}, hop{Kind: "write", Part: 0, N: 280})
		if rng.Bool() {
			c.Ops = append(c.Ops, hop{Kind: "restart", Quiesce: true})
		}
	case "tree-zero", "tree-half":
		// damaged tree files with the snapshot that refers to them and growth since that snapshot (F47's class)
		cs.K = 0
		c.Ops = append(c.Ops, hop{Kind: "write", Part: 2, N: 90}, hop{Kind: "restart", Quiesce: true}, hop{Kind: "write", Part: 0, N: 260},
			hop{Kind: "write", Part: 1, N: 2}, hop{Kind: "write", Part: 0, N: 300})
	case "tree-zero-intact":
		c.Ops = append(c.Ops, hop{Kind: "write", Part: 0, N: rng.PickI([]int{40, 300, 600})}, hop{Kind: "write", Part: 1, N: rng.PickI([]int{3, 280})},
			hop{Kind: "restart", Quiesce: true})
	case "image":
		if rng.Bool() {
			// make a stale snapshot likely: clean restart, then growth
			c.Ops = append(c.Ops, hop{Kind: "write", Part: 0, N: 4}, hop{Kind: "restart", Quiesce: true}, hop{Kind: "write", Part: 0, N: 3})
			if rng.Bool() {
				cs.Then = append(cs.Then, "write-first") // first operation on the stale snapshot entry is a write
			}
		}
	}
	if (cs.Kind == "snap-missing" || cs.Kind == "snap-torn") && rng.Bool() && len(cs.Then) == 0 {
		cs.Then = append(cs.Then, "write-first")
	}
	for n := rng.Intn(3); n > 0; n-- {
		cs.Then = append(cs.Then, rng.PickS([]string{"crash", "restart"}))
	}
	if len(cs.Then) == 1 && cs.Then[0] == "write-first" {
		cs.Then = append(cs.Then, "restart") // the wrong hull would be saved by the next clean stop: ask again after it
	}
	c.Crash = cs
	return c
}

// every cut of the tag-index save and of the shutdown saves, on one fixed small history
func exhaustiveCuts() []scase {
	var cs []scase
	base := []hop{{Kind: "write", Part: 0, N: 5}, {Kind: "mkpipe", Name: "t", Sel: "g=a"}, {Kind: "write", Part: 0, N: 3}, {Kind: "write", Part: 1, N: 4},
		{Kind: "restart", Quiesce: true}, {Kind: "write", Part: 1, N: 2}}
	// first operation after the crash start is a write, for a missing and for a torn snapshot
	cs = append(cs,
		scase{ChunkSize: 4000, Ops: base, Crash: &crashSpec{Kind: "snap-missing", Then: []string{"write-first", "restart"}}},
		scase{ChunkSize: 4000, Ops: base, Crash: &crashSpec{Kind: "snap-torn", Len: "h", Then: []string{"write-first", "restart"}}},
		scase{ChunkSize: 700, Ops: base, Crash: &crashSpec{Kind: "snap-torn", Len: "m", Then: []string{"write-first", "crash"}}},
		// … and for a STALE snapshot (the base history ends with a clean restart and growth): a plain image
		scase{ChunkSize: 4000, Ops: base, Crash: &crashSpec{Kind: "image", Then: []string{"write-first", "restart"}}},
		scase{ChunkSize: 700, Ops: base, Crash: &crashSpec{Kind: "image", Then: []string{"write-first", "crash"}}})
	// … with an OUT-OF-ORDER window between the snapshot and the crash (timestamps far above the snapshot's hull and above the
	// first batch after the restart): only the rebuild that the stale entry's first write sets in motion makes it visible
	ooo := []hop{{Kind: "write", Part: 0, N: 5}, {Kind: "write", Part: 1, N: 4}, {Kind: "restart", Quiesce: true}, {Kind: "writeooo", Part: 0, N: 3}, {Kind: "write", Part: 1, N: 2}}
	cs = append(cs,
		scase{ChunkSize: 4000, Ops: ooo, Crash: &crashSpec{Kind: "image", Then: []string{"write-first", "restart"}}},
		scase{ChunkSize: 20000, Ops: append(append([]hop{}, ooo...), hop{Kind: "writeooo", Part: 1, N: 2}), Crash: &crashSpec{Kind: "image", Then: []string{"write-first", "restart", "restart"}}})
	// the step lists come from the model at run time; a prefix class matters only where step k is a write
	for k := 0; k <= 5; k++ {
		for _, l := range lenClasses {
			if k != 1 && l != "f" {
				continue
			}
			cs = append(cs, scase{ChunkSize: 4000, Ops: base, Crash: &crashSpec{Kind: "tindex-cut", K: k, Len: l}})
		}
	}
	for k := 0; k <= 5; k++ {
		for _, l := range lenClasses {
			if k != 1 && k != 4 && l != "f" {
				continue
			}
			cs = append(cs, scase{ChunkSize: 4000, Ops: base, Crash: &crashSpec{Kind: "stop-cut", K: k, Len: l}})
		}
	}
	for k := 0; k <= 2; k++ {
		for _, l := range lenClasses {
			if k != 1 && l != "f" {
				continue
			}
			cs = append(cs, scase{ChunkSize: 4000, Ops: base, Crash: &crashSpec{Kind: "pipesave-cut", K: k, Len: l, Pipe: "t"}})
		}
	}
	// an acknowledged DELETE PIPE, then a crash image (and a second crash / a clean restart of the crash-started server): the
	// pipe must not come back
	delOps := append(append([]hop{}, base...), hop{Kind: "mkpipe", Name: "pa", Sel: "g=b"}, hop{Kind: "write", Part: 0, N: 3}, hop{Kind: "rmpipe", Name: "t"})
	cs = append(cs,
		scase{ChunkSize: 4000, Ops: delOps, Crash: &crashSpec{Kind: "image", Then: []string{"crash"}}},
		scase{ChunkSize: 4000, Ops: append(append([]hop{}, delOps...), hop{Kind: "rmpipe", Name: "pa"}), Crash: &crashSpec{Kind: "image", Then: []string{"restart"}}})
	// every cut of the metadata updates of CREATE PIPE (3 steps) and DELETE PIPE (4 steps)
	for k := 0; k <= 4; k++ {
		for _, l := range lenClasses {
			if k != 1 && l != "f" {
				continue
			}
			if k <= 3 {
				cs = append(cs, scase{ChunkSize: 4000, Ops: base, Crash: &crashSpec{Kind: "mkpipe-cut", K: k, Len: l}})
			}
			cs = append(cs, scase{ChunkSize: 4000, Ops: base, Crash: &crashSpec{Kind: "rmpipe-cut", K: k, Len: l, Pipe: "t"}})
		}
	}
	return cs
}

// ---------------------------------------------------------------------------------------------
// unit: codec contract, file names

func sectionUnit(rng *vh.Rng) {
	sec := res.Section("unit", "unit-correspondence",
		"(a) codec contract on the real files of generated servers: every strict prefix of tindex.dat, cindex.dat, pipes.dat, pipe<name>.dat fails json.Unmarshal into the type the loader uses, the whole file decodes, a registry file does not decode as a position map and vice versa; (b) persister.pipeFileName vs the model's pipeFileName for generated names (all escape terms, the colliding name s); non-trivial = distinct file contents / names")
	// (b) names
	names := []string{"s", "t", "", "a/b", "a_b", "_", "__", "a\\b", "`", "*", "|", ";", "\"", "'", ":", "s_", "/s", "pipes", "é", "a b", "p.q", "_00", "s\x00"}
	for i := 0; i < 60; i++ {
		n := rng.Range(0, 5)
		b := make([]byte, n)
		for j := range b {
			b[j] = []byte("s_/\\`*|;\"':ab.0")[rng.Intn(15)]
		}
		names = append(names, string(b))
	}
	var lines, impls []string
	for _, n := range names {
		lines = append(lines, "fname "+vh.HxS(n))
		impls = append(impls, vh.HxS(filepath.Base(pipe.VerifC07PipeFileName("/d", n))))
		res.Eval(sec, "name:"+n)
	}
	outs, err := vh.Batch(args.Driver, lines)
	if err != nil {
		res.Fatal(args.Out, "driver: %v", err)
	}
	for i := range outs {
		if outs[i] != impls[i] {
			res.Mismatch(vh.Mismatch{Section: "unit", Function: "persister.pipeFileName", Input: names[i], Impl: impls[i], Model: outs[i]})
		}
	}
	// (a) codec contract on real files
	n := 2
	if args.Thorough {
		n = 8
	}
	for i := 0; i < n; i++ {
		c := scase{ChunkSize: 1500, Ops: []hop{{Kind: "write", Part: 0, N: 5 + i}, {Kind: "mkpipe", Name: "t", Sel: "g=a"}, {Kind: "mkpipe", Name: "pa", Sel: "p=1"},
			{Kind: "write", Part: 0, N: 40}, {Kind: "write", Part: 1, N: 7}}}
		s := newSim("unit", sec, c, c.ChunkSize)
		if !s.start("fresh") {
			s.close()
			continue
		}
		s.runOps(c.Ops, rng)
		s.waitPipes()
		s.srv.Stop()
		s.srv = nil
		type tdesc struct{ Src string }
		type ppd struct {
			Tags             string
			Pos, LastKnwnPos journal.Pos
		}
		check := func(fn string, mk func() interface{}, other func() interface{}) {
			b, err := ioutil.ReadFile(fn)
			if err != nil {
				return
			}
			res.Eval(sec, "file:"+string(b))
			if err := json.Unmarshal(b, mk()); err != nil {
				res.Mismatch(vh.Mismatch{Section: "unit", Function: "codec contract rt: " + filepath.Base(fn), Input: string(b), Impl: err.Error(), Model: "decodes"})
			}
			for k := 0; k < len(b); k++ {
				if json.Unmarshal(b[:k], mk()) == nil {
					res.Mismatch(vh.Mismatch{Section: "unit", Function: "codec contract torn: " + filepath.Base(fn), Input: string(b[:k]), Impl: "decodes", Model: "error"})
					break
				}
			}
			if other != nil && json.Unmarshal(b, other()) == nil {
				res.Mismatch(vh.Mismatch{Section: "unit", Function: "codec contract cross: " + filepath.Base(fn), Input: string(b), Impl: "decodes as the other file type", Model: "error"})
			}
		}
		check(filepath.Join(s.dir, "tindex", "tindex.dat"), func() interface{} { return &map[string]*tdesc{} }, nil)
		check(filepath.Join(s.dir, "cindex", "cindex.dat"), func() interface{} { return &map[string][]map[string]interface{}{} }, nil)
		check(filepath.Join(s.dir, "pipes", "pipes.dat"), func() interface{} { return &[]pipe.Pipe{} }, func() interface{} { return &map[string]*ppd{} })
		check(filepath.Join(s.dir, "pipes", "pipet.dat"), func() interface{} { return &map[string]*ppd{} }, func() interface{} { return &[]pipe.Pipe{} })
		s.close()
	}
	// (c) what encoding/json makes of a string
	unitSanitize(sec, rng.Fork("sanitize"))
	res.Done(sec)
}

// ---------------------------------------------------------------------------------------------

func runCases(secName string, sect *vh.Section, cases []scase, seed *vh.Rng, workers int) {
	var wg sync.WaitGroup
	sem := make(chan struct{}, workers)
	for i := range cases {
		wg.Add(1)
		sem <- struct{}{}
		r := seed.Fork(fmt.Sprintf("case%d", i))
		go func(c scase, r *vh.Rng) {
			defer wg.Done()
			defer func() { <-sem }()
			defer func() {
				if p := recover(); p != nil {
					res.SpecFail(vh.SpecFailure{Section: secName, Kind: "panic", Input: c, Impl: fmt.Sprint(p), Spec: "no panic", What: "the harness or the server panicked while running this case"})
				}
			}()
			key := ""
			if len(c.Ops) >= 3 {
				b, _ := json.Marshal(c)
				key = string(b)
			}
			if c.Conc != nil {
				b, _ := json.Marshal(c)
				key = string(b)
				runConc(c, secName, sect)
			} else if c.Utf8 != nil {
				b, _ := json.Marshal(c)
				key = string(b)
				runUtf8(c, secName, sect)
			} else if c.Crash != nil {
				runCrash(c, secName, sect, r)
			} else {
				runGraceful(c, secName, sect, r)
			}
			res.Eval(sect, key)
		}(cases[i], r)
	}
	wg.Wait()
}

func corpusCases() []scase {
	var cs []scase
	for _, f := range vh.CorpusFiles(args.Corpus) {
		var rp struct {
			Section string `json:"section"`
			Input   scase  `json:"input"`
		}
		if vh.ReadJSON(f, &rp) == nil && (len(rp.Input.Ops) > 0 || rp.Input.Utf8 != nil || rp.Input.Conc != nil) {
			n := 1
			if rp.Input.Rounds > 1 {
				n = rp.Input.Rounds
				if args.Thorough {
					n *= 2
				}
			}
			for i := 0; i < n; i++ {
				cs = append(cs, rp.Input)
			}
		}
	}
	return cs
}

func replay(path string) {
	var rp struct {
		Section string `json:"section"`
		Input   scase  `json:"input"`
	}
	if err := vh.ReadJSON(path, &rp); err != nil {
		res.Fatal(args.Out, "replay: %v", err)
	}
	sect := res.Section("replay", "replay", "replay of one recorded case")
	rounds := []scase{rp.Input}
	for i := 1; i < rp.Input.Rounds; i++ {
		rounds = append(rounds, rp.Input)
	}
	runCases("replay", sect, rounds, vh.NewRng(args.Seed).Fork("replay"), 1)
	for _, m := range res.Mismatches {
		fmt.Printf("MISMATCH %s impl=%s model=%s\n", m.Function, m.Impl, m.Model)
	}
	for _, f := range res.SpecFailures {
		fmt.Printf("SPECFAIL kind=%s finding=%q implEqModel=%v %s\n  impl=%s\n  spec=%s\n", f.Kind, f.Finding, f.ImplEqModel, f.What, f.Impl, f.Spec)
	}
	res.Write(args.Out)
}

// ---------------------------------------------------------------------------------------------
// race: a reader's syncChunks between a confirmed write and its index notification (regression of F06b)

type sliceIt struct {
	evs []model.LogEvent
	i   int
}

func (s *sliceIt) Next(ctx context.Context) { s.i++ }
func (s *sliceIt) Get(ctx context.Context) (model.LogEvent, tag.Line, error) {
	if s.i >= len(s.evs) {
		return model.LogEvent{}, "", io.EOF
	}
	return s.evs[s.i], "", nil
}
func (s *sliceIt) Release()                        {}
func (s *sliceIt) SetBackward(bool)                {}
func (s *sliceIt) CurrentPos() records.IteratorPos { return s.i }

func sectionRace(rng *vh.Rng) {
	sec := res.Section("race", "system-correspondence",
		"schedule replay with the hooks partition.write.beforeCIndex / tmindex.syncChunks.betweenLocks: a write is parked between the journal write (confirmed by Sync) and its time-index notification — the chunk is ahead of its LIVE index entry — while RANGE queries run syncChunks; then the write is released. The write must not panic, the entry must not be dropped (no rebuild churn, no empty chunk list), every RANGE answer afterwards equals the filter; also after a clean restart. non-trivial = every round")
	defer res.Done(sec)
	if !verifhook.Enabled {
		res.Note("race: hooks are not compiled in")
		return
	}
	rounds := 6
	if args.Thorough {
		rounds = 30
	}
	for r := 0; r < rounds; r++ {
		n0, n1 := rng.PickI([]int{1, 5, 40}), rng.PickI([]int{1, 3, 20})
		in := map[string]interface{}{"first_batch": n0, "parked_batch": n1, "round": r}
		fail := func(kind, what, impl, spec string) {
			res.SpecFail(vh.SpecFailure{Section: "race", Kind: kind, Input: in, Impl: impl, Spec: spec, Finding: "F06b", What: what})
		}
		dir := lrsrv.NewDir()
		srv, err := startRetry(dir, lrsrv.Opts{MaxChunkSize: 20000})
		if err != nil {
			os.RemoveAll(dir)
			continue
		}
		tags := "r=1"
		var all []ev
		mk := func(n int) ([]*api.LogEvent, []model.LogEvent) {
			var a []*api.LogEvent
			var m []model.LogEvent
			for i := 0; i < n; i++ {
				e := ev{int64(1000 + len(all)), fmt.Sprintf("r-%d", len(all))}
				all = append(all, e)
				a = append(a, &api.LogEvent{Timestamp: e.Ts, Message: e.Msg})
				m = append(m, model.LogEvent{Timestamp: e.Ts, Msg: records.Record(e.Msg)})
			}
			return a, m
		}
		a0, _ := mk(n0)
		var wr api.WriteResult
		srv.Client.Write(context.Background(), tags, "", a0, &wr)
		srv.FlushWait()
		s := &sim{srv: srv, sec: "race", sect: sec}
		rq := func(lo, hi int64) ([]ev, []ev) {
			got, _ := s.query(fmt.Sprintf("select from {%s} range [\"%d\":\"%d\"]", tags, lo, hi))
			var want []ev
			for _, e := range all {
				if e.Ts >= lo && e.Ts <= hi {
					want = append(want, e)
				}
			}
			return got, want
		}
		rq(1000, 1000+int64(n0)) // the entry is live and compared once
		src, _, err := srv.TIndex.GetJournal(tags)
		if err != nil {
			srv.Stop()
			os.RemoveAll(dir)
			continue
		}
		srv.TIndex.Release(src)
		// park the next write between the journal write and the index notification
		parked, release := make(chan struct{}), make(chan struct{})
		var once sync.Once
		verifhook.Set("partition.write.beforeCIndex", func() {
			once.Do(func() { close(parked); <-release })
		})
		_, m1 := mk(n1)
		done := make(chan string, 1)
		go func() {
			p := ""
			func() {
				defer func() {
					if r := recover(); r != nil {
						p = fmt.Sprint(r) + "\n" + string(debug.Stack())
					}
				}()
				if err := srv.Parts.Write(context.Background(), tags, &sliceIt{evs: m1}, false); err != nil {
					p = "error: " + err.Error()
				}
			}()
			done <- p
		}()
		select {
		case <-parked:
		case <-time.After(5 * time.Second):
			res.Note("race: the write did not reach the hook")
		}
		if j, err := srv.Journals.GetOrCreate(context.Background(), src); err == nil {
			j.Sync() // the records are confirmed: Count() is ahead of the entry's Recs
		}
		// a reader enters syncChunks with the chunk ahead of its live entry and is parked between the two locked sections
		// (where the a2ca477 shape had stored an EMPTY chunk list for the partition); the writer's notification runs there
		rParked, rRelease, rDone := make(chan struct{}), make(chan struct{}), make(chan struct{})
		var ronce sync.Once
		verifhook.Set("tmindex.syncChunks.betweenLocks", func() {
			ronce.Do(func() { close(rParked); <-rRelease })
		})
		go func() {
			defer close(rDone)
			rq(1000, 2000)
		}()
		select {
		case <-rParked:
		case <-time.After(3 * time.Second):
			res.Note("race: the reader did not reach syncChunks' hook")
		}
		verifhook.Set("partition.write.beforeCIndex", nil)
		close(release)
		p := <-done
		verifhook.Set("tmindex.syncChunks.betweenLocks", nil)
		close(rRelease)
		res.Eval(sec, fmt.Sprint(in))
		if strings.Contains(p, "runtime error") || strings.Contains(p, "panic") {
			// the notification panicked with the index lock held (no deferred unlock): in the real server the process is gone;
			// here the lock stays taken, so this server is abandoned without waiting for the reader or stopping it
			if len(p) > 1500 {
				p = p[:1500]
			}
			fail("server-panic", "the index notification of a write ran while a reader was between the two locked sections of syncChunks and panicked (in the real server this goroutine is an RPC handler: the process dies)", p, "the write completes")
			continue
		}
		<-rDone
		if p != "" {
			if len(p) > 1500 {
				p = p[:1500]
			}
			fail("server-panic", "a write whose index notification came after a reader's syncChunks panicked / failed (in the real server this goroutine is an RPC handler: the process dies)", p, "the write completes")
		} else {
			srv.FlushWait()
			check := func(when string) {
				deadline := time.Now().Add(3 * time.Second)
				for _, r := range [][2]int64{{1000, 1000 + int64(n0) - 1}, {1000 + int64(n0), 3000}, {1000, 3000}, {1000 + int64(n0) - 1, 1000 + int64(n0)}} {
					for {
						got, want := rq(r[0], r[1])
						if sameEvs(got, want) {
							break
						}
						if time.Now().After(deadline) {
							fail("hidden-event", fmt.Sprintf("RANGE [%d:%d] %s is not the filter", r[0], r[1], when), evsStr(got), evsStr(want))
							break
						}
						time.Sleep(10 * time.Millisecond)
					}
				}
			}
			check("after the parked write was released")
			srv.Stop()
			if srv, err = startRetry(dir, lrsrv.Opts{MaxChunkSize: 20000}); err == nil {
				s.srv = srv
				check("after a clean restart")
			}
		}
		if srv != nil {
			srv.Stop()
		}
		os.RemoveAll(dir)
	}
}

// raiseFdLimit: a stopped in-process server never closes its chunk files (the library's journal controller has no
// Shutdown), so a run with thousands of restarts needs many descriptors
func raiseFdLimit() {
	var l syscall.Rlimit
	if syscall.Getrlimit(syscall.RLIMIT_NOFILE, &l) == nil && l.Cur < l.Max {
		l.Cur = l.Max
		syscall.Setrlimit(syscall.RLIMIT_NOFILE, &l)
	}
}

func main() {
	raiseFdLimit()
	args = vh.ParseArgs()
	res = vh.NewResult("C07", args)
	if args.Replay != "" {
		replay(args.Replay)
		return
	}
	rng := vh.NewRng(args.Seed)
	cs := res.Section("corpus", "corpus", "witnesses of the open findings and minimised past failures, replayed first")
	runCases("corpus", cs, corpusCases(), rng.Fork("corpus"), 6)
	res.Done(cs)
	sectionUnit(rng.Fork("unit"))
	sectionRace(rng.Fork("race"))
	ks := res.Section("conc", "system-correspondence",
		"schedule replays with hooks, one at a time: busystop — a pipe worker parked inside its copy (records in the destination journal, position not saved) when the graceful stop begins; after the restart every source event is in the pipe's partition exactly once; ack — 3..7 concurrent CREATE (then DELETE) PIPE while one registry save is parked behind its snapshot: the registry file on disk at each acknowledgement holds (no longer holds) the pipe")
	runCases("conc", ks, concCases(rng.Fork("conc")), rng.Fork("conc"), 1)
	res.Done(ks)

	ng, nc := 30, 44
	if args.Thorough {
		ng, nc = 80, 100
	}
	gs := res.Section("graceful", "system-correspondence",
		"histories of 5..15 operations (writes of 1..260 events with monotone, tied timestamps to 1..4 partitions over chunk sizes 700..20000 bytes so that chunks roll over, CREATE/DELETE PIPE incl. the name s, TRUNCATE, graceful Stop/Start with and without waiting for the pipes, also directly after an acknowledgement); after every restart: full reads, 5..8 RANGE probes per partition at hull and chunk boundaries, SHOW PARTITIONS/PIPES, DESCRIBE PIPE, pipe positions, no duplicate in pipe partitions; every observation also compared with the Lean model; non-trivial = at least 3 operations, distinct by case")
	var gcases []scase
	gr := rng.Fork("graceful")
	for i := 0; i < ng; i++ {
		gcases = append(gcases, genGraceful(gr))
	}
	runCases("graceful", gs, gcases, gr, 8)
	res.Done(gs)

	us := res.Section("utf8", "system-correspondence",
		"stored strings through encoding/json: partitions whose tag lines and pipes whose names contain valid multi-byte UTF-8, invalid bytes, surrogate and over-long encodings (5 fixed + generated cases); acknowledged writes / CREATE PIPE, graceful Stop/Start; the start line (started/refused, tag lines, pipe names) is compared with the model (codec = contract instance behind Persist.sanitize); SPEC: the server starts, every acknowledged tag line is in the tag index, every pipe is found under its name")
	ur := rng.Fork("utf8")
	ucases := utf8Fixed()
	nu := 6
	if args.Thorough {
		nu = 30
	}
	for i := 0; i < nu; i++ {
		ucases = append(ucases, genUtf8(ur))
	}
	runCases("utf8", us, ucases, ur, 6)
	res.Done(us)

	xs := res.Section("crash", "system-correspondence",
		"constructed crash images of a running server after a generated history: plain copy (incl. after a clean restart and growth = stale snapshot), every cut of the tag-index save (steps taken from the model's regenerated step list; prefixes 0,1,half,len-1,len), of the shutdown saves of pipes.dat and cindex.dat, of a position save, snapshot missing/torn, tree files missing/zero-filled/cut in half (with and without snapshot); a second in-process server is started on each image and checked with the same oracle (acknowledged partitions and events, RANGE = filter on monotone partitions, acknowledged pipes present); then 0..2 further crashes/graceful restarts; start/refuse, partition set, pipe set and RANGE answers compared with the model")
	xr := rng.Fork("crash")
	xcases := exhaustiveCuts()
	for i := 0; i < nc; i++ {
		xcases = append(xcases, genCrash(xr, i))
	}
	runCases("crash", xs, xcases, xr, 8)
	res.Done(xs)
	for i := 0; i < 2 && i < len(gcases); i++ {
		res.Sample(map[string]interface{}{"section": "graceful", "case": gcases[i]})
	}
	for i := 0; i < 2; i++ {
		res.Sample(map[string]interface{}{"section": "crash", "case": xcases[len(xcases)-1-i]})
	}
	if fds, err := ioutil.ReadDir("/proc/self/fd"); err == nil {
		// stopped in-process servers never close their chunk files (no Shutdown in the library's journal controller) and,
		// since the shutdown syncs every journal, each stop opens the writers of all journals: the run must stay well below
		// the descriptor limit (20000 here)
		res.Dist(xs, fmt.Sprintf("descriptors-in-use-at-end(limit 20000):%d", len(fds)/1000*1000))
	}
	res.Write(args.Out)
}
