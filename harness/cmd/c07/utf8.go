// C07, section utf8: do the strings of the persisted files survive encoding/json?
//
// tindex.dat is json.Marshal(map[tag.Line]…): tag lines are object KEYS; pipes.dat is json.Marshal([]Pipe): names and
// conditions are string values. encoding/json replaces every byte that is not part of a valid UTF-8 sequence by U+FFFD, so
// Unmarshal(Marshal(s)) = sanitize(s) (model: Persist.sanitize; unit comparison below). tag.Parse keeps the bytes of an
// unquoted value as they are, the pipe service takes any Go string as a name: a stored key that is not valid UTF-8 changes
// across ANY restart, and two keys with the same image collapse into one (findings F-C07-901 tag index, F-C07-902 pipes;
// repaired by a7918dd / 3cf6638: such a partition / pipe is refused when it would be created — the witnesses must now be
// refused at write / create time, which is compared with the model's guards, and everything that IS accepted must survive).
package main

import (
	"context"
	"encoding/json"
	"fmt"
	"sort"
	"unicode/utf8"

	"github.com/logrange/logrange/api"
	"github.com/logrange/logrange/pkg/model/tag"
	"github.com/logrange/logrange/pkg/pipe"
	"verifharness/internal/vh"
)

type utf8Case struct {
	TagsHx  []string `json:"tags_hx,omitempty"`  // raw tag strings of acknowledged writes, hex
	PipesHx []string `json:"pipes_hx,omitempty"` // raw pipe names (created through pipe.Service.CreatePipe, as the RPC end point does), hex
}

func hxAll(xs ...string) []string {
	var out []string
	for _, x := range xs {
		out = append(out, vh.HxS(x))
	}
	return out
}

func utf8Fixed() []scase {
	mk := func(tags []string, pipes []string) scase {
		return scase{ChunkSize: 4000, Utf8: &utf8Case{TagsHx: hxAll(tags...), PipesHx: hxAll(pipes...)}}
	}
	return []scase{
		mk([]string{"a=x\xffy", "a=x\xfey", "b=ok"}, nil),                                   // two keys, one image: the restart is refused
		mk([]string{"a=x\xffy", "b=ok"}, nil),                                               // one key changes
		mk([]string{"b=ok"}, []string{"p\xff"}),                                             // a pipe name changes
		mk([]string{"a=xéy", "b=€", "c=\xef\xbf\xbd", "d=\"q\xffr\""}, []string{"pé", "t"}), // valid UTF-8 (and a quoted value, which tag.Parse sanitises itself): survives exactly
		mk([]string{"a=\xed\xa0\x80", "b=\xf4\x90\x80\x80"}, nil),                           // surrogate / beyond U+10FFFF encodings are invalid
	}
}

var utf8Pieces = []string{"x", "y", "0", "é", "€", "\xff", "\xfe", "\xc3", "\x80", "\xef\xbf\xbd", "\xed\xa0\x80", "<", "&"}

func genUtf8(rng *vh.Rng) scase {
	c := &utf8Case{}
	val := func() string {
		v := ""
		for n := rng.Range(1, 4); n > 0; n-- {
			v += rng.PickS(utf8Pieces)
		}
		return v
	}
	for n := rng.Range(1, 3); n > 0; n-- {
		c.TagsHx = append(c.TagsHx, vh.HxS(fmt.Sprintf("%s=%s", rng.PickS([]string{"a", "b"}), val())))
	}
	if rng.Chance(1, 2) {
		c.PipesHx = append(c.PipesHx, vh.HxS("p"+val()))
	}
	return scase{ChunkSize: 4000, Utf8: c}
}

func runUtf8(c scase, sec string, sect *vh.Section) {
	s := newSim(sec, sect, c, c.ChunkSize)
	defer s.close()
	if !s.start("fresh") {
		return
	}
	lines := map[string]string{} // canonical tag line -> model journal id
	anyInvalid := false
	for i, hx := range c.Utf8.TagsHx {
		raw := string(vh.UnHx(hx))
		set, err := tag.Parse(raw)
		if err != nil {
			res.Dist(sect, "utf8:tags-do-not-parse")
			continue
		}
		line := string(set.Line())
		_, known := lines[line]
		en := s.model("enabled.part "+vh.HxS(line), false)
		var wr api.WriteResult
		ts := int64(10 + i)
		err = s.srv.Client.Write(context.Background(), raw, "", []*api.LogEvent{{Timestamp: ts, Message: fmt.Sprintf("m%d", i)}}, &wr)
		if err == nil {
			err = wr.Err
		}
		// the guard of partition creation (repair of F-C07-901: a tag line that encoding/json would change is refused): model vs code
		if !known && (en == "1") != (err == nil) {
			res.Mismatch(vh.Mismatch{Section: sec, Function: "getOrCreateJournal accepts the tag line (model: enabled newPartition)", Input: vh.HxS(line), Impl: fmt.Sprint(err == nil), Model: en})
		}
		if err != nil {
			res.Dist(sect, "utf8:write-refused")
			if utf8.ValidString(line) {
				s.specFail("write-refused", "a write with valid UTF-8 tags is refused", err.Error(), "acknowledged", en, en == "0", "")
			}
			continue
		}
		if _, ok := s.implParts()[line]; !ok {
			s.specFail("partition-missing", "an acknowledged write created no partition with its tag line", "absent", vh.HxS(line), "", false, "")
			continue
		}
		if !utf8.ValidString(line) {
			anyInvalid = true
		}
		j, ok := lines[line]
		if !ok {
			j = fmt.Sprintf("j%d", len(lines))
			lines[line] = j
			s.expect(fmt.Sprintf("part %s %s", vh.HxS(line), vh.HxS(j)), true, "ok", "GetOrCreateJournal")
		}
		s.expect(fmt.Sprintf("write %s 1:%d", vh.HxS(j), ts), true, "ok", "Write")
	}
	s.srv.FlushWait()
	var names []string
	for _, hx := range c.Utf8.PipesHx {
		raw := string(vh.UnHx(hx))
		en := s.model(fmt.Sprintf("enabled.mkpipe %s %s -", vh.HxS(raw), vh.HxS("zz=1")), false)
		_, cerr := s.srv.Pipes.CreatePipe(pipe.Pipe{Name: raw, TagsCond: "zz=1"})
		if (en == "1") != (cerr == nil) {
			res.Mismatch(vh.Mismatch{Section: sec, Function: "CreatePipe accepts the name (model: enabled createPipe)", Input: vh.HxS(raw), Impl: fmt.Sprint(cerr == nil), Model: en})
		}
		if cerr != nil {
			res.Dist(sect, "utf8:create-pipe-refused")
			if utf8.ValidString(raw) {
				s.specFail("create-pipe-refused", "CREATE PIPE with a valid UTF-8 name is refused", cerr.Error(), "created", en, en == "0", "")
			}
			continue
		}
		d, err := s.srv.Pipes.GetPipe(raw)
		if err != nil {
			s.specFail("pipe-missing", "an acknowledged CREATE PIPE is not in the registry", "absent", vh.HxS(raw), "", false, "")
			continue
		}
		if !utf8.ValidString(raw) {
			anyInvalid = true
		}
		names = append(names, raw)
		s.expect(fmt.Sprintf("mkpipe %s %s %s", vh.HxS(d.Name), vh.HxS(d.TagsCond), vh.HxS(d.FltCond)), true, "ok", "CreatePipe")
	}
	if anyInvalid {
		res.Dist(sect, "utf8:some-stored-string-is-invalid-utf8")
	} else {
		res.Dist(sect, "utf8:all-stored-strings-valid")
	}
	// graceful restart
	s.srv.Stop()
	s.srv = nil
	s.model("stop", true)
	impl := s.startImpl()
	mod, cls := splitCls(s.model("start", true))
	eq := impl == mod
	if !eq {
		res.Mismatch(vh.Mismatch{Section: sec, Function: "server start (recover) after a graceful stop, stored strings through encoding/json", Input: c, Impl: impl, Model: mod})
	}
	if cls["utf8"] != anyInvalid {
		res.Mismatch(vh.Mismatch{Section: sec, Function: "class predicate utf8Cls (some stored string is changed by encoding/json) vs utf8.ValidString", Input: c, Impl: fmt.Sprint(anyInvalid), Model: fmt.Sprint(cls["utf8"])})
	}
	attr := func(id string) string {
		if eq && cls["utf8"] && anyInvalid {
			return id
		}
		return ""
	}
	if s.srv == nil {
		s.specFail("refuse-to-start", "the server does not start after a graceful stop", impl, "starts", mod, eq, attr("F-C07-901"))
		return
	}
	after := s.implParts()
	var ls []string
	for l := range lines {
		ls = append(ls, l)
	}
	sort.Strings(ls)
	for _, l := range ls {
		if _, ok := after[l]; !ok {
			s.specFail("partition-key-changed", "the tag line of an acknowledged partition is not in the tag index after a graceful restart", "absent: "+vh.HxS(l), "present", mod, eq, attr("F-C07-901"))
		}
	}
	for _, n := range names {
		if _, err := s.srv.Pipes.GetPipe(n); err != nil {
			s.specFail("pipe-name-changed", "an acknowledged pipe cannot be found under its name after a graceful restart", "absent: "+vh.HxS(n), "present", mod, eq, attr("F-C07-902"))
		}
	}
}

// unit: Persist.sanitize = Unmarshal(Marshal(s)) of encoding/json, as a string value and as an object key
func unitSanitize(sec *vh.Section, rng *vh.Rng) {
	ins := []string{"", "a", "é", "€", "\xff", "a\xffb", "\xc3", "\xc3\x28", "\xe2\x82", "\xed\xa0\x80", "\xf4\x90\x80\x80", "\xf0\x9f\x98\x80", "\xef\xbf\xbd",
		"<>&", "\"\\", "\n\r\t\x00\x1f\x7f", "  ", "\xc0\x80", "\xe0\x80\x80", "\xf8\x88\x80\x80\x80"}
	for i := 0; i < 300; i++ {
		n := rng.Range(0, 6)
		b := make([]byte, 0, 8)
		for j := 0; j < n; j++ {
			if rng.Chance(1, 3) {
				b = append(b, byte(rng.Intn(256)))
			} else {
				b = append(b, rng.PickS(utf8Pieces)...)
			}
		}
		ins = append(ins, string(b))
	}
	var reqs, impls []string
	for _, in := range ins {
		mb, _ := json.Marshal(in)
		var back string
		json.Unmarshal(mb, &back)
		kb, _ := json.Marshal(map[string]int{in: 1})
		km := map[string]int{}
		json.Unmarshal(kb, &km)
		for k := range km {
			if k != back {
				res.Mismatch(vh.Mismatch{Section: "unit", Function: "encoding/json: a string as object key vs as value", Input: vh.HxS(in), Impl: vh.HxS(k), Model: vh.HxS(back)})
			}
		}
		reqs = append(reqs, "sanitize "+vh.HxS(in))
		impls = append(impls, vh.HxS(back))
		if back != in {
			res.Eval(sec, "sanitize-changes:"+in)
		} else {
			res.Eval(sec, "sanitize-keeps:"+in)
		}
		if (back == in) != utf8.ValidString(in) {
			res.Mismatch(vh.Mismatch{Section: "unit", Function: "encoding/json keeps a string iff it is valid UTF-8", Input: vh.HxS(in), Impl: fmt.Sprint(back == in), Model: fmt.Sprint(utf8.ValidString(in))})
		}
	}
	outs, err := vh.Batch(args.Driver, reqs)
	if err != nil {
		res.Fatal(args.Out, "driver: %v", err)
	}
	for i := range outs {
		if outs[i] != impls[i] {
			res.Mismatch(vh.Mismatch{Section: "unit", Function: "Persist.sanitize vs json.Unmarshal(json.Marshal(s))", Input: vh.HxS(ins[i]), Impl: impls[i], Model: outs[i]})
		}
	}
}
