// C07, sections busystop and ack: the two places where persisted pipe state depends on a schedule.
//
// busystop — "each pipe's progress exactly as before" after a graceful restart with a BUSY worker: a pipe worker is parked
// inside its copy (hook partition.write.beforeCIndex, taken only on a worker's stack: the records are in the destination
// journal, the position is not saved yet), the graceful stop begins (pipe.Service.Shutdown waits for the workers), the
// worker is released. It must save its position before it leaves: after the restart every source event is in the pipe's
// partition exactly once and the pipe's position is the end of the source.
//
// ack — "an acknowledged pipe definition is still there after a crash": several CREATE / DELETE PIPE run at once while
// one registry save is parked after its snapshot (hook pipe.save.afterSnapshot). The registry file as it is on disk at the
// moment a CREATE returns (= the crash image taken at the acknowledgement) must contain that pipe, at a DELETE's return it
// must not.
package main

import (
	"context"
	"encoding/json"
	"fmt"
	"io/ioutil"
	"os"
	"path/filepath"
	"runtime"
	"sort"
	"strings"
	"sync"
	"time"

	"github.com/logrange/logrange/api"
	"github.com/logrange/logrange/pkg/pipe"
	"github.com/logrange/logrange/pkg/utils/verifhook"
	"github.com/logrange/range/pkg/records/journal"
	"verifharness/internal/lrsrv"
	"verifharness/internal/vh"
)

type concCase struct {
	Kind    string `json:"kind"`              // busystop | ack | possave
	N       int    `json:"n,omitempty"`       // busystop: events in the parked copy; ack: concurrent creates
	Before  int    `json:"before,omitempty"`  // busystop: events copied and saved before the parked copy
	Deletes bool   `json:"deletes,omitempty"` // ack: the second wave deletes the pipes again
}

func onWorkerStack() bool {
	buf := make([]byte, 16384)
	n := runtime.Stack(buf, false)
	return strings.Contains(string(buf[:n]), "pipe.(*worker).run")
}

func queryAll(srv *lrsrv.Srv, q string) ([]ev, error) {
	var out []ev
	r := &api.QueryResult{}
	if err := srv.Client.Query(context.Background(), &api.QueryRequest{Query: q, Limit: 9000}, r); err != nil {
		return nil, err
	}
	if r.Err != nil {
		return nil, r.Err
	}
	for _, e := range r.Events {
		out = append(out, ev{e.Timestamp, string(append([]byte{}, e.Message...))})
	}
	return out, nil
}

func waitFor(d time.Duration, f func() bool) bool {
	dl := time.Now().Add(d)
	for !f() {
		if time.Now().After(dl) {
			return false
		}
		time.Sleep(2 * time.Millisecond)
	}
	return true
}

func runBusyStop(c scase, sec string, sect *vh.Section) {
	cc := c.Conc
	fail := func(kind, what, impl, spec string) {
		res.SpecFail(vh.SpecFailure{Section: sec, Kind: kind, Input: c, Impl: impl, Spec: spec, What: what})
	}
	dir := lrsrv.NewDir()
	defer os.RemoveAll(dir)
	srv, err := startRetry(dir, lrsrv.Opts{MaxChunkSize: 20000})
	if err != nil {
		res.Note("%s: %v", sec, err)
		return
	}
	defer func() { srv.Stop() }()
	if _, err := srv.Exec("create pipe bp from g=a"); err != nil {
		res.Note("%s: create pipe: %v", sec, err)
		return
	}
	tags := "g=a,p=0"
	var all []ev
	write := func(n int) bool {
		var a []*api.LogEvent
		for i := 0; i < n; i++ {
			e := ev{int64(1000 + len(all)), fmt.Sprintf("b-%d", len(all))}
			all = append(all, e)
			a = append(a, &api.LogEvent{Timestamp: e.Ts, Message: e.Msg})
		}
		var wr api.WriteResult
		err := srv.Client.Write(context.Background(), tags, "", a, &wr)
		if err == nil {
			err = wr.Err
		}
		if err != nil {
			res.Note("%s: write: %v", sec, err)
		}
		return err == nil
	}
	dest := "select from {logrange.pipe=bp}"
	if cc.Before > 0 {
		if !write(cc.Before) {
			return
		}
		if !waitFor(10*time.Second, func() bool {
			got, err := queryAll(srv, dest)
			return err == nil && len(got) == len(all) && srv.Pipes.VerifC07CaughtUp()
		}) {
			res.Note("%s: the pipe did not catch up with the first batch", sec)
			return
		}
	}
	// park the worker's next copy after its records reached the destination journal
	parked, release := make(chan struct{}), make(chan struct{})
	var once sync.Once
	verifhook.Set("partition.write.beforeCIndex", func() {
		if onWorkerStack() {
			once.Do(func() { close(parked); <-release })
		}
	})
	defer verifhook.Set("partition.write.beforeCIndex", nil)
	if !write(cc.N) {
		close(release)
		return
	}
	select {
	case <-parked:
	case <-time.After(10 * time.Second):
		res.Note("%s: no worker copy reached the hook", sec)
		close(release)
		return
	}
	// the graceful stop begins while the worker is inside its copy
	stopped := make(chan struct{})
	go func() { srv.Stop(); close(stopped) }()
	if !waitFor(10*time.Second, srv.Pipes.VerifC07Closing) {
		res.Note("%s: the shutdown did not reach the pipe service", sec)
	}
	res.Dist(sect, "busystop:worker-parked-in-copy-when-the-stop-began")
	close(release)
	<-stopped
	verifhook.Set("partition.write.beforeCIndex", nil)
	// what a process exit leaves
	img := dir + "-img"
	defer os.RemoveAll(img)
	if err := copyDir(dir, img); err != nil {
		res.Note("%s: %v", sec, err)
		return
	}
	srv2, err := startRetry(img, lrsrv.Opts{MaxChunkSize: 20000})
	if err != nil {
		fail("refuse-to-start", "the server does not start after a graceful stop with a busy pipe worker", err.Error(), "starts")
		return
	}
	defer srv2.Stop()
	var got []ev
	waitFor(10*time.Second, func() bool {
		got, err = queryAll(srv2, dest)
		return err == nil && len(got) >= len(all) && srv2.Pipes.VerifC07CaughtUp()
	})
	time.Sleep(30 * time.Millisecond) // a worker that re-copies would have been started by the catch-up at Init
	got, err = queryAll(srv2, dest)
	if err != nil {
		res.Note("%s: reading the pipe partition: %v", sec, err)
		return
	}
	seen := map[string]int{}
	for _, e := range got {
		seen[e.Msg]++
	}
	dups, missing := 0, 0
	for _, e := range all {
		if seen[e.Msg] > 1 {
			dups++
		}
		if seen[e.Msg] == 0 {
			missing++
		}
	}
	if dups > 0 {
		fail("pipe-progress-lost", fmt.Sprintf("after a graceful restart that began while a pipe worker was inside a copy, %d source events are in the pipe's partition twice: the worker left without saving the position of its last copy", dups),
			evsStr(got), evsStr(all))
	}
	if missing > 0 {
		fail("pipe-event-lost", fmt.Sprintf("%d source events are missing in the pipe's partition after the graceful restart", missing), evsStr(got), evsStr(all))
	}
}

func registryNames(dir string) (map[string]bool, error) {
	b, err := ioutil.ReadFile(filepath.Join(dir, "pipes", "pipes.dat"))
	if os.IsNotExist(err) {
		return map[string]bool{}, nil
	}
	if err != nil {
		return nil, err
	}
	var ps []pipe.Pipe
	if err := json.Unmarshal(b, &ps); err != nil {
		return nil, err
	}
	m := map[string]bool{}
	for _, p := range ps {
		m[p.Name] = true
	}
	return m, nil
}

func runAck(c scase, sec string, sect *vh.Section) {
	cc := c.Conc
	dir := lrsrv.NewDir()
	defer os.RemoveAll(dir)
	srv, err := startRetry(dir, lrsrv.Opts{MaxChunkSize: 20000})
	if err != nil {
		res.Note("%s: %v", sec, err)
		return
	}
	defer srv.Stop()
	var mu sync.Mutex
	bad := []string{}
	// the check at the acknowledgement: the registry file on disk right now is what a crash leaves
	atAck := func(name string, created bool) {
		m, err := registryNames(dir)
		mu.Lock()
		defer mu.Unlock()
		if err != nil {
			bad = append(bad, fmt.Sprintf("%s: registry unreadable at the acknowledgement: %v", name, err))
			return
		}
		if created && !m[name] {
			bad = append(bad, "create "+name+" acknowledged, registry file does not hold it")
		}
		if !created && m[name] {
			bad = append(bad, "delete "+name+" acknowledged, registry file still holds it")
		}
	}
	wave := func(create bool) {
		parked, release := make(chan struct{}), make(chan struct{})
		var once sync.Once
		verifhook.Set("pipe.save.afterSnapshot", func() { once.Do(func() { close(parked); <-release }) })
		var wg sync.WaitGroup
		var done int32
		var dmu sync.Mutex
		op := func(i int) {
			defer wg.Done()
			name := fmt.Sprintf("c%d", i)
			var err error
			if create {
				_, err = srv.Pipes.CreatePipe(pipe.Pipe{Name: name, TagsCond: "zz=1"})
			} else {
				err = srv.Pipes.DeletePipe(name)
			}
			if err == nil {
				atAck(name, create)
			}
			dmu.Lock()
			done++
			dmu.Unlock()
		}
		wg.Add(1)
		go op(0)
		select {
		case <-parked:
		case <-time.After(10 * time.Second):
			res.Note("%s: no registry save reached the hook", sec)
		}
		for i := 1; i < cc.N; i++ {
			wg.Add(1)
			go op(i)
		}
		// while the first save is parked behind its snapshot nobody else can have completed a save: give the others time
		// to run into it (an acknowledgement in this window is checked like any other)
		waitFor(700*time.Millisecond, func() bool { dmu.Lock(); defer dmu.Unlock(); return int(done) >= cc.N-1 })
		dmu.Lock()
		if done > 0 {
			res.Dist(sect, "ack:acknowledged-while-the-first-save-was-parked")
		}
		dmu.Unlock()
		close(release)
		wg.Wait()
		verifhook.Set("pipe.save.afterSnapshot", nil)
	}
	wave(true)
	if cc.Deletes {
		wave(false)
	}
	res.Dist(sect, fmt.Sprintf("ack:ops=%d", cc.N))
	if len(bad) > 0 {
		res.SpecFail(vh.SpecFailure{Section: sec, Kind: "pipe-definition-lost", Input: c, Impl: strings.Join(bad, "; "),
			Spec: "at every acknowledgement of CREATE PIPE the registry file holds the pipe (at a DELETE's it does not)",
			What: "the registry file on disk at the moment a CREATE / DELETE PIPE is acknowledged — the crash image taken at the acknowledgement — does not reflect it"})
	}
}

// possave: several source partitions of one pipe are written concurrently, so that its workers finish copies — and save the
// whole position map — at the same time. At quiescence the positions FILE must say what the memory says (saveState writes the
// file inside the critical section that took the snapshot: fact positionsFileWrittenUnderPipeLock; written after the unlock,
// an older snapshot can land last), and after a graceful restart no source event is in the pipe's partition twice.
// Probabilistic for that defect (no hook between snapshot and write); the regenerated fact is the deterministic check.
func runPosSave(c scase, sec string, sect *vh.Section) {
	cc := c.Conc
	fail := func(kind, what, impl, spec string) {
		res.SpecFail(vh.SpecFailure{Section: sec, Kind: kind, Input: c, Impl: impl, Spec: spec, What: what})
	}
	dir := lrsrv.NewDir()
	defer os.RemoveAll(dir)
	srv, err := startRetry(dir, lrsrv.Opts{MaxChunkSize: 20000})
	if err != nil {
		res.Note("%s: %v", sec, err)
		return
	}
	defer func() { srv.Stop() }()
	// only the LAST saves of a pipe decide what its file holds at quiescence: several independent pipes over the same sources
	// multiply the chances that one of them ends with two workers saving at the same time
	npipes := cc.N
	var pnames []string
	for i := 0; i < npipes; i++ {
		n := fmt.Sprintf("qp%d", i)
		if _, err := srv.Exec("create pipe " + n + " from g=a"); err != nil {
			res.Note("%s: create pipe: %v", sec, err)
			return
		}
		pnames = append(pnames, n)
	}
	nparts, rounds := 6, 3
	total := 0
	var tmu sync.Mutex
	for r := 0; r < rounds; r++ {
		var wg sync.WaitGroup
		for p := 0; p < nparts; p++ {
			wg.Add(1)
			go func(p int) {
				defer wg.Done()
				var a []*api.LogEvent
				for i := 0; i < 3; i++ {
					a = append(a, &api.LogEvent{Timestamp: int64(1000 + r*10 + i), Message: fmt.Sprintf("q-%d-%d-%d", p, r, i)})
				}
				var wr api.WriteResult
				err := srv.Client.Write(context.Background(), fmt.Sprintf("g=a,p=%d", p), "", a, &wr)
				if err == nil && wr.Err == nil {
					tmu.Lock()
					total += len(a)
					tmu.Unlock()
				}
			}(p)
		}
		wg.Wait()
	}
	dest := func(n string) string { return "select from {logrange.pipe=" + n + "}" }
	if !waitFor(15*time.Second, func() bool {
		for _, n := range pnames {
			if got, err := queryAll(srv, dest(n)); err != nil || len(got) < total {
				return false
			}
		}
		return srv.Pipes.VerifC07CaughtUp()
	}) {
		res.Note("%s: the pipe did not catch up", sec)
		return
	}
	time.Sleep(20 * time.Millisecond)
	type ppd struct{ Pos journal.Pos }
	var stale []string
	for _, n := range pnames {
		mem, ok := srv.Pipes.VerifC07Positions(n)
		b, ferr := ioutil.ReadFile(pipe.VerifC07PipeFileName(filepath.Join(dir, "pipes"), n))
		file := map[string]*ppd{}
		if !ok || ferr != nil || json.Unmarshal(b, &file) != nil {
			continue
		}
		for src, pos := range mem {
			if f, ok := file[src]; !ok || f.Pos != pos {
				stale = append(stale, fmt.Sprintf("pipe %s source %s: memory %v file %v", n, src, pos, file[src]))
			}
		}
		res.Dist(sect, "possave:file-compared-with-memory-at-quiescence")
	}
	if len(stale) > 0 {
		sort.Strings(stale)
		fail("positions-file-stale", "at quiescence the positions file of a pipe does not hold the positions the pipe has in memory: an older snapshot was written last", strings.Join(stale, "; "), "file = memory")
	}
	srv.Stop()
	img := dir + "-img"
	defer os.RemoveAll(img)
	if copyDir(dir, img) != nil {
		return
	}
	srv2, err := startRetry(img, lrsrv.Opts{MaxChunkSize: 20000})
	if err != nil {
		fail("refuse-to-start", "the server does not start after a graceful stop", err.Error(), "starts")
		return
	}
	defer srv2.Stop()
	waitFor(5*time.Second, func() bool { return srv2.Pipes.VerifC07CaughtUp() })
	time.Sleep(30 * time.Millisecond)
	for _, n := range pnames {
		got, err := queryAll(srv2, dest(n))
		if err != nil {
			continue
		}
		seen := map[string]int{}
		dups := 0
		for _, e := range got {
			seen[e.Msg]++
			if seen[e.Msg] == 2 {
				dups++
			}
		}
		if dups > 0 {
			fail("pipe-progress-lost", fmt.Sprintf("after a graceful restart of a quiescent server %d source events are in the partition of pipe %s twice: the positions file was older than the pipe's progress", dups, n), evsStr(got), fmt.Sprintf("%d events, each once", total))
		}
	}
}

func concCases(rng *vh.Rng) []scase {
	cs := []scase{
		{Conc: &concCase{Kind: "possave", N: 8}},
		{Conc: &concCase{Kind: "possave", N: 12}},
		{Conc: &concCase{Kind: "possave", N: 8, Before: 1}},
		{Conc: &concCase{Kind: "possave", N: 12, Before: 2}},
		{Conc: &concCase{Kind: "busystop", N: 5, Before: 3}},
		{Conc: &concCase{Kind: "busystop", N: 40, Before: 0}},
		{Conc: &concCase{Kind: "ack", N: 3}},
		{Conc: &concCase{Kind: "ack", N: 5, Deletes: true}},
	}
	n := 0
	if args.Thorough {
		n = 8
	}
	for i := 0; i < n; i++ {
		if rng.Bool() {
			cs = append(cs, scase{Conc: &concCase{Kind: "busystop", N: rng.PickI([]int{1, 7, 120}), Before: rng.PickI([]int{0, 1, 30})}})
		} else {
			cs = append(cs, scase{Conc: &concCase{Kind: "ack", N: rng.Range(3, 7), Deletes: rng.Bool()}})
		}
	}
	return cs
}

func runConc(c scase, sec string, sect *vh.Section) {
	if !verifhook.Enabled {
		res.Note("%s: hooks are not compiled in", sec)
		return
	}
	res.Dist(sect, "conc:"+c.Conc.Kind)
	switch c.Conc.Kind {
	case "busystop":
		runBusyStop(c, sec, sect)
	case "ack":
		runAck(c, sec, sect)
	case "possave":
		runPosSave(c, sec, sect)
	}
}
