// section held: a merged cursor the SERVER holds between two requests (WaitTimeout > 0), and what happens between the pages.
//
//   - page 1 ends by its limit with one partition exhausted and another not (the mixers' sticky eof flag of the exhausted one is
//     set by the Get that crsr.State does, and reset by the Release that ends the page: crsr.commit);
//   - optionally a request with the held cursor's id and a position that is refused — well-formed elements (tail or zero) before
//     a malformed one — must move nothing;
//   - optionally records are appended to the partitions (to the exhausted one: later than the head the mixer has already
//     selected, earlier than later records of the other partition; to the others: behind their last record);
//   - page 2 = NextQueryRequest of page 1 must be the union of what every partition holds behind page 1, appended records
//     included, each partition in stored order, time-ordered (all partitions are stored in time order).
//
// This is the scenario of theorem appends_between_pages (+ facts commitReleasesLast, applyStatePosParsesBeforeMoving).
package main

import (
	"context"
	"os"
	"fmt"
	"io"
	"strings"
	"time"

	"github.com/logrange/logrange/api"
	"github.com/logrange/logrange/pkg/model"
	"github.com/logrange/logrange/pkg/model/tag"
	"verifharness/internal/lrsrv"
	"verifharness/internal/vh"
)

type heldAppend struct {
	Part int   `json:"part"`
	Ts   int64 `json:"ts"`
}

type heldCase struct {
	Parts   [][]int64    `json:"parts"`   // stored timestamps per partition, ascending
	Page1   int          `json:"page1"`   // limit of the first page
	BadPos  string       `json:"bad_pos"` // "" | "tail" | "zero": the value put into the well-formed elements of the refused position
	Appends []heldAppend `json:"appends"`
}

func heldWrite(srv *lrsrv.Srv, tags string, part int, from int, tss []int64) ([]ev, error) {
	les := make([]model.LogEvent, len(tss))
	var out []ev
	for k, t := range tss {
		les[k] = model.LogEvent{Timestamp: t, Msg: []byte(fmt.Sprintf("%d-%d", part, from+k))}
		out = append(out, ev{t, part*1000 + from + k, part})
	}
	err := srv.Parts.Write(ctx, tags, (&model.LogEventIterator{}).Wrap("", model.NewTestLogEventsWrapper(les)), true)
	return out, err
}

func heldVisible(srv *lrsrv.Srv, tags string, want int) bool {
	src, _, err := srv.TIndex.GetJournal(tags)
	if err != nil {
		return false
	}
	defer srv.TIndex.Release(src)
	j, err := srv.Journals.GetOrCreate(ctx, src)
	if err != nil {
		return false
	}
	for k := 0; k < 8000 && int(j.Count()) < want; k++ {
		time.Sleep(time.Millisecond)
	}
	return int(j.Count()) >= want
}

func runHeldCase(srv *lrsrv.Srv, c heldCase, sec *vh.Section) {
	grp := nextGroup()
	n := len(c.Parts)
	tagsOf := make([]string, n)
	lineToPart := map[string]int{}
	written := map[int][]ev{}
	for i := 0; i < n; i++ {
		tagsOf[i] = fmt.Sprintf("grp=%s,p=%d", grp, i)
		ts, err := tag.Parse(tagsOf[i])
		if err != nil {
			res.Fatal(args.Out, "held: tag.Parse: %v", err)
		}
		lineToPart[string(ts.Line())] = i
		w, werr := heldWrite(srv, tagsOf[i], i, 0, c.Parts[i])
		if werr != nil {
			res.Note("held: set-up write failed, case skipped: %v", werr)
			res.Dist(sec, "setup-failed")
			return
		}
		written[i] = w
	}
	srv.FlushWait()
	for i := 0; i < n; i++ {
		if !heldVisible(srv, tagsOf[i], len(c.Parts[i])) {
			res.Note("held: set-up: partition %d never showed its records, case skipped", i)
			res.Dist(sec, "setup-failed")
			return
		}
	}
	key := fmt.Sprint(c)
	res.Eval(sec, key)
	res.Dist(sec, fmt.Sprintf("bad_pos=%q appends=%d", c.BadPos, len(c.Appends)))
	hctx, cancel := context.WithTimeout(ctx, 60*time.Second)
	defer cancel()
	fail := func(kind, what, impl, spec string) {
		res.SpecFail(vh.SpecFailure{Section: "held", Kind: kind, Input: c, Impl: impl, Spec: spec, What: what})
	}
	q := "select from grp=" + grp
	r1, err := srv.Querier.Query(hctx, &api.QueryRequest{Query: q, Limit: c.Page1, WaitTimeout: 1})
	if !(err == nil || err == io.EOF) || r1 == nil || len(r1.Events) != c.Page1 {
		fail("query-failed", "the first page of a held merged cursor did not come as asked", fmt.Sprint(err), fmt.Sprintf("%d events", c.Page1))
		return
	}
	cnt := map[int]int{}
	var page1 []ev
	for _, e := range r1.Events {
		x := sysEv(e.Timestamp, e.Message, e.Tags, lineToPart)
		page1 = append(page1, x)
		cnt[x.Tags]++
	}
	// a refused re-position request for the held cursor
	if c.BadPos != "" {
		val := "FFFFFFFFFFFFFFFFFFFFFFFF"
		if c.BadPos == "zero" {
			val = "000000000000000000000000"
		}
		var els []string
		for _, el := range strings.Split(r1.NextQueryRequest.Pos, ":") {
			if kv := strings.Split(el, "="); len(kv) == 2 {
				els = append(els, kv[0]+"="+val)
			}
		}
		els = append(els, "oops")
		rq := r1.NextQueryRequest
		rq.Pos = strings.Join(els, ":")
		rb, errb := srv.Querier.Query(hctx, &rq)
		if errb == nil || errb == io.EOF {
			nb := 0
			if rb != nil {
				nb = len(rb.Events)
			}
			fail("malformed-position-accepted", "a request whose position has a malformed element was answered with a page", fmt.Sprintf("%d events", nb), "an error")
		}
	}
	// appends between the pages
	alone := map[int][]ev{}
	for i := 0; i < n; i++ {
		alone[i] = append([]ev{}, written[i][cnt[i]:]...)
	}
	have := map[int]int{}
	for i := 0; i < n; i++ {
		have[i] = len(c.Parts[i])
	}
	for _, a := range c.Appends {
		w, werr := heldWrite(srv, tagsOf[a.Part], a.Part, have[a.Part], []int64{a.Ts})
		if werr != nil {
			res.Note("held: append failed, case skipped: %v", werr)
			return
		}
		have[a.Part]++
		alone[a.Part] = append(alone[a.Part], w...)
	}
	if len(c.Appends) > 0 {
		srv.FlushWait()
		for i := 0; i < n; i++ {
			if !heldVisible(srv, tagsOf[i], have[i]) {
				res.Note("held: appended records never became visible, case skipped")
				return
			}
		}
	}
	// page 2: the ordinary continuation
	// (WaitTimeout 0 with the held id: the cached cursor serves it and does not wait at the end)
	nq := r1.NextQueryRequest
	nq.Limit = 10000
	nq.WaitTimeout = 0
	var got []ev
	r2, err2 := srv.Querier.Query(hctx, &nq)
	if !(err2 == nil || err2 == io.EOF) || r2 == nil {
		fail("query-failed", "the continuation of a held merged cursor failed", fmt.Sprint(err2), "the events behind page 1")
		return
	}
	for _, e := range r2.Events {
		got = append(got, sysEv(e.Timestamp, e.Message, e.Tags, lineToPart))
	}
	if hctx.Err() != nil {
		fail("hang", "the pages of a held merged cursor did not come back within 60 s", "no answer", "an answer")
		return
	}
	if kind, w := checkProperty(got, alone, false); kind != "" {
		res.SpecFail(vh.SpecFailure{Section: "held", Kind: kind, Input: c, Impl: evsString(page1) + " | " + evsString(got), Spec: "page 1 | the time-ordered union of what the partitions hold behind page 1 (appended records included)",
			What: fmt.Sprintf("held merged cursor over %d partitions: first page of %d events, then (refused position: %q, %d records appended), then the continuation: %s", n, c.Page1, c.BadPos, len(c.Appends), w)})
	}
}

func heldCases(rng *vh.Rng) []heldCase {
	var cs []heldCase
	// the exhausted partition on either side of the mixer; 1..3 records in it
	for _, small := range []int{1, 2, 3} {
		for _, left := range []bool{true, false} {
			var a []int64
			for k := 0; k < small; k++ {
				a = append(a, int64(10+2*k))
			}
			b := []int64{20, 30, 40, 50}
			parts := [][]int64{a, b}
			ai := 0
			if !left {
				parts = [][]int64{b, a}
				ai = 1
			}
			k := small + 1 // all of a, and 20: the mixer has selected 30 when the page ends
			cs = append(cs,
				heldCase{Parts: parts, Page1: k, Appends: []heldAppend{{ai, 35}}},
				heldCase{Parts: parts, Page1: k, Appends: []heldAppend{{ai, 35}, {ai, 45}, {1 - ai, 60}}},
				heldCase{Parts: parts, Page1: k, BadPos: "tail"},
				heldCase{Parts: parts, Page1: k, BadPos: "zero"},
				heldCase{Parts: parts, Page1: k, BadPos: "tail", Appends: []heldAppend{{ai, 35}}},
				heldCase{Parts: parts, Page1: k})
		}
	}
	// three and four partitions: refused position only / appends later than everything stored
	for _, n := range []int{3, 4} {
		var parts [][]int64
		for i := 0; i < n; i++ {
			var p []int64
			for k := 0; k < 3; k++ {
				p = append(p, int64(10+10*k*n+i*3+rng.Intn(3)))
			}
			parts = append(parts, p)
		}
		cs = append(cs,
			heldCase{Parts: parts, Page1: n + 1, BadPos: "tail"},
			heldCase{Parts: parts, Page1: n + 1, BadPos: "zero"},
			heldCase{Parts: parts, Page1: 2, Appends: []heldAppend{{rng.Intn(n), 1000}, {rng.Intn(n), 1001}}})
	}
	return cs
}

func sectionHeld(rng *vh.Rng, corpus []heldCase) {
	sec := res.Section("held", "system-correspondence",
		"in-process server, a merged cursor held by the provider between requests (WaitTimeout 1): page 1 ends by its limit with one partition exhausted (1..3 records, on either side of the mixer) and the other not; then — in every combination — a refused request with the held id whose position has well-formed elements (tail / zero) before a malformed one, and records appended to the exhausted partition (later than the head the mixer has selected, earlier than later records of the other) and to the others; page 2 = NextQueryRequest of page 1 must be the time-ordered union behind page 1; 3 and 4 partitions with refused positions and late appends")
	cases := append(append([]heldCase{}, corpus...), heldCases(rng)...)
	dir := lrsrv.NewDir()
	srv, err := lrsrv.Start(dir, lrsrv.Opts{NoRPC: true})
	if err != nil {
		res.Note("held: %v", err)
		res.Done(sec)
		return
	}
	for _, c := range cases {
		if pn := vh.Recover(func() { runHeldCase(srv, c, sec) }); pn != "" {
			res.SpecFail(vh.SpecFailure{Section: "held", Kind: "panic", Input: c, Impl: pn, Spec: "no panic", What: "a held merged cursor panicked"})
		}
	}
	srv.Stop()
	os.RemoveAll(dir)
	res.Done(sec)
}
