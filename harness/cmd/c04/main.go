// C04 harness — multi-partition reads are the complete, correctly attributed, time-ordered merge.
//
// Sections
//
//	corpus    minimised past failures (corpus/C04/*.json), replayed first through the section they belong to
//	mixer     unit correspondence: real model.Mixer trees over LogEventIterator/TestLogEventsWrapper leaves, explicit
//	          source order — every answer of Get/Next/Release/SetBackward and the root's (st, eof1, eof2) vs the Lean
//	          model (exact), forward and backward drains vs the Go merge oracle (exact) and vs the property
//	cursor    unit/system: cursor.newCursor over a fake ItFactory with n = 1..60 sources; the order in which newCursor
//	          asks for the journal iterators is the map iteration order it built its slice in, so IMPL is compared with
//	          the model exactly (MixTree.build for that order) and with the property (multiset, per-source order,
//	          sortedness, attribution)
//	system    in-process server, n partitions (incl. empty ones, ties across partitions): merged read vs the union of
//	          the per-partition reads, forward (backend.Querier) and backward (cursor walked backward from the tail)
//	limit     n around the merge limit: the query must fail for n >= limit (model: GetJournals), never shrink, and
//	          nothing may stay acquired
package main

import (
	"context"
	"encoding/json"
	"fmt"
	"io"
	"math"
	"os"
	"sort"
	"strconv"
	"strings"
	"sync"
	"syscall"
	"time"

	"github.com/logrange/logrange/api"
	"github.com/logrange/logrange/pkg/cursor"
	"github.com/logrange/logrange/pkg/lql"
	"github.com/logrange/logrange/pkg/model"
	"github.com/logrange/logrange/pkg/model/field"
	"github.com/logrange/logrange/pkg/model/tag"
	"github.com/logrange/range/pkg/records"
	"github.com/logrange/range/pkg/records/journal"
	"verifharness/internal/lrsrv"
	"verifharness/internal/vh"
)

var (
	args vh.Args
	res  *vh.Result
	ctx  = context.Background()
)

// ---------------------------------------------------------------------------------------------
// events, leaves, trees

type ev struct {
	Ts   int64
	Msg  int
	Tags int
}

func (e ev) String() string { return fmt.Sprintf("%d:%d:%d", e.Ts, e.Msg, e.Tags) }

func evsString(es []ev) string {
	if len(es) == 0 {
		return "-"
	}
	s := make([]string, len(es))
	for i, e := range es {
		s[i] = e.String()
	}
	return strings.Join(s, ",")
}

// leafSpec: a source; Recs are (timestamp, payload id) in stored order
type leafSpec struct {
	Tags int        `json:"tags"`
	Recs [][2]int64 `json:"recs"`
	// records (indices) whose Get fails with an error that is not io.EOF; Once: such a record fails once, then it can be read
	Bad  []int `json:"bad,omitempty"`
	Once bool  `json:"once,omitempty"`
}

type treeSpec struct {
	Leaf *leafSpec `json:"leaf,omitempty"`
	A    *treeSpec `json:"a,omitempty"`
	B    *treeSpec `json:"b,omitempty"`
}

func (l leafSpec) line() string {
	s := fmt.Sprintf("L %d %d", l.Tags, len(l.Recs))
	for _, r := range l.Recs {
		s += fmt.Sprintf(" %d:%d", r[0], r[1])
	}
	return s
}

func (t *treeSpec) hasBad() bool {
	if t.Leaf != nil {
		return len(t.Leaf.Bad) > 0
	}
	return t.A.hasBad() || t.B.hasBad()
}

func (t *treeSpec) line() string {
	if t.Leaf != nil {
		if len(t.Leaf.Bad) > 0 {
			s := fmt.Sprintf("E %s %d", b01(!t.Leaf.Once), len(t.Leaf.Bad))
			for _, b := range t.Leaf.Bad {
				s += fmt.Sprintf(" %d", b)
			}
			return s + " " + t.Leaf.line()
		}
		return t.Leaf.line()
	}
	return "M " + t.A.line() + " " + t.B.line()
}

func (t *treeSpec) leaves() []leafSpec {
	if t.Leaf != nil {
		return []leafSpec{*t.Leaf}
	}
	return append(t.A.leaves(), t.B.leaves()...)
}

func (l leafSpec) events(back bool) []ev {
	r := make([]ev, 0, len(l.Recs))
	for _, x := range l.Recs {
		r = append(r, ev{x[0], int(x[1]), l.Tags})
	}
	if back {
		for i, j := 0, len(r)-1; i < j; i, j = i+1, j-1 {
			r[i], r[j] = r[j], r[i]
		}
	}
	return r
}

func (l leafSpec) logEvents() []model.LogEvent {
	les := make([]model.LogEvent, len(l.Recs))
	for i, r := range l.Recs {
		les[i] = model.LogEvent{Timestamp: r[0], Msg: []byte(strconv.Itoa(int(r[1])))}
	}
	return les
}

func tagLine(t int) tag.Line { return tag.Line("t=" + strconv.Itoa(t)) }

func parseTagLine(l tag.Line) int {
	n, err := strconv.Atoi(strings.TrimPrefix(string(l), "t="))
	if err != nil {
		return -1
	}
	return n
}

func realLeaf(l leafSpec) model.Iterator {
	return (&model.LogEventIterator{}).Wrap(tagLine(l.Tags), model.NewTestLogEventsWrapper(l.logEvents()))
}

// growIt is model.TestLogEventsWrapper line by line, over a slice a writer may append to while a cursor stands on it
// (used by the scripts with an append op; every answer is compared with the Lean leaf, which is the same state machine)
type growIt struct {
	les  []model.LogEvent
	idx  int
	bkwd bool
	bad  map[int]bool // records that cannot be read
	once bool         // … only the first time
}

var errUnreadable = fmt.Errorf("verif: the record cannot be read")

func (g *growIt) Next(ctx context.Context) {
	if g.bkwd {
		if g.idx >= 0 {
			g.idx--
		}
		return
	}
	if g.idx < len(g.les) {
		g.idx++
	}
}

func (g *growIt) Get(ctx context.Context) (records.Record, error) {
	if g.bkwd && g.idx >= len(g.les) {
		g.idx = len(g.les) - 1
	}
	if !g.bkwd && g.idx < 0 {
		g.idx = 0
	}
	if g.idx < len(g.les) && g.idx >= 0 {
		if g.bad[g.idx] {
			if g.once {
				delete(g.bad, g.idx)
			}
			return nil, errUnreadable
		}
		buf := make([]byte, g.les[g.idx].WritableSize())
		g.les[g.idx].Marshal(buf)
		return buf, nil
	}
	return nil, io.EOF
}
func (g *growIt) Release()                        {}
func (g *growIt) SetBackward(b bool)              { g.bkwd = b }
func (g *growIt) CurrentPos() records.IteratorPos { return g.idx }

// growTree builds the real mixer tree over growable leaves; leaves are returned left to right
func growTree(t *treeSpec, leaves *[]*growIt) model.Iterator {
	if t.Leaf != nil {
		g := &growIt{les: t.Leaf.logEvents(), bad: map[int]bool{}, once: t.Leaf.Once}
		for _, b := range t.Leaf.Bad {
			g.bad[b] = true
		}
		*leaves = append(*leaves, g)
		return (&model.LogEventIterator{}).Wrap(tagLine(t.Leaf.Tags), g)
	}
	m := &model.Mixer{}
	a := growTree(t.A, leaves)
	b := growTree(t.B, leaves)
	m.Init(model.GetEarliest, a, b)
	return m
}

func hasAppend(ops []string) bool {
	for _, o := range ops {
		if strings.HasPrefix(o, "a") || strings.HasPrefix(o, "p") {
			return true
		}
	}
	return false
}

// parseAppend: "a<k>:<ts>:<msg>"
func parseAppend(op string) (k int, ts int64, msg int, ok bool) {
	f := strings.Split(strings.TrimPrefix(op, "a"), ":")
	if len(f) != 3 {
		return
	}
	k, e1 := strconv.Atoi(f[0])
	ts, e2 := strconv.ParseInt(f[1], 10, 64)
	msg, e3 := strconv.Atoi(f[2])
	return k, ts, msg, e1 == nil && e2 == nil && e3 == nil
}

func realTree(t *treeSpec) model.Iterator {
	if t.Leaf != nil {
		return realLeaf(*t.Leaf)
	}
	m := &model.Mixer{}
	m.Init(model.GetEarliest, realTree(t.A), realTree(t.B))
	return m
}

// ---------------------------------------------------------------------------------------------
// SPEC oracle in Go: the pure merge (first source wins ties forward, second one backward) and the property

func specPick(back bool, x, y ev) bool {
	if back {
		return !(x.Ts <= y.Ts)
	}
	return x.Ts <= y.Ts
}

func specMerge(back bool, xs, ys []ev) []ev {
	r := make([]ev, 0, len(xs)+len(ys))
	i, j := 0, 0
	for i < len(xs) && j < len(ys) {
		if specPick(back, xs[i], ys[j]) {
			r = append(r, xs[i])
			i++
		} else {
			r = append(r, ys[j])
			j++
		}
	}
	r = append(r, xs[i:]...)
	return append(r, ys[j:]...)
}

func specTree(t *treeSpec, back bool) []ev {
	if t.Leaf != nil {
		return t.Leaf.events(back)
	}
	return specMerge(back, specTree(t.A, back), specTree(t.B, back))
}

// checkProperty evaluates C04 on a merged stream `got` against the streams `alone[i]` of the single sources
// (identified by Tags): union as multiset, attribution, per-source order, global order when every source is ordered.
// Returns "" or (kind, what).
func checkProperty(got []ev, alone map[int][]ev, back bool) (string, string) {
	per := map[int][]ev{}
	for _, e := range got {
		per[e.Tags] = append(per[e.Tags], e)
	}
	for t := range per {
		if _, ok := alone[t]; !ok {
			return "wrong-attribution", fmt.Sprintf("events are reported under tag line %d which is not one of the selected partitions", t)
		}
	}
	allSorted := true
	for t, want := range alone {
		g := per[t]
		// multiset first (so that a lost or duplicated event is reported as such, not as an order problem)
		cnt := map[ev]int{}
		for _, e := range want {
			cnt[e]++
		}
		for _, e := range g {
			cnt[e]--
		}
		for e, c := range cnt {
			if c > 0 {
				return "missing-event", fmt.Sprintf("event %v of partition %d is missing from the merged read", e, t)
			}
			if c < 0 {
				return "extra-event", fmt.Sprintf("event %v is delivered more often under partition %d than the partition alone delivers it (duplicate or wrong attribution)", e, t)
			}
		}
		for i := range want {
			if g[i] != want[i] {
				return "per-partition-order", fmt.Sprintf("the events of partition %d do not keep their stored order in the merged read", t)
			}
		}
		for i := 1; i < len(want); i++ {
			if (!back && want[i-1].Ts > want[i].Ts) || (back && want[i-1].Ts < want[i].Ts) {
				allSorted = false
			}
		}
	}
	if allSorted {
		for i := 1; i < len(got); i++ {
			if (!back && got[i-1].Ts > got[i].Ts) || (back && got[i-1].Ts < got[i].Ts) {
				return "not-time-ordered", fmt.Sprintf("every partition is stored in timestamp order but the merged read is not (position %d)", i)
			}
		}
	}
	return "", ""
}

// ---------------------------------------------------------------------------------------------
// running an op script on a real iterator, in the driver's vocabulary

func suffix(it model.Iterator) string {
	if m, ok := it.(*model.Mixer); ok {
		st, e1, e2 := m.VerifState()
		return fmt.Sprintf("/%d%s%s", st, b01(e1), b01(e2))
	}
	return ""
}

func b01(b bool) string {
	if b {
		return "1"
	}
	return "0"
}

func getEv(it model.Iterator) (ev, string) {
	le, tl, err := it.Get(ctx)
	if err == io.EOF {
		return ev{}, "eof"
	}
	if err != nil {
		return ev{}, "err"
	}
	m, cerr := strconv.Atoi(string(append([]byte{}, le.Msg...)))
	if cerr != nil {
		m = -1
	}
	return ev{le.Timestamp, m, parseTagLine(tl)}, ""
}

// drainIt reads until EOF (at most max events: a changed implementation must not hang the harness)
func drainIt(it model.Iterator, max int) ([]ev, bool) {
	r, ended, _ := drainItR(it, max, false)
	return r, ended
}

func getEvR(it model.Iterator, retry bool) (ev, string) {
	e, st := getEv(it)
	if st == "err" && retry {
		return getEv(it)
	}
	return e, st
}

// drainItR: as drainIt; retry = a Get that fails with a non-EOF error is repeated once; byErr = an error ended the read
func drainItR(it model.Iterator, max int, retry bool) (r []ev, ended bool, byErr bool) {
	for i := 0; i <= max; i++ {
		e, st := getEvR(it, retry)
		if st != "" {
			return r, true, st == "err"
		}
		r = append(r, e)
		it.Next(ctx)
	}
	return r, false, false
}

func drainItOld(it model.Iterator, max int) ([]ev, bool) {
	var r []ev
	for i := 0; i <= max; i++ {
		e, st := getEv(it)
		if st != "" {
			return r, true
		}
		r = append(r, e)
		it.Next(ctx)
	}
	return r, false
}

// runOps returns one token per op and, per "d" op, the events drained
func runOps(it model.Iterator, root model.Iterator, ops []string, total int) (toks []string, drains [][]ev) {
	return runOpsG(it, root, ops, total, nil)
}

// runOpsG: as runOps, with growable leaves for the append op
func runOpsG(it model.Iterator, root model.Iterator, ops []string, total int, leaves []*growIt) (toks []string, drains [][]ev) {
	for _, op := range ops {
		if k, ts, msg, ok := parseAppend(op); ok && strings.HasPrefix(op, "a") {
			if k >= 0 && k < len(leaves) {
				leaves[k].les = append(leaves[k].les, model.LogEvent{Timestamp: ts, Msg: []byte(strconv.Itoa(msg))})
				total++
				toks = append(toks, "."+suffix(root))
			} else {
				toks = append(toks, "bad-op")
			}
			continue
		}
		if strings.HasPrefix(op, "p") {
			f := strings.Split(op[1:], ":")
			k, e1 := strconv.Atoi(f[0])
			var i int
			var e2 error = fmt.Errorf("bad")
			if len(f) == 2 {
				i, e2 = strconv.Atoi(f[1])
			}
			if e1 == nil && e2 == nil && k >= 0 && k < len(leaves) {
				leaves[k].idx = i
				toks = append(toks, "."+suffix(root))
			} else {
				toks = append(toks, "bad-op")
			}
			continue
		}
		switch op {
		case "G":
			e, st := getEvR(it, true)
			if st != "" {
				toks = append(toks, st+suffix(root))
			} else {
				toks = append(toks, e.String()+suffix(root))
			}
		case "D":
			es, ended, byErr := drainItR(it, total+1, true)
			drains = append(drains, es)
			s := evsString(es)
			if byErr {
				s += "!err"
			}
			if !ended {
				s += "...NO-EOF"
			}
			toks = append(toks, s+suffix(root))
		case "g":
			e, st := getEv(it)
			if st != "" {
				toks = append(toks, st+suffix(root))
			} else {
				toks = append(toks, e.String()+suffix(root))
			}
		case "n":
			it.Next(ctx)
			toks = append(toks, "."+suffix(root))
		case "r":
			it.Release()
			toks = append(toks, "."+suffix(root))
		case "b1", "b0":
			it.SetBackward(op == "b1")
			toks = append(toks, "."+suffix(root))
		case "d":
			es, ended, byErr := drainItR(it, total+1, false)
			drains = append(drains, es)
			s := evsString(es)
			if byErr {
				s += "!err"
			}
			if !ended {
				s += "...NO-EOF"
			}
			toks = append(toks, s+suffix(root))
		default:
			toks = append(toks, "bad-op")
		}
	}
	return
}

// ---------------------------------------------------------------------------------------------
// generators

var tsShapes = []string{"sorted-ties", "all-equal", "unique-interleaved", "unsorted", "sorted-dup-inside", "negative", "int64-extremes"}

// timestamps whose differences do not fit into an int64
var extremeTs = []int64{math.MinInt64, math.MinInt64 + 1, -1, 0, 1, math.MaxInt64 - 1, math.MaxInt64}

// genLeaves makes k sources with 0..maxLen events each; msg ids encode the source (tags*1000+i) so that attribution is checkable
func genLeaves(rng *vh.Rng, k, maxLen int, shape string) []leafSpec {
	ls := make([]leafSpec, k)
	for i := range ls {
		ls[i].Tags = i + 1
		n := rng.Range(0, maxLen)
		if rng.Chance(1, 5) {
			n = 0
		}
		ts := make([]int64, n)
		for j := range ts {
			switch shape {
			case "sorted-ties", "sorted-dup-inside":
				ts[j] = int64(rng.Range(1, 4))
			case "all-equal":
				ts[j] = 7
			case "unique-interleaved":
				ts[j] = int64(rng.Range(1, 1000))
			case "unsorted":
				ts[j] = int64(rng.Range(1, 5))
			case "negative":
				ts[j] = int64(rng.Range(-3, 2))
			case "int64-extremes":
				ts[j] = rng.PickI64(extremeTs)
			}
		}
		if shape != "unsorted" {
			sort.Slice(ts, func(a, b int) bool { return ts[a] < ts[b] })
		}
		if shape == "unique-interleaved" {
			// make them globally unique and still sorted per source
			for j := range ts {
				ts[j] = ts[j]*64 + int64(i)
			}
		}
		for j := range ts {
			ls[i].Recs = append(ls[i].Recs, [2]int64{ts[j], int64((i+1)*1000 + j)})
		}
	}
	return ls
}

func genShape(rng *vh.Rng, ls []leafSpec) *treeSpec {
	if len(ls) == 1 {
		l := ls[0]
		return &treeSpec{Leaf: &l}
	}
	k := rng.Range(1, len(ls)-1)
	return &treeSpec{A: genShape(rng, ls[:k]), B: genShape(rng, ls[k:])}
}

var opPool = []string{"g", "g", "g", "n", "n", "n", "r", "r", "d", "b1", "b0", "g", "n"}

func genOps(rng *vh.Rng, n int) []string {
	ops := make([]string, n)
	for i := range ops {
		ops[i] = rng.PickS(opPool)
	}
	return ops
}

// fixed scripts every tree is put through (besides the random one): the first "d" is the forward read, in
// "d b1 d" the second "d" is the complete backward read (the sources stand at their ends after the first)
var fixedScripts = [][]string{
	{"d"},
	{"d", "b1", "d"},
	{"g", "r", "g", "n", "r", "g", "n", "g", "r", "n", "d"},
	{"g", "n", "g", "n", "b1", "g", "n", "g", "b0", "d"},
	{"d", "g", "r", "g", "b1", "g", "n", "r", "g", "n", "d", "b0", "d"},
	{"n", "n", "g", "b1", "b1", "n", "g", "r", "d", "g"},
}

// ---------------------------------------------------------------------------------------------
// direction switches in the middle of a stream, with a selection pending (a Get that no Next followed)

// midScript: read k events forward, peek, switch backward; then either drain (j < 0) or read j events backward, peek,
// switch forward again and drain. withRelease sprinkles Release calls between the steps.
func midScript(k, j int, withRelease bool) []string {
	var ops []string
	for i := 0; i < k; i++ {
		ops = append(ops, "g", "n")
	}
	ops = append(ops, "g")
	if withRelease {
		ops = append(ops, "r")
	}
	ops = append(ops, "b1")
	if j >= 0 {
		for i := 0; i < j; i++ {
			ops = append(ops, "g", "n")
		}
		ops = append(ops, "g")
		if withRelease {
			ops = append(ops, "r")
		}
		ops = append(ops, "b0")
	}
	return append(ops, "d")
}

func parseTok(t string) *ev {
	if k := strings.IndexByte(t, '/'); k >= 0 {
		t = t[:k]
	}
	f := strings.Split(t, ":")
	if len(f) != 3 {
		return nil
	}
	a, e1 := strconv.ParseInt(f[0], 10, 64)
	b, e2 := strconv.Atoi(f[1])
	c, e3 := strconv.Atoi(f[2])
	if e1 != nil || e2 != nil || e3 != nil {
		return nil
	}
	return &ev{a, b, c}
}

// midOracle recognises a midScript and says, from what the implementation delivered before the last switch (only the
// *counts per source* are used), what every source read alone delivers from where it then stands: the in-memory
// source stands on its next unread record; switched backward it delivers that record (or its last one, when it had
// ended) and everything before it, newest first; switched forward again it delivers the record it stands on and
// everything after it. ok=false: not such a script.
func midOracle(ls []leafSpec, ops []string, toks []string) (alone map[int][]ev, back bool, ok bool) {
	if len(toks) != len(ops) {
		return nil, false, false
	}
	i := 0
	pairs := func() map[int]int {
		cnt := map[int]int{}
		for i+1 < len(ops) && ops[i] == "g" && ops[i+1] == "n" {
			if e := parseTok(toks[i]); e != nil {
				cnt[e.Tags]++
			}
			i += 2
		}
		return cnt
	}
	peekSwitch := func(sw string) bool {
		if i < len(ops) && ops[i] == "g" {
			i++
			if i < len(ops) && ops[i] == "r" {
				i++
			}
			if i < len(ops) && ops[i] == sw {
				i++
				return true
			}
		}
		return false
	}
	fw := pairs()
	if !peekSwitch("b1") {
		return nil, false, false
	}
	idx := map[int]int{}
	for _, l := range ls {
		x := fw[l.Tags]
		if x > len(l.Recs)-1 {
			x = len(l.Recs) - 1
		}
		idx[l.Tags] = x // -1: empty source
	}
	alone = map[int][]ev{}
	if i == len(ops)-1 && ops[i] == "d" {
		for _, l := range ls {
			all := l.events(false)
			r := []ev{}
			for x := idx[l.Tags]; x >= 0; x-- {
				r = append(r, all[x])
			}
			alone[l.Tags] = r
		}
		return alone, true, true
	}
	bw := pairs()
	if !peekSwitch("b0") || i != len(ops)-1 || ops[i] != "d" {
		return nil, false, false
	}
	for _, l := range ls {
		x := idx[l.Tags] - bw[l.Tags]
		if x < 0 {
			x = 0
		}
		all := l.events(false)
		if x > len(all) {
			x = len(all)
		}
		alone[l.Tags] = append([]ev{}, all[x:]...)
	}
	return alone, false, true
}

// pageAppendScript: read k events, peek and release (what cursor.commit does at the end of a page: State() -> Get, Release),
// then records are appended to partitions, then the read goes on to the end
func pageAppendScript(k int, peek bool, appends []string) []string {
	var ops []string
	for i := 0; i < k; i++ {
		ops = append(ops, "g", "n")
	}
	if peek {
		ops = append(ops, "g")
	}
	ops = append(ops, "r")
	ops = append(ops, appends...)
	return append(ops, "d")
}

// midAppendScript: the same WITHOUT the Release: records are appended between two calls in the middle of a page
// (theorem appends_at_any_boundary: in order for every partition that has not been exhausted)
func midAppendScript(k int, peek bool, appends []string) []string {
	var ops []string
	for i := 0; i < k; i++ {
		ops = append(ops, "g", "n")
	}
	if peek {
		ops = append(ops, "g")
	}
	ops = append(ops, appends...)
	return append(ops, "d")
}

// appendOracle recognises a pageAppendScript and says what every source read alone delivers after the page boundary:
// its records (the appended ones included) from the first one the first page did not consume
func appendOracle(ls []leafSpec, ops []string, toks []string) (alone map[int][]ev, ok bool) {
	if len(toks) != len(ops) || !hasAppend(ops) {
		return nil, false
	}
	i := 0
	cnt := map[int]int{}
	for i+1 < len(ops) && ops[i] == "g" && ops[i+1] == "n" {
		if e := parseTok(toks[i]); e != nil {
			cnt[e.Tags]++
		}
		i += 2
	}
	if i < len(ops) && ops[i] == "g" {
		i++
	}
	if i >= len(ops) {
		return nil, false
	}
	released := ops[i] == "r"
	if released {
		i++
	}
	all := map[int][]ev{}
	for _, l := range ls {
		all[l.Tags] = l.events(false)
	}
	for i < len(ops)-1 {
		k, ts, msg, ok := parseAppend(ops[i])
		if !ok || k < 0 || k >= len(ls) {
			return nil, false
		}
		if !released && cnt[ls[k].Tags] >= len(ls[k].Recs) {
			// in the middle of a page only partitions that have not been exhausted are promised anything
			// (cex_midpage_append_to_exhausted_partition); the answers are still compared with the model
			return nil, false
		}
		all[ls[k].Tags] = append(all[ls[k].Tags], ev{ts, msg, ls[k].Tags})
		i++
	}
	if ops[i] != "d" {
		return nil, false
	}
	alone = map[int][]ev{}
	for _, l := range ls {
		c := cnt[l.Tags]
		if c > len(all[l.Tags]) {
			c = len(all[l.Tags])
		}
		alone[l.Tags] = append([]ev{}, all[l.Tags][c:]...)
	}
	return alone, true
}

// repositionScript: read k events, peek, release (a held cursor between two requests), every source is moved to a new index
// (ApplyState -> SetPos on the journal iterators), the tree is switched backward and forward again (what ApplyState does), read on
func repositionScript(k int, peek bool, idx []int) []string {
	var ops []string
	for i := 0; i < k; i++ {
		ops = append(ops, "g", "n")
	}
	if peek {
		ops = append(ops, "g")
	}
	ops = append(ops, "r")
	for i, x := range idx {
		ops = append(ops, fmt.Sprintf("p%d:%d", i, x))
	}
	return append(ops, "b1", "b0", "d")
}

// repositionOracle: after the moves every source read alone delivers its records from the new index on
func repositionOracle(ls []leafSpec, ops []string) (map[int][]ev, bool) {
	n := len(ops)
	if n < 3+len(ls) || ops[n-1] != "d" || ops[n-2] != "b0" || ops[n-3] != "b1" {
		return nil, false
	}
	alone := map[int][]ev{}
	for i := range ls {
		op := ops[n-3-len(ls)+i]
		f := strings.Split(strings.TrimPrefix(op, "p"), ":")
		if !strings.HasPrefix(op, "p") || len(f) != 2 {
			return nil, false
		}
		k, e1 := strconv.Atoi(f[0])
		x, e2 := strconv.Atoi(f[1])
		if e1 != nil || e2 != nil || k != i || x < 0 || x > len(ls[i].Recs) {
			return nil, false
		}
		alone[ls[i].Tags] = append([]ev{}, ls[i].events(false)[x:]...)
	}
	return alone, true
}

// genAppends: 1..3 records appended to random sources, each later than everything stored so far (a log that grows in time)
func genAppends(rng *vh.Rng, ls []leafSpec) []string {
	var maxTs int64 = -1 << 62
	for _, l := range ls {
		for _, r := range l.Recs {
			if r[0] > maxTs {
				maxTs = r[0]
			}
		}
	}
	if maxTs > math.MaxInt64-10 {
		return nil
	}
	var aps []string
	n := rng.Range(1, 3)
	cnt := map[int]int{}
	for j := 0; j < n; j++ {
		k := rng.Intn(len(ls))
		maxTs += int64(rng.Range(1, 2))
		aps = append(aps, fmt.Sprintf("a%d:%d:%d", k, maxTs, ls[k].Tags*1000+500+cnt[k]))
		cnt[k]++
	}
	return aps
}

func specTreeWith(t *treeSpec, back bool, alone map[int][]ev) []ev {
	if t.Leaf != nil {
		return alone[t.Leaf.Tags]
	}
	return specMerge(back, specTreeWith(t.A, back, alone), specTreeWith(t.B, back, alone))
}

// ---------------------------------------------------------------------------------------------
// section mixer

type mixerCase struct {
	Tree *treeSpec `json:"tree"`
	Ops  []string  `json:"ops"`
}

type pending struct {
	sec      string
	function string
	input    interface{}
	line     string
	impl     string
}

func totalRecs(ls []leafSpec) int {
	n := 0
	for _, l := range ls {
		n += len(l.Recs)
	}
	return n
}

// runMixerCase executes one (tree, script) on the real Mixer; returns the model request and the implementation's answer;
// evaluates the SPEC on every complete drain it can interpret (scripts "d…" and "d b1 d…").
// runMixerCase: a panic of the code under test is a failure with its input, not the end of the harness
func runMixerCase(c mixerCase, sec *vh.Section) (p pending) {
	if pn := vh.Recover(func() { p = runMixerCase0(c, sec) }); pn != "" {
		res.SpecFail(vh.SpecFailure{Section: "mixer", Kind: "panic", Input: c, Impl: pn, Spec: "no panic", What: "model.Mixer panicked on a script of Get/Next/Release/SetBackward"})
		p = pending{"mixer", "model.Mixer Get/Next/Release/SetBackward", c, "mix " + c.Tree.line() + " | " + strings.Join(c.Ops, " "), "PANIC " + pn}
	}
	return
}

func runMixerCase0(c mixerCase, sec *vh.Section) pending {
	ls := c.Tree.leaves()
	var it model.Iterator
	var toks []string
	var drains [][]ev
	if hasAppend(c.Ops) || c.Tree.hasBad() {
		var gl []*growIt
		it = growTree(c.Tree, &gl)
		toks, drains = runOpsG(it, it, c.Ops, totalRecs(ls)+len(c.Ops), gl)
	} else {
		it = realTree(c.Tree)
		toks, drains = runOps(it, it, c.Ops, totalRecs(ls))
	}
	impl := strings.Join(toks, " ")
	if alone, ok := appendOracle(ls, c.Ops, toks); ok && len(drains) == 1 {
		got := drains[0]
		what := "read continued after records were appended to the partitions (behind a page boundary = Get, Release; or, without a Release, to partitions not yet exhausted)"
		if kind, w := checkProperty(got, alone, false); kind != "" {
			res.SpecFail(vh.SpecFailure{Section: "mixer", Kind: kind, Input: c, Impl: evsString(got), Spec: evsString(specTreeWith(c.Tree, false, alone)),
				What: what + ": " + w})
		}
	}
	key := ""
	if len(ls) >= 2 && totalRecs(ls) >= 2 {
		key = c.Tree.line() + "|" + strings.Join(c.Ops, "")
	}
	res.Eval(sec, key)
	// SPEC: exact merge for the explicit source order, and the property
	specCheck := func(got []ev, back bool, what string) {
		want := specTree(c.Tree, back)
		alone := map[int][]ev{}
		for _, l := range ls {
			alone[l.Tags] = l.events(back)
		}
		if kind, w := checkProperty(got, alone, back); kind != "" {
			res.SpecFail(vh.SpecFailure{Section: "mixer", Kind: kind, Input: c, Impl: evsString(got), Spec: evsString(want),
				What: what + ": " + w})
		} else if evsString(got) != evsString(want) {
			// the property does not fix the order among equal timestamps of different sources; the model's SPEC (mergeSpec)
			// does (first source wins ties forward, second backward): a difference is a correspondence matter
			res.Mismatch(vh.Mismatch{Section: "mixer", Function: "mergeSpec tie rule (" + what + ")", Input: c, Impl: evsString(got), Model: evsString(want)})
		}
	}
	if len(c.Ops) >= 1 && c.Ops[0] == "d" && len(drains) >= 1 && !c.Tree.hasBad() {
		specCheck(drains[0], false, "forward read of a fresh tree")
		if len(c.Ops) >= 3 && c.Ops[1] == "b1" && c.Ops[2] == "d" && len(drains) >= 2 {
			specCheck(drains[1], true, "backward read from the end")
		}
	}
	if alone, back, ok := midOracle(ls, c.Ops, toks); ok && len(drains) == 1 {
		got := drains[0]
		what := "read after a direction switch in mid-stream with a selection pending (Get without Next)"
		if kind, w := checkProperty(got, alone, back); kind != "" {
			res.SpecFail(vh.SpecFailure{Section: "mixer", Kind: kind, Input: c, Impl: evsString(got), Spec: evsString(specTreeWith(c.Tree, back, alone)),
				What: what + ": " + w})
		} else if want := specTreeWith(c.Tree, back, alone); evsString(got) != evsString(want) {
			res.Mismatch(vh.Mismatch{Section: "mixer", Function: "mergeSpec tie rule (" + what + ")", Input: c, Impl: evsString(got), Model: evsString(want)})
		}
	}
	if alone, ok := repositionOracle(ls, c.Ops); ok && len(drains) == 1 && !c.Tree.hasBad() {
		if kind, w := checkProperty(drains[0], alone, false); kind != "" {
			res.SpecFail(vh.SpecFailure{Section: "mixer", Kind: kind, Input: c, Impl: evsString(drains[0]), Spec: evsString(specTreeWith(c.Tree, false, alone)),
				What: "read after the sources were moved under the mixer tree and the tree switched backward and forward again (ApplyState): " + w})
		} else if want := specTreeWith(c.Tree, false, alone); evsString(drains[0]) != evsString(want) {
			res.Mismatch(vh.Mismatch{Section: "mixer", Function: "mergeSpec tie rule (read after a re-position)", Input: c, Impl: evsString(drains[0]), Model: evsString(want)})
		}
	}
	cmd := "mix "
	if c.Tree.hasBad() {
		cmd = "mixe "
		errOracle(c, ls, toks)
	}
	return pending{"mixer", "model.Mixer Get/Next/Release/SetBackward", c, cmd + c.Tree.line() + " | " + strings.Join(c.Ops, " "), impl}
}

// errOracle — "the query fails instead of silently reading a subset", for sources with records that cannot be read:
// (a) permanently unreadable: once a Get of the tree has answered a non-EOF error, every later Get (Next and Release in between
// change nothing: the source still stands on the record) must answer the error too — never an event or io.EOF made of the other
// sources only — until the direction is switched; (b) unreadable once: a reader that repeats a failed Get (ops G, D) must get
// everything: the union of all sources, each in its order.
func errOracle(c mixerCase, ls []leafSpec, toks []string) {
	once := false
	for _, l := range ls {
		if len(l.Bad) > 0 && l.Once {
			once = true
		}
	}
	strip := func(t string) string {
		if k := strings.IndexByte(t, '/'); k >= 0 {
			t = t[:k]
		}
		return t
	}
	if !once {
		failed := false
		for i, op := range c.Ops {
			if i >= len(toks) {
				break
			}
			t := strip(toks[i])
			switch op {
			case "b1", "b0":
				failed = false
			case "g", "G":
				if failed && t != "err" {
					res.SpecFail(vh.SpecFailure{Section: "mixer", Kind: "silent-subset-after-error", Input: c, Impl: strings.Join(toks, " "), Spec: "err",
						What: fmt.Sprintf("a source failed with a non-EOF error and stands on the unreadable record, but a later Get (op %d) answers %q from the other sources instead of failing", i, t)})
					return
				}
				if t == "err" {
					failed = true
				}
			case "d", "D":
				if failed && !strings.HasSuffix(t, "!err") || failed && !strings.HasPrefix(t, "-") {
					res.SpecFail(vh.SpecFailure{Section: "mixer", Kind: "silent-subset-after-error", Input: c, Impl: strings.Join(toks, " "), Spec: "-!err",
						What: fmt.Sprintf("a source failed with a non-EOF error and stands on the unreadable record, but the read goes on (op %d: %q) with the other sources", i, t)})
					return
				}
				if strings.HasSuffix(t, "!err") {
					failed = true
				}
			}
		}
		return
	}
	// once: scripts (G n)^k D
	var got []ev
	for i, op := range c.Ops {
		if i >= len(toks) {
			return
		}
		switch op {
		case "G":
			if e := parseTok(toks[i]); e != nil {
				got = append(got, *e)
			}
		case "n":
		case "D":
			t := strip(toks[i])
			if t != "-" {
				for _, x := range strings.Split(strings.TrimSuffix(t, "!err"), ",") {
					if e := parseTok(x); e != nil {
						got = append(got, *e)
					}
				}
			}
		default:
			return
		}
	}
	alone := map[int][]ev{}
	for _, l := range ls {
		alone[l.Tags] = l.events(false)
	}
	if kind, w := checkProperty(got, alone, false); kind != "" {
		res.SpecFail(vh.SpecFailure{Section: "mixer", Kind: kind, Input: c, Impl: evsString(got), Spec: "union of all sources",
			What: "a record failed to read once and the reader repeated the Get: " + w})
	}
}

func sectionMixer(rng *vh.Rng, corpus []mixerCase) {
	sec := res.Section("mixer", "unit-correspondence",
		"real model.Mixer trees (2..6 LogEventIterator/TestLogEventsWrapper leaves, every tree shape) with explicit source order: (a) exhaustive: two leaves of 0..2 events with timestamps in {1,2}, six fixed scripts each plus, at every point k of the stream, Get-without-Next then SetBackward(true) then drain, and the same followed at every later point j by Get, SetBackward(false), drain; at every point k a page boundary ([Get,] Release) behind which a later record is appended to either source, then drain (growable leaves; the read must continue with the union incl. the appended records); (b) seeded random trees/contents (ties, empties, unsorted, negative ts, int64 extremes whose differences overflow) x fixed scripts + one random script of Get/Next/Release/SetBackward/drain; every answer and the root's (st,eof1,eof2) compared with the Lean model, complete forward/backward drains compared with the Go merge oracle and the property; non-trivial = at least 2 sources and 2 events, distinct by (tree, script)")
	var ps []pending
	for _, c := range corpus {
		ps = append(ps, runMixerCase(c, sec))
		res.Dist(sec, "corpus")
	}
	// (a) exhaustive small domain
	var small [][]int64
	small = append(small, []int64{})
	for _, a := range []int64{1, 2} {
		small = append(small, []int64{a})
		for _, b := range []int64{1, 2} {
			small = append(small, []int64{a, b})
		}
	}
	mk := func(tags int, ts []int64) leafSpec {
		l := leafSpec{Tags: tags}
		for j, t := range ts {
			l.Recs = append(l.Recs, [2]int64{t, int64(tags*1000 + j)})
		}
		return l
	}
	for _, xa := range small {
		for _, xb := range small {
			a, b := mk(1, xa), mk(2, xb)
			t := &treeSpec{A: &treeSpec{Leaf: &a}, B: &treeSpec{Leaf: &b}}
			for _, s := range fixedScripts {
				ps = append(ps, runMixerCase(mixerCase{t, s}, sec))
				res.Dist(sec, "exhaustive-2x2")
			}
			// every point of the stream as the end of a request of a held cursor, then both sources moved to every pair of indices
			for k := 0; k <= len(xa)+len(xb); k++ {
				for i0 := 0; i0 <= len(xa); i0++ {
					for i1 := 0; i1 <= len(xb); i1++ {
						ps = append(ps, runMixerCase(mixerCase{t, repositionScript(k, (k+i0+i1)%2 == 0, []int{i0, i1})}, sec))
						res.Dist(sec, "exhaustive-2x2-reposition")
					}
				}
			}
			// every record of either source unreadable (permanently: fixed scripts; once: read with retries)
			for who := 0; who < 2; who++ {
				src := [][]int64{xa, xb}[who]
				for bi := range src {
					for _, once := range []bool{false, true} {
						ea, eb := a, b
						if who == 0 {
							ea.Bad, ea.Once = []int{bi}, once
						} else {
							eb.Bad, eb.Once = []int{bi}, once
						}
						et := &treeSpec{A: &treeSpec{Leaf: &ea}, B: &treeSpec{Leaf: &eb}}
						scripts := [][]string{{"g", "n", "g", "n", "g", "g", "n", "g", "r", "g", "d"}, {"d", "g", "n", "d", "r", "d"}, {"g", "r", "g", "n", "n", "g", "d", "b1", "d", "b0", "d"}}
						if once {
							scripts = [][]string{{"D"}, {"G", "n", "D"}, {"G", "n", "G", "n", "D"}}
						}
						for _, sc := range scripts {
							ps = append(ps, runMixerCase(mixerCase{et, sc}, sec))
							res.Dist(sec, "exhaustive-2x2-unreadable-record")
						}
					}
				}
			}
			// every point of the stream as a page boundary, then an append to either source (later than everything stored)
			for k := 0; k <= len(xa)+len(xb); k++ {
				for _, peek := range []bool{true, false} {
					for who := 0; who < 2; who++ {
						ap := fmt.Sprintf("a%d:9:%d", who, (who+1)*1000+500)
						ps = append(ps, runMixerCase(mixerCase{t, pageAppendScript(k, peek, []string{ap})}, sec))
						res.Dist(sec, "exhaustive-2x2-page-append")
						ps = append(ps, runMixerCase(mixerCase{t, midAppendScript(k, peek, []string{ap})}, sec))
						res.Dist(sec, "exhaustive-2x2-midpage-append")
					}
				}
			}
			// every point of the stream: switch backward with a pending selection, and forward again at every later point
			for k := 0; k <= len(xa)+len(xb); k++ {
				for j := -1; j <= k+1; j++ {
					ps = append(ps, runMixerCase(mixerCase{t, midScript(k, j, (k+j)%3 == 0)}, sec))
					res.Dist(sec, "exhaustive-2x2-midstream-switch")
				}
			}
		}
	}
	// (b) random
	n := 2500
	if args.Thorough {
		n = 30000
	}
	for i := 0; i < n; i++ {
		k := rng.Range(2, 6)
		shape := rng.PickS(tsShapes)
		ls := genLeaves(rng, k, 5, shape)
		t := genShape(rng, ls)
		res.Dist(sec, fmt.Sprintf("leaves=%d", k))
		res.Dist(sec, "ts="+shape)
		for _, s := range fixedScripts[:2] {
			ps = append(ps, runMixerCase(mixerCase{t, s}, sec))
		}
		ps = append(ps, runMixerCase(mixerCase{t, fixedScripts[2+rng.Intn(4)]}, sec))
		for r := 0; r < 3; r++ {
			k := rng.Range(0, totalRecs(ls)+1)
			j := rng.Range(-1, k)
			ps = append(ps, runMixerCase(mixerCase{t, midScript(k, j, rng.Chance(1, 3))}, sec))
			res.Dist(sec, "midstream-switch")
		}
		if tot := totalRecs(ls); tot > 0 {
			// one source gets a record that cannot be read (permanently, or once)
			els := append([]leafSpec{}, ls...)
			for tries := 0; tries < 10; tries++ {
				j := rng.Intn(len(els))
				if len(els[j].Recs) > 0 {
					els[j].Bad = []int{rng.Intn(len(els[j].Recs))}
					els[j].Once = rng.Chance(1, 3)
					et := genShape(rng, els)
					var ops []string
					if els[j].Once {
						for x := rng.Range(0, tot); x > 0; x-- {
							ops = append(ops, "G", "n")
						}
						ops = append(ops, "D")
					} else {
						for x := rng.Range(4, 24); x > 0; x-- {
							ops = append(ops, rng.PickS([]string{"g", "g", "g", "n", "n", "r", "d", "b1", "b0"}))
						}
						ops = append(ops, "g", "n", "g", "r", "g", "d")
					}
					ps = append(ps, runMixerCase(mixerCase{et, ops}, sec))
					res.Dist(sec, "unreadable-record")
					break
				}
			}
		}
		{
			idx := make([]int, len(ls))
			for j := range idx {
				idx[j] = rng.Range(0, len(ls[j].Recs))
			}
			ps = append(ps, runMixerCase(mixerCase{t, repositionScript(rng.Range(0, totalRecs(ls)+1), rng.Bool(), idx)}, sec))
			res.Dist(sec, "reposition")
		}
		if shape != "unsorted" {
			if aps := genAppends(rng, ls); aps != nil {
				ps = append(ps, runMixerCase(mixerCase{t, pageAppendScript(rng.Range(0, totalRecs(ls)+1), rng.Bool(), aps)}, sec))
				res.Dist(sec, "page-append")
				ps = append(ps, runMixerCase(mixerCase{t, midAppendScript(rng.Range(0, totalRecs(ls)+1), rng.Bool(), aps)}, sec))
				res.Dist(sec, "midpage-append")
			}
		}
		c := mixerCase{t, genOps(rng, rng.Range(6, 30))}
		ps = append(ps, runMixerCase(c, sec))
		if i < 2 {
			res.Sample(map[string]interface{}{"section": "mixer", "tree": t.line(), "ops": c.Ops})
		}
	}
	compare(ps)
	res.Done(sec)
}

// compare sends the collected requests to the model driver (batch) and reports IMPL != MODEL
func compare(ps []pending) {
	lines := make([]string, len(ps))
	for i, p := range ps {
		lines[i] = p.line
	}
	outs, err := vh.Batch(args.Driver, lines)
	if err != nil {
		res.Fatal(args.Out, "driver: %v", err)
	}
	for i, p := range ps {
		if outs[i] != p.impl {
			res.Mismatch(vh.Mismatch{Section: p.sec, Function: p.function, Input: p.input, Impl: p.impl, Model: outs[i]})
		}
	}
}

// ---------------------------------------------------------------------------------------------
// section cursor: newCursor over a fake ItFactory

type fakeJrnl struct {
	name string
	leaf leafSpec
}

func (j *fakeJrnl) Name() string { return j.name }
func (j *fakeJrnl) Write(ctx context.Context, rit records.Iterator) (int, journal.Pos, error) {
	return 0, journal.Pos{}, nil
}
func (j *fakeJrnl) Size() uint64                    { return 0 }
func (j *fakeJrnl) Count() uint64                   { return uint64(len(j.leaf.Recs)) }
func (j *fakeJrnl) Sync()                           {}
func (j *fakeJrnl) Chunks() journal.ChnksController { return nil }

type fakeJIt struct {
	*model.TestLogEventsWrapper
	closed bool
}

func (it *fakeJIt) Close() error           { it.closed = true; return nil }
func (it *fakeJIt) Pos() journal.Pos       { return journal.Pos{} }
func (it *fakeJIt) SetPos(pos journal.Pos) {}

type fakeItf struct {
	jrnls    map[tag.Line]*fakeJrnl
	order    []int // tags of the journals in the order newCursor asked for their iterators
	released map[string]int
	its      []*fakeJIt
}

func (f *fakeItf) GetJournals(ctx context.Context, tagsCond *lql.Source, maxLimit int) (map[tag.Line]journal.Journal, error) {
	r := make(map[tag.Line]journal.Journal, len(f.jrnls))
	for k, v := range f.jrnls {
		r[k] = v
	}
	return r, nil
}
func (f *fakeItf) GetJournal(ctx context.Context, src string) (tag.Set, journal.Journal, error) {
	panic("not used")
}
func (f *fakeItf) Itearator(j journal.Journal, tmRange *model.TimeRange) journal.Iterator {
	fj := j.(*fakeJrnl)
	f.order = append(f.order, fj.leaf.Tags)
	it := &fakeJIt{TestLogEventsWrapper: model.NewTestLogEventsWrapper(fj.leaf.logEvents())}
	f.its = append(f.its, it)
	return it
}
func (f *fakeItf) Release(jn string) { f.released[jn]++ }

type cursorCase struct {
	Leaves []leafSpec `json:"leaves"`
	Ops    []string   `json:"ops"`
}

func runCursorCase(c cursorCase, sec *vh.Section) (p pending, ok bool) {
	if pn := vh.Recover(func() { p, ok = runCursorCase0(c, sec) }); pn != "" {
		res.SpecFail(vh.SpecFailure{Section: "cursor", Kind: "panic", Input: c, Impl: pn, Spec: "no panic", What: "cursor.newCursor or the cursor it built panicked"})
		return pending{}, false
	}
	return
}

func runCursorCase0(c cursorCase, sec *vh.Section) (p pending, ok bool) {
	f := &fakeItf{jrnls: map[tag.Line]*fakeJrnl{}, released: map[string]int{}}
	byTags := map[int]leafSpec{}
	for _, l := range c.Leaves {
		f.jrnls[tagLine(l.Tags)] = &fakeJrnl{name: fmt.Sprintf("j%d", l.Tags), leaf: l}
		byTags[l.Tags] = l
	}
	cur, err := cursor.NewCursorVerif(ctx, cursor.State{Query: "select from a=b limit 10"}, f)
	n := len(c.Leaves)
	if err != nil {
		// the model: no sources -> error; anything else must build
		res.Eval(sec, "")
		return pending{"cursor", "cursor.newCursor", c, fmt.Sprintf("curs %d |", n), "nosources"}, true
	}
	// the source order newCursor used
	var ordered []leafSpec
	seen := map[int]bool{}
	for _, t := range f.order {
		ordered = append(ordered, byTags[t])
		seen[t] = true
	}
	if len(ordered) != n || len(seen) != n {
		res.SpecFail(vh.SpecFailure{Section: "cursor", Kind: "source-not-opened-once", Input: c, Impl: fmt.Sprint(f.order), Spec: fmt.Sprintf("each of the %d sources once", n),
			What: "newCursor did not create exactly one iterator per selected partition"})
		return pending{}, false
	}
	// since /repo f086c95 the order is the ascending (Go string) order of the tag lines, whatever the map iteration did
	if n >= 2 {
		want := make([]int, 0, n)
		for _, l := range c.Leaves {
			want = append(want, l.Tags)
		}
		sort.Slice(want, func(a, b int) bool { return tagLine(want[a]) < tagLine(want[b]) })
		if fmt.Sprint(want) != fmt.Sprint(f.order) {
			res.Mismatch(vh.Mismatch{Section: "cursor", Function: "cursor.newCursor: order of the sources (= tie priority) must be the sorted tag lines", Input: c,
				Impl: fmt.Sprint(f.order), Model: fmt.Sprint(want)})
		}
	}
	toks, drains := runOps(cur, nil, c.Ops, totalRecs(c.Leaves))
	cursor.CloseCursorVerif(cur)
	key := ""
	if n >= 2 && totalRecs(c.Leaves) >= 2 {
		key = fmt.Sprint(n, c.Leaves, c.Ops)
	}
	res.Eval(sec, key)
	res.Dist(sec, fmt.Sprintf("n=%d", n))
	// SPEC: the property (not the exact tie order: that depends on the map order and is the model's business)
	specCheck := func(got []ev, back bool, what string) {
		alone := map[int][]ev{}
		for _, l := range c.Leaves {
			alone[l.Tags] = l.events(back)
		}
		if kind, w := checkProperty(got, alone, back); kind != "" {
			res.SpecFail(vh.SpecFailure{Section: "cursor", Kind: kind, Input: c, Impl: evsString(got), Spec: "union of the sources read alone; map order was " + fmt.Sprint(f.order),
				What: fmt.Sprintf("%s over %d sources: %s", what, n, w)})
		}
	}
	if len(c.Ops) >= 1 && c.Ops[0] == "d" && len(drains) >= 1 {
		specCheck(drains[0], false, "forward read of a new cursor")
		if len(c.Ops) >= 3 && c.Ops[1] == "b1" && c.Ops[2] == "d" && len(drains) >= 2 {
			specCheck(drains[1], true, "backward read from the end")
		}
	}
	if alone, back, ok := midOracle(c.Leaves, c.Ops, toks); ok && len(drains) == 1 {
		if kind, w := checkProperty(drains[0], alone, back); kind != "" {
			res.SpecFail(vh.SpecFailure{Section: "cursor", Kind: kind, Input: c, Impl: evsString(drains[0]), Spec: "union of what the sources deliver alone from where they stand; map order was " + fmt.Sprint(f.order),
				What: fmt.Sprintf("read after a direction switch in mid-stream with a selection pending, %d sources: %s", n, w)})
		}
	}
	// every journal must be released exactly once by close
	for _, l := range c.Leaves {
		if f.released[fmt.Sprintf("j%d", l.Tags)] != 1 {
			res.SpecFail(vh.SpecFailure{Section: "cursor", Kind: "leak", Input: c, Impl: fmt.Sprint(f.released), Spec: "each journal released once",
				What: "closing the cursor does not release every selected partition exactly once"})
			break
		}
	}
	// MODEL: the map entries in an arbitrary iteration order (here: the reverse of the case's order); the model orders them
	// the way the code does now (regenerated fact newCursorSortsSources), reduces, and runs the script
	_ = ordered
	line := fmt.Sprintf("curs %d", n)
	for i := len(c.Leaves) - 1; i >= 0; i-- {
		line += " " + vh.HxS(string(tagLine(c.Leaves[i].Tags))) + " " + c.Leaves[i].line()
	}
	// the root's mixer state is not visible through the cursor: strip the model's suffixes by asking without them
	return pending{"cursor", "cursor.newCursor (mixer tree) + Get/Next/Release/SetBackward", map[string]interface{}{"case": c, "map_order": f.order},
		line + " | " + strings.Join(c.Ops, " "), strings.Join(toks, " ")}, true
}

func sectionCursor(rng *vh.Rng, corpus []cursorCase) {
	sec := res.Section("cursor", "unit-correspondence",
		"cursor.newCursor over a fake ItFactory with n sources, every n in 0..64 (4 content shapes each quick, 20 thorough), contents with ties across sources, empty sources, unsorted sources; the observed order of the Itearator calls must be the ascending tag-line order (t=1 < t=10 < t=2: Go string order), and the cursor's answers are compared exactly with the model that sorts the map entries (regenerated fact) and reduces them (scripts as in section mixer, incl. direction switches in mid-stream with a pending selection), and with the property; non-trivial = at least 2 sources and 2 events")
	var ps []pending
	add := func(c cursorCase) {
		if p, ok := runCursorCase(c, sec); ok {
			ps = append(ps, p)
		}
	}
	for _, c := range corpus {
		add(c)
	}
	add(cursorCase{Leaves: nil, Ops: []string{"d"}})
	// every n: which counts an indexing mistake in the reduction hits is not predictable (it depends on the sizes of the
	// later passes), and the fake factory makes all of them cheap
	var ns []int
	for i := 1; i <= 64; i++ {
		ns = append(ns, i)
	}
	shapes := 4
	if args.Thorough {
		shapes = 20
	}
	for _, n := range ns {
		for s := 0; s < shapes; s++ {
			shape := tsShapes[(s+n)%len(tsShapes)]
			ls := genLeaves(rng, n, 4, shape)
			res.Dist(sec, "ts="+shape)
			add(cursorCase{ls, fixedScripts[0]})
			add(cursorCase{ls, fixedScripts[1]})
			add(cursorCase{ls, fixedScripts[2+rng.Intn(4)]})
			for r := 0; r < 2; r++ {
				k := rng.Range(0, totalRecs(ls)+1)
				add(cursorCase{ls, midScript(k, rng.Range(-1, k), rng.Chance(1, 3))})
			}
			c := cursorCase{ls, genOps(rng, rng.Range(6, 40))}
			add(c)
			if n == 5 && s == 0 {
				res.Sample(map[string]interface{}{"section": "cursor", "n": n, "ops": c.Ops})
			}
		}
	}
	// the model prints the root's state after every token; the cursor hides it: compare without the suffixes
	lines := make([]string, len(ps))
	for i, p := range ps {
		lines[i] = p.line
	}
	outs, err := vh.Batch(args.Driver, lines)
	if err != nil {
		res.Fatal(args.Out, "driver: %v", err)
	}
	for i, p := range ps {
		if stripSuffixes(outs[i]) != p.impl {
			res.Mismatch(vh.Mismatch{Section: p.sec, Function: p.function, Input: p.input, Impl: p.impl, Model: stripSuffixes(outs[i])})
		}
	}
	res.Done(sec)
}

func stripSuffixes(s string) string {
	toks := strings.Split(s, " ")
	for i, t := range toks {
		if k := strings.IndexByte(t, '/'); k >= 0 {
			toks[i] = t[:k]
		}
	}
	return strings.Join(toks, " ")
}

// ---------------------------------------------------------------------------------------------
// section system: the assembled server

type systemCase struct {
	N     int       `json:"n"`
	Parts [][]int64 `json:"parts"` // timestamps per partition, stored order
	Shape string    `json:"shape"`
}

var sysShapes = []string{"sorted-ties", "all-equal", "unique-interleaved", "unsorted", "some-empty", "one-big", "all-empty-but-one", "all-empty"}

func genSystemCase(rng *vh.Rng, n int, shape string) systemCase {
	c := systemCase{N: n, Shape: shape, Parts: make([][]int64, n)}
	big := rng.Intn(n)
	for i := range c.Parts {
		k := rng.Range(1, 5)
		switch shape {
		case "some-empty":
			if rng.Chance(1, 3) {
				k = 0
			}
		case "one-big":
			k = 1
			if i == big {
				k = 12
			}
		case "all-empty-but-one":
			k = 0
			if i == big {
				k = 4
			}
		case "all-empty":
			k = 0
		}
		ts := make([]int64, k)
		for j := range ts {
			switch shape {
			case "all-equal":
				ts[j] = 1000
			case "unique-interleaved":
				ts[j] = int64(rng.Range(1, 100000))*64 + int64(i)
			case "unsorted":
				ts[j] = int64(rng.Range(1, 6))
			default:
				ts[j] = int64(rng.Range(1, 4))
			}
		}
		if shape != "unsorted" {
			sort.Slice(ts, func(a, b int) bool { return ts[a] < ts[b] })
		}
		c.Parts[i] = ts
	}
	return c
}

var sysGroup int
var sysGroupMu sync.Mutex

func nextGroup() string {
	sysGroupMu.Lock()
	defer sysGroupMu.Unlock()
	sysGroup++
	return fmt.Sprintf("g%d", sysGroup)
}

// readForward reads everything a query selects through backend.Querier (one request, big limit)
func readForward(srv *lrsrv.Srv, q string, lineToPart map[string]int) ([]ev, error) {
	r, err := srv.Querier.Query(ctx, &api.QueryRequest{Query: q, Limit: 10000})
	if err != nil && !(err == io.EOF && r != nil) { // io.EOF next to a result only says that the end was reached
		return nil, err
	}
	var es []ev
	for _, e := range r.Events {
		es = append(es, sysEv(e.Timestamp, e.Message, e.Tags, lineToPart))
	}
	return es, nil
}

func sysEv(ts int64, msg, tags string, lineToPart map[string]int) ev {
	// payload "p-k" -> id p*1000+k ; tag line -> index of the partition with that line (-1 unknown)
	m := -1
	if kv := strings.Split(msg, "-"); len(kv) == 2 {
		a, e1 := strconv.Atoi(kv[0])
		b, e2 := strconv.Atoi(kv[1])
		if e1 == nil && e2 == nil {
			m = a*1000 + b
		}
	}
	p, ok := lineToPart[tags]
	if !ok {
		p = -1
	}
	return ev{ts, m, p}
}

// readBackward walks a cursor backward from the tail
func readBackward(srv *lrsrv.Srv, q string, lineToPart map[string]int, max int) ([]ev, error) {
	cur, err := srv.Cursors.GetOrCreate(ctx, cursor.State{Query: q, Pos: "tail"}, false)
	if err != nil {
		return nil, err
	}
	defer srv.Cursors.Release(ctx, cur)
	cur.SetBackward(true)
	var es []ev
	for i := 0; i <= max; i++ {
		le, tl, err := cur.Get(ctx)
		if err == io.EOF {
			return es, nil
		}
		if err != nil {
			return es, err
		}
		es = append(es, sysEv(le.Timestamp, string(append([]byte{}, le.Msg...)), string(tl), lineToPart))
		cur.Next(ctx)
	}
	return es, fmt.Errorf("no EOF after %d events", max)
}

// held counts the partitions of the group that somebody still holds (LockExclusively needs readers == 1 after our own acquire)
func held(srv *lrsrv.Srv, tagsOf []string) int {
	h := 0
	for _, t := range tagsOf {
		src, _, err := srv.TIndex.GetOrCreateJournal(t)
		if err != nil {
			h++
			continue
		}
		if srv.TIndex.LockExclusively(src) {
			srv.TIndex.UnlockExclusively(src)
		} else {
			h++
		}
		srv.TIndex.Release(src)
	}
	return h
}

func runSystemCase(srv *lrsrv.Srv, c systemCase, sec *vh.Section, limit int) (ps []pending) {
	grp := nextGroup()
	tagsOf := make([]string, c.N)
	lineToPart := map[string]int{}
	written := map[int][]ev{}
	wantFields := map[int]string{}
	total := 0
	for i := 0; i < c.N; i++ {
		tagsOf[i] = fmt.Sprintf("grp=%s,p=%d", grp, i)
		ts, err := tag.Parse(tagsOf[i])
		if err != nil {
			res.Fatal(args.Out, "system: tag.Parse: %v", err)
		}
		lineToPart[string(ts.Line())] = i
		les := make([]model.LogEvent, len(c.Parts[i]))
		written[i] = []ev{}
		// every second partition is written WITH fields, the others without: in the merged stream fielded and unfielded events
		// interleave, and every event must come back with the fields text of its own record (read alone: its partition's)
		var flds field.Fields
		if i%2 == 1 {
			flds, _ = field.NewFieldsFromSlice("f", fmt.Sprintf("p%d", i))
			wantFields[i] = flds.AsKVString()
		}
		for k, t := range c.Parts[i] {
			les[k] = model.LogEvent{Timestamp: t, Msg: []byte(fmt.Sprintf("%d-%d", i, k)), Fields: flds}
			written[i] = append(written[i], ev{t, i*1000 + k, i})
		}
		total += len(les)
		// an empty batch still creates the partition
		werr := srv.Parts.Write(ctx, tagsOf[i], (&model.LogEventIterator{}).Wrap("", model.NewTestLogEventsWrapper(les)), true)
		if werr != nil && len(les) > 0 {
			// the set-up itself failed (resources of the test process): not a verdict about the property
			res.Note("system: set-up write to partition %d of %d failed, case skipped: %v", i, c.N, werr)
			res.Dist(sec, "setup-failed")
			return nil
		}
	}
	srv.FlushWait()
	// readers only see flushed records: wait until every journal reports what was written (generous: the machine may be busy)
	for i := 0; i < c.N; i++ {
		src, _, err := srv.TIndex.GetJournal(tagsOf[i])
		if err != nil {
			res.Note("system: set-up: partition %d of %d does not exist after the write, case skipped: %v", i, c.N, err)
			res.Dist(sec, "setup-failed")
			return nil
		}
		j, err := srv.Journals.GetOrCreate(ctx, src)
		ok := err == nil
		for k := 0; ok && k < 5000 && int(j.Count()) < len(c.Parts[i]); k++ {
			time.Sleep(time.Millisecond)
		}
		srv.TIndex.Release(src)
		if !ok || int(j.Count()) < len(c.Parts[i]) {
			res.Note("system: set-up: partition %d of %d never showed its %d records, case skipped", i, c.N, len(c.Parts[i]))
			res.Dist(sec, "setup-failed")
			return nil
		}
	}
	key := ""
	if c.N >= 2 && total >= 2 {
		key = fmt.Sprint(c)
	}
	res.Eval(sec, key)
	res.Dist(sec, fmt.Sprintf("n=%d", c.N))
	res.Dist(sec, "shape="+c.Shape)
	fail := func(kind, what, impl, spec string) {
		res.SpecFail(vh.SpecFailure{Section: "system", Kind: kind, Input: c, Impl: impl, Spec: spec, What: what})
	}
	q := "select from grp=" + grp
	for _, back := range []bool{false, true} {
		dir := "forward"
		if back {
			dir = "backward"
		}
		var got []ev
		var err error
		if back {
			got, err = readBackward(srv, q, lineToPart, total+2)
		} else {
			got, err = readForward(srv, q, lineToPart)
			// the fields text of every event of the merged answer is the one of its own partition (both Query functions keep a
			// one-entry cache of the last fields converted: it must be refreshed on EVERY difference, also to "no fields")
			checkFields := func(evs []*api.LogEvent, via string) {
				for k, e := range evs {
					p, ok := lineToPart[e.Tags]
					if ok && e.Fields != wantFields[p] {
						res.SpecFail(vh.SpecFailure{Section: "system", Kind: "wrong-fields", Input: c, Impl: fmt.Sprintf("event %d (%d, %q, partition %d): fields %q", k, e.Timestamp, e.Message, p, e.Fields), Spec: fmt.Sprintf("fields %q", wantFields[p]),
							What: fmt.Sprintf("merged read %s over %d partitions (odd ones written with fields, even ones without): an event does not carry the fields text of its own record, which reading its partition alone returns", via, c.N)})
						break
					}
				}
			}
			if err == nil {
				if rb, eb := srv.Querier.Query(ctx, &api.QueryRequest{Query: q, Limit: 10000}); (eb == nil || eb == io.EOF) && rb != nil {
					checkFields(rb.Events, "through backend.Querier")
				}
			}
			// the same read through the RPC encoder/decoder (api/rpc: queryResultBuilder.writeLogEvent, unmarshalQueryResult): every
			// event must arrive with the same timestamp, payload and TAG LINE as in the in-process answer
			if err == nil && srv.Client != nil {
				var qr api.QueryResult
				if rerr := srv.Client.Query(ctx, &api.QueryRequest{Query: q, Limit: 10000}, &qr); rerr == nil && qr.Err == nil {
					var viaRPC []ev
					for _, e := range qr.Events {
						viaRPC = append(viaRPC, sysEv(e.Timestamp, e.Message, e.Tags, lineToPart))
					}
					res.Dist(sec, "rpc-read")
					checkFields(qr.Events, "through the RPC server (api/rpc ServerQuerier.query)")
					if evsString(viaRPC) != evsString(got) {
						res.SpecFail(vh.SpecFailure{Section: "system", Kind: "wrong-attribution", Input: c, Impl: evsString(viaRPC), Spec: evsString(got),
							What: "the merged read through the RPC client differs from the in-process answer of the same query (events or their tag lines)"})
					}
				} else {
					res.Note("system: rpc read failed: %v %v", rerr, qr.Err)
				}
			}
		}
		if !back {
			// MODEL: GetJournals over c.N matching partitions with the regenerated limit: the answer and how many
			// partitions are acquired afterwards (probed through a cursor of the provider, which is what a query holds)
			impl := ""
			pc, perr := srv.Cursors.GetOrCreate(ctx, cursor.State{Query: q}, false)
			if perr != nil {
				impl = fmt.Sprintf("err held=%d", held(srv, tagsOf))
			} else {
				nsrc := len(strings.Split(pc.State(ctx).Pos, ":"))
				impl = fmt.Sprintf("ok %d held=%d", nsrc, held(srv, tagsOf))
				srv.Cursors.Release(ctx, pc)
			}
			if (perr != nil) != (err != nil) {
				fail("nondeterministic-limit", "the same query once failed and once succeeded", fmt.Sprint(err), fmt.Sprint(perr))
			}
			ps = append(ps, pending{"system", "partition.Service.GetJournals (limit, acquisitions)", c, fmt.Sprintf("gj %d %d", limit, c.N), impl})
		}
		if c.N > limit {
			if err == nil {
				fail("limit-not-enforced", fmt.Sprintf("%d partitions match, more than the merge limit %d, but the %s query answered with %d events instead of failing", c.N, limit, dir, len(got)),
					fmt.Sprintf("%d events", len(got)), "error")
			}
			continue
		}
		if err != nil {
			if c.N < limit {
				fail("query-failed", fmt.Sprintf("the %s query over %d (< %d) partitions failed", dir, c.N, limit), err.Error(), "the merged events")
			}
			// c.N == limit: failing at exactly the limit is allowed by the property (remark in the design notes)
			continue
		}
		// the partitions read alone
		alone := map[int][]ev{}
		for i := 0; i < c.N; i++ {
			qi := fmt.Sprintf("select from grp=%s and p=%d", grp, i)
			var a []ev
			var e error
			if back {
				a, e = readBackward(srv, qi, lineToPart, len(c.Parts[i])+2)
			} else {
				a, e = readForward(srv, qi, lineToPart)
			}
			if e != nil {
				fail("single-read-failed", fmt.Sprintf("reading partition %d alone (%s) failed", i, dir), e.Error(), "its events")
				return
			}
			if a == nil {
				a = []ev{}
			}
			alone[i] = a
			// cross-check with what was written (attribution: an event belongs to the partition it was written to)
			w := append([]ev{}, written[i]...)
			if back {
				for x, y := 0, len(w)-1; x < y; x, y = x+1, y-1 {
					w[x], w[y] = w[y], w[x]
				}
			}
			if evsString(a) != evsString(w) {
				fail("single-read-differs-from-written", fmt.Sprintf("partition %d read alone (%s) is not what was written to it, with its tag line", i, dir), evsString(a), evsString(w))
				return
			}
		}
		if kind, w := checkProperty(got, alone, back); kind != "" {
			fail(kind, fmt.Sprintf("%s read over %d partitions: %s", dir, c.N, w), evsString(got), "union of the partitions read alone")
		} else if c.Shape != "unsorted" && c.Shape != "corpus" {
			// MODEL (merged_order_deterministic, tie_priority): with every partition in time order the merged stream is the total order
			// (timestamp, rank of the tag line, stored position) — forward ascending, backward exactly its reverse. (For unsorted
			// partitions the result depends on the tree shape; that is compared in the cursor section.)
			idx := make([]int, c.N)
			for i := range idx {
				idx[i] = i
			}
			lineOf := func(i int) string { t, _ := tag.Parse(tagsOf[i]); return string(t.Line()) }
			sort.Slice(idx, func(a, b int) bool { return lineOf(idx[a]) < lineOf(idx[b]) })
			var want []ev
			for _, i := range idx {
				want = append(want, written[i]...)
			}
			sort.SliceStable(want, func(a, b int) bool { return want[a].Ts < want[b].Ts })
			if back {
				for x, y := 0, len(want)-1; x < y; x, y = x+1, y-1 {
					want[x], want[y] = want[y], want[x]
				}
			}
			if evsString(got) != evsString(want) {
				res.Mismatch(vh.Mismatch{Section: "system", Function: "tie order of the " + dir + " merged read = tag-line priority (sorted sources)", Input: c, Impl: evsString(got), Model: evsString(want)})
			}
		}
	}
	// through the API: a page of k events, then a query from the returned position with a negative offset — the cursor
	// switches backward and forward again in mid-stream. What C04 demands of the answer: no event twice, every
	// partition's order kept, time order when every partition is stored in time order (which events exactly is C16).
	if c.N < limit && c.N >= 2 && total >= 3 {
		k := 1 + (total*7+c.N)%(total-1)
		r1, err := srv.Querier.Query(ctx, &api.QueryRequest{Query: q, Limit: k})
		if (err == nil || err == io.EOF) && r1 != nil && len(r1.Events) == k {
			for _, j := range []int{1, (k + 1) / 2, k} {
				r2, err := srv.Querier.Query(ctx, &api.QueryRequest{Query: q, Pos: r1.NextQueryRequest.Pos, Offset: -j, Limit: 10000})
				if !(err == nil || err == io.EOF) || r2 == nil {
					continue // whether the offset query answers is not this property's business
				}
				var got []ev
				for _, e := range r2.Events {
					got = append(got, sysEv(e.Timestamp, e.Message, e.Tags, lineToPart))
				}
				seen := map[ev]bool{}
				last := map[int]int{}
				sortedIn := c.Shape != "unsorted" && c.Shape != "corpus"
				for x, e := range got {
					in := map[string]interface{}{"case": c, "page": k, "offset": -j}
					bad := func(kind, what string) {
						res.SpecFail(vh.SpecFailure{Section: "system", Kind: kind, Input: in, Impl: evsString(got), Spec: "each event once, partitions in stored order, time-ordered",
							What: fmt.Sprintf("query from the position after %d events with offset %d over %d partitions: %s", k, -j, c.N, what)})
					}
					if e.Tags < 0 || e.Msg/1000 != e.Tags {
						bad("wrong-attribution", fmt.Sprintf("event %v is not reported under the tag line of the partition it was written to", e))
						break
					}
					if seen[e] {
						bad("extra-event", fmt.Sprintf("event %v is delivered twice", e))
						break
					}
					seen[e] = true
					if l, ok := last[e.Tags]; ok && e.Msg <= l {
						bad("per-partition-order", fmt.Sprintf("the events of partition %d do not keep their stored order", e.Tags))
						break
					}
					last[e.Tags] = e.Msg
					if sortedIn && x > 0 && got[x-1].Ts > e.Ts {
						bad("not-time-ordered", fmt.Sprintf("every partition is stored in timestamp order but the answer is not (position %d)", x))
						break
					}
				}
				res.Dist(sec, "api-negative-offset")
			}
		}
	}
	// nothing may stay acquired after the queries (failed or not)
	if h := held(srv, tagsOf); h != 0 {
		fail("leak", fmt.Sprintf("%d of %d partitions are still acquired after the queries ended (n=%d, limit=%d)", h, c.N, c.N, limit), fmt.Sprint(h), "0")
	}
	// a HELD merged cursor (WaitTimeout > 0 keeps it in the provider between requests): page 1 and page 2 end by their limits,
	// then page 2 is asked for again (a retry of a lost answer): same ReqId, the older position. ApplyState re-positions the
	// journal iterators under the live mixer tree; everything delivered from that position must be the union of what the
	// partitions hold behind page 1, each in stored order, time-ordered when every partition is. (Last step of the case: the
	// held cursor keeps its partitions acquired until the provider drops it.)
	if c.N >= 2 && c.N < limit && total >= 4 {
		k := 1 + (total*5+c.N)%(total-3)
		// a waiting query over a changed implementation may spin (a partition the tree lost has unread data: WaitNewData
		// returns at once, Get answers EOF, and so on): every waiting query gets a deadline, and a missed deadline is a failure
		hctx, hcancel := context.WithTimeout(ctx, 40*time.Second)
		defer hcancel()
		t0h := time.Now()
		defer func() {
			if hctx.Err() != nil && time.Since(t0h) >= 40*time.Second {
				res.SpecFail(vh.SpecFailure{Section: "system", Kind: "hang", Input: c, Impl: "no answer within 40 s", Spec: "an answer",
					What: fmt.Sprintf("a waiting query (WaitTimeout 1) over %d partitions did not come back", c.N)})
			}
		}()
		r1, err := srv.Querier.Query(hctx, &api.QueryRequest{Query: q, Limit: k, WaitTimeout: 1})
		if (err == nil || err == io.EOF) && r1 != nil && len(r1.Events) == k {
			nq := r1.NextQueryRequest
			nq.Limit = (total - k) / 2
			if nq.Limit < 1 {
				nq.Limit = 1
			}
			r2, err2 := srv.Querier.Query(hctx, &nq)
			if (err2 == nil || err2 == io.EOF) && r2 != nil && len(r2.Events) == nq.Limit {
				rq := r1.NextQueryRequest // ReqId of the held cursor, position after page 1
				rq.Limit = 10000
				r3, err3 := srv.Querier.Query(hctx, &rq)
				in := map[string]interface{}{"case": c, "page1": k, "page2": nq.Limit}
				if !(err3 == nil || err3 == io.EOF) || r3 == nil {
					res.SpecFail(vh.SpecFailure{Section: "system", Kind: "query-failed", Input: in, Impl: fmt.Sprint(err3), Spec: "the events behind page 1",
						What: "asking a held merged cursor again for a page it has served (same ReqId, older position) failed"})
				} else {
					var got []ev
					for _, e := range r3.Events {
						got = append(got, sysEv(e.Timestamp, e.Message, e.Tags, lineToPart))
					}
					cnt := map[int]int{}
					for _, e := range r1.Events {
						cnt[sysEv(e.Timestamp, e.Message, e.Tags, lineToPart).Tags]++
					}
					alone := map[int][]ev{}
					for i := 0; i < c.N; i++ {
						x := cnt[i]
						if x > len(written[i]) {
							x = len(written[i])
						}
						alone[i] = append([]ev{}, written[i][x:]...)
					}
					if kind, w := checkProperty(got, alone, false); kind != "" {
						res.SpecFail(vh.SpecFailure{Section: "system", Kind: kind, Input: in, Impl: evsString(got), Spec: "union of what the partitions hold behind page 1",
							What: fmt.Sprintf("held merged cursor over %d partitions, pages of %d and %d events, then the second page requested again with its older position: %s", c.N, k, nq.Limit, w)})
					}
					res.Dist(sec, "held-cursor-older-position")
				}
			}
		}
	}
	return
}

func modelLimit() int {
	outs, err := vh.Batch(args.Driver, []string{"limit"})
	if err != nil || len(outs) != 1 {
		res.Fatal(args.Out, "driver: limit: %v", err)
	}
	n, err := strconv.Atoi(outs[0])
	if err != nil {
		res.Fatal(args.Out, "driver: limit: %q", outs[0])
	}
	return n
}

func sectionSystem(rng *vh.Rng, corpus []systemCase) {
	sec := res.Section("system", "spec-search",
		"in-process server; n partitions in one tag group, n = 1..20, 22, 24, 27, 28, 30, 31, 34, 36, 40, 44, 47..51, 60 (quick) / every n <= 60 (thorough), content shapes: sorted with ties across partitions, all timestamps equal, globally unique, unsorted, some/all partitions empty, one big partition; the merged read (forward: backend.Querier; backward: a cursor walked backward from the tail) must be the union of the partitions read alone (multiset), keep every partition's order, be time-ordered when every partition is, report every event under the tag line of the partition it was written to; n > limit must fail; a page followed by a query from its position with a negative offset (direction switches in mid-stream through the API) must deliver no event twice, keep partition order and time order; GetJournals' answer compared with the model; nothing may stay acquired; non-trivial = at least 2 partitions and 2 events")
	limit := modelLimit()
	var cases []systemCase
	cases = append(cases, corpus...)
	// quick: every n up to 20 and a spread above (which counts an indexing mistake in newCursor's reduction hits depends on the
	// sizes of the later passes), the limit's neighbourhood; thorough: every n <= 60
	perOf := func(n int) int {
		switch {
		case args.Thorough:
			return 3 // the journal library keeps two files per written partition open even after the server is stopped: the
			// number of partitions one harness process may create is bounded by RLIMIT_NOFILE (about 5 500 here)
		case n <= 8:
			return 6
		case n <= 20:
			return 3
		case n < 49:
			return 2
		}
		return 3
	}
	var ns []int
	if args.Thorough {
		for i := 1; i <= 60; i++ {
			ns = append(ns, i)
		}
	} else {
		for i := 1; i <= 20; i++ {
			ns = append(ns, i)
		}
		ns = append(ns, 22, 24, 27, 28, 30, 31, 34, 36, 40, 44, 47, 48, 49, 50, 51, 60)
	}
	// boundary values derived from the limit the code has now
	for _, d := range []int{-1, 0, 1} {
		if n := limit + d; n >= 1 && n <= 80 {
			found := false
			for _, x := range ns {
				found = found || x == n
			}
			if !found {
				ns = append(ns, n)
			}
		}
	}
	for _, n := range ns {
		for s := 0; s < perOf(n); s++ {
			cases = append(cases, genSystemCase(rng, n, sysShapes[(s*3+n)%len(sysShapes)]))
		}
	}
	workers := 8
	var mu sync.Mutex
	var ps []pending
	var wg sync.WaitGroup
	ch := make(chan systemCase)
	for w := 0; w < workers; w++ {
		wg.Add(1)
		go func() {
			defer wg.Done()
			// a server keeps the files of every partition it has touched open: a fresh one every few hundred partitions
			var srv *lrsrv.Srv
			var dir string
			made := 0
			stop := func() {
				if srv != nil {
					srv.Stop()
					os.RemoveAll(dir)
					srv = nil
				}
			}
			defer stop()
			for c := range ch {
				if srv == nil || made+c.N > 250 {
					stop()
					dir = lrsrv.NewDir()
					var err error
					srv, err = lrsrv.Start(dir, lrsrv.Opts{})
					if err != nil {
						// the RPC listener could not be set up (port race on a shared machine): go on without the RPC read
						os.RemoveAll(dir)
						dir = lrsrv.NewDir()
						srv, err = lrsrv.Start(dir, lrsrv.Opts{NoRPC: true})
					}
					if err != nil {
						res.Note("system: %v", err)
						srv = nil
						os.RemoveAll(dir)
						continue
					}
					made = 0
				}
				made += c.N
				var p []pending
				if pn := vh.Recover(func() { p = runSystemCase(srv, c, sec, limit) }); pn != "" {
					res.SpecFail(vh.SpecFailure{Section: "system", Kind: "panic", Input: c, Impl: pn, Spec: "no panic", What: "a multi-partition read panicked"})
				}
				mu.Lock()
				ps = append(ps, p...)
				mu.Unlock()
			}
		}()
	}
	for i, c := range cases {
		if i < 2 {
			res.Sample(map[string]interface{}{"section": "system", "case": c})
		}
		ch <- c
	}
	close(ch)
	wg.Wait()
	compare(ps)
	res.Done(sec)
}

// ---------------------------------------------------------------------------------------------

type corpusDoc struct {
	Section string          `json:"section"`
	Input   json.RawMessage `json:"input"`
}

var queryCorpus []queryCase
var heldCorpus []heldCase

func loadCorpus() (mc []mixerCase, cc []cursorCase, sc []systemCase) {
	for _, f := range vh.CorpusFiles(args.Corpus) {
		var d corpusDoc
		if vh.ReadJSON(f, &d) != nil {
			continue
		}
		addDoc(d, &mc, &cc, &sc)
	}
	return
}

func addDoc(d corpusDoc, mc *[]mixerCase, cc *[]cursorCase, sc *[]systemCase) {
	switch d.Section {
	case "held":
		var c heldCase
		if json.Unmarshal(d.Input, &c) == nil && len(c.Parts) > 0 && c.Page1 > 0 {
			heldCorpus = append(heldCorpus, c)
		}
	case "query":
		var c queryCase
		if json.Unmarshal(d.Input, &c) == nil && len(c.Leaves) > 0 && len(c.Idx) == len(c.Leaves) {
			queryCorpus = append(queryCorpus, c)
		}
	case "mixer":
		var c mixerCase
		if json.Unmarshal(d.Input, &c) == nil && c.Tree != nil {
			*mc = append(*mc, c)
		}
	case "cursor":
		var w struct {
			Case cursorCase `json:"case"`
		}
		var c cursorCase
		if json.Unmarshal(d.Input, &w) == nil && len(w.Case.Ops) > 0 {
			*cc = append(*cc, w.Case)
		} else if json.Unmarshal(d.Input, &c) == nil && len(c.Ops) > 0 {
			*cc = append(*cc, c)
		}
	case "system":
		var c systemCase
		var w struct {
			Case systemCase `json:"case"`
		}
		if json.Unmarshal(d.Input, &w) == nil && w.Case.N > 0 {
			*sc = append(*sc, w.Case)
		} else if json.Unmarshal(d.Input, &c) == nil && c.N > 0 {
			*sc = append(*sc, c)
		}
	}
}

func replay(path string) {
	var d corpusDoc
	if err := vh.ReadJSON(path, &d); err != nil {
		res.Fatal(args.Out, "replay: %v", err)
	}
	var mc []mixerCase
	var cc []cursorCase
	var sc []systemCase
	queryCorpus, heldCorpus = nil, nil
	addDoc(d, &mc, &cc, &sc)
	switch {
	case len(heldCorpus) > 0:
		sec := res.Section("held", "replay", "replay of one recorded held-cursor scenario")
		dir := lrsrv.NewDir()
		defer os.RemoveAll(dir)
		srv, err := lrsrv.Start(dir, lrsrv.Opts{NoRPC: true})
		if err != nil {
			res.Fatal(args.Out, "replay: %v", err)
		}
		runHeldCase(srv, heldCorpus[0], sec)
		srv.Stop()
	case len(queryCorpus) > 0:
		sec := res.Section("query", "replay", "replay of one recorded query over failing sources")
		if qp, ok := runQueryCase(queryCorpus[0], sec); ok {
			outs, _ := vh.Batch(args.Driver, []string{qp.c.line()})
			fmt.Printf("request: %s\nimpl:    %s\nhealthy: %s\nmodel:   %s\n", qp.c.line(), qp.impl, qp.heal, strings.Join(outs, ""))
			if len(outs) == 1 {
				judgeQuery(qp, outs[0])
			}
		}
	case len(mc) > 0:
		sec := res.Section("mixer", "replay", "replay of one recorded (tree, script)")
		p := runMixerCase(mc[0], sec)
		outs, _ := vh.Batch(args.Driver, []string{p.line})
		fmt.Printf("request: %s\nimpl:    %s\nmodel:   %s\n", p.line, p.impl, strings.Join(outs, ""))
		compare([]pending{p})
	case len(cc) > 0:
		sec := res.Section("cursor", "replay", "replay of one recorded (sources, script); the map order is whatever Go picks this time")
		for i := 0; i < 20; i++ {
			if p, ok := runCursorCase(cc[0], sec); ok {
				outs, _ := vh.Batch(args.Driver, []string{p.line})
				if i == 0 {
					fmt.Printf("request: %s\nimpl:    %s\nmodel:   %s\n", p.line, p.impl, stripSuffixes(strings.Join(outs, "")))
				}
				if len(outs) == 1 && stripSuffixes(outs[0]) != p.impl {
					res.Mismatch(vh.Mismatch{Section: p.sec, Function: p.function, Input: p.input, Impl: p.impl, Model: stripSuffixes(outs[0])})
				}
			}
		}
	case len(sc) > 0:
		sec := res.Section("system", "replay", "replay of one recorded partition layout")
		dir := lrsrv.NewDir()
		defer os.RemoveAll(dir)
		srv, err := lrsrv.Start(dir, lrsrv.Opts{NoRPC: true})
		if err != nil {
			res.Fatal(args.Out, "replay: %v", err)
		}
		ps := runSystemCase(srv, sc[0], sec, modelLimit())
		srv.Stop()
		compare(ps)
	default:
		res.Note("replay: %q holds no input of a C04 section (mixer|cursor|system)", path)
	}
	for _, f := range res.SpecFailures {
		fmt.Printf("SPEC-FAILURE %s: %s\n  impl: %s\n  spec: %s\n", f.Kind, f.What, f.Impl, f.Spec)
	}
	for _, m := range res.Mismatches {
		fmt.Printf("MISMATCH %s\n  impl:  %s\n  model: %s\n", m.Function, m.Impl, m.Model)
	}
	res.Write(args.Out)
}

func main() {
	var rl syscall.Rlimit
	if syscall.Getrlimit(syscall.RLIMIT_NOFILE, &rl) == nil && rl.Cur < rl.Max {
		rl.Cur = rl.Max
		syscall.Setrlimit(syscall.RLIMIT_NOFILE, &rl)
	}
	args = vh.ParseArgs()
	res = vh.NewResult("C04", args)
	if args.Replay != "" {
		replay(args.Replay)
		return
	}
	rng := vh.NewRng(args.Seed)
	mc, cc, sc := loadCorpus()
	sectionMixer(rng.Fork("mixer"), mc)
	sectionCursor(rng.Fork("cursor"), cc)
	sectionQuery(rng.Fork("query"), queryCorpus)
	sectionHeld(rng.Fork("held"), heldCorpus)
	sectionSystem(rng.Fork("system"), sc)
	res.Write(args.Out)
}
