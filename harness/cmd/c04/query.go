// section query: the CALLERS of the merged cursor over sources that fail.
//
// The real backend.Querier.Query (Offset with the errors it drops, the read loop, Release) runs over the real cursor.Provider and
// the real newCursor, on a fake ItFactory whose journal iterators are in-memory lists with records that cannot be read
// (for good, or once). Compared with
//   - MODEL: the Lean error model's `queryE` (driver command `qry`): page or failure, exactly;
//   - SPEC (records unreadable for good): the query fails, or its page is exactly the page the same query gives when every
//     record can be read — a failing source never leads to a silently incomplete page;
//   - SPEC (records unreadable once): the same demand; a failure of it falls into finding F-C04-901 (crsr.Offset drops the error
//     of the Get it positions with) when — and only when — the model shows the same page, the offset is not 0 and a record
//     fails once.
package main

import (
	"context"
	"fmt"
	"io"
	"reflect"
	"sort"
	"strings"

	"github.com/logrange/logrange/api"
	"github.com/logrange/logrange/pkg/backend"
	"github.com/logrange/logrange/pkg/cursor"
	"github.com/logrange/logrange/pkg/lql"
	"github.com/logrange/logrange/pkg/model"
	"github.com/logrange/logrange/pkg/model/tag"
	"github.com/logrange/range/pkg/records"
	"github.com/logrange/range/pkg/records/chunk"
	"github.com/logrange/range/pkg/records/journal"
	"verifharness/internal/vh"
)

type queryCase struct {
	Leaves []leafSpec `json:"leaves"` // tags 1..k ascending (tag lines t=1 < t=2 < …: the order newCursor sorts them into)
	Idx    []int      `json:"idx"`    // where each journal iterator stands (the request's Pos)
	Offset int        `json:"offset"`
	Limit  int        `json:"limit"`
}

// qJIt: a journal iterator over an in-memory list (growIt) with a journal position; CurrentPos is specific to the journal,
// as a real journal position is (chunk ids are unique over all journals)
type qJIt struct {
	*growIt
	tags int
}

func (it *qJIt) Close() error     { return nil }
func (it *qJIt) Pos() journal.Pos { return journal.Pos{CId: chunk.Id(it.tags), Idx: uint32(it.idx)} }
func (it *qJIt) SetPos(p journal.Pos) {
	i := int(p.Idx)
	if i > len(it.les) {
		i = len(it.les)
	}
	it.idx = i
}
func (it *qJIt) CurrentPos() records.IteratorPos { return [2]int{it.tags, it.idx} }

type qItf struct {
	jrnls map[tag.Line]*fakeJrnl
	heal  bool // every record can be read
}

func (f *qItf) GetJournals(ctx context.Context, tagsCond *lql.Source, maxLimit int) (map[tag.Line]journal.Journal, error) {
	r := make(map[tag.Line]journal.Journal, len(f.jrnls))
	for k, v := range f.jrnls {
		r[k] = v
	}
	return r, nil
}
func (f *qItf) GetJournal(ctx context.Context, src string) (tag.Set, journal.Journal, error) {
	panic("not used")
}
func (f *qItf) Itearator(j journal.Journal, tmRange *model.TimeRange) journal.Iterator {
	fj := j.(*fakeJrnl)
	g := &growIt{les: fj.leaf.logEvents(), bad: map[int]bool{}, once: fj.leaf.Once}
	if !f.heal {
		for _, b := range fj.leaf.Bad {
			g.bad[b] = true
		}
	}
	return &qJIt{growIt: g, tags: fj.leaf.Tags}
}
func (f *qItf) Release(jn string) {}

// runQuery: the real Query; "fail" or "page <events>"
func runQuery(c queryCase, heal bool) string {
	f := &qItf{jrnls: map[tag.Line]*fakeJrnl{}, heal: heal}
	var pos []string
	for i, l := range c.Leaves {
		name := fmt.Sprintf("j%d", l.Tags)
		f.jrnls[tagLine(l.Tags)] = &fakeJrnl{name: name, leaf: l}
		pos = append(pos, name+"="+journal.Pos{CId: chunk.Id(l.Tags), Idx: uint32(c.Idx[i])}.String())
	}
	p := cursor.NewProvider()
	reflect.ValueOf(p).Elem().FieldByName("Itf").Set(reflect.ValueOf(cursor.ItFactory(f)))
	q := backend.NewQuerier()
	q.CurProvider = p
	r, err := q.Query(ctx, &api.QueryRequest{Query: "select from a=b", Pos: strings.Join(pos, ":"), Offset: c.Offset, Limit: c.Limit})
	if err != nil && err != io.EOF {
		if r != nil {
			return "page-next-to-error"
		}
		return "fail"
	}
	if r == nil {
		return "nil-result"
	}
	var es []ev
	for _, e := range r.Events {
		m := 0
		fmt.Sscanf(e.Message, "%d", &m)
		es = append(es, ev{e.Timestamp, m, parseTagLine(tag.Line(e.Tags))})
	}
	return "page " + evsString(es)
}

func (c queryCase) line() string {
	s := fmt.Sprintf("qry %d %d %d", c.Offset, c.Limit, len(c.Leaves))
	for i, l := range c.Leaves {
		t := treeSpec{Leaf: &l}
		s += fmt.Sprintf(" %d %s", c.Idx[i], t.line())
	}
	return s
}

func (c queryCase) hasBad() (bad, once bool) {
	for _, l := range c.Leaves {
		if len(l.Bad) > 0 {
			bad = true
			if l.Once {
				once = true
			}
		}
	}
	return
}

type queryPending struct {
	c          queryCase
	impl, heal string
}

func runQueryCase(c queryCase, sec *vh.Section) (qp queryPending, ok bool) {
	if pn := vh.Recover(func() {
		qp = queryPending{c: c, impl: runQuery(c, false), heal: runQuery(c, true)}
		ok = true
	}); pn != "" {
		res.SpecFail(vh.SpecFailure{Section: "query", Kind: "panic", Input: c, Impl: pn, Spec: "no panic", What: "backend.Querier.Query over failing sources panicked"})
		return qp, false
	}
	bad, _ := c.hasBad()
	key := ""
	if bad && len(c.Leaves) >= 2 {
		key = fmt.Sprint(c)
	}
	res.Eval(sec, key)
	return
}

func genQueryCase(rng *vh.Rng) queryCase {
	k := rng.Range(2, 4)
	if rng.Chance(1, 12) {
		k = 1
	}
	shape := []string{"sorted-ties", "unique-interleaved", "all-equal", "unsorted"}[rng.Intn(4)]
	ls := genLeaves(rng, k, 5, shape)
	sort.Slice(ls, func(a, b int) bool { return ls[a].Tags < ls[b].Tags })
	c := queryCase{Leaves: ls}
	once := rng.Chance(1, 3)
	for i := range c.Leaves {
		c.Leaves[i].Tags = i + 1
		n := len(c.Leaves[i].Recs)
		switch rng.Intn(4) {
		case 0:
			c.Idx = append(c.Idx, 0)
		case 1:
			c.Idx = append(c.Idx, n)
		default:
			c.Idx = append(c.Idx, rng.Range(0, n))
		}
		if n > 0 && rng.Chance(1, 2) {
			c.Leaves[i].Bad = []int{rng.Intn(n)}
			if b2 := rng.Intn(n); rng.Chance(1, 4) && b2 != c.Leaves[i].Bad[0] {
				c.Leaves[i].Bad = append(c.Leaves[i].Bad, b2)
			}
			c.Leaves[i].Once = once
		}
	}
	c.Offset = rng.Range(-4, 4)
	c.Limit = rng.Range(1, 8)
	if rng.Chance(1, 4) {
		c.Limit = 100
	}
	return c
}

func judgeQuery(qp queryPending, modelOut string) {
	c := qp.c
	if qp.impl != modelOut {
		res.Mismatch(vh.Mismatch{Section: "query", Function: "backend.Querier.Query (crsr.Offset + read loop) over failing sources vs It.queryE", Input: c, Impl: qp.impl, Model: modelOut})
	}
	bad, once := c.hasBad()
	if !bad {
		if qp.impl != qp.heal {
			res.SpecFail(vh.SpecFailure{Section: "query", Kind: "nondeterministic-query", Input: c, Impl: qp.impl, Spec: qp.heal, What: "the same query over the same healthy sources gave two different answers"})
		}
		return
	}
	if qp.impl == "fail" || qp.impl == qp.heal {
		return
	}
	f := vh.SpecFailure{Section: "query", Kind: "silently-incomplete-page", Input: c, Impl: qp.impl, Spec: "fail, or " + qp.heal, Model: modelOut, ImplEqModel: qp.impl == modelOut,
		What: fmt.Sprintf("a source failed with a non-EOF error while the query ran (offset %d, limit %d over %d partitions), yet the query answered a page without an error, and it is not the page the same query gives when every record can be read", c.Offset, c.Limit, len(c.Leaves))}
	if once && c.Offset != 0 && qp.impl == modelOut && strings.HasPrefix(qp.impl, "page") {
		// the class of F-C04-901: the page is the complete merge from SOME position (no partition has a hole, nothing is cut
		// except by the limit) — the cursor was positioned elsewhere than asked. A hole or a foreign event is not that finding.
		if completeFromSomePosition(c, qp.impl) {
			f.Kind = "offset-error-dropped"
			f.Finding = "F-C04-901"
		}
	}
	res.SpecFail(f)
}

// completeFromSomePosition: every partition's events in the page are a run of consecutive stored records, in stored order, and —
// unless the limit cut the page — the run goes to the partition's end
func completeFromSomePosition(c queryCase, impl string) bool {
	body := strings.TrimPrefix(impl, "page ")
	var page []ev
	if body != "-" {
		for _, t := range strings.Split(body, ",") {
			var e ev
			if n, _ := fmt.Sscanf(t, "%d:%d:%d", &e.Ts, &e.Msg, &e.Tags); n != 3 {
				return false
			}
			page = append(page, e)
		}
	}
	for _, l := range c.Leaves {
		var run []ev
		for _, e := range page {
			if e.Tags == l.Tags {
				run = append(run, e)
			}
		}
		if len(run) == 0 {
			continue
		}
		all := l.events(false)
		start := -1
		for i, e := range all {
			if e == run[0] {
				start = i
				break
			}
		}
		if start < 0 || start+len(run) > len(all) {
			return false
		}
		for i, e := range run {
			if all[start+i] != e {
				return false
			}
		}
		if len(page) < c.Limit && start+len(run) != len(all) {
			return false
		}
	}
	for _, e := range page {
		known := false
		for _, l := range c.Leaves {
			if l.Tags == e.Tags {
				known = true
			}
		}
		if !known {
			return false
		}
	}
	return true
}

func sectionQuery(rng *vh.Rng, corpus []queryCase) {
	sec := res.Section("query", "unit-correspondence",
		"the real backend.Querier.Query over the real cursor.Provider/newCursor on a fake ItFactory: 1..4 in-memory journals standing at arbitrary positions, records that cannot be read (for good / once), offset in -4..4, limit 1..8 or 100; answer (page or failure) vs the Lean error model's queryE exactly; SPEC: with a failing source the query fails or answers exactly the page of the all-readable run; exhaustive: two journals of <= 2 records, every position pair, every single bad record, offsets -2..2, limits 1 and 10, sticky and once; non-trivial = a bad record and >= 2 journals")
	var qps []queryPending
	add := func(c queryCase) {
		if qp, ok := runQueryCase(c, sec); ok {
			qps = append(qps, qp)
			b, o := c.hasBad()
			res.Dist(sec, fmt.Sprintf("bad=%v once=%v", b, o))
			res.Dist(sec, fmt.Sprintf("offset-sign=%d", sign(c.Offset)))
		}
	}
	for _, c := range corpus {
		add(c)
	}
	// exhaustive small domain
	recs := [][][2]int64{{}, {{1, 0}}, {{1, 0}, {2, 1}}, {{2, 0}, {2, 1}}}
	for _, ra := range recs {
		for _, rb := range recs {
			for ia := 0; ia <= len(ra); ia++ {
				for ib := 0; ib <= len(rb); ib++ {
					for badSrc := 0; badSrc < 2; badSrc++ {
						n := len(ra)
						if badSrc == 1 {
							n = len(rb)
						}
						for b := 0; b < n; b++ {
							for _, once := range []bool{false, true} {
								for off := -2; off <= 2; off++ {
									for _, lim := range []int{1, 10} {
										la := leafSpec{Tags: 1, Recs: ra}
										lb := leafSpec{Tags: 2, Recs: rb}
										if badSrc == 0 {
											la.Bad, la.Once = []int{b}, once
										} else {
											lb.Bad, lb.Once = []int{b}, once
										}
										add(queryCase{Leaves: []leafSpec{la, lb}, Idx: []int{ia, ib}, Offset: off, Limit: lim})
									}
								}
							}
						}
					}
				}
			}
		}
	}
	n := 1500
	if args.Thorough {
		n = 20000
	}
	for i := 0; i < n; i++ {
		add(genQueryCase(rng))
	}
	lines := make([]string, len(qps))
	for i, qp := range qps {
		lines[i] = qp.c.line()
	}
	outs, err := vh.Batch(args.Driver, lines)
	if err != nil {
		res.Fatal(args.Out, "driver: %v", err)
	}
	for i, qp := range qps {
		judgeQuery(qp, outs[i])
	}
	res.Done(sec)
}

func sign(x int) int {
	if x < 0 {
		return -1
	}
	if x > 0 {
		return 1
	}
	return 0
}
