// C11 harness — readers waiting at the end of a stream are woken by new data.
//
// Sections
//
//	f11         corpus witness of finding F11 (a waiting query over no partition never returned; fixed by 2ae8d4c — it must
//	            answer empty at its timeout now), replayed in a child process because a spinning goroutine could not be
//	            stopped; with its controls
//	contract    unit: the library's WaitForNewData contract on a real journal against the Lean listener LTS
//	            (returns at once iff pos < end; a flush wakes a subscribed waiter; cancel ends it)
//	parked      reader in Querier.Query(WaitTimeout=5) at the end of 1..3 partitions, parked at the hook between its
//	            end-of-data check and the subscription while the writer appends and the chunk flushes, in every order of
//	            {append, flush, subscribe}; the event must come back well before the timeout — verdict vs the Lean LTS
//	nomatch     writes the query does not select (other partition; rejected by WHERE): the reader keeps waiting and returns
//	            empty at its (short) timeout — vs the Lean queryLoop
//	backtoback  the same cursor waits, gets an event, waits again … through backend.Querier and through the RPC client
//	select      api.Select (stream mode) through a Querier wrapper that lets events land between two waits
//	pipe        a pipe worker parked before workerDone while a batch arrives: copied promptly without a later write
package main

import (
	"bufio"
	"context"
	"encoding/json"
	"fmt"
	"io"
	"os"
	"os/exec"
	"runtime"
	"strconv"
	"strings"
	"sync"
	"time"

	"github.com/logrange/logrange/api"
	"github.com/logrange/logrange/api/rpc"
	"github.com/logrange/logrange/pkg/utils/verifhook"
	"github.com/logrange/range/pkg/records/journal"
	"github.com/logrange/range/pkg/transport"
	"verifharness/internal/lrsrv"
	"verifharness/internal/vh"
)

var (
	args vh.Args
	res  *vh.Result
)

const margin = 1500 * time.Millisecond

func goid() uint64 {
	var b [64]byte
	n := runtime.Stack(b[:], false)
	f := strings.Fields(string(b[:n]))
	if len(f) < 2 {
		return 0
	}
	id, _ := strconv.ParseUint(f[1], 10, 64)
	return id
}

// writers: the RPC server serves the requests of one connection one after the other (range/pkg/rpc readLoop), so a
// waiting Query holds back every later request on its connection; the writer therefore has a connection of its own.
var writers sync.Map

func writerOf(srv *lrsrv.Srv) api.Client {
	if c, ok := writers.Load(srv); ok {
		return c.(api.Client)
	}
	c, err := rpc.NewClient(transport.Config{ListenAddr: srv.Addr})
	if err != nil {
		return srv.Client
	}
	if old, loaded := writers.LoadOrStore(srv, api.Client(c)); loaded {
		c.Close()
		return old.(api.Client)
	}
	return c
}

func write(srv *lrsrv.Srv, tags string, msgs ...string) error {
	return writeTs(srv, tags, 0, msgs...)
}

// writeTs writes with the given timestamp (0 = now)
func writeTs(srv *lrsrv.Srv, tags string, ts int64, msgs ...string) error {
	evs := make([]*api.LogEvent, len(msgs))
	for i, m := range msgs {
		t := ts
		if t == 0 {
			t = time.Now().UnixNano()
		}
		evs[i] = &api.LogEvent{Timestamp: t, Message: m}
	}
	var wr api.WriteResult
	if err := writerOf(srv).Write(context.Background(), tags, "", evs, &wr); err != nil {
		return err
	}
	return wr.Err
}

// waitConfirmed polls until the partition reports n readable records (a fixed sleep is not enough on a loaded
// machine: the flush goroutine can be late, and a record confirmed after a tail reader started is "new" for it).
func waitConfirmed(srv *lrsrv.Srv, tags string, n int) bool {
	deadline := time.Now().Add(6 * time.Second)
	for {
		if partCount(srv, tags) >= n {
			return true
		}
		if time.Now().After(deadline) {
			return false
		}
		time.Sleep(3 * time.Millisecond)
	}
}

// chunkCounts reads the confirmed record count of every chunk of the partition straight from the journal (what
// partition.Service.GetParitionInfo does, without its detour through the time index: polling that from the harness is not
// part of this property and would interleave TsIndexer.SyncChunks with every write of the scenario).
func chunkCounts(srv *lrsrv.Srv, tags string) (ids []uint64, counts []int, err error) {
	src, _, err := srv.TIndex.GetJournal(tags)
	if err != nil {
		return nil, nil, err
	}
	defer srv.TIndex.Release(src)
	jrnl, err := srv.Journals.GetOrCreate(context.Background(), src)
	if err != nil {
		return nil, nil, err
	}
	cks, err := jrnl.Chunks().Chunks(context.Background())
	if err != nil {
		return nil, nil, err
	}
	for _, c := range cks {
		ids = append(ids, uint64(c.Id()))
		counts = append(counts, int(c.Count()))
	}
	return ids, counts, nil
}

func partCount(srv *lrsrv.Srv, tags string) int {
	_, cs, err := chunkCounts(srv, tags)
	if err != nil {
		return 0
	}
	n := 0
	for _, c := range cs {
		n += c
	}
	return n
}

type qres struct {
	msgs []string
	next api.QueryRequest
	err  error
	took time.Duration
	end  time.Time
}

func query(srv *lrsrv.Srv, req api.QueryRequest, rpc bool) qres {
	t0 := time.Now()
	var r qres
	if rpc {
		var qr api.QueryResult
		err := srv.Client.Query(context.Background(), &req, &qr)
		if err == nil {
			err = qr.Err
		}
		r.err = err
		for _, e := range qr.Events {
			r.msgs = append(r.msgs, string(append([]byte{}, e.Message...)))
		}
		r.next = qr.NextQueryRequest
	} else {
		qr, err := srv.Querier.Query(context.Background(), &req)
		if err == io.EOF {
			err = nil
		}
		r.err = err
		if qr != nil {
			for _, e := range qr.Events {
				r.msgs = append(r.msgs, string(append([]byte{}, e.Message...)))
			}
			r.next = qr.NextQueryRequest
		}
	}
	r.end = time.Now()
	r.took = r.end.Sub(t0)
	return r
}

// ---------------------------------------------------------------------------------------------
// F11: child process

func f11child(mode string) {
	dir := lrsrv.NewDir()
	defer os.RemoveAll(dir)
	srv, err := lrsrv.Start(dir, lrsrv.Opts{})
	if err != nil {
		fmt.Println("error", err)
		return
	}
	write(srv, "present=yes", "e0") // some other partition exists
	waitConfirmed(srv, "present=yes", 1)
	fmt.Println("ready")
	var r qres
	switch mode {
	case "inproc":
		r = query(srv, api.QueryRequest{Query: "select from nosuch=x limit 10", WaitTimeout: 1, Limit: 10}, false)
	case "rpc":
		r = query(srv, api.QueryRequest{Query: "select from nosuch=x limit 10", WaitTimeout: 1, Limit: 10}, true)
	case "inproc-biglimit": // Limit beyond backend.QueryMaxLimit: clamped by the server, waits all the same
		r = query(srv, api.QueryRequest{Query: "select from nosuch=x limit 10", WaitTimeout: 1, Limit: 10001}, false)
	case "rpc-biglimit":
		r = query(srv, api.QueryRequest{Query: "select from nosuch=x limit 10", WaitTimeout: 1, Limit: 20000}, true)
	case "control-nowait":
		r = query(srv, api.QueryRequest{Query: "select from nosuch=x limit 10", WaitTimeout: 0, Limit: 10}, false)
	case "control-present":
		r = query(srv, api.QueryRequest{Query: "select from present=yes limit 10", Pos: "tail", WaitTimeout: 1, Limit: 10}, false)
	}
	fmt.Printf("returned %d %d err=%v\n", len(r.msgs), r.took.Milliseconds(), r.err)
	srv.Stop()
}

type f11Case struct {
	Mode string `json:"mode"`
}

// runF11 returns (returned?, output line)
func runF11(mode string, wait time.Duration) (bool, string) {
	cmd := exec.Command(os.Args[0], "-f11child", mode)
	cmd.Env = append(os.Environ(), "GOMAXPROCS=2", "GOMEMLIMIT=1500MiB")
	out, err := cmd.StdoutPipe()
	if err != nil {
		return false, err.Error()
	}
	if err := cmd.Start(); err != nil {
		return false, err.Error()
	}
	lines := make(chan string, 8)
	go func() {
		sc := bufio.NewScanner(out)
		for sc.Scan() {
			lines <- sc.Text()
		}
		close(lines)
	}()
	defer func() { cmd.Process.Kill(); cmd.Wait() }()
	ready := false
	var deadline <-chan time.Time = time.After(20 * time.Second)
	for {
		select {
		case l, ok := <-lines:
			if !ok {
				return false, "child ended without answer"
			}
			if l == "ready" {
				ready = true
				deadline = time.After(wait)
				continue
			}
			if strings.HasPrefix(l, "returned") {
				return true, l
			}
			if strings.HasPrefix(l, "error") {
				return false, l
			}
		case <-deadline:
			if !ready {
				return false, "child did not get ready"
			}
			return false, fmt.Sprintf("no answer within %v", wait)
		}
	}
}

func sectionF11(cases []f11Case) {
	sec := res.Section("f11", "corpus",
		"witness of F11 in a child process: SELECT FROM nosuch=x with WaitTimeout=1 through backend.Querier and through the RPC client must answer (empty) about one second later; observed for timeout+2.5 s, then the child is killed; controls: the same query without a wait timeout, and a waiting query over an existing partition; the Lean queryLoop over the empty cursor is asked for the same verdict; non-trivial = every case")
	ans, derr := vh.Batch(args.Driver, []string{"queryempty 1 10 200000", "queryempty 0 10 10", "queryloop 1 10 100 - T"})
	if derr != nil {
		res.Fatal(args.Out, "driver: %v", derr)
	}
	for _, c := range cases {
		returned, line := runF11(c.Mode, 3500*time.Millisecond)
		res.Eval(sec, c.Mode)
		res.Dist(sec, c.Mode)
		var model string
		switch c.Mode {
		case "inproc", "rpc", "inproc-biglimit", "rpc-biglimit":
			model = ans[0]
		case "control-nowait":
			model = ans[1]
		default:
			model = ans[2]
		}
		modelAnswers := strings.HasPrefix(model, "ok")
		if returned != modelAnswers {
			res.Mismatch(vh.Mismatch{Section: "f11", Function: "Query loop over " + c.Mode, Input: c, Impl: line, Model: model})
		}
		if !returned {
			finding := ""
			if c.Mode == "inproc" || c.Mode == "rpc" || c.Mode == "inproc-biglimit" || c.Mode == "rpc-biglimit" {
				// class: WaitTimeout > 0 and the FROM condition matches no partition. Fixed by 2ae8d4c: a recurrence is still
				// tagged, so that the check reports "the defect is back"
				finding = "F11"
			}
			res.SpecFail(vh.SpecFailure{Section: "f11", Kind: "hang", Input: c, Impl: line, Spec: "an empty answer after about WaitTimeout seconds",
				Model: model, ImplEqModel: returned == modelAnswers, Finding: finding,
				What: "a waiting query over no partitions never returns (the Query loop spins: emptyCursor.WaitNewData returns at once)"})
		} else if c.Mode == "inproc" || c.Mode == "rpc" || c.Mode == "inproc-biglimit" || c.Mode == "rpc-biglimit" {
			// it answers: it must not answer before the timeout
			var n, ms int
			fmt.Sscanf(line, "returned %d %d", &n, &ms)
			if n != 0 || ms < 800 || ms > 1000+int(margin/time.Millisecond) {
				res.SpecFail(vh.SpecFailure{Section: "f11", Kind: "wrong-empty-answer", Input: c, Impl: line, Spec: "empty, about WaitTimeout (1 s) after the request",
					What: "a waiting query over no partitions must answer empty at its timeout — not before, not much later"})
			}
		}
	}
	res.Done(sec)
}

// ---------------------------------------------------------------------------------------------
// parked

type parkedCase struct {
	Parts  int    `json:"parts"`           // partitions under the reader
	Target int    `json:"target"`          // which one is written
	Order  string `json:"order"`           // permutation of A (append), F (flush confirmed), S (reader released to subscribe); "S" alone = nothing written
	N      int    `json:"n"`               // events written
	Range  bool   `json:"range,omitempty"` // the query has a RANGE clause; the stored events are older than its start
	Limit  int    `json:"limit,omitempty"` // the request's Limit (0 = 10); values beyond backend.QueryMaxLimit are clamped by the server and must wait all the same
}

// limits at and around the server's page cap (backend.QueryMaxLimit = 10000): a waiting request must wait for every one of them
var pageLimits = []int{10, 10000, 10001, 20000}

var (
	gateMu sync.Mutex
	gates  = map[uint64]*gate{}
)

type gate struct {
	arrived chan struct{}
	release chan struct{}
}

func installWaitHook() {
	verifhook.Set("cursor.wait.beforeSubscribe", func() {
		gateMu.Lock()
		g := gates[goid()]
		gateMu.Unlock()
		if g != nil {
			select {
			case <-g.arrived:
			default:
				close(g.arrived)
				<-g.release
			}
		}
	})
}

func runParked(c parkedCase, idx int, sec *vh.Section) {
	dir := lrsrv.NewDir()
	defer os.RemoveAll(dir)
	// a slow flush: "appended, not yet flushed" lasts long enough to release the reader in between
	flushMs := 2
	if strings.Index(c.Order, "S") < strings.Index(c.Order, "F") && strings.Index(c.Order, "A") < strings.Index(c.Order, "S") {
		flushMs = 400
	}
	srv, err := lrsrv.Start(dir, lrsrv.Opts{WriteFlushMs: flushMs})
	if err != nil {
		res.Note("parked: %v", err)
		return
	}
	defer srv.Stop()
	grp := fmt.Sprintf("g%d", idx)
	tags := func(i int) string { return fmt.Sprintf("grp=%s,part=p%d", grp, i) }
	stored := 3
	for i := 0; i < c.Parts; i++ {
		ms := []string{}
		for k := 0; k < stored; k++ {
			ms = append(ms, fmt.Sprintf("old%d-%d", i, k))
		}
		if c.Range {
			writeTs(srv, tags(i), 1000000, ms...)
		} else {
			write(srv, tags(i), ms...)
		}
	}
	for i := 0; i < c.Parts; i++ {
		waitConfirmed(srv, tags(i), stored)
	}
	pq := "select from grp=" + grp + " limit 10"
	if c.Range {
		pq = "select from grp=" + grp + " range '1000000000000' limit 10"
	}
	timeout := 5
	if c.Order == "S" {
		timeout = 1
	}
	limit := c.Limit
	if limit == 0 {
		limit = 10
	}
	g := &gate{arrived: make(chan struct{}), release: make(chan struct{})}
	done := make(chan qres, 1)
	ready := make(chan struct{})
	go func() {
		gateMu.Lock()
		gates[goid()] = g
		gateMu.Unlock()
		close(ready)
		r := query(srv, api.QueryRequest{Query: pq, Pos: "tail", WaitTimeout: timeout, Limit: limit}, false)
		gateMu.Lock()
		delete(gates, goid())
		gateMu.Unlock()
		done <- r
	}()
	<-ready
	select {
	case <-g.arrived: // end-of-data seen on every partition, parked before the waiter goroutines start
	case r := <-done:
		// the request came back without ever reaching the wait: a reader at the end of its partitions with a wait timeout must wait
		model, derr := vh.Batch(args.Driver, []string{fmt.Sprintf("queryreq backend %d %d 50 - T", timeout, limit)})
		if derr != nil {
			res.Fatal(args.Out, "driver: %v", derr)
		}
		res.Eval(sec, fmt.Sprint(c))
		res.SpecFail(vh.SpecFailure{Section: "parked", Kind: "returned-without-waiting", Input: c, Impl: fmt.Sprintf("%q after %v (err=%v), WaitNewData never called", r.msgs, r.took, r.err),
			Spec: fmt.Sprintf("the request (WaitTimeout %d, Limit %d) waits at the end of its partitions", timeout, limit), Model: model[0] + " (after its wait timed out)",
			What: "a reader at the end of its partitions with a wait timeout answered without waiting"})
		return
	case <-time.After(5 * time.Second):
		res.Note("parked: reader did not reach the hook")
		close(g.release)
		return
	}
	var want []string
	var readable time.Time // the moment the event is readable and the reader is free to see it
	released := time.Time{}
	toks := []string{}
	for i, o := range c.Order {
		switch o {
		case 'A':
			for k := 0; k < c.N; k++ {
				want = append(want, fmt.Sprintf("new%d-%d", c.Target, k))
			}
			if err := write(srv, tags(c.Target), want...); err != nil {
				res.Note("parked: write: %v", err)
			}
			toks = append(toks, fmt.Sprintf("A%d", c.N))
		case 'F':
			// wait until the flush has confirmed the records
			waitConfirmed(srv, tags(c.Target), stored+c.N)
			readable = time.Now()
			toks = append(toks, "F")
		case 'S':
			close(g.release)
			released = time.Now()
			toks = append(toks, "S")
			if i < len(c.Order)-1 {
				time.Sleep(60 * time.Millisecond) // let it subscribe and fall asleep
			}
		}
	}
	if released.After(readable) {
		readable = released
	}
	var r qres
	select {
	case r = <-done:
	case <-time.After(time.Duration(timeout)*time.Second + 4*time.Second):
		res.SpecFail(vh.SpecFailure{Section: "parked", Kind: "hang", Input: c, Impl: "no answer", Spec: "an answer", What: "a waiting query did not answer at all"})
		return
	}
	model, derr := vh.Batch(args.Driver, []string{fmt.Sprintf("sched %d %s", stored, strings.Join(toks, " "))})
	if derr != nil {
		res.Fatal(args.Out, "driver: %v", derr)
	}
	res.Eval(sec, fmt.Sprint(c))
	res.Dist(sec, fmt.Sprintf("order=%s", c.Order))
	res.Dist(sec, fmt.Sprintf("parts=%d", c.Parts))
	res.Dist(sec, fmt.Sprintf("limit=%d", limit))
	res.Dist(sec, fmt.Sprintf("range=%v", c.Range))
	lat := r.end.Sub(readable)
	implVerdict := "asleep"
	if len(r.msgs) > 0 {
		implVerdict = "woken"
	}
	if implVerdict != model[0] {
		res.Mismatch(vh.Mismatch{Section: "parked", Function: "listener LTS verdict for the schedule " + strings.Join(toks, " "), Input: c, Impl: fmt.Sprintf("%s (%q after %v)", implVerdict, r.msgs, r.took), Model: model[0]})
	}
	if len(want) > 0 {
		if r.err != nil || strings.Join(r.msgs, " ") != strings.Join(want, " ") || lat > margin {
			kind := "late-or-lost-wakeup"
			if len(r.msgs) > 0 && strings.Join(r.msgs, " ") != strings.Join(want, " ") {
				kind = "wrong-events"
			}
			res.SpecFail(vh.SpecFailure{Section: "parked", Kind: kind, Input: c, Impl: fmt.Sprintf("%q %v after the event was readable (err=%v)", r.msgs, lat, r.err),
				Spec: fmt.Sprintf("%q within %v", want, margin), Model: model[0], ImplEqModel: implVerdict == model[0],
				What: "a reader waiting at the end of its partitions did not return the next written event promptly"})
		}
	} else {
		if r.err != nil || len(r.msgs) != 0 || r.took < time.Duration(timeout)*time.Second-300*time.Millisecond || r.took > time.Duration(timeout)*time.Second+margin {
			res.SpecFail(vh.SpecFailure{Section: "parked", Kind: "wrong-empty-answer", Input: c, Impl: fmt.Sprintf("%q after %v (err=%v)", r.msgs, r.took, r.err),
				Spec: fmt.Sprintf("empty after %ds", timeout), What: "a waiting query with nothing written must return empty at its timeout, not before"})
		}
	}
}

func sectionParked(rng *vh.Rng, corpus []parkedCase) {
	sec := res.Section("parked", "system-correspondence",
		"reader = backend.Querier.Query(select from grp=…, Pos tail, WaitTimeout 5) over 1..3 partitions holding 3 events each; it is parked (by goroutine id) at the hook cursor.wait.beforeSubscribe, i.e. after end-of-data was seen on every partition and before the waiter goroutines start; the writer then appends 1..3 events to one of the partitions, the flush confirms them (2 ms, or 400 ms when the reader is released between append and flush) and the reader is released, in every order of {A, F, S}; S alone = nothing written, timeout 1 s. The event must be returned — exactly it — within 1.5 s of the later of (flush confirmed, reader released); the Lean listener LTS gives the verdict woken/asleep for the same token order. non-trivial = every case, distinct by (partitions, target, order, size)")
	installWaitHook()
	var cs []parkedCase
	cs = append(cs, corpus...)
	orders := []string{"AFS", "ASF", "SAF", "S"}
	reps := 3
	if args.Thorough {
		reps = 40
	}
	for rep := 0; rep < reps; rep++ {
		for _, o := range orders {
			for parts := 1; parts <= 3; parts++ {
				if o == "S" && (parts == 2 || rep > 1) {
					continue
				}
				cs = append(cs, parkedCase{Parts: parts, Target: rng.Intn(parts), Order: o, N: rng.Range(1, 3), Limit: pageLimits[(rep+parts+len(cs))%len(pageLimits)], Range: (rep+len(cs))%3 == 1})
			}
		}
	}
	var wg sync.WaitGroup
	sem := make(chan struct{}, 12)
	for i, c := range cs {
		wg.Add(1)
		sem <- struct{}{}
		go func(i int, c parkedCase) {
			defer wg.Done()
			defer func() { <-sem }()
			runParked(c, i, sec)
		}(i, c)
	}
	wg.Wait()
	verifhook.Set("cursor.wait.beforeSubscribe", nil)
	res.Done(sec)
}

// ---------------------------------------------------------------------------------------------
// nomatch

type nomatchCase struct {
	Kind  string `json:"kind"` // other-partition | where-rejected | where-accepted | where-rejected-then-accepted | range-rejected-then-accepted | big-limit-accepted | big-limit-nothing
	RPC   bool   `json:"rpc"`
	Limit int    `json:"limit,omitempty"` // the request's Limit (0 = 10; the big-limit kinds: 20000)
}

func runNomatch(c nomatchCase, idx int, sec *vh.Section) {
	dir := lrsrv.NewDir()
	defer os.RemoveAll(dir)
	srv, err := lrsrv.Start(dir, lrsrv.Opts{})
	if err != nil {
		res.Note("nomatch: %v", err)
		return
	}
	defer srv.Stop()
	// the RANGE kinds: everything stored is far older than the start of the query's time range, so the chunk selector of
	// the reader (used only with a RANGE clause) has classified the partition's last chunk as "wholly out of range" when
	// the reader reaches the end; the in-range event is then appended to that very chunk
	rangeClause := strings.HasPrefix(c.Kind, "rangeclause")
	if rangeClause {
		writeTs(srv, "grp=a,part=p0", 1000000, "old0", "old1 x")
	} else {
		write(srv, "grp=a,part=p0", "old0", "old1 x")
	}
	write(srv, "grp=b,part=p0", "other0")
	waitConfirmed(srv, "grp=a,part=p0", 2)
	waitConfirmed(srv, "grp=b,part=p0", 1)
	q := "select from grp=a limit 10"
	if c.Kind != "other-partition" {
		q = "select from grp=a where msg contains \"x\" limit 10"
	}
	if c.Kind == "range-rejected-then-accepted" {
		q = "select from grp=a where ts > 5000000000000000000 limit 10"
	}
	pos := "tail"
	if rangeClause {
		q = "select from grp=a range '1000000000000' limit 10"
		if c.Kind == "rangeclause-accepted-head" {
			pos = "head"
		}
	}
	done := make(chan qres, 1)
	limit := 10
	if c.Kind == "big-limit-accepted" || c.Kind == "big-limit-nothing" {
		limit = 20000 // beyond QueryMaxLimit (10000): the server clamps it; the may-sleep test must use the clamped value
	}
	if c.Limit > 0 {
		limit = c.Limit
	}
	go func() {
		done <- query(srv, api.QueryRequest{Query: q, Pos: pos, WaitTimeout: 1, Limit: limit}, c.RPC)
	}()
	time.Sleep(250 * time.Millisecond) // asleep by now
	var line string
	var want []string
	lo, hi := 800*time.Millisecond, time.Second+margin
	switch c.Kind {
	case "other-partition":
		write(srv, "grp=b,part=p0", "other1 x")
		line = fmt.Sprintf("queryloop 1 %d 50 - T", limit)
	case "where-rejected":
		// the reader is woken, re-reads, finds nothing it selects and waits again with a fresh timeout
		write(srv, "grp=a,part=p0", "new-without")
		line = fmt.Sprintf("queryloop 1 %d 50 - D:- T", limit)
		lo, hi = time.Second, 250*time.Millisecond+time.Second+margin
	case "where-rejected-then-accepted", "range-rejected-then-accepted":
		// woken by a write the query does not select, the reader waits again (fresh timeout); the matching event written
		// 300 ms later — well inside it — must be returned promptly
		if c.Kind == "range-rejected-then-accepted" {
			writeTs(srv, "grp=a,part=p0", 1000, "early-ts")
		} else {
			write(srv, "grp=a,part=p0", "new-without")
		}
		time.Sleep(300 * time.Millisecond)
		if c.Kind == "range-rejected-then-accepted" {
			writeTs(srv, "grp=a,part=p0", 6000000000000000000, "late-ts")
			want = []string{"late-ts"}
		} else {
			write(srv, "grp=a,part=p0", "later x")
			want = []string{"later x"}
		}
		line = fmt.Sprintf("queryloop 1 %d 50 - D:- D:7", limit)
		lo, hi = 0, 550*time.Millisecond+margin
	case "rangeclause-accepted", "rangeclause-accepted-head":
		// the event's timestamp (now) lies in the range: it must be returned promptly
		write(srv, "grp=a,part=p0", "in-range")
		want = []string{"in-range"}
		line = fmt.Sprintf("queryloop 1 %d 50 - D:7", limit)
		lo, hi = 0, 250*time.Millisecond+margin
	case "rangeclause-old-then-accepted":
		// first an event older than the range (woken, nothing selected, waits again), 300 ms later one inside it
		writeTs(srv, "grp=a,part=p0", 1500000, "still-old")
		time.Sleep(300 * time.Millisecond)
		write(srv, "grp=a,part=p0", "in-range")
		want = []string{"in-range"}
		line = fmt.Sprintf("queryloop 1 %d 50 - D:- D:7", limit)
		lo, hi = 0, 550*time.Millisecond+margin
	case "rangeclause-nothing":
		// only an event older than the range is written: the reader answers empty, not before a full timeout after the
		// wake-up (it waits again with a fresh timeout)
		writeTs(srv, "grp=a,part=p0", 1500000, "still-old")
		line = fmt.Sprintf("queryloop 1 %d 50 - D:- T", limit)
		lo, hi = time.Second, 250*time.Millisecond+time.Second+margin
	case "big-limit-accepted":
		write(srv, "grp=a,part=p0", "new-without", "new x")
		want = []string{"new x"}
		line = fmt.Sprintf("queryloop 1 %d 50 - D:7", limit)
		lo, hi = 200*time.Millisecond, 250*time.Millisecond+margin
	case "big-limit-nothing":
		line = fmt.Sprintf("queryloop 1 %d 50 - T", limit)
	case "where-accepted":
		write(srv, "grp=a,part=p0", "new-without", "new x")
		want = []string{"new x"}
		line = fmt.Sprintf("queryloop 1 %d 50 - D:7", limit)
		lo, hi = 0, 250*time.Millisecond+margin
	}
	var r qres
	select {
	case r = <-done:
	case <-time.After(8 * time.Second):
		res.SpecFail(vh.SpecFailure{Section: "nomatch", Kind: "hang", Input: c, Impl: "no answer", Spec: "an answer", What: "a waiting query did not answer at all"})
		return
	}
	// the model of the path that served the request (backend.Querier or rpc.ServerQuerier, shapes regenerated from the source)
	path := "backend"
	if c.RPC {
		path = "rpc"
	}
	// the whole request with the Limit the client sent: the model clamps it to the regenerated QueryMaxLimit and compares, in
	// the wait condition, with what the source of that path compares with
	line = strings.Replace(line, "queryloop", "queryreq "+path, 1)
	model, derr := vh.Batch(args.Driver, []string{line})
	if derr != nil {
		res.Fatal(args.Out, "driver: %v", derr)
	}
	res.Eval(sec, fmt.Sprint(c))
	res.Dist(sec, c.Kind)
	res.Dist(sec, fmt.Sprintf("limit=%d", limit))
	modelEmpty := model[0] == "ok -"
	if modelEmpty != (len(r.msgs) == 0) {
		res.Mismatch(vh.Mismatch{Section: "nomatch", Function: "queryLoop: " + line, Input: c, Impl: fmt.Sprintf("%q", r.msgs), Model: model[0]})
	}
	if r.err != nil || strings.Join(r.msgs, " ") != strings.Join(want, " ") || r.took < lo || r.took > hi {
		res.SpecFail(vh.SpecFailure{Section: "nomatch", Kind: "wrong-wait-answer", Input: c, Impl: fmt.Sprintf("%q after %v (err=%v)", r.msgs, r.took, r.err),
			Spec: fmt.Sprintf("%q between %v and %v", want, lo, hi), Model: model[0], ImplEqModel: modelEmpty == (len(r.msgs) == 0),
			What: "a waiting reader must return exactly the matching events, and empty only when nothing matching was written for the whole timeout"})
	}
}

func sectionNomatch() {
	sec := res.Section("nomatch", "spec-search",
		"a sleeping reader (WaitTimeout 1 s, in-process and over RPC) and a write it must not report: to a partition the FROM condition does not select (must stay asleep and answer empty at the timeout), to a selected partition but rejected by WHERE (woken, re-reads, waits again with a fresh timeout, answers empty), a batch of which WHERE accepts one event (exactly that one, promptly), and a rejected write followed 300 ms later by an accepted one (WHERE on the message; WHERE on the timestamp) — the second wait must still happen and return exactly the accepted event; compared with the Lean queryLoop over the corresponding script; non-trivial = every case")
	var wg sync.WaitGroup
	i := 0
	reps := 1
	if args.Thorough {
		reps = 12
	}
	for rep := 0; rep < reps; rep++ {
		for _, k := range []string{"other-partition", "where-rejected", "where-accepted", "where-rejected-then-accepted", "range-rejected-then-accepted", "big-limit-accepted", "big-limit-nothing",
			"rangeclause-accepted", "rangeclause-accepted-head", "rangeclause-old-then-accepted", "rangeclause-nothing"} {
			for _, rpc := range []bool{false, true} {
				wg.Add(1)
				go func(i int, c nomatchCase) { defer wg.Done(); runNomatch(c, i, sec) }(i, nomatchCase{Kind: k, RPC: rpc})
				i++
			}
		}
		wg.Wait()
		// the same at and just beyond the page cap (10000 behaves like 10; 10001 is the first clamped value), both paths
		for _, k := range []string{"other-partition", "where-accepted", "where-rejected-then-accepted"} {
			for _, lim := range []int{10000, 10001} {
				for _, rpc := range []bool{false, true} {
					wg.Add(1)
					go func(i int, c nomatchCase) { defer wg.Done(); runNomatch(c, i, sec) }(i, nomatchCase{Kind: k, RPC: rpc, Limit: lim})
					i++
				}
			}
		}
		if rep%3 == 2 {
			wg.Wait()
		}
	}
	wg.Wait()
	res.Done(sec)
}

// ---------------------------------------------------------------------------------------------
// back-to-back waits

type b2bCase struct {
	RPC    bool  `json:"rpc"`
	Parts  int   `json:"parts"`
	Rounds int   `json:"rounds"`
	Delays []int `json:"delays_ms"` // write this long after the reader's request started; negative = before the request
	Seed   int   `json:"seed"`
	Range  bool  `json:"range,omitempty"` // the query has a RANGE clause and everything stored before the rounds is older than its start
	Limit  int   `json:"limit,omitempty"` // the Limit of every round's request (0 = 10); the server's NextQueryRequest carries the clamped value, the client keeps asking with its own
}

func runB2B(c b2bCase, idx int, sec *vh.Section) {
	dir := lrsrv.NewDir()
	defer os.RemoveAll(dir)
	srv, err := lrsrv.Start(dir, lrsrv.Opts{})
	if err != nil {
		res.Note("backtoback: %v", err)
		return
	}
	defer srv.Stop()
	bbq := "select from grp=bb limit 10"
	for i := 0; i < c.Parts; i++ {
		if c.Range {
			writeTs(srv, fmt.Sprintf("grp=bb,part=p%d", i), 1000000, fmt.Sprintf("old%d", i))
		} else {
			write(srv, fmt.Sprintf("grp=bb,part=p%d", i), fmt.Sprintf("old%d", i))
		}
	}
	if c.Range {
		bbq = "select from grp=bb range '1000000000000' limit 10"
	}
	for i := 0; i < c.Parts; i++ {
		waitConfirmed(srv, fmt.Sprintf("grp=bb,part=p%d", i), 1)
	}
	perPart := make([]int, c.Parts)
	limit := c.Limit
	if limit == 0 {
		limit = 10
	}
	// the cursor's starting point: the end of what is stored now
	first := query(srv, api.QueryRequest{Query: bbq, Pos: "tail", WaitTimeout: 0, Limit: limit}, c.RPC)
	if first.err != nil || len(first.msgs) != 0 {
		res.Note("backtoback: first page: %q err=%v", first.msgs, first.err)
		return
	}
	req := first.next
	req.WaitTimeout = 5
	req.Limit = limit
	var all []string
	var wantAll []string
	for round := 0; round < c.Rounds; round++ {
		msg := fmt.Sprintf("r%d", round)
		part := (round + c.Seed) % c.Parts
		d := c.Delays[round%len(c.Delays)]
		var readable time.Time
		var mu sync.Mutex
		perPart[part]++
		wantN := 1 + perPart[part]
		wr := func() {
			write(srv, fmt.Sprintf("grp=bb,part=p%d", part), msg)
			waitConfirmed(srv, fmt.Sprintf("grp=bb,part=p%d", part), wantN)
			mu.Lock()
			readable = time.Now()
			mu.Unlock()
		}
		if d < 0 {
			wr() // already readable when the reader asks
		} else {
			go func() { time.Sleep(time.Duration(d) * time.Millisecond); wr() }()
		}
		t0 := time.Now()
		done := make(chan qres, 1)
		go func() { done <- query(srv, req, c.RPC) }()
		var r qres
		select {
		case r = <-done:
		case <-time.After(10 * time.Second):
			res.SpecFail(vh.SpecFailure{Section: "backtoback", Kind: "hang", Input: c, Impl: "no answer in round " + fmt.Sprint(round), Spec: "an answer", What: "a waiting query did not answer at all"})
			return
		}
		mu.Lock()
		rd := readable
		mu.Unlock()
		if rd.Before(t0) {
			rd = t0
		}
		lat := r.end.Sub(rd)
		wantAll = append(wantAll, msg)
		all = append(all, r.msgs...)
		if r.err != nil || strings.Join(r.msgs, " ") != msg || lat > margin {
			res.SpecFail(vh.SpecFailure{Section: "backtoback", Kind: "late-or-lost-wakeup", Input: c, Impl: fmt.Sprintf("round %d: %q, %v after it was readable, request took %v (err=%v)", round, r.msgs, lat, r.took, r.err),
				Spec: fmt.Sprintf("%q within %v", msg, margin), What: "back-to-back waits of one cursor: the next written event was not returned promptly, exactly once"})
			return
		}
		req = r.next
		req.Limit = limit
	}
	res.Eval(sec, fmt.Sprint(c))
	res.Dist(sec, fmt.Sprintf("rpc=%v parts=%d", c.RPC, c.Parts))
	res.Dist(sec, fmt.Sprintf("limit=%d", limit))
	res.Dist(sec, fmt.Sprintf("range=%v", c.Range))
	// MODEL: each round is one wake-up that brings one event
	path := "backend"
	if c.RPC {
		path = "rpc"
	}
	lines := []string{}
	for range wantAll {
		lines = append(lines, fmt.Sprintf("queryreq %s 5 %d 50 - D:1", path, limit))
	}
	model, derr := vh.Batch(args.Driver, lines)
	if derr != nil {
		res.Fatal(args.Out, "driver: %v", derr)
	}
	for i, m := range model {
		if m != "ok 1" {
			res.Mismatch(vh.Mismatch{Section: "backtoback", Function: "queryLoop round", Input: c, Impl: wantAll[i], Model: m})
		}
	}
	if strings.Join(all, " ") != strings.Join(wantAll, " ") {
		res.SpecFail(vh.SpecFailure{Section: "backtoback", Kind: "wrong-events", Input: c, Impl: strings.Join(all, " "), Spec: strings.Join(wantAll, " "), What: "back-to-back waits: every event once, in order"})
	}
}

func sectionB2B(rng *vh.Rng) {
	sec := res.Section("backtoback", "spec-search",
		"one cursor followed through NextQueryRequest for 3..5 rounds over 1..3 partitions, via backend.Querier and via the RPC client (rpc.ServerQuerier); per round one event is written either before the request (already readable) or 30..120 ms after the request started (the reader sleeps by then; the racy window between end-of-data check and subscription is covered deterministically by section parked); every round must return exactly the new event within 1.5 s of its becoming readable; non-trivial = every case")
	n := 12
	if args.Thorough {
		n = 160
	}
	var wg sync.WaitGroup
	sem := make(chan struct{}, 12)
	for i := 0; i < n; i++ {
		c := b2bCase{RPC: i%2 == 1, Parts: 1 + i%3, Rounds: rng.Range(3, 5), Seed: rng.Intn(3), Limit: pageLimits[(i/2)%len(pageLimits)], Range: i%4 >= 2}
		for k := 0; k < 3; k++ {
			c.Delays = append(c.Delays, rng.PickI([]int{-1, 30, 60, 120}))
		}
		wg.Add(1)
		sem <- struct{}{}
		go func(i int, c b2bCase) { defer wg.Done(); defer func() { <-sem }(); runB2B(c, i, sec) }(i, c)
	}
	wg.Wait()
	res.Done(sec)
}

// ---------------------------------------------------------------------------------------------
// the client's stream loop: api.Select(streamMode) over a Querier that lets writes land in the gaps between two waits

type selRound struct {
	Gap    int `json:"gap"`    // events that become readable after the previous answer and before this request reaches the server
	During int `json:"during"` // events written 300 ms after this request started (during its wait)
}

type selectCase struct {
	RPC    bool       `json:"rpc"`
	Pos    string     `json:"pos"` // "tail" | "head"
	Rounds []selRound `json:"rounds"`
}

// backendQuerier adapts backend.Querier to api.Querier
type backendQuerier struct{ srv *lrsrv.Srv }

func (b backendQuerier) Query(ctx context.Context, req *api.QueryRequest, res *api.QueryResult) error {
	qr, err := b.srv.Querier.Query(ctx, req)
	if err == io.EOF {
		err = nil
	}
	if err != nil {
		return err
	}
	if qr != nil {
		*res = *qr
	}
	return nil
}

// gapQuerier forwards the k-th request after the writes of round k's gap are readable, starts the round's "during" write, and
// ends the stream (cancel) when the rounds are used up
type gapQuerier struct {
	inner  api.Querier
	rounds []selRound
	k      int
	gap    func(n int)
	during func(n int)
	cancel context.CancelFunc
	wg     sync.WaitGroup // the previous round's "during" write has finished before the next request goes out
}

func (g *gapQuerier) Query(ctx context.Context, req *api.QueryRequest, res *api.QueryResult) error {
	g.wg.Wait()
	if g.k >= len(g.rounds) {
		g.cancel()
		return context.Canceled
	}
	r := g.rounds[g.k]
	g.k++
	if r.Gap > 0 {
		g.gap(r.Gap)
	}
	if r.During > 0 {
		g.wg.Add(1)
		go func() { defer g.wg.Done(); g.during(r.During) }()
	}
	return g.inner.Query(ctx, req, res)
}

func runSelect(c selectCase, idx int, sec *vh.Section) {
	dir := lrsrv.NewDir()
	defer os.RemoveAll(dir)
	srv, err := lrsrv.Start(dir, lrsrv.Opts{})
	if err != nil {
		res.Note("select: %v", err)
		return
	}
	defer srv.Stop()
	tags := "grp=sel,part=p0"
	const stored = 3
	var mu sync.Mutex
	n := 0
	wr := func(k int) {
		mu.Lock()
		defer mu.Unlock()
		ms := make([]string, k)
		for i := range ms {
			ms[i] = fmt.Sprintf("m%d", n+i)
		}
		write(srv, tags, ms...)
		n += k
		waitConfirmed(srv, tags, n)
	}
	wr(stored)
	var inner api.Querier = srv.Client
	if !c.RPC {
		inner = backendQuerier{srv}
	}
	ctx, cancel := context.WithCancel(context.Background())
	defer cancel()
	gq := &gapQuerier{inner: inner, rounds: c.Rounds, cancel: cancel, gap: wr,
		during: func(k int) { time.Sleep(300 * time.Millisecond); wr(k) }}
	var got []string
	var gmu sync.Mutex
	done := make(chan error, 1)
	pos := c.Pos
	if pos == "head" {
		pos = ""
	}
	go func() {
		done <- api.Select(ctx, gq, &api.QueryRequest{Query: "select from grp=sel limit 100", Pos: pos, Limit: 100, WaitTimeout: 1}, true,
			func(r *api.QueryResult) {
				gmu.Lock()
				for _, e := range r.Events {
					got = append(got, string(append([]byte{}, e.Message...)))
				}
				gmu.Unlock()
			})
	}()
	select {
	case <-done:
	case <-time.After(time.Duration(len(c.Rounds))*2500*time.Millisecond + 10*time.Second):
		res.SpecFail(vh.SpecFailure{Section: "select", Kind: "hang", Input: c, Impl: "api.Select did not return", Spec: "returns when its context ends", What: "the client's stream loop hangs"})
		return
	}
	// SPEC: every event from the first request's position on, once, in order
	first := 0
	if c.Pos == "tail" {
		first = stored + c.Rounds[0].Gap
	}
	total := stored
	line := fmt.Sprintf("selectstream %d %s", stored, map[bool]string{true: "tail", false: "0"}[c.Pos == "tail"])
	for _, r := range c.Rounds {
		total += r.Gap + r.During
		line += fmt.Sprintf(" %d:%d", r.Gap, r.During)
	}
	var want []string
	for i := first; i < total; i++ {
		want = append(want, fmt.Sprintf("m%d", i))
	}
	model, derr := vh.Batch(args.Driver, []string{line})
	if derr != nil {
		res.Fatal(args.Out, "driver: %v", derr)
	}
	var mwant []string
	if model[0] != "-" {
		for _, t := range strings.Split(model[0], ",") {
			mwant = append(mwant, "m"+t)
		}
	}
	res.Eval(sec, fmt.Sprint(c))
	res.Dist(sec, fmt.Sprintf("rpc=%v pos=%s rounds=%d", c.RPC, c.Pos, len(c.Rounds)))
	gmu.Lock()
	g := strings.Join(got, " ")
	gmu.Unlock()
	eq := g == strings.Join(mwant, " ")
	if !eq {
		res.Mismatch(vh.Mismatch{Section: "select", Function: "selectStream: " + line, Input: c, Impl: g, Model: strings.Join(mwant, " ")})
	}
	if g != strings.Join(want, " ") {
		res.SpecFail(vh.SpecFailure{Section: "select", Kind: "event-skipped-between-waits", Input: c, Impl: g, Spec: strings.Join(want, " "),
			Model: strings.Join(mwant, " "), ImplEqModel: eq,
			What: "api.Select in stream mode (back-to-back waits of one reader): an event that became readable between an answer and the next request — or during a wait — was not delivered exactly once, in order"})
	}
}

func selectCases(rng *vh.Rng) []selectCase {
	base := [][]selRound{
		{{0, 0}, {1, 0}, {0, 1}},         // first wait expires empty, an event lands in the gap, a later one during a wait
		{{0, 0}, {0, 0}, {2, 0}, {0, 0}}, // two empty waits, then two events in one gap
		{{0, 1}, {1, 0}, {0, 0}},         // delivered once already, then a gap event
		{{2, 0}, {0, 0}, {1, 0}, {0, 1}}, // events before the first request (not part of a tail stream), a gap round, a waiting round
	}
	var cs []selectCase
	for i, r := range base {
		for _, rpc := range []bool{false, true} {
			pos := "tail"
			if i == 3 && rpc {
				pos = "head"
			}
			cs = append(cs, selectCase{RPC: rpc, Pos: pos, Rounds: r})
		}
	}
	cs = append(cs, selectCase{RPC: false, Pos: "head", Rounds: []selRound{{0, 0}, {1, 0}, {0, 0}}})
	if args.Thorough {
		for i := 0; i < 40; i++ {
			k := rng.Range(2, 5)
			var rs []selRound
			for j := 0; j < k; j++ {
				// a round is either answered at once (something landed in the gap) or waits (then events may arrive during the wait)
				r := selRound{Gap: rng.PickI([]int{0, 0, 1, 2})}
				if r.Gap == 0 && !(j == 0 && i%3 == 2) {
					r.During = rng.PickI([]int{0, 0, 1})
				}
				rs = append(rs, r)
			}
			cs = append(cs, selectCase{RPC: i%2 == 0, Pos: []string{"tail", "tail", "head"}[i%3], Rounds: rs})
		}
	}
	return cs
}

func sectionSelect(rng *vh.Rng, corpus []selectCase) {
	sec := res.Section("select", "spec-search",
		"the documented client loop api.Select(streamMode = true, WaitTimeout 1) over backend.Querier and over the RPC client, through a Querier wrapper that makes events readable in the GAP between an answer and the next request reaching the server (and during waits): started at tail or head of a partition holding 3 events; the handler must receive every event from the first request's position on, once, in order — whatever rounds came back empty; compared with the Lean selectStream (loop fact regenerated from api/client.go); non-trivial = every case")
	cs := append(corpus, selectCases(rng)...)
	var wg sync.WaitGroup
	sem := make(chan struct{}, 12)
	for i, c := range cs {
		wg.Add(1)
		sem <- struct{}{}
		go func(i int, c selectCase) { defer wg.Done(); defer func() { <-sem }(); runSelect(c, i, sec) }(i, c)
	}
	wg.Wait()
	res.Done(sec)
}

// ---------------------------------------------------------------------------------------------
// library contract on a real journal

func sectionContract(rng *vh.Rng) {
	sec := res.Section("contract", "unit-correspondence",
		"WaitForNewData of a real journal (library contract A.4) against the Lean listener LTS: for positions before, at and beyond the end it returns at once iff pos < end; a waiter at the end sleeps until a write is flushed (woken promptly) or its context ends; several waiters are all woken by one flush; non-trivial = every case")
	dir := lrsrv.NewDir()
	defer os.RemoveAll(dir)
	srv, err := lrsrv.Start(dir, lrsrv.Opts{})
	if err != nil {
		res.Note("contract: %v", err)
		return
	}
	defer srv.Stop()
	tags := "grp=ct"
	write(srv, tags, "a", "b", "c")
	waitConfirmed(srv, tags, 3)
	_, jr, err := srv.Parts.GetJournal(context.Background(), mustSrc(srv, tags))
	if err != nil {
		res.Note("contract: %v", err)
		return
	}
	cks, _ := jr.Chunks().Chunks(context.Background())
	last := cks[len(cks)-1]
	end := int(last.Count())
	n := 12
	if args.Thorough {
		n = 160
	}
	for i := 0; i < n; i++ {
		idx := rng.PickI([]int{0, 1, end - 1, end, end + 1, end + 5})
		ctx, cancel := context.WithTimeout(context.Background(), 150*time.Millisecond)
		t0 := time.Now()
		err := jr.Chunks().WaitForNewData(ctx, journal.Pos{CId: last.Id(), Idx: uint32(idx)})
		took := time.Since(t0)
		cancel()
		m, _ := vh.Batch(args.Driver, []string{fmt.Sprintf("lts 1 %d s0:%d i0 k0 u0", end, idx)})
		// model: after start, inc, lockCheck (, subscribe): returning+woke = returned at once; asleep = blocks
		modelAtOnce := strings.Contains(m[0], "returning:")
		implAtOnce := err == nil && took < 100*time.Millisecond
		res.Eval(sec, fmt.Sprint("pos", idx-end))
		res.Dist(sec, fmt.Sprintf("pos-end=%d", idx-end))
		if modelAtOnce != implAtOnce {
			res.Mismatch(vh.Mismatch{Section: "contract", Function: "WaitForNewData(pos) returns at once", Input: map[string]int{"pos": idx, "end": end}, Impl: fmt.Sprintf("err=%v after %v", err, took), Model: m[0]})
		}
		if (idx < end) != implAtOnce {
			res.SpecFail(vh.SpecFailure{Section: "contract", Kind: "contract-broken", Input: map[string]int{"pos": idx, "end": end}, Impl: fmt.Sprintf("err=%v after %v", err, took), Spec: "returns at once iff pos < end", What: "the library's WaitForNewData contract does not hold"})
		}
	}
	// k waiters at the end, one flush wakes all
	for _, k := range []int{1, 3, 8} {
		cks, _ = jr.Chunks().Chunks(context.Background())
		last = cks[len(cks)-1]
		end = int(last.Count())
		var wg sync.WaitGroup
		var mu sync.Mutex
		var worst time.Duration
		bad := 0
		var flushed time.Time
		for w := 0; w < k; w++ {
			wg.Add(1)
			go func() {
				defer wg.Done()
				ctx, cancel := context.WithTimeout(context.Background(), 3*time.Second)
				defer cancel()
				err := jr.Chunks().WaitForNewData(ctx, journal.Pos{CId: last.Id(), Idx: uint32(end)})
				now := time.Now()
				mu.Lock()
				if err != nil {
					bad++
				} else if d := now.Sub(flushed); d > worst {
					worst = d
				}
				mu.Unlock()
			}()
		}
		time.Sleep(80 * time.Millisecond)
		mu.Lock()
		flushed = time.Now()
		mu.Unlock()
		write(srv, tags, "more")
		wg.Wait()
		res.Eval(sec, fmt.Sprint("waiters", k))
		res.Dist(sec, fmt.Sprintf("waiters=%d", k))
		if bad > 0 || worst > margin {
			res.SpecFail(vh.SpecFailure{Section: "contract", Kind: "late-or-lost-wakeup", Input: map[string]int{"waiters": k}, Impl: fmt.Sprintf("%d not woken, slowest %v", bad, worst), Spec: "all woken promptly", What: "waiters subscribed at the end of a journal were not all woken by the next flushed write"})
		}
	}
	srv.Parts.Release(jr.Name())
	res.Done(sec)
}

func mustSrc(srv *lrsrv.Srv, tags string) string {
	src, _, err := srv.TIndex.GetJournal(tags)
	if err != nil {
		return ""
	}
	srv.TIndex.Release(src)
	return src
}

// ---------------------------------------------------------------------------------------------
// pipe worker parked before workerDone

func sectionPipe(done chan struct{}) {
	defer close(done)
	sec := res.Section("pipe", "spec-search",
		"a pipe worker that has copied a batch waits 10 s, times out and is parked at pipe.worker.beforeDone; a second batch is written to its source (the notification finds wCharged still set, no worker starts); after the release workerDone must re-arm and the batch must be in the pipe partition within 1.5 s, without any later write (C10: no_stranded_data); control: nothing written — nothing copied; lock-step over K parallel servers; non-trivial = every case")
	k := 3
	if args.Thorough {
		k = 8
	}
	arrived := make(chan struct{}, 64)
	release := make(chan struct{})
	verifhook.Set("pipe.worker.beforeDone", func() {
		arrived <- struct{}{}
		<-release
	})
	type sc struct {
		srv   *lrsrv.Srv
		dir   string
		dest  string
		write bool
	}
	var scs []*sc
	for i := 0; i < k; i++ {
		s := &sc{dir: lrsrv.NewDir(), write: i%3 != 2}
		srv, err := lrsrv.Start(s.dir, lrsrv.Opts{WriteFlushMs: 40})
		if err != nil {
			res.Note("pipe: %v", err)
			continue
		}
		s.srv = srv
		if _, err := srv.Exec("create pipe wk from grp=src"); err != nil {
			res.Note("pipe: %v", err)
		}
		d, _ := srv.Pipes.GetPipe("wk")
		s.dest = d.DestTags.Line().String()
		write(srv, "grp=src,app=a", "first")
		scs = append(scs, s)
	}
	defer func() {
		for _, s := range scs {
			s.srv.Stop()
			os.RemoveAll(s.dir)
		}
	}()
	count := func(s *sc) int {
		return partCount(s.srv, s.dest)
	}
	got := 0
	to := time.After(17 * time.Second)
	for got < len(scs) {
		select {
		case <-arrived:
			got++
		case <-to:
			res.Note("pipe: only %d of %d workers reached pipe.worker.beforeDone", got, len(scs))
			verifhook.Set("pipe.worker.beforeDone", nil)
			close(release)
			return
		}
	}
	for _, s := range scs {
		if s.write {
			write(s.srv, "grp=src,app=a", "second", "third")
		}
	}
	time.Sleep(250 * time.Millisecond) // flushed, notification processed while the old worker is still charged
	before := make([]int, len(scs))
	for i, s := range scs {
		before[i] = count(s)
	}
	verifhook.Set("pipe.worker.beforeDone", nil)
	t0 := time.Now()
	close(release)
	for i, s := range scs {
		want := 1
		if s.write {
			want = 3
		}
		n := count(s)
		for n < want && time.Since(t0) < 4*time.Second {
			time.Sleep(10 * time.Millisecond)
			n = count(s)
		}
		lat := time.Since(t0)
		res.Eval(sec, fmt.Sprint(i, s.write))
		res.Dist(sec, fmt.Sprintf("write=%v", s.write))
		if before[i] != 1 {
			res.SpecFail(vh.SpecFailure{Section: "pipe", Kind: "copied-while-parked", Input: map[string]interface{}{"write": s.write}, Impl: fmt.Sprint(before[i]), Spec: "1", What: "the parked worker's source was copied by somebody else (a second worker for a charged descriptor)"})
		}
		if s.write && (n != want || lat > margin+500*time.Millisecond) {
			res.SpecFail(vh.SpecFailure{Section: "pipe", Kind: "stranded-data", Input: map[string]interface{}{"write": s.write}, Impl: fmt.Sprintf("%d events after %v", n, lat), Spec: fmt.Sprintf("%d events promptly", want),
				What: "an event written while a pipe worker was finishing was not copied without a later write"})
		}
		if !s.write {
			time.Sleep(200 * time.Millisecond)
			if n = count(s); n != 1 {
				res.SpecFail(vh.SpecFailure{Section: "pipe", Kind: "extra-copy", Input: map[string]interface{}{"write": s.write}, Impl: fmt.Sprint(n), Spec: "1", What: "nothing was written, something was copied"})
			}
		}
	}
	res.Done(sec)
}

// ---------------------------------------------------------------------------------------------

type corpusDoc struct {
	Section string          `json:"section"`
	Input   json.RawMessage `json:"input"`
}

func main() {
	if len(os.Args) >= 3 && os.Args[1] == "-f11child" {
		f11child(os.Args[2])
		return
	}
	args = vh.ParseArgs()
	res = vh.NewResult("C11", args)
	if !verifhook.Enabled {
		res.Fatal(args.Out, "the harness must be built with -tags verif")
	}
	var f11s []f11Case
	var parked []parkedCase
	var nomatches []nomatchCase
	var b2bs []b2bCase
	var sels []selectCase
	pipeReplay := false
	load := func(path string) {
		var d corpusDoc
		if err := vh.ReadJSON(path, &d); err != nil {
			res.Note("corpus: %s: %v", path, err)
			return
		}
		switch d.Section {
		case "f11":
			var c f11Case
			if json.Unmarshal(d.Input, &c) == nil {
				f11s = append(f11s, c)
			}
		case "parked":
			var c parkedCase
			if json.Unmarshal(d.Input, &c) == nil {
				parked = append(parked, c)
			}
		case "nomatch":
			var c nomatchCase
			if json.Unmarshal(d.Input, &c) == nil {
				nomatches = append(nomatches, c)
			}
		case "backtoback":
			var c b2bCase
			if json.Unmarshal(d.Input, &c) == nil && c.Parts > 0 && len(c.Delays) > 0 {
				b2bs = append(b2bs, c)
			}
		case "select":
			var c selectCase
			if json.Unmarshal(d.Input, &c) == nil && len(c.Rounds) > 0 {
				sels = append(sels, c)
			}
		case "pipe":
			pipeReplay = true
		}
	}
	if args.Replay != "" {
		load(args.Replay)
		if len(f11s) > 0 {
			sectionF11(f11s)
		}
		if len(parked) > 0 {
			sec := res.Section("parked", "replay", "replay of one parked schedule")
			installWaitHook()
			for i, c := range parked {
				runParked(c, i, sec)
			}
		}
		if len(nomatches) > 0 {
			sec := res.Section("nomatch", "replay", "replay of one nomatch case")
			for i, c := range nomatches {
				runNomatch(c, i, sec)
			}
		}
		if len(b2bs) > 0 {
			sec := res.Section("backtoback", "replay", "replay of one back-to-back case")
			for i, c := range b2bs {
				runB2B(c, i, sec)
			}
		}
		if len(sels) > 0 {
			sec := res.Section("select", "replay", "replay of one stream case")
			for i, c := range sels {
				runSelect(c, i, sec)
			}
		}
		if pipeReplay {
			d := make(chan struct{})
			sectionPipe(d)
		}
		for _, m := range res.Mismatches {
			fmt.Printf("MISMATCH %s impl=%s model=%s\n", m.Function, m.Impl, m.Model)
		}
		for _, f := range res.SpecFailures {
			fmt.Printf("SPEC-FAILURE kind=%s finding=%s %s\n  impl=%s\n  spec=%s\n", f.Kind, f.Finding, f.What, f.Impl, f.Spec)
		}
		res.Write(args.Out)
		return
	}
	for _, f := range vh.CorpusFiles(args.Corpus) {
		load(f)
	}
	rng := vh.NewRng(args.Seed)
	pipeDone := make(chan struct{})
	go sectionPipe(pipeDone) // needs > 10 s of wall time; only it creates pipes, so the hook parks only its workers
	f11s = append(f11s, f11Case{Mode: "control-nowait"}, f11Case{Mode: "control-present"}, f11Case{Mode: "inproc-biglimit"}, f11Case{Mode: "rpc-biglimit"})
	sectionF11(f11s)
	sectionContract(rng.Fork("contract"))
	sectionParked(rng.Fork("parked"), parked)
	sectionNomatch()
	sectionB2B(rng.Fork("b2b"))
	sectionSelect(rng.Fork("select"), sels)
	<-pipeDone
	res.Write(args.Out)
}
