package main

import (
	"context"
	"fmt"
	"io"
	"os"
	"path"
	"sort"
	"strconv"
	"strings"
	"sync"
	"time"

	"github.com/logrange/linker"
	"github.com/logrange/logrange/api"
	"github.com/logrange/logrange/api/rpc"
	"github.com/logrange/logrange/pkg/model"
	"github.com/logrange/logrange/pkg/model/field"
	"github.com/logrange/logrange/pkg/model/tag"
	"github.com/logrange/logrange/pkg/partition"
	"github.com/logrange/logrange/pkg/tindex"
	"github.com/logrange/logrange/pkg/tmindex"
	"github.com/logrange/logrange/server"
	cmodel "github.com/logrange/range/pkg/cluster/model"
	"github.com/logrange/range/pkg/kv/inmem"
	"github.com/logrange/range/pkg/records/chunk"
	"github.com/logrange/range/pkg/records/journal"
	"github.com/logrange/range/pkg/records/journal/ctrlr"
	"github.com/logrange/range/pkg/utils/bytes"
	"github.com/logrange/range/pkg/utils/encoding/xbinary"
	"verifharness/internal/lrsrv"
	"verifharness/internal/vh"
)

const defaultMaxRec = 1 << 20

// ---------------------------------------------------------------------------------------------
// recording TsIndexer: every OnWrite call of partition.Service.Write

type idxCall struct {
	src         string
	first, last uint32
	cid         chunk.Id
	min, max    int64
}

type recIdx struct {
	tmindex.TsIndexer
	mu    sync.Mutex
	calls []idxCall
}

func (r *recIdx) OnWrite(src string, first, last uint32, ri tmindex.RecordsInfo) error {
	r.mu.Lock()
	r.calls = append(r.calls, idxCall{src, first, last, ri.Id, ri.MinTs, ri.MaxTs})
	r.mu.Unlock()
	return r.TsIndexer.OnWrite(src, first, last, ri)
}

func (r *recIdx) take() []idxCall {
	r.mu.Lock()
	c := r.calls
	r.calls = nil
	r.mu.Unlock()
	return c
}

func showCalls(calls []idxCall, dense map[chunk.Id]int) string {
	p := make([]string, len(calls))
	for i, c := range calls {
		p[i] = fmt.Sprintf("%d %d %d %d %d", c.first, c.last, dense[c.cid], c.min, c.max)
	}
	return "calls=[" + strings.Join(p, "; ") + "]"
}

// chunk layout of a journal: dense ids (rank in creation order) and confirmed counts
func layoutOf(ctx context.Context, jc journal.Controller, src string, dense map[chunk.Id]int) ([]int, error) {
	j, err := jc.GetOrCreate(ctx, src)
	if err != nil {
		return nil, err
	}
	cks, err := j.Chunks().Chunks(ctx)
	if err != nil {
		return nil, err
	}
	var counts []int
	for i, c := range cks {
		dense[c.Id()] = i + 1
		counts = append(counts, int(c.Count()))
	}
	return counts, nil
}

// waitConfirmed waits until the journal's confirmed record count reaches n (written records become visible to readers at
// the next flush); gives up after 3 s — a shortfall then shows in the comparison that follows.
func waitConfirmed(ctx context.Context, jc journal.Controller, src string, n int) {
	j, err := jc.GetOrCreate(ctx, src)
	if err != nil {
		return
	}
	for i := 0; i < 1500; i++ {
		if int(j.Count()) >= n {
			return
		}
		time.Sleep(2 * time.Millisecond)
	}
}

// reap stops a server 1.3 s later, in the background. The library leaves the chunk writers' files open on Shutdown; a
// writer that stays alive for WriteIdleSec (set to 1 s) after its last write closes them itself. Without this, thousands of
// histories in one process exhaust the descriptor limit. runParallel waits for all reapers.
var reapWG sync.WaitGroup

func reap(stop func()) {
	reapWG.Add(1)
	go func() {
		defer reapWG.Done()
		time.Sleep(1300 * time.Millisecond)
		stop()
	}()
}

func showInts(xs []int) string {
	p := make([]string, len(xs))
	for i, x := range xs {
		p[i] = strconv.Itoa(x)
	}
	return strings.Join(p, " ")
}

// dEv is an event handed directly to partition.Service.Write: binary fields
type dEv struct {
	Ts     int64 `json:"ts"`
	Msg    HS    `json:"msg"`
	Fields HS    `json:"fields,omitempty"`
}

func dEvLine(evs []dEv) string {
	var sb strings.Builder
	sb.WriteString(strconv.Itoa(len(evs)))
	for _, e := range evs {
		fmt.Fprintf(&sb, " %s %s %s", tsU(e.Ts), vh.HxS(string(e.Msg)), vh.HxS(string(e.Fields)))
	}
	return sb.String()
}

func modelEvs(evs []dEv) []model.LogEvent {
	out := make([]model.LogEvent, len(evs))
	for i, e := range evs {
		out[i] = model.LogEvent{Timestamp: e.Ts, Msg: []byte(e.Msg), Fields: field.Fields(e.Fields)}
	}
	return out
}

func recSize(e dEv) int {
	le := model.LogEvent{Timestamp: e.Ts, Msg: []byte(e.Msg), Fields: field.Fields(e.Fields)}
	return le.WritableSize()
}

// ---------------------------------------------------------------------------------------------
// section writeloop: partition.Service wired by hand (no pipe service, so the WriteEvent channel is ours)

type core struct {
	dir    string
	ctx    context.Context
	cancel context.CancelFunc
	inj    *linker.Injector
	ps     *partition.Service
	jc     journal.Controller
	ti     tindex.Service
	rec    *recIdx
}

func startCore(maxChunk int) (c *core, err error) {
	dir := lrsrv.NewDir()
	cfg := server.GetDefaultConfig()
	cfg.BaseDir = dir
	cfg.JrnlCtrlConfig.WriteFlushMs = 2
	cfg.JrnlCtrlConfig.WriteIdleSec = 1 // chunk writers close their files after 1 s of idleness (the library keeps them open across Shutdown)
	cfg.JrnlCtrlConfig.MaxChunkSize = int64(maxChunk)
	cfg.JrnlCtrlConfig.JournalsDir = path.Join(dir, "db")
	ctx, cancel := context.WithCancel(context.Background())
	c = &core{dir: dir, ctx: ctx, cancel: cancel}
	c.ps = partition.NewService()
	c.jc = ctrlr.NewJournalController()
	c.ti = tindex.NewInmemService()
	tsi := tmindex.NewTsIndexer()
	inj := linker.New()
	inj.Register(
		linker.Component{Name: "JournalControllerConfig", Value: &cfg.JrnlCtrlConfig},
		linker.Component{Name: "tindexInMemCfg", Value: &tindex.InMemConfig{WorkingDir: path.Join(dir, "tindex")}},
		linker.Component{Name: "", Value: &tmindex.TsIndexerConfig{Dir: path.Join(dir, "cindex")}},
		linker.Component{Name: "mainCtx", Value: ctx},
		linker.Component{Name: "", Value: new(bytes.Pool)},
		linker.Component{Name: "", Value: inmem.New()},
		linker.Component{Name: "", Value: c.ti},
		linker.Component{Name: "", Value: c.ps},
		linker.Component{Name: "", Value: tsi},
		linker.Component{Name: "HostRegistryConfig", Value: cfg},
		linker.Component{Name: "", Value: cmodel.NewHostRegistry()},
		linker.Component{Name: "", Value: cmodel.NewJournalCatalog()},
		linker.Component{Name: "", Value: c.jc},
	)
	c.inj = inj
	func() {
		defer func() {
			if r := recover(); r != nil {
				err = fmt.Errorf("core refused to start: %v", r)
			}
		}()
		inj.Init(ctx)
	}()
	if err != nil {
		cancel()
		os.RemoveAll(dir)
		return nil, err
	}
	c.rec = &recIdx{TsIndexer: tsi}
	c.ps.TsIndexer = c.rec
	return c, nil
}

func (c *core) stop() {
	c.cancel()
	c.inj.Shutdown()
	os.RemoveAll(c.dir)
}

type wlCase struct {
	MaxChunk int     `json:"max_chunk"`
	Batches  [][]dEv `json:"batches"`
	// Faults[i], if set, is the environment fault during batch i: "cancel:<k>" (the Write's context is cancelled while record k
	// is fetched) or "nonew" (no file descriptor left: no new chunk can be created)
	Faults []string `json:"faults,omitempty"`
}

func posStr(ok bool, p journal.Pos, dense map[chunk.Id]int) string {
	if !ok {
		return "-"
	}
	return fmt.Sprintf("%d:%d", dense[p.CId], p.Idx)
}

// hogDescriptors opens /dev/null until the process has no file descriptor left (EMFILE); release closes them again
func hogDescriptors() (release func(), n int) {
	var fs []*os.File
	for len(fs) < 1<<20 {
		f, err := os.Open("/dev/null")
		if err != nil {
			break
		}
		fs = append(fs, f)
	}
	return func() {
		for _, f := range fs {
			f.Close()
		}
	}, len(fs)
}

// cancelIt cancels the write's context when the record with index `at` is fetched
type cancelIt struct {
	litIt
	at     int
	cancel context.CancelFunc
}

func (m *cancelIt) Get(ctx context.Context) (model.LogEvent, tag.Line, error) {
	if m.i == m.at {
		m.cancel()
	}
	return m.litIt.Get(ctx)
}

func runWriteLoopCase(c wlCase, col *collector, sec *vh.Section) {
	secName := sec.Name
	// descriptor exhaustion fails wherever the process happens to need a descriptor (not only at chunk creation): those cases
	// are checked against the SPEC only; the model comparison is for the deterministic fault (context cancelled at record k)
	var skipModel func(string) bool
	for _, f := range c.Faults {
		if strings.HasPrefix(f, "nonew") {
			skipModel = func(string) bool { return true }
		}
	}
	co, err := startCore(c.MaxChunk)
	if err != nil {
		res.Note("%s: %v", secName, err)
		return
	}
	defer reap(co.stop)
	type raw struct {
		calls []idxCall
		we    partition.WriteEvent
		gotWe bool
		err   error
	}
	raws := make([]raw, len(c.Batches))
	faultOf := func(i int) (string, int) {
		if i < len(c.Faults) && c.Faults[i] != "" {
			f := strings.SplitN(c.Faults[i], ":", 2)
			n := 0
			if len(f) == 2 {
				n, _ = strconv.Atoi(f[1])
			}
			return f[0], n
		}
		return "none", 0
	}
	for i, b := range c.Batches {
		co.rec.take()
		var err error
		switch mode, at := faultOf(i); mode {
		case "cancel":
			// the context of this Write is cancelled while record `at` is fetched: every journal call that starts afterwards fails
			ctx2, cancel := context.WithCancel(co.ctx)
			err = co.ps.Write(ctx2, "p=1", &cancelIt{litIt: litIt{evs: modelEvs(b)}, at: at, cancel: cancel}, false)
			cancel()
		case "nonew":
			// no file descriptor is left: a chunk that is open keeps accepting records, a new chunk cannot be created
			reapWG.Wait() // earlier histories' servers are stopped and their directories removed before descriptors run out
			release, n := hogDescriptors()
			err = co.ps.Write(co.ctx, "p=1", &litIt{evs: modelEvs(b)}, false)
			release()
			res.Dist(sec, "descriptors exhausted")
			_ = n
		default:
			err = co.ps.Write(co.ctx, "p=1", &litIt{evs: modelEvs(b)}, false)
		}
		r := raw{calls: co.rec.take(), err: err}
		if len(r.calls) > 0 {
			c2, cn := context.WithTimeout(co.ctx, 300*time.Millisecond)
			we, err2 := co.ps.GetWriteEvent(c2)
			cn()
			if err2 == nil {
				r.we, r.gotWe = we, true
			}
		} else if len(b) > 0 && err == nil {
			// acknowledged without any notification: look for an event anyway (short wait)
			c2, cn := context.WithTimeout(co.ctx, 100*time.Millisecond)
			if we, err2 := co.ps.GetWriteEvent(c2); err2 == nil {
				r.we, r.gotWe = we, true
			}
			cn()
		}
		raws[i] = r
	}
	src, _, err := co.ti.GetOrCreateJournal("p=1")
	if err != nil {
		res.Note("%s: %v", secName, err)
		return
	}
	defer co.ti.Release(src)
	// records announced by the notifications: what must become readable
	announced := 0
	for _, r := range raws {
		for _, cl := range r.calls {
			announced += int(cl.last-cl.first) + 1
		}
	}
	waitConfirmed(co.ctx, co.jc, src, announced) // counts below are confirmed counts
	dense := map[chunk.Id]int{}
	counts, err := layoutOf(co.ctx, co.jc, src, dense)
	if err != nil {
		res.Note("%s: %v", secName, err)
		return
	}
	// read back at the record level: journal iterator + LogEventIterator
	j, _ := co.jc.GetOrCreate(co.ctx, src)
	it := journal.NewJIterator(j)
	lei := (&model.LogEventIterator{}).Wrap("", it)
	var got []binEv
	rdErr := ""
	all := 0
	for _, b := range c.Batches {
		all += len(b)
	}
	for len(got) <= all+10 {
		le, _, err := lei.Get(co.ctx)
		if err != nil {
			if err.Error() != "EOF" {
				rdErr = err.Error()
			}
			break
		}
		got = append(got, binEv{le.Timestamp, string(le.Msg), string(append([]byte{}, le.Fields...))})
		lei.Next(co.ctx)
	}
	lei.Release()
	it.Close()
	// SPEC: the stored sequence is, batch by batch in order, the WHOLE batch if the Write returned nil, and a prefix of the batch
	// if it returned an error; nothing else
	stored := make([]int, len(c.Batches))
	k := 0
	specOK := rdErr == ""
	for i, b := range c.Batches {
		n := 0
		for n < len(b) && k+n < len(got) && got[k+n] == (binEv{b[n].Ts, string(b[n].Msg), string(b[n].Fields)}) {
			n++
		}
		if raws[i].err == nil && n < len(b) {
			specOK = false
			res.SpecFail(vh.SpecFailure{Section: secName, Kind: "acked-batch-incomplete", Input: c, Impl: fmt.Sprintf("batch %d: Write returned nil, %d of its %d events are stored", i, n, len(b)),
				Spec: "every event of an acknowledged batch is read back", What: "a Write that returned no error left only a prefix of its batch in the partition"})
		}
		stored[i] = n
		k += n
	}
	if k != len(got) || rdErr != "" {
		specOK = false
	}
	positions := func() (p []struct{ c, i int }) {
		for ci, n := range counts {
			for i := 0; i < n; i++ {
				p = append(p, struct{ c, i int }{ci + 1, i})
			}
		}
		return
	}()
	col.add(chk{line: fmt.Sprintf("w.reset %d", c.MaxChunk), impl: "ok", fn: "reset", input: c})
	before := 0
	rollovers := 0
	for i, b := range c.Batches {
		r := raws[i]
		e := "0"
		if r.err != nil {
			e = "1"
		}
		impl := showCalls(r.calls, dense) + " start=" + posStr(r.gotWe, r.we.StartPos, dense) + " end=" + posStr(r.gotWe, r.we.EndPos, dense) + " err=" + e
		line := "w.write 0 " + dEvLine(b)
		if mode, at := faultOf(i); mode != "none" {
			line = fmt.Sprintf("w.writef 0 %s %d %s", mode, at, dEvLine(b))
			res.Dist(sec, fmt.Sprintf("fault=%s returned-error=%v stored=%s", mode, r.err != nil, map[bool]string{true: "all", false: "prefix"}[stored[i] == len(b)]))
		}
		col.add(chk{line: line, impl: impl, fn: "partition.Service.Write (OnWrite calls, WriteEvent positions, returned error)", input: c, skip: skipModel})
		if len(r.calls) > 1 {
			rollovers++
		}
		// SPEC: the notifications cover exactly the positions the stored records of the batch occupy, in order; StartPos is
		// the position of the first stored record, EndPos is one past the last one
		if before+stored[i] <= len(positions) {
			var ann []struct{ c, i int }
			for _, cl := range r.calls {
				for x := cl.first; x <= cl.last && cl.last != ^uint32(0); x++ {
					ann = append(ann, struct{ c, i int }{dense[cl.cid], int(x)})
				}
			}
			want := positions[before : before+stored[i]]
			okc := len(ann) == len(want)
			for k := 0; okc && k < len(want); k++ {
				okc = ann[k] == want[k]
			}
			if !okc {
				res.SpecFail(vh.SpecFailure{Section: secName, Kind: "index-notification-wrong", Input: c, Impl: fmt.Sprint(ann), Spec: fmt.Sprint(want),
					What: fmt.Sprintf("batch %d: the OnWrite notifications do not cover exactly the positions of the batch's stored records", i)})
			}
			if stored[i] > 0 {
				f, l := want[0], want[len(want)-1]
				ws, wend := fmt.Sprintf("%d:%d", f.c, f.i), fmt.Sprintf("%d:%d", l.c, l.i+1)
				gs, ge := posStr(r.gotWe, r.we.StartPos, dense), posStr(r.gotWe, r.we.EndPos, dense)
				if gs != ws || ge != wend {
					res.SpecFail(vh.SpecFailure{Section: secName, Kind: "write-event-position-wrong", Input: c, Impl: gs + " .. " + ge, Spec: ws + " .. " + wend,
						What: fmt.Sprintf("batch %d: WriteEvent.StartPos/EndPos are not the first record's position / one past the last record's", i)})
				}
			}
		}
		before += stored[i]
	}
	col.add(chk{line: "w.layout 0", impl: showInts(counts), fn: "journal.Write (chunk layout)", input: c, skip: skipModel})
	impl := "ok " + showEvs(got)
	if rdErr != "" {
		impl = "error " + rdErr
	}
	col.add(chk{line: fmt.Sprintf("w.read 0 %d", defaultMaxRec), impl: impl, fn: "read back (journal iterator + LogEventIterator)", input: c, skip: skipModel})
	if !specOK && (k != len(got) || rdErr != "") {
		res.SpecFail(vh.SpecFailure{Section: secName, Kind: "readback-differs", Input: c, Impl: clip(impl), Spec: "batch by batch: the whole batch if acknowledged, a prefix if rejected",
			What: "the stored record sequence is not the concatenation of the acknowledged batches (and prefixes of the rejected ones)"})
	}
	key := ""
	if before > 0 {
		key = fmt.Sprintf("%d/%v/%v", c.MaxChunk, c.Batches, c.Faults)
	}
	res.Eval(sec, key)
	res.Dist(sec, fmt.Sprintf("maxChunk=%d", c.MaxChunk))
	res.Dist(sec, fmt.Sprintf("batches-with-rollover=%d", rollovers))
}

// genRun makes n events whose records all have the same size (so that chunk capacity is known)
func genRun(r *vh.Rng, n, msgLen int, base int64) []dEv {
	evs := make([]dEv, n)
	for i := range evs {
		evs[i] = dEv{Ts: base + int64(i), Msg: HS(genBytes(r, msgLen))}
	}
	return evs
}

func genDirectBatch(r *vh.Rng, maxChunk int, big bool) []dEv {
	msgLen := r.PickI([]int{0, 1, 5, 20})
	rs := 4 + 1 + 8 + 1 + msgLen
	capc := (maxChunk + rs - 1) / rs
	var n int
	switch r.Intn(9) {
	case 0:
		n = 0
	case 1:
		n = 1
	case 2:
		n = 2
	case 3:
		n = capc - 1
	case 4:
		n = capc
	case 5:
		n = capc + 1
	case 6:
		n = 2*capc + r.Intn(2)
	case 7:
		n = r.Range(0, 8)
	default:
		n = r.Range(100, 400)
		if big {
			n = r.Range(1000, 4000)
		}
	}
	if n < 0 {
		n = 0
	}
	lim := 10 * capc // keep the number of chunks per batch bounded: the library leaves two files per chunk open until process exit
	if lim < 10 {
		lim = 10
	}
	if n > lim {
		n = lim
	}
	if r.Chance(1, 3) {
		// heterogeneous batch
		evs := make([]dEv, n)
		for i := range evs {
			evs[i] = dEv{Ts: genTs(r), Msg: HS(genMsg(r)), Fields: HS(genFieldsBin(r))}
		}
		return evs
	}
	return genRun(r, n, msgLen, r.PickI64([]int64{0, -3, 1, 100, 1 << 40}))
}

var chunkSizes = []int{1, 14, 15, 30, 64, 100, 257, 1000, 4096}

func sectionWriteLoop(rng *vh.Rng, corpus []wlCase) {
	sec := res.Section("writeloop", "system-correspondence",
		"partition.Service + journal controller + tag index + time index wired by hand on a temp dir (no pipe service, so WriteEvent is observable): 2..8 direct batches per history, MaxChunkSize from {1 (one record per chunk), 14, 15, 30, 64, 100, 257, 1000, 4096}, batch sizes {0,1,2, chunk capacity-1/+0/+1, 2 capacities, hundreds}; every TsIndexer.OnWrite call, WriteEvent.StartPos/EndPos, the chunk layout and the record-level read-back vs the Lean model; SPEC: notifications cover exactly the batch's positions, StartPos/EndPos delimit it, read-back = concatenation of acknowledged batches. non-trivial = at least one record written, distinct by (chunk size, batches)")
	n := 80 // bounded by open files: the library never closes chunk files before process exit (~25 descriptors per history)
	if args.Thorough {
		n = 250
	}
	cases := append([]wlCase{}, corpus...)
	// directed: an empty batch onto a full chunk; exactly one chunk; roll-over inside a batch with ts 0 after non-zero
	cases = append(cases,
		wlCase{MaxChunk: 14, Batches: [][]dEv{{{Ts: 5, Msg: ""}}, {}, {{Ts: 6, Msg: "x"}}}},
		wlCase{MaxChunk: 1, Batches: [][]dEv{{{Ts: 1, Msg: "a"}, {Ts: 2, Msg: "b"}, {Ts: 3, Msg: "c"}}}},
		wlCase{MaxChunk: 30, Batches: [][]dEv{{{Ts: 5, Msg: "aa"}, {Ts: 0, Msg: "bb"}, {Ts: 7, Msg: "cc"}, {Ts: -1, Msg: "dd"}}, {}}},
	)
	for i := 0; i < n; i++ {
		c := wlCase{MaxChunk: rng.PickI(chunkSizes)}
		nb := rng.Range(2, 8)
		for b := 0; b < nb; b++ {
			c.Batches = append(c.Batches, genDirectBatch(rng, c.MaxChunk, false))
		}
		cases = append(cases, c)
	}
	runParallel(len(cases), 8, "writeloop", func(i int, col *collector) { runWriteLoopCase(cases[i], col, sec) })
	res.Done(sec)
}

// sectionFaults: environment faults during a Write whose batch spans a chunk roll-over
func sectionFaults(rng *vh.Rng, corpus []wlCase) {
	sec := res.Section("faults", "system-correspondence",
		"fault injection on the hand-wired partition.Service: a first batch creates the partition and leaves its chunk open, then a batch that spans one or more chunk roll-overs (MaxChunkSize {1 … 257}) is written while (a) the Write's context gets cancelled at the moment record k is fetched (k around every chunk boundary: the next journal call — the one that must create the next chunk — fails), or (b) the process has no file descriptor left (/dev/null opened until EMFILE, released right after the Write; these cases run one at a time). IMPL vs MODEL (serviceWriteF under the same fault pattern): returned error, every OnWrite call, WriteEvent, layout, read-back. SPEC: Write returned nil => every event of the batch is read back exactly once, in order; Write returned an error => a prefix of the batch is stored; notifications/positions delimit exactly what was stored. non-trivial = every case")
	var cases []wlCase
	for _, c := range corpus {
		if len(c.Faults) > 0 {
			cases = append(cases, c)
		}
	}
	mk := func(maxChunk, msgLen, n1, n2 int, fault string) wlCase {
		return wlCase{MaxChunk: maxChunk, Batches: [][]dEv{genRun(rng, n1, msgLen, 1000), genRun(rng, n2, msgLen, 2000), genRun(rng, 2, msgLen, 3000)}, Faults: []string{"", fault, ""}}
	}
	n := 14
	if args.Thorough {
		n = 60
	}
	for i := 0; i < n; i++ {
		maxChunk := rng.PickI([]int{1, 30, 64, 100, 257})
		msgLen := rng.PickI([]int{0, 1, 5, 20})
		rs := 4 + 1 + 8 + 1 + msgLen
		capc := (maxChunk + rs - 1) / rs
		n1 := rng.Range(1, capc)
		n2 := rng.PickI([]int{capc - n1 + 1, capc, capc + 1, 2*capc + 1, 3 * capc})
		if n2 < 1 {
			n2 = 1
		}
		// cancel around the chunk boundaries of batch 2 (the first boundary is after capc-n1 records)
		k := rng.PickI([]int{0, capc - n1 - 1, capc - n1, capc - n1 + 1, 2*capc - n1, n2 - 1, n2})
		if k < 0 {
			k = 0
		}
		cases = append(cases, mk(maxChunk, msgLen, n1, n2, fmt.Sprintf("cancel:%d", k)))
	}
	runParallel(len(cases), 6, "faults", func(i int, col *collector) { runWriteLoopCase(cases[i], col, sec) })
	// descriptor exhaustion: strictly one case at a time, nothing else running
	var serial []wlCase
	m := 2
	if args.Thorough {
		m = 6
	}
	for i := 0; i < m; i++ {
		maxChunk := rng.PickI([]int{64, 100, 257})
		msgLen := rng.PickI([]int{1, 5, 20})
		rs := 4 + 1 + 8 + 1 + msgLen
		capc := (maxChunk + rs - 1) / rs
		n1 := rng.Range(1, capc)
		serial = append(serial, mk(maxChunk, msgLen, n1, rng.PickI([]int{capc - n1, capc - n1 + 1, 2 * capc}), "nonew"))
	}
	runParallel(len(serial), 1, "faults", func(i int, col *collector) { runWriteLoopCase(serial[i], col, sec) })
	res.Done(sec)
}

// runParallel runs f(i) on workers; every case has its own collector (its lines form one driver session starting with
// w.reset), merged in case order
func fdCount() int {
	d, err := os.ReadDir("/proc/self/fd")
	if err != nil {
		return -1
	}
	return len(d)
}

func runParallel(n, workers int, section string, f func(i int, col *collector)) {
	defer func(b int) {
		res.Note("%s: open file descriptors before %d, after %d", section, b, fdCount())
		if os.Getenv("C01_FD_DEBUG") != "" {
			d, _ := os.ReadDir("/proc/self/fd")
			kinds := map[string]int{}
			for _, e := range d {
				t, _ := os.Readlink("/proc/self/fd/" + e.Name())
				if i := strings.LastIndex(t, "."); i >= 0 && strings.HasPrefix(t, "/tmp") {
					t = "tmpfile" + t[i:]
				} else if strings.HasPrefix(t, "socket") {
					t = "socket"
				}
				kinds[t]++
			}
			res.Note("fd kinds: %v", kinds)
		}
	}(fdCount())
	cols := make([]*collector, n)
	tRun := time.Now()
	var wg sync.WaitGroup
	sem := make(chan struct{}, workers)
	for i := 0; i < n; i++ {
		wg.Add(1)
		sem <- struct{}{}
		go func(i int) {
			defer wg.Done()
			defer func() { <-sem }()
			cols[i] = &collector{section: section}
			// a panic of the code under test in this goroutine is a failure of the case, not of the harness
			defer func() {
				if r := recover(); r != nil {
					res.SpecFail(vh.SpecFailure{Section: section, Kind: "panic", Input: fmt.Sprintf("case %d of section %s (seed %d)", i, section, args.Seed),
						Impl: fmt.Sprint(r), Spec: "no panic", What: "the code under test panicked while executing a history"})
				}
			}()
			f(i, cols[i])
		}(i)
	}
	wg.Wait()
	tCases := time.Since(tRun)
	reapWG.Wait()
	tReap := time.Since(tRun) - tCases
	all := &collector{section: section}
	for _, c := range cols {
		all.merge(c)
	}
	// the model driver is single threaded: every case is one driver session of its own (it starts with w.reset), so the cases
	// are cut into contiguous groups that run on separate driver processes; the answers are put together in case order
	groups := 8
	if n < groups {
		groups = n
	}
	var ans []string
	if groups > 1 {
		parts := make([][]string, groups)
		errs := make([]error, groups)
		var dwg sync.WaitGroup
		for g := 0; g < groups; g++ {
			dwg.Add(1)
			go func(g int) {
				defer dwg.Done()
				var lines []string
				for _, c := range cols[g*n/groups : (g+1)*n/groups] {
					if c == nil {
						continue
					}
					for _, k := range c.chks {
						lines = append(lines, k.line)
					}
				}
				parts[g], errs[g] = vh.Batch(args.Driver, lines)
			}(g)
		}
		dwg.Wait()
		for g := 0; g < groups; g++ {
			if errs[g] != nil {
				res.Fatal(args.Out, "driver (%s): %v", section, errs[g])
			}
			ans = append(ans, parts[g]...)
		}
		if len(ans) != len(all.chks) {
			res.Fatal(args.Out, "driver (%s): %d answers for %d lines", section, len(ans), len(all.chks))
		}
	}
	all.finishWith(ans)
	res.Note("%s: %d cases on %d workers %.1fs, waiting for idle chunk writers to close %.1fs, model driver + comparison %.1fs", section, n, workers,
		tCases.Seconds(), tReap.Seconds(), (time.Since(tRun) - tCases - tReap).Seconds())
}

// ---------------------------------------------------------------------------------------------
// section system: the assembled server, direct and RPC writes, read back through backend.Querier and the RPC client

type sysOp struct {
	Kind    string `json:"kind"` // write | read
	Part    int    `json:"part"`
	Via     string `json:"via"`               // write: direct | rpc | raw ; read: querier | rpc
	Tags    HS     `json:"tags,omitempty"`    // the spelling of the partition's tags used by this write
	WFields HS     `json:"wfields,omitempty"` // write-level fields (KV text; rpc/raw only)
	Evs     []wEv  `json:"evs,omitempty"`     // events; Fields are KV text
	Cut     int    `json:"cut,omitempty"`     // raw: the request body is cut to this many bytes (0 = not cut)
	Page    int    `json:"page,omitempty"`    // read: page size (QueryRequest.Limit)
}

type sysCase struct {
	MaxChunk int     `json:"max_chunk"`
	MaxRec   int     `json:"max_rec"` // 0 = default
	Ops      []sysOp `json:"ops"`
}

type specEv struct {
	Ts     int64
	Msg    string
	Fields string // KV text as a reader sees it
}

func evSize(e *api.LogEvent) int {
	return 8 + xbinary.WritableStringSize(e.Message) + xbinary.WritableStringSize(e.Tags) + xbinary.WritableStringSize(e.Fields)
}

func readPart(srv *lrsrv.Srv, via, query string, page, max int) (evs []*api.LogEvent, err error) {
	req := &api.QueryRequest{Query: query, Limit: page}
	ctx := context.Background()
	for len(evs) <= max {
		var r *api.QueryResult
		if via == "rpc" {
			r = &api.QueryResult{}
			if err := srv.Client.Query(ctx, req, r); err != nil {
				return evs, err
			}
			if r.Err != nil {
				return evs, r.Err
			}
		} else {
			r, err = srv.Querier.Query(ctx, req)
			if err != nil && err != io.EOF {
				return evs, err
			}
			if r == nil {
				return evs, fmt.Errorf("Querier.Query returned neither a result nor an error")
			}
		}
		if len(r.Events) == 0 {
			break
		}
		for _, e := range r.Events {
			c := *e
			c.Message = string(append([]byte{}, e.Message...))
			evs = append(evs, &c)
		}
		nr := r.NextQueryRequest
		req = &nr
	}
	return evs, nil
}

func showSpecEvs(evs []specEv) string {
	b := make([]binEv, len(evs))
	for i, e := range evs {
		b[i] = binEv{e.Ts, e.Msg, e.Fields}
	}
	return showEvs(b)
}

// modelReadToText maps the model's read answer (binary fields) to what a reader sees (Fields.AsKVString, real code)
func modelReadToText(m string) string {
	if !strings.HasPrefix(m, "ok ") {
		return m
	}
	evs, ok := parseEvs(strings.TrimPrefix(m, "ok "))
	if !ok {
		return m
	}
	for i := range evs {
		evs[i].Fields = field.Fields(evs[i].Fields).AsKVString()
	}
	return "ok " + showEvs(evs)
}

func stripPos(m string) string {
	// "[n=k ]calls=[…] start=… end=… err=e" -> "calls=[…] err=e" ; "rejected" / err=1 -> "not-acknowledged"
	if m == "rejected" || strings.HasSuffix(m, "err=1") {
		return "not-acknowledged"
	}
	i := strings.Index(m, "calls=[")
	j := strings.Index(m, " start=")
	k := strings.LastIndex(m, " err=")
	if i < 0 || j < 0 || k < 0 {
		return m
	}
	return m[i:j] + m[k:]
}

func runSysCase(c sysCase, col *collector, sec *vh.Section) {
	dir := lrsrv.NewDir()
	srv, err := lrsrv.Start(dir, lrsrv.Opts{MaxChunkSize: c.MaxChunk, MaxRecordSize: c.MaxRec})
	if err != nil {
		os.RemoveAll(dir)
		res.Note("system: %v", err)
		return
	}
	defer reap(func() { srv.Stop(); os.RemoveAll(dir) })
	// the chunk configuration is read when a journal is created: make chunk writers close their files after 1 s of idleness
	// (the library keeps them open across Shutdown; thousands of histories would exhaust the descriptor limit)
	srv.Cfg.JrnlCtrlConfig.WriteIdleSec = 1
	rec := &recIdx{TsIndexer: srv.Parts.TsIndexer}
	srv.Parts.TsIndexer = rec
	maxRec := c.MaxRec
	if maxRec <= 0 {
		maxRec = defaultMaxRec
	}
	ctx := context.Background()

	type partSt struct {
		spec     []specEv
		poisoned bool // holds an acknowledged record longer than MaxRecordSize
		tags     string
		line     tag.Line
	}
	parts := map[int]*partSt{}
	type rawW struct {
		calls []idxCall
		acked bool
	}
	type step struct {
		op    sysOp
		w     rawW
		line  string
		impl  string // reads: final; writes: built at the end (dense chunk ids)
		pends []vh.SpecFailure
	}
	steps := make([]*step, 0, len(c.Ops))
	specFail := func(st *step, kind, finding, what, impl, spec string) {
		st.pends = append(st.pends, vh.SpecFailure{Section: "system", Kind: kind, Finding: finding, Input: c, Impl: clip(impl), Spec: clip(spec), What: what})
	}
	nEvents, nRoll := 0, 0
	for _, op := range c.Ops {
		st := &step{op: op}
		steps = append(steps, st)
		p := parts[op.Part]
		switch op.Kind {
		case "write":
			if p == nil {
				p = &partSt{tags: string(op.Tags)}
				if s, err := tag.Parse(string(op.Tags)); err == nil {
					p.line = s.Line()
				}
				parts[op.Part] = p
			}
			wfB, wfOK := parseKV(string(op.WFields))
			if op.Via == "direct" {
				wfB, wfOK = "", true
			}
			// what the partition must hold for each event (SPEC) and what the code is known to do (finding classes)
			adopted := make([]specEv, 0, len(op.Evs))
			direct := make([]dEv, 0, len(op.Evs))
			badEv, oversize := false, false
			for _, e := range op.Evs {
				efB, ok := parseKV(string(e.Fields))
				if !ok {
					badEv = true
					efB = ""
				}
				bin := string(wfB) + string(efB)
				d := dEv{Ts: e.Ts, Msg: e.Msg, Fields: HS(bin)}
				direct = append(direct, d)
				if recSize(d) > maxRec {
					oversize = true
				}
				adopted = append(adopted, specEv{e.Ts, string(e.Msg), field.Fields(bin).AsKVString()})
			}
			rec.take()
			var werr error
			cutShort := false
			switch op.Via {
			case "direct":
				werr = srv.Parts.Write(ctx, string(op.Tags), &litIt{evs: modelEvs(direct)}, false)
				st.line = fmt.Sprintf("w.write %d %s", op.Part, dEvLine(direct))
			case "rpc":
				var wr api.WriteResult
				werr = srv.Client.Write(ctx, string(op.Tags), string(op.WFields), apiEvs(op.Evs), &wr)
				if werr == nil {
					werr = wr.Err
				}
				buf := rpc.VerifC01EncodeWritePacket(string(op.Tags), string(op.WFields), apiEvs(op.Evs))
				st.line = fmt.Sprintf("w.wp %d %d %s %s", op.Part, maxRec, vh.Hx(buf), kvTable(textsOf(string(op.WFields), op.Evs)))
			case "raw":
				aevs := apiEvs(op.Evs)
				buf := rpc.VerifC01EncodeWritePacket(string(op.Tags), string(op.WFields), aevs)
				vb := buf
				if op.Cut > 0 && op.Cut < len(buf) {
					vb = buf[:op.Cut]
					cutShort = true
					// events wholly inside the prefix
					off := hdrLen(string(op.Tags), string(op.WFields))
					k := 0
					for k < len(aevs) && off+evSize(aevs[k]) <= op.Cut {
						off += evSize(aevs[k])
						k++
					}
					adopted = adopted[:k]
					direct = direct[:k]
					oversize = false
					for _, d := range direct {
						if recSize(d) > maxRec {
							oversize = true
						}
					}
				}
				werr = rpc.VerifC01ServeWritePacket(srv.Ctx, srv.Parts, append([]byte{}, vb...))
				// the export serves the body without the ingestor's record-size limit (0): raw bodies carry no oversize events
				st.line = fmt.Sprintf("w.wp %d 0 %s %s", op.Part, vh.Hx(vb), kvTable(textsOf(string(op.WFields), op.Evs)))
			}
			st.w = rawW{calls: rec.take(), acked: werr == nil}
			if len(st.w.calls) > 1 {
				nRoll++
			}
			res.Dist(sec, fmt.Sprintf("write via=%s acked=%v", op.Via, werr == nil))
			res.Dist(sec, "batch size "+sizeClass(len(op.Evs)))
			switch {
			case werr == nil:
				// acknowledged: every event must be served back
				if !wfOK {
					specFail(st, "malformed-write-fields-acked", "", "a write whose write-level field text does not parse is acknowledged (it must be rejected)", "acknowledged", "rejected")
				}
				if cutShort {
					specFail(st, "truncated-packet-acked", "F20b", // class: proper prefix of a well-formed packet, cut inside the events area
						fmt.Sprintf("a write packet cut to %d bytes is acknowledged; %d of its %d events are stored", op.Cut, len(adopted), len(op.Evs)), "acknowledged", "rejected")
				}
				if badEv {
					specFail(st, "unparsable-fields-dropped", "F20c", // class: write-level fields parse, some event's own field text does not
						"a write with an event whose field text does not parse is acknowledged; the event is stored without its fields", "acknowledged", "rejected")
				}
				if oversize {
					p.poisoned = true
				}
				p.spec = append(p.spec, adopted...)
				nEvents += len(adopted)
			default:
				// rejecting a write that holds a record the readers could not serve is what the property demands (repair of F20a)
				if wfOK && !cutShort && !badEv && !oversize && op.Tags != "" && p.line != "" {
					specFail(st, "valid-write-rejected", "", "a well-formed write is rejected: "+werr.Error(), "rejected", "acknowledged")
				}
			}
		case "read":
			if p == nil {
				p = &partSt{}
			}
			srv.FlushWait()
			if p.line != "" {
				if src, _, err := srv.TIndex.GetOrCreateJournal(p.tags); err == nil {
					waitConfirmed(ctx, srv.Journals, src, len(p.spec))
					srv.TIndex.Release(src)
				}
			}
			q := fmt.Sprintf("select from pk=%d", op.Part)
			evs, rerr := readPart(srv, op.Via, q, op.Page, len(p.spec)+10)
			st.line = fmt.Sprintf("w.read %d %d", op.Part, maxRec)
			res.Dist(sec, fmt.Sprintf("read via=%s ok=%v", op.Via, rerr == nil))
			if rerr != nil {
				if strings.Contains(rerr.Error(), "Too small buffer") {
					// how many events are served before the failure: page size 1
					pre, _ := readPart(srv, op.Via, q, 1, len(p.spec)+10)
					st.impl = fmt.Sprintf("toosmall %d", len(pre))
				} else {
					st.impl = "error " + rerr.Error()
				}
			} else {
				got := make([]binEv, len(evs))
				tagsOK := true
				for i, e := range evs {
					got[i] = binEv{e.Timestamp, e.Message, e.Fields}
					if e.Tags != string(p.line) {
						tagsOK = false
					}
				}
				st.impl = "ok " + showEvs(got)
				if !tagsOK {
					specFail(st, "wrong-tag-line", "", "an event read back does not carry the partition's tag line "+string(p.line), fmt.Sprint(evs[0].Tags), string(p.line))
				}
			}
			want := "ok " + showSpecEvs(p.spec)
			if st.impl != want {
				if p.poisoned && strings.HasPrefix(st.impl, "toosmall") {
					specFail(st, "acked-unservable-record", "F20a", // class: the partition holds an acknowledged record longer than MaxRecordSize
						"a record longer than MaxRecordSize was acknowledged; reading the partition fails with 'Too small buffer for read'", st.impl, want)
				} else {
					specFail(st, "readback-differs", "", "an unfiltered read of the partition is not the concatenation of the acknowledged batches (timestamp, message bytes, fields)", st.impl, want)
				}
			}
		}
	}
	// chunk ids -> dense, per partition
	dense := map[chunk.Id]int{}
	layouts := map[int][]int{}
	srv.FlushWait()
	for i, p := range parts {
		if p.line == "" {
			continue
		}
		src, _, err := srv.TIndex.GetOrCreateJournal(p.tags)
		if err != nil {
			continue
		}
		waitConfirmed(ctx, srv.Journals, src, len(p.spec))
		layouts[i], _ = layoutOf(ctx, srv.Journals, src, dense)
		srv.TIndex.Release(src)
	}
	col.add(chk{line: fmt.Sprintf("w.reset %d", c.MaxChunk), impl: "ok", fn: "reset", input: c})
	for _, st := range steps {
		var at int
		switch st.op.Kind {
		case "write":
			impl := "not-acknowledged"
			if st.w.acked {
				impl = showCalls(st.w.calls, dense) + " err=0"
			}
			at = col.add(chk{line: st.line, impl: impl, norm: stripPos, fn: "Service.Write via " + st.op.Via + " (acknowledgement, OnWrite calls)", input: c,
				skip: func(m string) bool { return m == "unknown-text" }})
		case "read":
			at = col.add(chk{line: st.line, impl: st.impl, norm: modelReadToText, fn: "unfiltered read via " + st.op.Via, input: c})
		}
		for _, sf := range st.pends {
			col.specFailAt(at, sf)
		}
	}
	ids := make([]int, 0, len(layouts))
	for i := range layouts {
		ids = append(ids, i)
	}
	sort.Ints(ids)
	for _, i := range ids {
		col.add(chk{line: fmt.Sprintf("w.layout %d", i), impl: showInts(layouts[i]), fn: "journal.Write (chunk layout)", input: c})
	}
	key := ""
	if nEvents > 0 {
		key = fmt.Sprintf("%d/%d/%v", c.MaxChunk, c.MaxRec, c.Ops)
		if len(key) > 4000 {
			key = key[:4000] + strconv.Itoa(len(key))
		}
	}
	res.Eval(sec, key)
	res.Dist(sec, fmt.Sprintf("maxChunk=%d", c.MaxChunk))
	res.Dist(sec, fmt.Sprintf("maxRec=%d", c.MaxRec))
	res.Dist(sec, fmt.Sprintf("writes-with-rollover=%d", nRoll))
}

func sizeClass(n int) string {
	switch {
	case n <= 2:
		return strconv.Itoa(n)
	case n < 20:
		return "3-19"
	case n < 100:
		return "20-99"
	case n < 1000:
		return "100-999"
	default:
		return ">=1000"
	}
}

// partition tag texts: pk=<i> makes `select from pk=<i>` select exactly this partition; extras are tricky but valid
var tagExtras = []string{"", `,zone="a b"`, `,k="x,y"`, ",n=\xc3\xa9", ",e=", `,q="a\"b"`, ",dc=us-1,rack=r_2"}

// alias spellings of the same tag set (identity is tag-set equality): validated with the real parser
func tagSpellings(i int, extra string) []string {
	base := fmt.Sprintf("pk=%d%s", i, extra)
	cands := []string{base, "{" + base + "}", " " + base + " "}
	if extra != "" {
		cands = append(cands, strings.TrimPrefix(extra, ",")+fmt.Sprintf(",pk=%d", i))
		cands = append(cands, strings.Replace(base, ",", " , ", -1))
	}
	bs, err := tag.Parse(base)
	if err != nil {
		return []string{fmt.Sprintf("pk=%d", i)}
	}
	out := []string{}
	for _, c := range cands {
		if s, err := tag.Parse(c); err == nil && s.Line() == bs.Line() {
			out = append(out, c)
		}
	}
	return out
}

// msgForRecordSize returns a message length such that the marshalled record (no fields) has exactly size bytes; -1 if impossible
func msgLenForRecordSize(size int) int {
	for l := size - 12; l <= size-10 && l >= 0; l++ {
		if 1+8+xbinary.WritableUintSize(uint64(l))+l == size {
			return l
		}
	}
	return -1
}

func genSysCase(r *vh.Rng, thorough bool) sysCase {
	c := sysCase{MaxChunk: r.PickI(chunkSizes)}
	if r.Chance(1, 2) {
		c.MaxRec = r.PickI([]int{40, 64, 128, 300})
	}
	maxRec := c.MaxRec
	if maxRec == 0 {
		maxRec = defaultMaxRec
	}
	nparts := r.Range(1, 3)
	spell := make([][]string, nparts)
	for i := range spell {
		spell[i] = tagSpellings(i, r.PickS(tagExtras))
	}
	allowOversize := c.MaxRec != 0 && r.Chance(1, 4)
	allowBad := r.Chance(1, 6)
	nops := r.Range(2, 7)
	for o := 0; o < nops; o++ {
		part := r.Intn(nparts)
		if r.Chance(1, 5) && o > 0 {
			c.Ops = append(c.Ops, sysOp{Kind: "read", Part: part, Via: r.PickS([]string{"querier", "rpc"}), Page: r.PickI([]int{1, 2, 3, 7, 100, 10000})})
			continue
		}
		op := sysOp{Kind: "write", Part: part, Via: r.PickS([]string{"direct", "rpc", "rpc", "raw"}), Tags: HS(r.PickS(spell[part]))}
		batch := genDirectBatch(r, c.MaxChunk, thorough && r.Chance(1, 6))
		if op.Via != "direct" {
			op.WFields = HS(r.PickS(validFieldTexts))
			if len(op.WFields) > 100 && c.MaxRec != 0 {
				op.WFields = "w=1"
			}
		}
		for _, d := range batch {
			e := wEv{Ts: d.Ts, Msg: d.Msg}
			if r.Chance(1, 3) {
				e.Fields = HS(r.PickS(validFieldTexts))
				if len(e.Fields) > 100 && c.MaxRec != 0 {
					e.Fields = "f=2"
				}
			}
			if op.Via != "direct" && r.Chance(1, 6) {
				e.ETags = HS(r.PickS(pktTags))
			}
			op.Evs = append(op.Evs, e)
		}
		// keep records within MaxRecordSize unless this history is about oversize records: clip messages
		wfB, _ := parseKV(string(op.WFields))
		for i := range op.Evs {
			efB, _ := parseKV(string(op.Evs[i].Fields))
			for recSize(dEv{Ts: 0, Msg: op.Evs[i].Msg, Fields: HS(string(wfB) + string(efB))}) > maxRec && len(op.Evs[i].Msg) > 0 {
				op.Evs[i].Msg = op.Evs[i].Msg[:len(op.Evs[i].Msg)/2]
			}
			if recSize(dEv{Ts: 0, Msg: op.Evs[i].Msg, Fields: HS(string(wfB) + string(efB))}) > maxRec {
				op.Evs[i].Fields = ""
				if op.Via != "direct" {
					op.WFields = ""
				}
			}
		}
		// boundary records: exactly MaxRecordSize-1 / MaxRecordSize, and (only in oversize histories) MaxRecordSize+1
		if c.MaxRec != 0 && len(op.Evs) > 0 && r.Chance(1, 2) {
			deltas := []int{-1, 0}
			if allowOversize && op.Via == "rpc" {
				// above the limit only through the RPC client: that is the write path of the property (ServerIngestor.write); in-process
				// callers of partition.Service.Write are not clients
				deltas = []int{-1, 0, 1, 1, 30}
			}
			sz := c.MaxRec + r.PickI(deltas)
			// half of the boundary records of RPC/raw writes carry a write-level field and no own fields: the stored record then has
			// a fields part of 1 (length prefix) + 4 bytes (`w=1`) that exists only because of the write-level fields — a size test
			// that forgets them, or only their length prefix, is off exactly here
			withWF := op.Via != "direct" && r.Chance(1, 2)
			fieldsPart := 0
			if withWF {
				fieldsPart = 5
			}
			if l := msgLenForRecordSize(sz - fieldsPart); l >= 0 {
				i := r.Intn(len(op.Evs))
				op.Evs[i].Msg = HS(genBytes(r, l))
				op.Evs[i].Fields = ""
				if op.Via != "direct" {
					op.WFields = ""
					if withWF {
						op.WFields = "w=1"
						// the other events of the batch get the write-level field too: keep them inside the limit
						for k := range op.Evs {
							if k == i {
								continue
							}
							efB, _ := parseKV(string(op.Evs[k].Fields))
							for recSize(dEv{Ts: 0, Msg: op.Evs[k].Msg, Fields: HS("\x01w\x011" + string(efB))}) > maxRec && len(op.Evs[k].Msg) > 0 {
								op.Evs[k].Msg = op.Evs[k].Msg[:len(op.Evs[k].Msg)/2]
							}
							if recSize(dEv{Ts: 0, Msg: op.Evs[k].Msg, Fields: HS("\x01w\x011" + string(efB))}) > maxRec {
								op.Evs[k].Fields = ""
							}
						}
					}
				}
			}
		}
		if op.Via == "raw" && r.Chance(1, 2) {
			buf := rpc.VerifC01EncodeWritePacket(string(op.Tags), string(op.WFields), apiEvs(op.Evs))
			op.Cut = r.Range(1, len(buf))
			if op.Cut == len(buf) {
				op.Cut = 0
			}
		}
		if allowBad && op.Via != "direct" && len(op.Evs) > 0 && r.Chance(1, 2) {
			op.Evs[r.Intn(len(op.Evs))].Fields = HS(r.PickS(invalidFieldTexts[:3]))
		}
		// adjacent events of identical layout (equal message length, fields of equal encoded length) but different field
		// values: a reader that compares an event's fields with a stale alias of the previous event's would mix them up
		if c.MaxRec == 0 && len(op.Evs) >= 2 && r.Chance(1, 3) {
			vals := []string{"k=a", "k=b", "j=a", "k=c", "j=b"}
			l := r.PickI([]int{0, 1, 5})
			for i := range op.Evs {
				op.Evs[i].Msg = HS(genBytes(r, l))
				op.Evs[i].Fields = HS(vals[(i+r.Intn(2))%len(vals)])
			}
		}
		// a malformed WRITE-LEVEL field text (value longer than 255 bytes, empty name, key without value, unterminated
		// quote, …): the whole write must be rejected
		if op.Via != "direct" && r.Chance(1, 8) {
			op.WFields = HS(r.PickS(invalidFieldTexts))
			op.Cut = 0
		}
		c.Ops = append(c.Ops, op)
	}
	for i := 0; i < nparts; i++ {
		c.Ops = append(c.Ops, sysOp{Kind: "read", Part: i, Via: "querier", Page: r.PickI([]int{3, 1000, 10000})})
		c.Ops = append(c.Ops, sysOp{Kind: "read", Part: i, Via: "rpc", Page: r.PickI([]int{5, 1000, 10000})})
	}
	return c
}

func sectionSystem(rng *vh.Rng, corpus []sysCase) {
	sec := res.Section("system", "system-correspondence",
		"lrsrv.Start (all components, temp dir) with generated MaxChunkSize {1 … 4096} and MaxRecordSize {default, 40, 64, 128, 300}; histories of 2..7 writes to 1..3 partitions (tag texts with quoted values, alias spellings of one tag set) through partition.Service.Write directly, the loop-back RPC client, and raw request bodies (whole or cut) served like ServerIngestor.write does; batch sizes {0,1,2, chunk capacity±1, hundreds (thorough: thousands)}, hostile message bytes, records 1 below/at/above MaxRecordSize, valid tricky field texts (a sixth of the histories also unparsable ones); interleaved and final unfiltered reads through backend.Querier and the RPC client with page sizes {1 … 10000}, store quiescent (flush awaited). IMPL vs MODEL: acknowledgement, every OnWrite call, chunk layout, read-back; IMPL vs SPEC: read-back = concatenation of acknowledged batches per partition with write-level fields before own fields and the partition's tag line; unservable/malformed writes must be rejected. non-trivial = at least one event stored, distinct by history")
	n := 140
	if args.Thorough {
		n = 350
	}
	cases := append([]sysCase{}, corpus...)
	for i := 0; i < n; i++ {
		cases = append(cases, genSysCase(rng, args.Thorough))
	}
	for i := 0; i < 2 && i < len(cases); i++ {
		c := cases[len(cases)-1-i]
		if len(fmt.Sprint(c)) < 3000 {
			res.Sample(map[string]interface{}{"section": "system", "input": c})
		}
	}
	runParallel(len(cases), 16, "system", func(i int, col *collector) { runSysCase(cases[i], col, sec) })
	res.Done(sec)
}
