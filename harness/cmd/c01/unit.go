package main

import (
	"fmt"
	"strings"

	"github.com/logrange/logrange/api/rpc"
	"github.com/logrange/logrange/pkg/model"
	"github.com/logrange/logrange/pkg/model/field"
	"github.com/logrange/range/pkg/utils/encoding/xbinary"
	"verifharness/internal/vh"
)

// ---------------------------------------------------------------------------------------------
// section event: model.LogEvent record codec

type evCase struct {
	Kind   string `json:"kind"` // roundtrip | raw
	Ts     int64  `json:"ts,omitempty"`
	Msg    HS     `json:"msg,omitempty"`
	Fields HS     `json:"fields,omitempty"` // binary field.Fields
	Prev   HS     `json:"prev,omitempty"`   // value of le.Fields before Unmarshal ("" = a released event)
	Buf    HS     `json:"buf,omitempty"`    // raw: the bytes handed to Unmarshal
}

func realUnmarshal(prev string, buf []byte) string {
	out := ""
	p := vh.Recover(func() {
		le := model.LogEvent{Fields: field.Fields(prev)}
		n, err := le.Unmarshal(buf, true)
		if err != nil {
			out = "err"
			return
		}
		out = fmt.Sprintf("ok %d %s %s %s", n, tsU(le.Timestamp), vh.Hx(le.Msg), vh.HxS(string(le.Fields)))
	})
	if p != "" {
		return "panic"
	}
	return out
}

func runEventCase(c evCase, col *collector, sec *vh.Section) []byte {
	switch c.Kind {
	case "roundtrip":
		le := model.LogEvent{Timestamp: c.Ts, Msg: []byte(c.Msg), Fields: field.Fields(c.Fields)}
		sz := le.WritableSize()
		buf := make([]byte, sz)
		n, err := le.Marshal(buf)
		impl := fmt.Sprintf("%s %d", vh.Hx(buf), sz)
		if err != nil || n != sz {
			impl = fmt.Sprintf("marshal-error n=%d size=%d err=%v", n, sz, err)
		}
		col.add(chk{line: fmt.Sprintf("ev.marshal %s %s %s", tsU(c.Ts), vh.HxS(string(c.Msg)), vh.HxS(string(c.Fields))), impl: impl,
			fn: "model.LogEvent.Marshal/WritableSize", input: c})
		um := realUnmarshal(string(c.Prev), buf)
		col.add(chk{line: fmt.Sprintf("ev.unmarshal %s %s", vh.HxS(string(c.Prev)), vh.Hx(buf)), impl: um, fn: "model.LogEvent.Unmarshal", input: c})
		key := ""
		if len(c.Msg) > 0 || len(c.Fields) > 0 {
			key = fmt.Sprintf("%d/%x/%x/%x", c.Ts, string(c.Msg), string(c.Fields), string(c.Prev))
		}
		res.Eval(sec, key)
		res.Dist(sec, fmt.Sprintf("roundtrip fields=%v prev=%v msglen=%s", len(c.Fields) > 0, len(c.Prev) > 0, lenClass(len(c.Msg))))
		// SPEC: a record unmarshalled into a released event is the event that was marshalled, and all bytes are consumed
		if c.Prev == "" {
			want := fmt.Sprintf("ok %d %s %s %s", sz, tsU(c.Ts), vh.HxS(string(c.Msg)), vh.HxS(string(c.Fields)))
			if um != want {
				res.SpecFail(vh.SpecFailure{Section: "event", Kind: "record-roundtrip", Input: c, Impl: clip(um), Spec: clip(want),
					What: "LogEvent.Unmarshal(LogEvent.Marshal(e)) is not e"})
			}
		}
		return buf
	case "raw":
		um := realUnmarshal(string(c.Prev), []byte(c.Buf))
		col.add(chk{line: fmt.Sprintf("ev.unmarshal %s %s", vh.HxS(string(c.Prev)), vh.HxS(string(c.Buf))), impl: um, fn: "model.LogEvent.Unmarshal", input: c})
		res.Eval(sec, "raw/"+string(c.Buf))
		res.Dist(sec, "raw "+strings.Fields(um)[0])
	}
	return nil
}

func lenClass(n int) string {
	switch {
	case n == 0:
		return "0"
	case n < 127:
		return "<127"
	case n <= 129:
		return "127-129"
	case n < 16383:
		return "<16383"
	default:
		return ">=16383"
	}
}

var specialLens = []uint64{0, 1, 2, 0x7f, 0x80, 0xff, 1 << 31, 1 << 63, 1<<64 - 1, 1<<63 - 1, 1<<63 - 9, 1<<63 - 10}

func varint(v uint64) []byte {
	var vb []byte
	for {
		if v > 127 {
			vb = append(vb, byte(128|(v&127)))
		} else {
			return append(vb, byte(v))
		}
		v >>= 7
	}
}

// corrupt overwrites or inserts a varint of a special length at a random position
func corrupt(r *vh.Rng, buf []byte) []byte {
	if len(buf) == 0 {
		return buf
	}
	p := r.Intn(len(buf))
	vb := varint(specialLens[r.Intn(len(specialLens))])
	if r.Bool() && p+len(vb) <= len(buf) {
		return append(append(append([]byte{}, buf[:p]...), vb...), buf[p+len(vb):]...)
	}
	return append(append(append([]byte{}, buf[:p]...), vb...), buf[p:]...)
}

func sectionEvent(rng *vh.Rng, corpus []evCase) {
	sec := res.Section("event", "unit-correspondence",
		"model.LogEvent: Marshal/WritableSize and Unmarshal vs the Lean codec on events with boundary timestamps, hostile message bytes (empty, NUL, non-UTF-8; lengths around the varint boundaries 127/128 and 16383/16384), arbitrary binary fields, Unmarshal into a released and into a non-released event; every truncation of small records and special-length corruptions (Unmarshal only). SPEC: Unmarshal(Marshal(e)) = e consuming all bytes. non-trivial = non-empty message or fields, distinct by content")
	col := &collector{section: "event"}
	for _, c := range corpus {
		runEventCase(c, col, sec)
	}
	n := 4000
	if args.Thorough {
		n = 20000
	}
	// exhaustive small domain: boundary timestamps x small messages x {no fields, fields}
	for _, ts := range tsBoundary {
		for _, m := range []string{"", "\x00", "a", "\xff\xfe"} {
			for _, f := range []string{"", "\x01k\x01v", "\x00\x00"} {
				runEventCase(evCase{Kind: "roundtrip", Ts: ts, Msg: HS(m), Fields: HS(f)}, col, sec)
			}
		}
	}
	for _, l := range []int{126, 127, 128, 129, 16382, 16383, 16384, 16385} {
		runEventCase(evCase{Kind: "roundtrip", Ts: 7, Msg: HS(genBytes(rng, l))}, col, sec)
		runEventCase(evCase{Kind: "roundtrip", Ts: -7, Msg: "m", Fields: HS(genBytes(rng, l))}, col, sec)
	}
	for i := 0; i < n; i++ {
		c := evCase{Kind: "roundtrip", Ts: genTs(rng), Msg: HS(genMsg(rng)), Fields: HS(genFieldsBin(rng))}
		if rng.Chance(1, 5) {
			c.Prev = HS(genFieldsBin(rng))
		}
		buf := runEventCase(c, col, sec)
		if i < 2 {
			res.Sample(map[string]interface{}{"section": "event", "input": c})
		}
		if i%4 == 0 && len(buf) <= 80 {
			for cut := 0; cut < len(buf); cut++ {
				runEventCase(evCase{Kind: "raw", Prev: c.Prev, Buf: HS(buf[:cut])}, col, sec)
			}
		}
		if i%3 == 0 {
			for k := 0; k < 4; k++ {
				runEventCase(evCase{Kind: "raw", Prev: c.Prev, Buf: HS(corrupt(rng, buf))}, col, sec)
			}
		}
	}
	col.finish()
	res.Done(sec)
}

// ---------------------------------------------------------------------------------------------
// section packet: RPC write packet, client encoder and server decoder

type pktCase struct {
	Tags    HS    `json:"tags"`
	WFields HS    `json:"wfields,omitempty"`
	Evs     []wEv `json:"evs"`
	Cut     int   `json:"cut"`               // -1: whole packet; otherwise the first Cut bytes only
	Corrupt HS    `json:"corrupt,omitempty"` // if set: these bytes are decoded instead (a corrupted variant of the packet)
}

// scanTexts walks a (possibly corrupted) packet with the xbinary primitives to find the field texts the decoder may
// hand to the field parser; used only to build the parse table for the model (a miss = the case is skipped).
func scanTexts(buf []byte) (texts []string) {
	vh.Recover(func() {
		idx, _, err := xbinary.UnmarshalString(buf, true)
		if err != nil {
			return
		}
		n, flds, err := xbinary.UnmarshalString(buf[idx:], true)
		if err != nil {
			return
		}
		texts = append(texts, flds)
		idx += n
		n, cnt, err := xbinary.UnmarshalUint32(buf[idx:])
		if err != nil {
			return
		}
		idx += n
		for i := uint32(0); i < cnt && i < 64; i++ {
			n, _, err := xbinary.UnmarshalUint64(buf[idx:])
			if err != nil {
				return
			}
			idx += n
			for k := 0; k < 3; k++ {
				n, s, err := xbinary.UnmarshalString(buf[idx:], true)
				if err != nil {
					return
				}
				idx += n
				if k == 2 {
					texts = append(texts, s)
				}
			}
		}
	})
	return
}

func hdrLen(tags, wf string) int {
	return xbinary.WritableStringSize(tags) + xbinary.WritableStringSize(wf) + 4
}

func runPacketCase(c pktCase, col *collector, sec *vh.Section) []byte {
	buf := rpc.VerifC01EncodeWritePacket(string(c.Tags), string(c.WFields), apiEvs(c.Evs))
	vb := buf
	kind := "whole"
	texts := textsOf(string(c.WFields), c.Evs)
	switch {
	case c.Corrupt != "":
		vb = []byte(c.Corrupt)
		kind = "corrupt"
		texts = append(texts, scanTexts(vb)...)
	case c.Cut >= 0 && c.Cut < len(buf):
		vb = buf[:c.Cut]
		kind = "cut"
	}
	if kind == "whole" {
		col.add(chk{line: fmt.Sprintf("wp.encode %s %s %s", vh.HxS(string(c.Tags)), vh.HxS(string(c.WFields)), wEvLine(c.Evs)), impl: vh.Hx(buf),
			fn: "rpc.writePacket.WriteTo", input: c})
	}
	tags, devs, rs := rpc.VerifC01DecodeWritePacket(vb)
	impl := rs
	var got []binEv
	if rs == "ok" {
		for _, e := range devs {
			got = append(got, binEv{e.Ts, e.Msg, e.Fields})
		}
		impl = "ok " + vh.HxS(tags) + " " + showEvs(got)
	}
	tbl := kvTable(texts)
	at := col.add(chk{line: fmt.Sprintf("wp.decode %s %s", vh.Hx(vb), tbl), impl: impl, fn: "rpc.wpIterator.init/Get/Next", input: c,
		skip: func(m string) bool { return m == "unknown-text" }})
	key := ""
	if len(c.Evs) > 0 {
		key = fmt.Sprintf("%s/%x", kind, vb)
	}
	res.Eval(sec, key)
	res.Dist(sec, kind+" "+rs)

	_, wfOK := parseKV(string(c.WFields))
	badEv := false
	for _, e := range c.Evs {
		if _, ok := parseKV(string(e.Fields)); !ok {
			badEv = true
		}
	}
	switch kind {
	case "whole":
		// SPEC (driver side, storedSpec): same timestamp, same message, write-level fields then the event's own; a packet whose
		// field text does not parse must be rejected
		col.add(chk{line: fmt.Sprintf("wp.spec %s %s %s", vh.HxS(string(c.WFields)), wEvLine(c.Evs), tbl), impl: "", fn: "SPEC", input: c,
			skip: func(string) bool { return true },
			after: func(spec string) {
				switch {
				case spec == "reject" && rs == "err":
				case spec == "reject" && rs == "ok":
					sf := vh.SpecFailure{Section: "packet", Kind: "unparsable-fields-dropped", Input: c, Impl: clip(impl), Spec: "reject",
						What: "a write packet with field text that does not parse is accepted; the fields are dropped"}
					if wfOK && badEv {
						sf.Finding = "F20c" // class: write-level fields parse, some event's own non-empty field text does not
					}
					if !wfOK {
						sf.Kind = "malformed-write-fields-acked"
						sf.What = "a write packet whose WRITE-LEVEL field text does not parse is accepted (it must be rejected)"
					}
					col.specFailAt(at, sf)
				case strings.HasPrefix(spec, "ok "):
					want := "ok " + vh.HxS(string(c.Tags)) + " " + strings.TrimPrefix(spec, "ok ")
					if impl != want {
						col.specFailAt(at, vh.SpecFailure{Section: "packet", Kind: "packet-roundtrip", Input: c, Impl: clip(impl), Spec: clip(want),
							What: "decoding the encoded write packet does not give (tags, events with write-level fields followed by own fields)"})
					}
				default:
					col.specFailAt(at, vh.SpecFailure{Section: "packet", Kind: "packet-roundtrip", Input: c, Impl: clip(impl), Spec: clip(spec),
						What: "decoder outcome differs from the specification"})
				}
			}})
	case "cut":
		// SPEC: a packet shorter than its own count field announces is malformed and must be rejected
		if rs == "ok" {
			sf := vh.SpecFailure{Section: "packet", Kind: "truncated-packet-acked", Input: c, Impl: clip(impl), Spec: "reject",
				What: fmt.Sprintf("a write packet truncated to %d of %d bytes is accepted with %d of its %d events", c.Cut, len(buf), len(got), len(c.Evs))}
			if c.Cut >= hdrLen(string(c.Tags), string(c.WFields)) && len(got) < len(c.Evs) && wfOK {
				sf.Finding = "F20b" // class: proper prefix of a well-formed packet, cut inside the events area
			}
			col.specFailAt(at, sf)
		}
	}
	return buf
}

var pktTags = []string{"a=b", "", "x=y,z=1", `name="a b",k="x,y"`, "{a=1}", "n=\xc3\xa9", strings.Repeat("t", 130) + "=1"}

func genPktEvents(r *vh.Rng, n int, invalid bool) []wEv {
	evs := make([]wEv, n)
	for i := range evs {
		evs[i] = wEv{Ts: genTs(r), Msg: HS(genMsg(r)), Fields: HS(r.PickS(validFieldTexts))}
		if r.Chance(1, 4) {
			evs[i].ETags = HS(r.PickS(pktTags))
		}
	}
	if invalid && n > 0 {
		evs[r.Intn(n)].Fields = HS(r.PickS(invalidFieldTexts))
	}
	return evs
}

func sectionPacket(rng *vh.Rng, corpus []pktCase) {
	sec := res.Section("packet", "unit-correspondence",
		"RPC write packet: the real client encoder (writePacket.WriteTo) vs the Lean encoder; the real server decoder (wpIterator.init, Get twice, Next) vs the Lean decoder on whole packets, every truncation of small packets, and special-length corruptions; SPEC (driver: storedSpec): decoded = (tags, events with same ts/msg and write-level fields followed by own fields), unparsable field text or a truncated packet must be rejected. non-trivial = at least one event, distinct by decoded bytes")
	col := &collector{section: "packet"}
	for _, c := range corpus {
		runPacketCase(c, col, sec)
	}
	n := 600
	if args.Thorough {
		n = 3000
	}
	// directed: every malformed write-level field text, with 0, 1 and 2 well-formed events — must be rejected by init
	for _, wf := range invalidFieldTexts {
		for k := 0; k < 3; k++ {
			runPacketCase(pktCase{Tags: "a=b", WFields: HS(wf), Evs: genPktEvents(rng, k, false), Cut: -1}, col, sec)
		}
	}
	for i := 0; i < n; i++ {
		k := rng.PickI([]int{0, 1, 1, 2, 3, 5})
		if rng.Chance(1, 40) {
			k = rng.Range(100, 400)
		}
		c := pktCase{Tags: HS(rng.PickS(pktTags)), WFields: HS(rng.PickS(validFieldTexts)), Cut: -1}
		inv := rng.Chance(1, 10)
		if rng.Chance(1, 25) {
			c.WFields = HS(rng.PickS(invalidFieldTexts))
		}
		c.Evs = genPktEvents(rng, k, inv)
		buf := runPacketCase(c, col, sec)
		if i < 2 {
			res.Sample(map[string]interface{}{"section": "packet", "input": c})
		}
		if len(buf) <= 200 && i%2 == 0 {
			for cut := 0; cut < len(buf); cut++ {
				cc := c
				cc.Cut = cut
				runPacketCase(cc, col, sec)
			}
		} else if len(buf) <= 4000 {
			for j := 0; j < 6; j++ {
				cc := c
				cc.Cut = rng.Intn(len(buf))
				runPacketCase(cc, col, sec)
			}
		}
		if len(buf) <= 4000 {
			for j := 0; j < 8; j++ {
				cc := c
				cc.Corrupt = HS(corrupt(rng, buf))
				runPacketCase(cc, col, sec)
			}
		}
	}
	col.finish()
	res.Done(sec)
}
