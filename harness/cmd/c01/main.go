// C01 harness — acknowledged writes are read back intact, exactly once, in write order.
//
// Sections
//
//	event      unit: model.LogEvent Marshal/WritableSize/Unmarshal vs the Lean record codec; SPEC: round trip
//	packet     unit: real client encoder + real server decoder (api/rpc/export_c01_verif.go) vs the Lean packet model;
//	           SPEC (driver): stored events = same ts/msg, write-level fields then own fields; malformed ⇒ rejected
//	writeloop  system: partition.Service wired by hand — every OnWrite call, WriteEvent positions, chunk layout, record-level
//	           read-back vs the Lean write loop; SPEC: notifications/positions delimit exactly the batch
//	system     system: the assembled server (lrsrv.Start), direct + RPC + raw-packet writes, reads through backend.Querier
//	           and the RPC client; SPEC: read-back = concatenation of acknowledged batches per partition
//	stress     thorough only: K free-running writers (RPC and direct, shared and private partitions) + concurrent readers;
//	           the exactly-once/order/content property is checked on a final read after all writers finished and flushed
package main

import (
	"context"
	"encoding/json"
	"fmt"
	"hash/fnv"
	"os"
	"strings"
	"sync"
	"sync/atomic"
	"syscall"
	"time"

	"github.com/logrange/logrange/api"
	"github.com/logrange/logrange/api/rpc"
	"github.com/logrange/logrange/pkg/model"
	"github.com/logrange/range/pkg/transport"
	"verifharness/internal/lrsrv"
	"verifharness/internal/vh"
)

var (
	args vh.Args
	res  *vh.Result
)

type corpusDoc struct {
	Section string          `json:"section"`
	Input   json.RawMessage `json:"input"`
}

type corpusSets struct {
	ev  []evCase
	pkt []pktCase
	wl  []wlCase
	sys []sysCase
}

func (cs *corpusSets) add(d corpusDoc) bool {
	switch d.Section {
	case "event":
		var c evCase
		if json.Unmarshal(d.Input, &c) == nil {
			cs.ev = append(cs.ev, c)
			return true
		}
	case "packet":
		var c pktCase
		if json.Unmarshal(d.Input, &c) == nil {
			cs.pkt = append(cs.pkt, c)
			return true
		}
	case "writeloop":
		var c wlCase
		if json.Unmarshal(d.Input, &c) == nil {
			cs.wl = append(cs.wl, c)
			return true
		}
	case "system":
		var c sysCase
		if json.Unmarshal(d.Input, &c) == nil {
			cs.sys = append(cs.sys, c)
			return true
		}
	}
	return false
}

// ---------------------------------------------------------------------------------------------
// stress (thorough tier): free-running writers and readers; the property is checked on the final read

func payload(w, seq int) string {
	h := fnv.New64a()
	fmt.Fprintf(h, "%d/%d", w, seq)
	x := h.Sum64()
	b := make([]byte, int(x%23))
	for i := range b {
		b[i] = byte(x >> (uint(i%8) * 8))
		if i%5 == 0 {
			b[i] = 0
		}
	}
	return string(b)
}

func stressMsg(w, seq int) string { return fmt.Sprintf("w%d-%d|%s", w, seq, payload(w, seq)) }

func parseStressMsg(m string) (w, seq int, ok bool) {
	i := strings.IndexByte(m, '|')
	if i < 0 {
		return 0, 0, false
	}
	if _, err := fmt.Sscanf(m[:i], "w%d-%d", &w, &seq); err != nil {
		return 0, 0, false
	}
	return w, seq, m[i+1:] == payload(w, seq)
}

type stressCase struct {
	MaxChunk int   `json:"max_chunk"`
	Writers  int   `json:"writers"`
	Batches  int   `json:"batches"`
	Seed     int64 `json:"seed"`
}

func runStress(c stressCase, sec *vh.Section) {
	dir := lrsrv.NewDir()
	defer os.RemoveAll(dir)
	srv, err := lrsrv.Start(dir, lrsrv.Opts{MaxChunkSize: c.MaxChunk})
	if err != nil {
		res.Note("stress: %v", err)
		return
	}
	defer srv.Stop()
	srv.Cfg.JrnlCtrlConfig.WriteIdleSec = 1
	fail := func(kind, what, impl, spec string) {
		res.SpecFail(vh.SpecFailure{Section: "stress", Kind: kind, Input: c, Impl: clip(impl), Spec: clip(spec), What: what})
	}
	// acked[w][part] = sequence numbers acknowledged, in write order
	acked := make([]map[int][]int, c.Writers)
	var wg sync.WaitGroup
	var stop int32
	for w := 0; w < c.Writers; w++ {
		acked[w] = map[int][]int{}
		wg.Add(1)
		go func(w int) {
			defer wg.Done()
			r := vh.NewRng(c.Seed).Fork(fmt.Sprintf("writer%d", w))
			var cl api.Client
			if w%3 != 2 {
				cc, err := rpc.NewClient(transport.Config{ListenAddr: srv.Addr})
				if err != nil {
					res.Note("stress: client: %v", err)
					return
				}
				defer cc.Close()
				cl = cc
			}
			seq := 0
			for b := 0; b < c.Batches; b++ {
				n := 1 + r.Intn(9)
				if r.Chance(1, 10) {
					n = 40 + r.Intn(60)
				}
				part := 0
				if b%3 == 0 {
					part = w + 1
				}
				tags := fmt.Sprintf("pk=%d", part)
				var seqs []int
				var werr error
				if cl != nil {
					evs := make([]*api.LogEvent, n)
					for i := range evs {
						evs[i] = &api.LogEvent{Timestamp: int64(seq), Message: stressMsg(w, seq), Fields: "f=1"}
						seqs = append(seqs, seq)
						seq++
					}
					var wr api.WriteResult
					werr = cl.Write(context.Background(), tags, fmt.Sprintf("w=%d", w), evs, &wr)
					if werr == nil {
						werr = wr.Err
					}
				} else {
					evs := make([]model.LogEvent, n)
					for i := range evs {
						evs[i] = model.LogEvent{Timestamp: int64(seq), Msg: []byte(stressMsg(w, seq))}
						seqs = append(seqs, seq)
						seq++
					}
					werr = srv.Parts.Write(context.Background(), tags, &litIt{evs: evs}, false)
				}
				if werr == nil {
					acked[w][part] = append(acked[w][part], seqs...)
				} else {
					fail("valid-write-rejected", "a well-formed concurrent write was rejected: "+werr.Error(), "rejected", "acknowledged")
				}
			}
		}(w)
	}
	// concurrent readers of the shared partition: what they return must be duplicate free, per writer in increasing order,
	// with intact payloads (completeness is NOT asserted here: a tail reader racing a writer is finding #34's territory)
	var rg sync.WaitGroup
	var reads int64
	for k := 0; k < 3; k++ {
		rg.Add(1)
		go func(k int) {
			defer rg.Done()
			via := []string{"querier", "rpc", "querier"}[k]
			for atomic.LoadInt32(&stop) == 0 {
				evs, err := readPart(srv, via, "select from pk=0", []int{50, 1000, 7}[k], 1<<20)
				if err != nil {
					fail("concurrent-read-error", "a read racing with writers failed: "+err.Error(), err.Error(), "events")
					return
				}
				atomic.AddInt64(&reads, 1)
				last := map[int]int{}
				for _, e := range evs {
					w, s, ok := parseStressMsg(e.Message)
					if !ok {
						fail("corrupted-event", "a concurrent reader got an event nobody wrote", fmt.Sprintf("%q", e.Message), "a written message")
						return
					}
					if l, seen := last[w]; seen && s <= l {
						fail("concurrent-read-order", "a concurrent reader got a writer's events duplicated or out of order", fmt.Sprintf("w%d: %d after %d", w, s, l), "increasing")
						return
					}
					last[w] = s
				}
			}
		}(k)
	}
	wg.Wait()
	atomic.StoreInt32(&stop, 1)
	rg.Wait()
	srv.FlushWait()
	srv.FlushWait()
	total := 0
	for part := 0; part <= c.Writers; part++ {
		for _, via := range []string{"querier", "rpc"} {
			evs, err := readPart(srv, via, fmt.Sprintf("select from pk=%d", part), 10000, 1<<20)
			if err != nil {
				fail("final-read-error", "the final read failed: "+err.Error(), err.Error(), "events")
				continue
			}
			got := map[int][]int{}
			for _, e := range evs {
				w, s, ok := parseStressMsg(e.Message)
				if !ok {
					fail("corrupted-event", "the final read returned an event nobody wrote", fmt.Sprintf("%q", e.Message), "a written message")
					continue
				}
				if int64(s) != e.Timestamp {
					fail("corrupted-event", "timestamp changed", fmt.Sprint(e.Timestamp), fmt.Sprint(s))
				}
				got[w] = append(got[w], s)
			}
			for w := 0; w < c.Writers; w++ {
				want := acked[w][part]
				if fmt.Sprint(got[w]) != fmt.Sprint(want) && !(len(got[w]) == 0 && len(want) == 0) {
					fail("final-read-differs", fmt.Sprintf("partition pk=%d via %s: writer %d's events are not its acknowledged batches exactly once in write order", part, via, w),
						fmt.Sprint(got[w]), fmt.Sprint(want))
				}
			}
			total += len(evs)
		}
	}
	time.Sleep(1300 * time.Millisecond) // idle chunk writers close their files (see reap)
	res.Eval(sec, fmt.Sprint(c))
	res.Dist(sec, fmt.Sprintf("maxChunk=%d", c.MaxChunk))
	res.Note("stress %v: %d events in final reads, %d concurrent full reads", c, total, atomic.LoadInt64(&reads))
}

func sectionStress(rng *vh.Rng) {
	sec := res.Section("stress", "stress",
		"thorough tier only: 6 free-running writers (4 through their own RPC clients, 2 through partition.Service.Write), 40 batches each of 1..9 (a tenth: 40..99) events, two thirds to a shared partition, one third to a private one, MaxChunkSize {300, 700, 3000} so batches span roll-overs and interleave; 3 concurrent readers of the shared partition (must be duplicate-free, per-writer increasing, intact); after all writers finished and the flush was awaited a final full read of every partition through backend.Querier and RPC must contain, per writer, exactly its acknowledged sequence numbers in write order with intact payloads. non-trivial = every run")
	if !args.Thorough {
		res.Done(sec)
		return
	}
	for i := 0; i < 9; i++ {
		runStress(stressCase{MaxChunk: []int{300, 700, 3000}[i%3], Writers: 6, Batches: 40, Seed: int64(rng.U64() >> 1)}, sec)
	}
	res.Done(sec)
}

// ---------------------------------------------------------------------------------------------

func replay(path string) {
	var d corpusDoc
	if err := vh.ReadJSON(path, &d); err != nil {
		res.Fatal(args.Out, "replay: %v", err)
	}
	var cs corpusSets
	if !cs.add(d) {
		if d.Section == "stress" {
			var c stressCase
			json.Unmarshal(d.Input, &c)
			sec := res.Section("stress", "replay", "re-run of one stress configuration (schedule dependent)")
			runStress(c, sec)
			res.Write(args.Out)
			return
		}
		res.Note("replay: section %q has no single-input replay", d.Section)
		res.Write(args.Out)
		return
	}
	col := &collector{section: d.Section}
	sec := res.Section(d.Section, "replay", "replay of one recorded input")
	switch {
	case len(cs.ev) > 0:
		runEventCase(cs.ev[0], col, sec)
	case len(cs.pkt) > 0:
		runPacketCase(cs.pkt[0], col, sec)
	case len(cs.wl) > 0:
		runWriteLoopCase(cs.wl[0], col, sec)
	case len(cs.sys) > 0:
		runSysCase(cs.sys[0], col, sec)
	}
	for _, k := range col.chks {
		fmt.Printf("%-40.200s\n    impl=%s\n", k.line, clip(k.impl))
	}
	col.finish()
	for _, m := range res.Mismatches {
		fmt.Printf("MISMATCH %s\n  impl =%s\n  model=%s\n", m.Function, m.Impl, m.Model)
	}
	for _, f := range res.SpecFailures {
		fmt.Printf("SPEC-FAILURE kind=%s finding=%s impl_eq_model=%v: %s\n  impl=%s\n  spec=%s\n", f.Kind, f.Finding, f.ImplEqModel, f.What, f.Impl, f.Spec)
	}
	res.Write(args.Out)
}

// raiseFdLimit: the library leaves chunk reader/writer files open after Shutdown (a few per history); make sure the
// soft descriptor limit is as high as the hard limit allows
func raiseFdLimit() {
	var rl syscall.Rlimit
	if syscall.Getrlimit(syscall.RLIMIT_NOFILE, &rl) == nil && rl.Cur < rl.Max {
		rl.Cur = rl.Max
		syscall.Setrlimit(syscall.RLIMIT_NOFILE, &rl)
	}
}

func main() {
	args = vh.ParseArgs()
	res = vh.NewResult("C01", args)
	raiseFdLimit()
	if args.Replay != "" {
		replay(args.Replay)
		return
	}
	var cs corpusSets
	for _, f := range vh.CorpusFiles(args.Corpus) {
		var d corpusDoc
		if err := vh.ReadJSON(f, &d); err != nil || !cs.add(d) {
			res.Note("corpus file %s not understood", f)
		}
	}
	rng := vh.NewRng(args.Seed)
	sectionEvent(rng.Fork("event"), cs.ev)
	sectionPacket(rng.Fork("packet"), cs.pkt)
	sectionWriteLoop(rng.Fork("writeloop"), cs.wl)
	sectionSystem(rng.Fork("system"), cs.sys)
	sectionStress(rng.Fork("stress"))
	res.Write(args.Out)
}
