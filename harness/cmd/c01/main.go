// C01 harness — acknowledged writes are read back intact, exactly once, in write order.
//
// Sections
//
//	event      unit: model.LogEvent Marshal/WritableSize/Unmarshal vs the Lean record codec; SPEC: round trip
//	packet     unit: real client encoder + real server decoder (api/rpc/export_c01_verif.go) vs the Lean packet model;
//	           SPEC (driver): stored events = same ts/msg, write-level fields then own fields; malformed ⇒ rejected
//	writeloop  system: partition.Service wired by hand — every OnWrite call, WriteEvent positions, chunk layout, record-level
//	           read-back vs the Lean write loop; SPEC: notifications/positions delimit exactly the batch
//	system     system: the assembled server (lrsrv.Start), direct + RPC + raw-packet writes, reads through backend.Querier
//	           and the RPC client; SPEC: read-back = concatenation of acknowledged batches per partition
//	restart    graceful stop right after an acknowledgement, restart, read back (new and existing partition)
//	faults     environment faults (context cancelled / no descriptor left) during a Write that spans a chunk roll-over
//	tailrace   deterministic replay of #34: scripted journal under the real journal iterators vs the observation models
//	xread      concurrent readers on separate connections over a quiescent store: each read = exactly the partition's events
//	wpos       concurrent writers to ONE partition: the ranges OnWrite announces are disjoint, cover the chunk, one call each
//	stress     thorough only: K free-running writers (RPC and direct, shared and private partitions) + concurrent readers;
//	           the exactly-once/order/content property is checked on a final read after all writers finished and flushed
package main

import (
	"context"
	"encoding/json"
	"fmt"
	"hash/fnv"
	"io"
	"net"
	"os"
	"runtime"
	"strings"
	"sync"
	"sync/atomic"
	"syscall"
	"time"

	"github.com/logrange/logrange/api"
	"github.com/logrange/logrange/api/rpc"
	"github.com/logrange/logrange/pkg/model"
	"github.com/logrange/logrange/pkg/model/tag"
	"github.com/logrange/range/pkg/transport"
	lbytes "github.com/logrange/range/pkg/utils/bytes"
	"verifharness/internal/lrsrv"
	"verifharness/internal/vh"
)

var (
	args vh.Args
	res  *vh.Result
)

type corpusDoc struct {
	Section string          `json:"section"`
	Input   json.RawMessage `json:"input"`
}

type corpusSets struct {
	ev  []evCase
	pkt []pktCase
	wl  []wlCase
	sys []sysCase
	tail []tailCase
	wpos []wposCase
}

func (cs *corpusSets) add(d corpusDoc) bool {
	switch d.Section {
	case "event":
		var c evCase
		if json.Unmarshal(d.Input, &c) == nil {
			cs.ev = append(cs.ev, c)
			return true
		}
	case "packet":
		var c pktCase
		if json.Unmarshal(d.Input, &c) == nil {
			cs.pkt = append(cs.pkt, c)
			return true
		}
	case "writeloop":
		var c wlCase
		if json.Unmarshal(d.Input, &c) == nil {
			cs.wl = append(cs.wl, c)
			return true
		}
	case "system":
		var c sysCase
		if json.Unmarshal(d.Input, &c) == nil {
			cs.sys = append(cs.sys, c)
			return true
		}
	case "wpos":
		var c wposCase
		if json.Unmarshal(d.Input, &c) == nil && c.Writers > 0 {
			cs.wpos = append(cs.wpos, c)
			return true
		}
	case "tailrace":
		var c tailCase
		if json.Unmarshal(d.Input, &c) == nil && len(c.Script) > 0 {
			if c.Fuel == 0 {
				c.Fuel, c.Polls = 700, 10
			}
			cs.tail = append(cs.tail, c)
			return true
		}
	}
	return false
}

// ---------------------------------------------------------------------------------------------
// stress (thorough tier): free-running writers and readers; the property is checked on the final read

func payload(w, seq int) string {
	h := fnv.New64a()
	fmt.Fprintf(h, "%d/%d", w, seq)
	x := h.Sum64()
	b := make([]byte, int(x%23))
	for i := range b {
		b[i] = byte(x >> (uint(i%8) * 8))
		if i%5 == 0 {
			b[i] = 0
		}
	}
	return string(b)
}

func stressMsg(w, seq int) string { return fmt.Sprintf("w%d-%d|%s", w, seq, payload(w, seq)) }

func parseStressMsg(m string) (w, seq int, ok bool) {
	i := strings.IndexByte(m, '|')
	if i < 0 {
		return 0, 0, false
	}
	if _, err := fmt.Sscanf(m[:i], "w%d-%d", &w, &seq); err != nil {
		return 0, 0, false
	}
	return w, seq, m[i+1:] == payload(w, seq)
}

type stressCase struct {
	MaxChunk int   `json:"max_chunk"`
	Writers  int   `json:"writers"`
	Batches  int   `json:"batches"`
	Seed     int64 `json:"seed"`
}

func runStress(c stressCase, sec *vh.Section) {
	dir := lrsrv.NewDir()
	defer os.RemoveAll(dir)
	srv, err := lrsrv.Start(dir, lrsrv.Opts{MaxChunkSize: c.MaxChunk})
	if err != nil {
		res.Note("stress: %v", err)
		return
	}
	defer srv.Stop()
	srv.Cfg.JrnlCtrlConfig.WriteIdleSec = 1
	fail := func(kind, what, impl, spec string) {
		res.SpecFail(vh.SpecFailure{Section: "stress", Kind: kind, Input: c, Impl: clip(impl), Spec: clip(spec), What: what})
	}
	// acked[w][part] = sequence numbers acknowledged, in write order
	acked := make([]map[int][]int, c.Writers)
	var wg sync.WaitGroup
	var stop int32
	for w := 0; w < c.Writers; w++ {
		acked[w] = map[int][]int{}
		wg.Add(1)
		go func(w int) {
			defer wg.Done()
			r := vh.NewRng(c.Seed).Fork(fmt.Sprintf("writer%d", w))
			var cl api.Client
			if w%3 != 2 {
				cc, err := rpc.NewClient(transport.Config{ListenAddr: srv.Addr})
				if err != nil {
					res.Note("stress: client: %v", err)
					return
				}
				defer cc.Close()
				cl = cc
			}
			seq := 0
			for b := 0; b < c.Batches; b++ {
				n := 1 + r.Intn(9)
				if r.Chance(1, 10) {
					n = 40 + r.Intn(60)
				}
				part := 0
				if b%3 == 0 {
					part = w + 1
				}
				tags := fmt.Sprintf("pk=%d", part)
				var seqs []int
				var werr error
				if cl != nil {
					evs := make([]*api.LogEvent, n)
					for i := range evs {
						evs[i] = &api.LogEvent{Timestamp: int64(seq), Message: stressMsg(w, seq), Fields: "f=1"}
						seqs = append(seqs, seq)
						seq++
					}
					var wr api.WriteResult
					werr = cl.Write(context.Background(), tags, fmt.Sprintf("w=%d", w), evs, &wr)
					if werr == nil {
						werr = wr.Err
					}
				} else {
					evs := make([]model.LogEvent, n)
					for i := range evs {
						evs[i] = model.LogEvent{Timestamp: int64(seq), Msg: []byte(stressMsg(w, seq))}
						seqs = append(seqs, seq)
						seq++
					}
					werr = srv.Parts.Write(context.Background(), tags, &litIt{evs: evs}, false)
				}
				if werr == nil {
					acked[w][part] = append(acked[w][part], seqs...)
				} else {
					fail("valid-write-rejected", "a well-formed concurrent write was rejected: "+werr.Error(), "rejected", "acknowledged")
				}
			}
		}(w)
	}
	// concurrent readers of the shared partition: what they return must be duplicate free, per writer in increasing order,
	// with intact payloads (completeness is NOT asserted here: a tail reader racing a writer is finding #34's territory)
	var rg sync.WaitGroup
	var reads int64
	for k := 0; k < 3; k++ {
		rg.Add(1)
		go func(k int) {
			defer rg.Done()
			via := []string{"querier", "rpc", "querier"}[k]
			for atomic.LoadInt32(&stop) == 0 {
				evs, err := readPart(srv, via, "select from pk=0", []int{50, 1000, 7}[k], 1<<20)
				if err != nil {
					fail("concurrent-read-error", "a read racing with writers failed: "+err.Error(), err.Error(), "events")
					return
				}
				atomic.AddInt64(&reads, 1)
				last := map[int]int{}
				for _, e := range evs {
					w, s, ok := parseStressMsg(e.Message)
					if !ok {
						fail("corrupted-event", "a concurrent reader got an event nobody wrote", fmt.Sprintf("%q", e.Message), "a written message")
						return
					}
					if l, seen := last[w]; seen && s <= l {
						fail("concurrent-read-order", "a concurrent reader got a writer's events duplicated or out of order", fmt.Sprintf("w%d: %d after %d", w, s, l), "increasing")
						return
					}
					last[w] = s
				}
			}
		}(k)
	}
	wg.Wait()
	atomic.StoreInt32(&stop, 1)
	rg.Wait()
	srv.FlushWait()
	srv.FlushWait()
	total := 0
	for part := 0; part <= c.Writers; part++ {
		for _, via := range []string{"querier", "rpc"} {
			evs, err := readPart(srv, via, fmt.Sprintf("select from pk=%d", part), 10000, 1<<20)
			if err != nil {
				fail("final-read-error", "the final read failed: "+err.Error(), err.Error(), "events")
				continue
			}
			got := map[int][]int{}
			for _, e := range evs {
				w, s, ok := parseStressMsg(e.Message)
				if !ok {
					fail("corrupted-event", "the final read returned an event nobody wrote", fmt.Sprintf("%q", e.Message), "a written message")
					continue
				}
				if int64(s) != e.Timestamp {
					fail("corrupted-event", "timestamp changed", fmt.Sprint(e.Timestamp), fmt.Sprint(s))
				}
				got[w] = append(got[w], s)
			}
			for w := 0; w < c.Writers; w++ {
				want := acked[w][part]
				if fmt.Sprint(got[w]) != fmt.Sprint(want) && !(len(got[w]) == 0 && len(want) == 0) {
					fail("final-read-differs", fmt.Sprintf("partition pk=%d via %s: writer %d's events are not its acknowledged batches exactly once in write order", part, via, w),
						fmt.Sprint(got[w]), fmt.Sprint(want))
				}
			}
			total += len(evs)
		}
	}
	time.Sleep(1300 * time.Millisecond) // idle chunk writers close their files (see reap)
	res.Eval(sec, fmt.Sprint(c))
	res.Dist(sec, fmt.Sprintf("maxChunk=%d", c.MaxChunk))
	res.Note("stress %v: %d events in final reads, %d concurrent full reads", c, total, atomic.LoadInt64(&reads))
}

func sectionStress(rng *vh.Rng) {
	sec := res.Section("stress", "stress",
		"thorough tier only (4 runs): 6 free-running writers (4 through their own RPC clients, 2 through partition.Service.Write), 40 batches each of 1..9 (a tenth: 40..99) events, two thirds to a shared partition, one third to a private one, MaxChunkSize {300, 700, 3000} so batches span roll-overs and interleave; 3 concurrent readers of the shared partition (must be duplicate-free, per-writer increasing, intact); after all writers finished and the flush was awaited a final full read of every partition through backend.Querier and RPC must contain, per writer, exactly its acknowledged sequence numbers in write order with intact payloads. non-trivial = every run")
	if !args.Thorough {
		res.Done(sec)
		return
	}
	for i := 0; i < 4; i++ {
		runStress(stressCase{MaxChunk: []int{300, 700, 3000}[i%3], Writers: 6, Batches: 40, Seed: int64(rng.U64() >> 1)}, sec)
	}
	res.Done(sec)
}

// ---------------------------------------------------------------------------------------------
// xread: concurrent readers on separate connections over a QUIESCENT store (no writer to the partitions being read, flush
// awaited — so the tail race #34 cannot occur): every reader must get exactly its partition's events, every time.

type xreadCase struct {
	Parts   int `json:"parts"`
	Events  int `json:"events"`  // per partition
	MsgLen  int `json:"msg_len"` // filler bytes per message (results must exceed the server's 4 KB initial result buffer)
	Readers int `json:"readers"`
	Reads   int `json:"reads"`   // full reads per reader at most
	DurMs   int `json:"dur_ms"`  // … and readers stop after this many milliseconds (0 = no time limit)
	Writers int `json:"writers"` // concurrent writers to OTHER partitions
	WBatch  int `json:"wbatch"`  // events per writer batch (0 = 50): big request bodies come from the same pooled size classes as big pages
	Procs   int `json:"procs"`   // GOMAXPROCS while the readers run (0 = unchanged): sync.Pool is per P, so a pooled buffer released too early
	// is only re-used by another handler when there are more busy connections than Ps
	Page    int `json:"page"`
	// the deterministic form of "another handler re-uses a pooled buffer": StallMs > 0 puts a relay between the readers and
	// the server that stops draining the server's socket for StallMs at the start of every answer (a page larger than the
	// socket buffers then blocks the server's Write in the middle); Scribblers > 0 starts that many goroutines which keep
	// taking buffers of every size class from the shared bytes.Pool, zero them and give them back (what any other handler
	// is entitled to do with a buffer it arranged). A buffer that is released only after its last use is never seen by them.
	StallMs    int `json:"stall_ms,omitempty"`
	Scribblers int `json:"scribblers,omitempty"`
	// concurrent requests per connection (0 = 1). On loopback a connection's send buffer takes almost 4 MB and the pool's
	// largest size class is 3 MB, so ONE pooled page never blocks the server's Write; the second of two pipelined ~2.6 MB
	// answers does, while the relay holds back the first
	Pipeline int `json:"pipeline,omitempty"`
}

// stallRelay accepts connections on a fresh loopback port and relays them to addr; see xreadCase.StallMs
func stallRelay(addr string, stall time.Duration, stop chan struct{}) (string, error) {
	ln, err := net.Listen("tcp", "127.0.0.1:0")
	if err != nil {
		return "", err
	}
	go func() { <-stop; ln.Close() }()
	go func() {
		for {
			down, err := ln.Accept()
			if err != nil {
				return
			}
			up, err := net.Dial("tcp", addr)
			if err != nil {
				down.Close()
				continue
			}
			var asked int32
			go func() { // client -> server: at once
				buf := make([]byte, 32<<10)
				for {
					n, err := down.Read(buf)
					if n > 0 {
						atomic.StoreInt32(&asked, 1)
						if _, werr := up.Write(buf[:n]); werr != nil {
							break
						}
					}
					if err != nil {
						break
					}
				}
				up.Close()
				down.Close()
			}()
			go func() { // server -> client: the first bytes that follow a request are held back
				buf := make([]byte, 64<<10)
				for {
					n, err := up.Read(buf)
					if n > 0 {
						if atomic.CompareAndSwapInt32(&asked, 1, 0) {
							time.Sleep(stall)
						}
						if _, werr := down.Write(buf[:n]); werr != nil {
							break
						}
					}
					if err != nil {
						break
					}
				}
				up.Close()
				down.Close()
			}()
		}
	}()
	return ln.Addr().String(), nil
}

// scribbler: a legitimate user of the shared buffer pool — arranges a buffer of every size class a result page can have,
// overwrites it with zeros (a zeroed page decodes without harm: empty strings, timestamp 0) and releases it
func scribbler(stop chan struct{}) {
	var pool lbytes.Pool
	// size classes of pages that do not fit the socket buffers (on loopback the initial send buffer takes more than 1 MB). sync.Pool hands out the P's private slot, then the most
	// recently released buffers: four per class reach whatever was released since the last round
	sizes := []int{1000000, 3000000}
	var held [4][]byte
	for {
		for _, sz := range sizes {
			select {
			case <-stop:
				return
			default:
			}
			for k := range held {
				b := pool.Arrange(sz)
				b = b[:cap(b)]
				for i := range b {
					b[i] = 0
				}
				held[k] = b
			}
			for k := range held {
				pool.Release(held[k])
			}
		}
		// not a spin loop: with an always-runnable goroutine the scheduler polls the network only every 10 ms
		time.Sleep(300 * time.Microsecond)
	}
}

func xMsg(part, i, l int) string {
	return fmt.Sprintf("partition %d event %06d ", part, i) + strings.Repeat(string(rune('a'+(part+i)%26)), l+i%50)
}

func runXRead(c xreadCase, sec *vh.Section) {
	t0 := time.Now()
	var tSetup time.Duration
	dir := lrsrv.NewDir()
	srv, err := lrsrv.Start(dir, lrsrv.Opts{})
	if err != nil {
		os.RemoveAll(dir)
		res.Note("xread: %v", err)
		return
	}
	defer func() { srv.Stop(); os.RemoveAll(dir) }()
	ctx := context.Background()
	lines := make([]string, c.Parts)
	for p := 0; p < c.Parts; p++ {
		tags := fmt.Sprintf("pk=%d,app=r%d", p, p)
		if ts, err := tag.Parse(tags); err == nil {
			lines[p] = string(ts.Line())
		}
		for off := 0; off < c.Events; off += 500 {
			var evs []*api.LogEvent
			for i := off; i < off+500 && i < c.Events; i++ {
				evs = append(evs, &api.LogEvent{Timestamp: int64(i + 1), Message: xMsg(p, i, c.MsgLen), Fields: fmt.Sprintf("i=%d", i%7)})
			}
			var wr api.WriteResult
			if err := srv.Client.Write(ctx, tags, fmt.Sprintf("src=x%d", p), evs, &wr); err != nil || wr.Err != nil {
				res.Note("xread: write failed: %v %v", err, wr.Err)
				return
			}
		}
	}
	srv.FlushWait()
	for p := 0; p < c.Parts; p++ {
		if src, _, err := srv.TIndex.GetOrCreateJournal(fmt.Sprintf("pk=%d,app=r%d", p, p)); err == nil {
			waitConfirmed(ctx, srv.Journals, src, c.Events)
			srv.TIndex.Release(src)
		}
	}
	var failed int32
	var total int64
	check1 := func(p, i int, e *api.LogEvent) string {
		wantF := fmt.Sprintf("src=x%d,i=%d", p, i%7)
		if e.Timestamp != int64(i+1) || e.Message != xMsg(p, i, c.MsgLen) || e.Tags != lines[p] || e.Fields != wantF {
			return fmt.Sprintf("partition pk=%d event #%d read back as ts=%d tags=%q fields=%q msg=%.60q; written as ts=%d tags=%q fields=%q msg=%.60q",
				p, i, e.Timestamp, e.Tags, e.Fields, e.Message, i+1, lines[p], wantF, xMsg(p, i, c.MsgLen))
		}
		return ""
	}
	check := func(p int, evs []*api.LogEvent, who string) string {
		if len(evs) != c.Events {
			return fmt.Sprintf("%s: partition pk=%d: %d events returned, %d written", who, p, len(evs), c.Events)
		}
		for i, e := range evs {
			if m := check1(p, i, e); m != "" {
				return who + ": " + m
			}
		}
		return ""
	}
	// phase 1: one sequential read per partition (a failure here is not schedule dependent)
	for p := 0; p < c.Parts; p++ {
		evs, err := readPart(srv, "rpc", fmt.Sprintf("select from pk=%d", p), c.Page, c.Events+10)
		msg := ""
		if err != nil {
			msg = err.Error()
		} else {
			msg = check(p, evs, "sequential read")
		}
		if msg != "" {
			res.SpecFail(vh.SpecFailure{Section: "xread", Kind: "readback-differs", Input: c, Impl: clip(msg), Spec: "the partition's events", What: "a sequential read of a quiescent partition does not return exactly what was written"})
			return
		}
	}
	tSetup = time.Since(t0)
	// phase 1b: a page RE-REQUESTED on a held (cached) cursor — same ReqId, the Pos of an earlier answer (a client that lost the
	// answer asks again; cursors are held for WaitTimeout > 0) — must be that page again: it starts with the event AT the requested
	// position. Not schedule dependent. Through the RPC querier and the in-process backend.Querier.
	if c.Events >= 20 {
		one := func(via string, req *api.QueryRequest) (*api.QueryResult, error) {
			if via == "rpc" {
				r := &api.QueryResult{}
				if err := srv.Client.Query(ctx, req, r); err != nil {
					return nil, err
				}
				return r, r.Err
			}
			r, err := srv.Querier.Query(ctx, req)
			if err == io.EOF {
				err = nil
			}
			return r, err
		}
		for _, via := range []string{"rpc", "querier"} {
			show := func(r *api.QueryResult) string {
				var sb strings.Builder
				for _, e := range r.Events {
					fmt.Fprintf(&sb, " ts=%d", e.Timestamp)
				}
				return sb.String()
			}
			p := 0
			req1 := &api.QueryRequest{Query: fmt.Sprintf("select from pk=%d", p), Limit: 5, WaitTimeout: 1}
			r1, err := one(via, req1)
			if err != nil || r1 == nil || len(r1.Events) != 5 {
				res.Note("xread: held cursor via %s: first page: %v", via, err)
				continue
			}
			again := r1.NextQueryRequest // page 2's request
			r2, err := one(via, &again)
			if err != nil || r2 == nil || len(r2.Events) != 5 {
				res.Note("xread: held cursor via %s: second page: %v", via, err)
				continue
			}
			first2 := show(r2)
			again2 := r1.NextQueryRequest // the same request once more: same ReqId, the earlier Pos
			r3, err := one(via, &again2)
			msg := ""
			if err != nil || r3 == nil {
				msg = fmt.Sprintf("error %v", err)
			} else {
				msg = show(r3)
				for i, e := range r3.Events {
					if m := check1(p, 5+i, e); m != "" {
						msg += " | " + m
						break
					}
				}
				if len(r3.Events) != 5 {
					msg += fmt.Sprintf(" | %d events", len(r3.Events))
				}
			}
			if msg != first2 {
				res.SpecFail(vh.SpecFailure{Section: "xread", Kind: "resent-page-differs", Input: c, Impl: clip("via " + via + ": page 2 re-requested:" + msg), Spec: "page 2 as first answered:" + first2 + " (events #5..#9 of the partition)",
					What: "a page re-requested on a held cursor (same ReqId, the Pos of the earlier answer, WaitTimeout > 0) is not the page at that position: it must start with the event at the requested position and hold the same events"})
				return
			}
			// let the cursor go
			fin := r3.NextQueryRequest
			fin.WaitTimeout = 0
			one(via, &fin)
		}
	}
	stopW := make(chan struct{})
	var wwg sync.WaitGroup
	for w := 0; w < c.Writers; w++ {
		wwg.Add(1)
		go func(w int) {
			defer wwg.Done()
			cl, err := rpc.NewClient(transport.Config{ListenAddr: srv.Addr})
			if err != nil {
				return
			}
			defer cl.Close()
			for i := 0; ; i++ {
				select {
				case <-stopW:
					return
				default:
				}
				wb := c.WBatch
				if wb <= 0 {
					wb = 50
				}
				evs := make([]*api.LogEvent, wb)
				for k := range evs {
					evs[k] = &api.LogEvent{Timestamp: int64(i), Message: fmt.Sprintf("other writer %d batch %d %s", w, i, strings.Repeat("W", 80))}
				}
				var wr api.WriteResult
				cl.Write(ctx, fmt.Sprintf("other=%d", w), "", evs, &wr)
			}
		}(w)
	}
	raddr := srv.Addr
	stopX := make(chan struct{})
	defer close(stopX)
	if c.StallMs > 0 {
		a, err := stallRelay(srv.Addr, time.Duration(c.StallMs)*time.Millisecond, stopX)
		if err != nil {
			res.Note("xread: relay: %v", err)
			return
		}
		raddr = a
	}
	if c.Procs > 0 {
		defer runtime.GOMAXPROCS(runtime.GOMAXPROCS(c.Procs))
	}
	for i := 0; i < c.Scribblers; i++ {
		go scribbler(stopX)
	}
	var rwg sync.WaitGroup
	deadline := time.Now().Add(time.Duration(c.DurMs) * time.Millisecond)
	for r := 0; r < c.Readers; r++ {
		rwg.Add(1)
		go func(r int) {
			defer rwg.Done()
			cl, err := rpc.NewClient(transport.Config{ListenAddr: raddr})
			if err != nil {
				res.Note("xread: client: %v", err)
				return
			}
			defer cl.Close()
			p := r % c.Parts
			lanes := c.Pipeline
			if lanes < 1 {
				lanes = 1
			}
			var lwg sync.WaitGroup
			for lane := 0; lane < lanes; lane++ {
				lwg.Add(1)
				go func(lane int) { // the rpc client multiplexes concurrent calls over its one connection
					defer lwg.Done()
					for k := 0; k < c.Reads && atomic.LoadInt32(&failed) == 0 && (c.DurMs == 0 || time.Now().Before(deadline)); k++ {
						var evs []*api.LogEvent
						req := &api.QueryRequest{Query: fmt.Sprintf("select from pk=%d", p), Limit: c.Page}
						msg := ""
						for len(evs) <= c.Events {
							qr := &api.QueryResult{}
							if err := cl.Query(ctx, req, qr); err != nil || qr.Err != nil {
								msg = fmt.Sprintf("reader %d: query failed: %v %v", r, err, qr.Err)
								break
							}
							if len(qr.Events) == 0 {
								break
							}
							evs = append(evs, qr.Events...)
							nr := qr.NextQueryRequest
							req = &nr
						}
						if msg == "" {
							msg = check(p, evs, fmt.Sprintf("reader %d (own connection, request lane %d of %d), read %d", r, lane, lanes, k))
						}
						if msg != "" {
							if atomic.CompareAndSwapInt32(&failed, 0, 1) {
								res.SpecFail(vh.SpecFailure{Section: "xread", Kind: "concurrent-read-foreign-or-missing-events", Input: c, Impl: clip(msg), Spec: "exactly the events written to the partition asked for",
									What: "a reader racing with other readers (separate connections, store quiescent) got events that are not its partition's acknowledged events in order"})
							}
							return
						}
						atomic.AddInt64(&total, 1)
					}
				}(lane)
			}
			lwg.Wait()
		}(r)
	}
	rwg.Wait()
	close(stopW)
	wwg.Wait()
	res.Eval(sec, fmt.Sprint(c))
	res.Dist(sec, fmt.Sprintf("readers=%d writers=%d", c.Readers, c.Writers))
	res.Note("xread %+v: %d concurrent full reads intact (setup %.1fs, total %.1fs)", c, atomic.LoadInt64(&total), tSetup.Seconds(), time.Since(t0).Seconds())
}

func sectionXRead(rng *vh.Rng) {
	sec := res.Section("xread", "stress",
		"concurrent readers over a quiescent store: self-describing events (write-level + own fields, messages naming partition and index) written through RPC, flush awaited; one sequential read per partition, then the configurations — (a) DETERMINISTIC pooled-buffer reuse: 2 connections x 3 pipelined request lanes reading ~2.6 MB pages through a relay that holds back the first bytes of every answer for 100 ms (the second pipelined page then blocks in the server's socket write: a loopback send buffer takes < 4 MB), while a scribbler goroutine keeps arranging, zeroing and releasing buffers of the big size classes of the shared bytes.Pool under GOMAXPROCS 1 (thorough: also 4 scribblers with all Ps) — a page buffer released before its last use is zeroed under the writer's hands; (b) 8 readers with ~250 KB pages; (c) 12 readers with 300-event pages under GOMAXPROCS 2 — each reader on its own RPC connection re-reads its partition completely over and over for 1.2 s / 1.5 s / 1.5 s (thorough: (b), (c) twice for 3 s, the second time with 2 writers to other partitions, plus the free-running form of (a): 24 readers over 16 partitions with ~2 MB pages under GOMAXPROCS 4 and 4 writers sending 3000-event batches to other partitions for 4 s): every read must be exactly the partition's events (count, order, timestamp, message, tag line, fields). No writer touches the partitions being read, so the tail race #34 cannot occur. non-trivial = every run")
	dur, rounds := 1500, 1
	if args.Thorough {
		dur, rounds = 3000, 2
	}
	for i := 0; i < rounds; i++ {
		w := 0
		if args.Thorough && i > 0 {
			w = 2
		}
		cfgs := []xreadCase{
			// the deterministic form of "a pooled page buffer is re-used while it is being sent" (see xreadCase.StallMs)
			{Parts: 2, Events: 1000, MsgLen: 2600, Readers: 2, Reads: 1 << 20, DurMs: 1200, Page: 10000, Procs: 1, StallMs: 100, Scribblers: 1, Pipeline: 3},
			{Parts: 4, Events: 1500, MsgLen: 80, Readers: 8, Reads: 1 << 20, DurMs: dur, Page: 10000, Writers: w},
			{Parts: 3, Events: 2000, MsgLen: 60, Readers: 12, Reads: 1 << 20, DurMs: dur, Page: 300, Writers: w, Procs: 2},
		}
		if args.Thorough && i == 0 {
			cfgs = append(cfgs,
				xreadCase{Parts: 2, Events: 1000, MsgLen: 2600, Readers: 3, Reads: 1 << 20, DurMs: 1500, Page: 10000, StallMs: 100, Scribblers: 4, Pipeline: 3},
				// free running: more busy connections than processors, pages of ~2 MB, writers to other partitions (128k events
				// written: the expensive one, once per run)
				xreadCase{Parts: 16, Events: 8000, MsgLen: 200, Readers: 24, Reads: 1 << 20, DurMs: 4000, Page: 10000, Writers: 4, WBatch: 3000, Procs: 4})
		}
		for _, c := range cfgs {
			runXRead(c, sec)
			if len(res.SpecFailures) > 0 && res.SpecFailures[len(res.SpecFailures)-1].Section == "xread" {
				res.Done(sec)
				return
			}
		}
	}
	res.Done(sec)
}

// ---------------------------------------------------------------------------------------------

func replay(path string) {
	var d corpusDoc
	if err := vh.ReadJSON(path, &d); err != nil {
		res.Fatal(args.Out, "replay: %v", err)
	}
	var cs corpusSets
	if d.Section == "wpos" || !cs.add(d) {
		if d.Section == "xread" {
			var c xreadCase
			json.Unmarshal(d.Input, &c)
			sec := res.Section("xread", "replay", "re-run of one concurrent-readers configuration (schedule dependent)")
			runXRead(c, sec)
			for _, f := range res.SpecFailures {
				fmt.Printf("SPEC-FAILURE kind=%s: %s\n  impl=%s\n", f.Kind, f.What, f.Impl)
			}
			res.Write(args.Out)
			return
		}
		if d.Section == "wpos" {
			var c wposCase
			json.Unmarshal(d.Input, &c)
			sec := res.Section("wpos", "replay", "re-run of one concurrent-writers configuration (schedule dependent)")
			runWPos(c, sec)
			reapWG.Wait()
			for _, f := range res.SpecFailures {
				fmt.Printf("SPEC-FAILURE kind=%s finding=%s: %s\n  impl=%s\n", f.Kind, f.Finding, f.What, f.Impl)
			}
			res.Write(args.Out)
			return
		}
		if d.Section == "stress" {
			var c stressCase
			json.Unmarshal(d.Input, &c)
			sec := res.Section("stress", "replay", "re-run of one stress configuration (schedule dependent)")
			runStress(c, sec)
			res.Write(args.Out)
			return
		}
		res.Note("replay: section %q has no single-input replay", d.Section)
		res.Write(args.Out)
		return
	}
	col := &collector{section: d.Section}
	sec := res.Section(d.Section, "replay", "replay of one recorded input")
	switch {
	case len(cs.ev) > 0:
		runEventCase(cs.ev[0], col, sec)
	case len(cs.pkt) > 0:
		runPacketCase(cs.pkt[0], col, sec)
	case len(cs.wl) > 0:
		runWriteLoopCase(cs.wl[0], col, sec)
	case len(cs.sys) > 0:
		runSysCase(cs.sys[0], col, sec)
	case len(cs.tail) > 0:
		runTailCase(cs.tail[0], col, sec)
	}
	for _, k := range col.chks {
		fmt.Printf("%-40.200s\n    impl=%s\n", k.line, clip(k.impl))
	}
	col.finish()
	for _, m := range res.Mismatches {
		fmt.Printf("MISMATCH %s\n  impl =%s\n  model=%s\n", m.Function, m.Impl, m.Model)
	}
	for _, f := range res.SpecFailures {
		fmt.Printf("SPEC-FAILURE kind=%s finding=%s impl_eq_model=%v: %s\n  impl=%s\n  spec=%s\n", f.Kind, f.Finding, f.ImplEqModel, f.What, f.Impl, f.Spec)
	}
	res.Write(args.Out)
}

// raiseFdLimit: the library leaves chunk reader/writer files open after Shutdown (a few per history); make sure the
// soft descriptor limit is as high as the hard limit allows
func raiseFdLimit() {
	var rl syscall.Rlimit
	if syscall.Getrlimit(syscall.RLIMIT_NOFILE, &rl) == nil && rl.Cur < rl.Max {
		rl.Cur = rl.Max
		syscall.Setrlimit(syscall.RLIMIT_NOFILE, &rl)
	}
}

func main() {
	args = vh.ParseArgs()
	res = vh.NewResult("C01", args)
	raiseFdLimit()
	if args.Replay != "" {
		replay(args.Replay)
		return
	}
	var cs corpusSets
	for _, f := range vh.CorpusFiles(args.Corpus) {
		var d corpusDoc
		if err := vh.ReadJSON(f, &d); err != nil || !cs.add(d) {
			res.Note("corpus file %s not understood", f)
		}
	}
	rng := vh.NewRng(args.Seed)
	// xread first: it restricts GOMAXPROCS for a while, and the servers of the other sections leave hundreds of goroutines
	// (flush timers of journals the library never closes) behind that would then compete for the few Ps — measured: 11 s
	// instead of 2 s for the same configuration at the end of the run. (Forked generators: the order does not change any case.)
	sectionXRead(rng.Fork("xread"))
	sectionEvent(rng.Fork("event"), cs.ev)
	sectionPacket(rng.Fork("packet"), cs.pkt)
	sectionWriteLoop(rng.Fork("writeloop"), cs.wl)
	sectionSystem(rng.Fork("system"), cs.sys)
	sectionRestart(rng.Fork("restart"))
	sectionFaults(rng.Fork("faults"), cs.wl)
	sectionTailRace(rng.Fork("tailrace"), cs.tail)
	sectionWPos(rng.Fork("wpos"), cs.wpos)
	sectionStress(rng.Fork("stress"))
	res.Write(args.Out)
}
