// section wpos — the positions partition.Service.Write announces when several writers write to ONE partition at the same time.
//
// MODEL: lean/Logrange/Model/WritersPos.lean. With the chunk's record count taken inside Chunk.write's critical section every
// OnWrite(first, last) range holds exactly the caller's records (Props/C01Conc.lean writer_positions_delimit_own_records); the
// library returns the count AFTER it released the writer lock (chunkfs cWrtier.write: `cw.lock.Unlock(); …; return wrtn, cw.cnt, err`),
// and a count read late shifts the range (not_late_positions_exact). This section looks for that on the real library.
//
// SPEC (plain): per chunk the announced ranges are pairwise disjoint and cover [0, count) exactly; the records inside one
// announced range were all written by one Write call (consecutive sequence numbers of one writer).
package main

import (
	"context"
	"fmt"
	"sort"
	"sync"
	"time"

	"github.com/logrange/logrange/pkg/model"
	"github.com/logrange/range/pkg/records/chunk"
	"github.com/logrange/range/pkg/records/journal"
	"verifharness/internal/vh"
)

type wposCase struct {
	MaxChunk int `json:"max_chunk"`
	Writers  int `json:"writers"`
	Writes   int `json:"writes"` // Write calls per writer
	Batch    int `json:"batch"`  // events per call
	// WithEvent: the writers call Service.Write with noEvent = false (the RPC ingestor's form; since /repo 25f9816 such writers of
	// one partition are serialised by a per-partition lock); false: noEvent = true, the pipe worker's form (several workers of
	// one pipe write into the pipe's partition at the same time)
	WithEvent bool `json:"with_event,omitempty"`
}

func runWPos(c wposCase, sec *vh.Section) {
	co, err := startCore(c.MaxChunk)
	if err != nil {
		res.Note("wpos: %v", err)
		return
	}
	defer reap(co.stop)
	tags := "wp=1"
	fail := func(kind, what, impl, spec string) {
		sf := vh.SpecFailure{Section: "wpos", Kind: kind, Input: c, Impl: clip(impl), Spec: clip(spec), What: what}
		// class of F-C01-901: at least two writers on the same partition (the model's late count read then admits a shifted range:
		// Props/C01Conc.lean not_late_positions_exact; with one writer the ranges are exact: late_positions_exact_partial)
		// … and these writers do not hold the per-partition write lock of Service.Write (model: WritersLts.takesLock over the
		// regenerated fact writeLockScope — since /repo 25f9816 only callers with noEvent = false do). Writers that DO hold it
		// have exact positions (late_positions_exact_for_locking_writers): a shifted range among them stays unattributed.
		ne := "1"
		if c.WithEvent {
			ne = "0"
		}
		locked := "?"
		if ans, err := vh.Batch(args.Driver, []string{"wpos.locked " + ne}); err == nil && len(ans) == 1 {
			locked = ans[0]
		}
		sf.Model = "writers hold the partition's write lock: " + locked
		if c.Writers >= 2 && locked == "0" {
			sf.Finding, sf.ImplEqModel = "F-C01-901", true
		}
		res.SpecFail(sf)
	}
	// with events: somebody has to take them off the service's channel (capacity 100); their ranges are checked like the calls
	var wes []idxCall
	var weMu sync.Mutex
	drainCtx, stopDrain := context.WithCancel(context.Background())
	defer stopDrain()
	if c.WithEvent {
		go func() {
			for {
				we, err := co.ps.GetWriteEvent(drainCtx)
				if err != nil {
					return
				}
				if we.StartPos.CId == we.EndPos.CId && we.EndPos.Idx > we.StartPos.Idx {
					weMu.Lock()
					wes = append(wes, idxCall{first: we.StartPos.Idx, last: we.EndPos.Idx - 1, cid: we.StartPos.CId})
					weMu.Unlock()
				}
			}
		}()
	}
	var wg sync.WaitGroup
	start := make(chan struct{})
	for w := 0; w < c.Writers; w++ {
		wg.Add(1)
		go func(w int) {
			defer wg.Done()
			<-start
			seq := 0
			for i := 0; i < c.Writes; i++ {
				evs := make([]model.LogEvent, c.Batch)
				for k := range evs {
					evs[k] = model.LogEvent{Timestamp: int64(seq + 1), Msg: []byte(fmt.Sprintf("%d/%d/%d", w, i, seq))}
					seq++
				}
				if err := co.ps.Write(context.Background(), tags, &litIt{evs: evs}, !c.WithEvent); err != nil {
					res.Note("wpos: write failed: %v", err)
					return
				}
			}
		}(w)
	}
	close(start)
	wg.Wait()
	calls := co.rec.take()
	total := c.Writers * c.Writes * c.Batch
	src, _, err := co.ti.GetOrCreateJournal(tags)
	if err != nil {
		res.Note("wpos: %v", err)
		return
	}
	defer co.ti.Release(src)
	j, _ := co.jc.GetOrCreate(co.ctx, src)
	for i := 0; i < 20 && int(j.Count()) < total; i++ { // up to a minute on a loaded machine
		waitConfirmed(co.ctx, co.jc, src, total)
	}
	cks, _ := j.Chunks().Chunks(co.ctx)
	counts := map[chunk.Id]int{}
	for _, ck := range cks {
		counts[ck.Id()] = int(ck.Count())
	}
	// read every record back with its position
	type who struct{ w, call int }
	owner := map[journal.Pos]who{}
	it := journal.NewJIterator(j)
	lei := (&model.LogEventIterator{}).Wrap("", it)
	n := 0
	for n <= total {
		le, _, err := lei.Get(co.ctx)
		if err != nil {
			break
		}
		var w, call, seq int
		fmt.Sscanf(string(le.Msg), "%d/%d/%d", &w, &call, &seq)
		owner[it.Pos()] = who{w, call}
		n++
		lei.Next(co.ctx)
	}
	lei.Release()
	it.Close()
	if n != total {
		res.SpecFail(vh.SpecFailure{Section: "wpos", Kind: "readback-differs", Input: c, Impl: fmt.Sprintf("%d records read back", n), Spec: fmt.Sprintf("%d written", total),
			What: "concurrent writers to one partition: the number of records read back is not the number acknowledged"})
		return
	}
	// (1) per chunk: announced ranges are disjoint and cover [0, count)
	byChunk := map[chunk.Id][]idxCall{}
	for _, cl := range calls {
		byChunk[cl.cid] = append(byChunk[cl.cid], cl)
	}
	shifted, firstBad := rangesOff(byChunk, counts)
	// (1b) the same for the published write events (every Write here stays inside one chunk)
	if c.WithEvent {
		for i := 0; i < 500; i++ {
			weMu.Lock()
			n := len(wes)
			weMu.Unlock()
			if n >= c.Writers*c.Writes {
				break
			}
			time.Sleep(10 * time.Millisecond)
		}
		weMu.Lock()
		evByChunk := map[chunk.Id][]idxCall{}
		for _, e := range wes {
			evByChunk[e.cid] = append(evByChunk[e.cid], e)
		}
		nEv := len(wes)
		weMu.Unlock()
		if nEv == c.Writers*c.Writes && len(cks) == 1 {
			n2, fb := rangesOff(evByChunk, counts)
			shifted += n2
			if firstBad == "" && fb != "" {
				firstBad = "WriteEvent ranges: " + fb
			}
		}
	}
	// (2) every announced range is one Write call's records
	mixed := 0
	for _, cl := range calls {
		o0, ok := owner[journal.Pos{CId: cl.cid, Idx: cl.first}]
		for i := cl.first; i <= cl.last && ok; i++ {
			o, ok2 := owner[journal.Pos{CId: cl.cid, Idx: i}]
			if !ok2 || o != o0 {
				mixed++
				if firstBad == "" {
					firstBad = fmt.Sprintf("chunk %v: the announced range [%d,%d] holds records of writer %d call %d and of writer %d call %d", cl.cid, cl.first, cl.last, o0.w, o0.call, o.w, o.call)
				}
				break
			}
		}
	}
	key := ""
	if shifted+mixed > 0 {
		key = "shifted"
		fail("announced-positions-shifted", "concurrent writers to one partition: an OnWrite notification (and the WriteEvent built from the same position) names a range that is not exactly the records its Write call stored",
			fmt.Sprintf("%d of %d announced ranges are off (%d overlap/gap, %d hold foreign records); first: %s", shifted+mixed, len(calls), shifted, mixed, firstBad),
			"per chunk the announced ranges are disjoint, cover [0,count) and each holds one call's records")
	}
	res.Eval(sec, fmt.Sprint(c))
	res.Dist(sec, fmt.Sprintf("writers=%d batch=%d %s", c.Writers, c.Batch, key))
	res.Note("wpos %+v: %d OnWrite calls, %d records, %d ranges off", c, len(calls), total, shifted+mixed)
}

// rangesOff: per chunk the ranges must be pairwise disjoint and cover [0, count)
func rangesOff(byChunk map[chunk.Id][]idxCall, counts map[chunk.Id]int) (off int, firstBad string) {
	for cid, cs := range byChunk {
		sort.Slice(cs, func(a, b int) bool { return cs[a].first < cs[b].first })
		next := uint32(0)
		for _, cl := range cs {
			if cl.first != next {
				off++
				if firstBad == "" {
					firstBad = fmt.Sprintf("chunk %v: a range starts at %d, the previous one ended before %d (ranges overlap or leave a gap)", cid, cl.first, next)
				}
			}
			next = cl.last + 1
		}
		if int(next) != counts[cid] {
			off++
			if firstBad == "" {
				firstBad = fmt.Sprintf("chunk %v: the announced ranges end at %d, the chunk holds %d records", cid, next, counts[cid])
			}
		}
	}
	return
}

func sectionWPos(rng *vh.Rng, corpus []wposCase) {
	sec := res.Section("wpos", "stress",
		"concurrent writers to ONE partition through partition.Service.Write on the hand-wired service (every TsIndexer.OnWrite call recorded): per chunk the announced ranges must be pairwise disjoint and cover [0, count), and every announced range must hold the records of exactly one Write call (read back with positions). The library returns the chunk's count after releasing the writer lock (Model/WritersPos.lean, not_late_positions_exact); since /repo 25f9816 + 3e8b3c3 every caller of Service.Write holds a per-partition write lock (regenerated fact writeLockScope = 2) and 0 shifted ranges are expected in every configuration; a shifted range is tagged with the FIXED finding F-C01-901 only when the model says the writers are not under the lock (it was seen in about two of three runs of the 32-writer noEvent configuration before the repair). Quick: the corpus configuration (32 writers x 200 single-event writes with noEvent = true, the pipe worker's form) and 16 x 150 writes with noEvent = false (serialised by the per-partition write lock since /repo 25f9816: must be exact, also the WriteEvent ranges — a failure there is not attributed); thorough: also 32 x 400 single-event writes and 16 x 300 three-event writes over 4000-byte chunks. non-trivial = every run")
	cases := append([]wposCase{}, corpus...)
	// writers that publish their events (the RPC ingestor's form): serialised by the write lock, must be exact
	cases = append(cases, wposCase{MaxChunk: 1 << 26, Writers: 16, Writes: 150, Batch: 1, WithEvent: true})
	if args.Thorough {
		cases = append(cases, wposCase{MaxChunk: 1 << 26, Writers: 32, Writes: 400, Batch: 1}, wposCase{MaxChunk: 4000, Writers: 16, Writes: 300, Batch: 3})
	}
	for i, c := range cases {
		// schedule dependent (about two runs of three showed a shift before the repair): the corpus configuration is tried up
		// to three times, until a failure shows
		reps := 1
		if i < len(corpus) {
			reps = 3
		}
		for r := 0; r < reps; r++ {
			before := len(res.SpecFailures)
			runWPos(c, sec)
			if len(res.SpecFailures) > before {
				break
			}
		}
	}
	reapWG.Wait()
	res.Done(sec)
}
