package main

import (
	"context"
	"fmt"
	"os"

	"github.com/logrange/logrange/api"
	"verifharness/internal/lrsrv"
	"verifharness/internal/vh"
)

// section restart: an acknowledged write must be read back after a graceful stop and a restart on the same directory — also
// when the stop comes less than one flush period after the acknowledgement (the records are still in the chunk writer's buffer).
// The last server before the stop runs with WriteFlushMs = 60 s, so the timing is deterministic: nothing it wrote is confirmed
// by the timer; only partition.Service.Shutdown's Sync() can bring it to the disk.

type restartCase struct {
	Existing [][]dEv `json:"existing,omitempty"` // batches written (and flushed, server stopped) BEFORE: the partition exists
	Last     [][]dEv `json:"last"`               // batches written by the last server, acknowledged, then immediate graceful stop
	Via      string  `json:"via"`                // direct | rpc
	// Others: that many OTHER partitions (pk=1…) also get one acknowledged, still buffered write from the last server — half of
	// them before partition 0's writes, half after (the shutdown flush must reach every journal, whatever order it visits them in)
	Others int `json:"others,omitempty"`
}

func writeBatch(srv *lrsrv.Srv, via string, b []dEv) error { return writeBatchTo(srv, via, 0, b) }

func writeBatchTo(srv *lrsrv.Srv, via string, part int, b []dEv) error {
	tags := fmt.Sprintf("pk=%d", part)
	if via == "rpc" {
		evs := make([]*api.LogEvent, len(b))
		for i, e := range b {
			evs[i] = &api.LogEvent{Timestamp: e.Ts, Message: string(e.Msg)}
		}
		var wr api.WriteResult
		if err := srv.Client.Write(context.Background(), tags, "", evs, &wr); err != nil {
			return err
		}
		return wr.Err
	}
	return srv.Parts.Write(context.Background(), tags, &litIt{evs: modelEvs(b)}, false)
}

func runRestartCase(c restartCase, col *collector, sec *vh.Section) {
	dir := lrsrv.NewDir()
	defer os.RemoveAll(dir)
	col.add(chk{line: "w.reset 104857600", impl: "ok", fn: "reset", input: c})
	var want []binEv
	durable := 0
	fail := func(kind, what, impl, spec string) {
		res.SpecFail(vh.SpecFailure{Section: "restart", Kind: kind, Input: c, Impl: clip(impl), Spec: clip(spec), What: what})
	}
	if len(c.Existing) > 0 {
		srv, err := lrsrv.Start(dir, lrsrv.Opts{})
		if err != nil {
			res.Note("restart: %v", err)
			return
		}
		for _, b := range c.Existing {
			if err := writeBatch(srv, c.Via, b); err != nil {
				fail("valid-write-rejected", "a well-formed write was rejected: "+err.Error(), "rejected", "acknowledged")
				continue
			}
			col.add(chk{line: "w.write 0 " + dEvLine(b), impl: "", fn: "write", input: c, skip: func(string) bool { return true }})
			for _, e := range b {
				want = append(want, binEv{e.Ts, string(e.Msg), ""})
			}
		}
		srv.FlushWait()
		srv.FlushWait()
		durable = len(want) // confirmed by the timer before the stop
		srv.Stop()
		col.add(chk{line: fmt.Sprintf("w.restart 0 %d", durable), impl: "ok", fn: "restart", input: c})
	}
	// the last server: nothing it writes is flushed by the timer
	srv, err := lrsrv.Start(dir, lrsrv.Opts{WriteFlushMs: 60000})
	if err != nil {
		fail("restart-refused", "the server must start again after a clean stop", err.Error(), "starts")
		return
	}
	otherBatch := func(p int) []dEv { return []dEv{{Ts: int64(1000 + p), Msg: HS(fmt.Sprintf("other partition %d", p))}, {Ts: int64(2000 + p), Msg: "x"}} }
	otherOK := map[int]bool{}
	writeOthers := func(from, to int) {
		for p := from; p <= to; p++ {
			if err := writeBatchTo(srv, c.Via, p, otherBatch(p)); err != nil {
				fail("valid-write-rejected", "a well-formed write was rejected: "+err.Error(), "rejected", "acknowledged")
				continue
			}
			otherOK[p] = true
			col.add(chk{line: fmt.Sprintf("w.write %d ", p) + dEvLine(otherBatch(p)), impl: "", fn: "write", input: c, skip: func(string) bool { return true }})
		}
	}
	writeOthers(1, c.Others/2)
	for _, b := range c.Last {
		if err := writeBatch(srv, c.Via, b); err != nil {
			fail("valid-write-rejected", "a well-formed write was rejected: "+err.Error(), "rejected", "acknowledged")
			continue
		}
		col.add(chk{line: "w.write 0 " + dEvLine(b), impl: "", fn: "write", input: c, skip: func(string) bool { return true }})
		for _, e := range b {
			want = append(want, binEv{e.Ts, string(e.Msg), ""})
		}
	}
	writeOthers(c.Others/2+1, c.Others)
	srv.Stop() // graceful, immediately after the acknowledgement
	col.add(chk{line: fmt.Sprintf("w.restart 0 %d", durable), impl: "ok", fn: "restart", input: c})
	for p := 1; p <= c.Others; p++ {
		if otherOK[p] {
			col.add(chk{line: fmt.Sprintf("w.restart %d 0", p), impl: "ok", fn: "restart", input: c})
		}
	}
	srv, err = lrsrv.Start(dir, lrsrv.Opts{})
	if err != nil {
		fail("restart-refused", "the server must start again after a clean stop", err.Error(), "starts")
		return
	}
	defer srv.Stop()
	for _, via := range []string{"querier", "rpc"} {
		evs, rerr := readPart(srv, via, "select from pk=0", 1000, len(want)+10)
		impl := ""
		if rerr != nil {
			impl = "error " + rerr.Error()
		} else {
			got := make([]binEv, len(evs))
			for i, e := range evs {
				got[i] = binEv{e.Timestamp, e.Message, e.Fields}
			}
			impl = "ok " + showEvs(got)
		}
		col.add(chk{line: fmt.Sprintf("w.read 0 %d", defaultMaxRec), impl: impl, norm: modelReadToText, fn: "unfiltered read after a graceful restart via " + via, input: c})
		if ws := "ok " + showEvs(want); impl != ws {
			fail("acked-event-lost-on-graceful-stop", "events of an acknowledged write are not read back after a graceful stop and restart (via "+via+")", impl, ws)
		}
	}
	for p := 1; p <= c.Others; p++ {
		if !otherOK[p] {
			continue
		}
		var wantO []binEv
		for _, e := range otherBatch(p) {
			wantO = append(wantO, binEv{e.Ts, string(e.Msg), ""})
		}
		evs, rerr := readPart(srv, "querier", fmt.Sprintf("select from pk=%d", p), 1000, 20)
		impl := ""
		if rerr != nil {
			impl = "error " + rerr.Error()
		} else {
			got := make([]binEv, len(evs))
			for i, e := range evs {
				got[i] = binEv{e.Timestamp, e.Message, e.Fields}
			}
			impl = "ok " + showEvs(got)
		}
		col.add(chk{line: fmt.Sprintf("w.read %d %d", p, defaultMaxRec), impl: impl, norm: modelReadToText, fn: "unfiltered read of another partition after a graceful restart", input: c})
		if ws := "ok " + showEvs(wantO); impl != ws {
			fail("acked-event-lost-on-graceful-stop", fmt.Sprintf("events of an acknowledged write to partition pk=%d (one of %d partitions with buffered records at the stop) are not read back after a graceful stop and restart", p, c.Others+1), impl, ws)
		}
	}
	res.Eval(sec, fmt.Sprint(c))
	res.Dist(sec, fmt.Sprintf("partition existed=%v via=%s others=%d", len(c.Existing) > 0, c.Via, c.Others))
}

func sectionRestart(rng *vh.Rng) {
	sec := res.Section("restart", "system-correspondence",
		"graceful stop immediately after an acknowledgement, restart on the same directory, unfiltered read through backend.Querier and RPC: (a) the write is the FIRST write of a brand-new partition, (b) the partition existed (earlier batches written, flushed, server stopped and restarted); the last server before the stop runs with WriteFlushMs = 60 s so nothing it wrote is confirmed by the timer; 1..3 batches of 1..40 small events, direct and RPC writes; in half of the cases 1..4 OTHER partitions also hold an acknowledged, still buffered write at the stop (written before and after partition 0's) and are read back too. IMPL vs MODEL (gracefulRestart with the number of records confirmed before) and SPEC: every acknowledged event is read back, once, in order. non-trivial = every case")
	n := 8
	if args.Thorough {
		n = 40
	}
	var cases []restartCase
	ts := int64(1)
	batch := func() []dEv {
		b := genRun(rng, rng.Range(1, 40), rng.PickI([]int{0, 1, 5, 20}), ts)
		ts += 100
		return b
	}
	cases = append(cases, restartCase{Last: [][]dEv{{{Ts: 7, Msg: "only"}}}, Via: "rpc"}, restartCase{Last: [][]dEv{{{Ts: 7, Msg: "one of four"}}}, Via: "direct", Others: 3}, restartCase{Existing: [][]dEv{{{Ts: 1, Msg: "old"}}}, Last: [][]dEv{{{Ts: 2, Msg: "new"}}}, Via: "direct"})
	for i := 0; i < n; i++ {
		c := restartCase{Via: rng.PickS([]string{"direct", "rpc"})}
		if i%2 == 1 {
			for k := rng.Range(1, 2); k > 0; k-- {
				c.Existing = append(c.Existing, batch())
			}
		}
		for k := rng.Range(1, 3); k > 0; k-- {
			c.Last = append(c.Last, batch())
		}
		if i%2 == 0 {
			c.Others = rng.Range(1, 4)
		}
		cases = append(cases, c)
	}
	runParallel(len(cases), 5, "restart", func(i int, col *collector) { runRestartCase(cases[i], col, sec) })
	res.Done(sec)
}
