package main

import (
	"context"
	"encoding/hex"
	"encoding/json"
	"fmt"
	"io"
	"math"
	"sort"
	"strconv"
	"strings"
	"sync"

	"github.com/logrange/logrange/api"
	"github.com/logrange/logrange/pkg/model"
	"github.com/logrange/logrange/pkg/model/field"
	"github.com/logrange/logrange/pkg/model/tag"
	"github.com/logrange/range/pkg/records"
	"verifharness/internal/vh"
)

// HS is a byte string that travels hex-encoded in JSON (replay files must carry arbitrary bytes).
type HS string

func (h HS) MarshalJSON() ([]byte, error) { return json.Marshal(hex.EncodeToString([]byte(h))) }
func (h *HS) UnmarshalJSON(b []byte) error {
	var s string
	if err := json.Unmarshal(b, &s); err != nil {
		return err
	}
	d, err := hex.DecodeString(s)
	if err != nil {
		return err
	}
	*h = HS(d)
	return nil
}

func tsU(ts int64) string { return strconv.FormatUint(uint64(ts), 10) }

// parseKV is the real field.NewFieldsFromKVString
func parseKV(text string) (field.Fields, bool) {
	f, err := field.NewFieldsFromKVString(text)
	return f, err == nil
}

// kvTable renders the parse table the model driver needs: for each distinct non-empty text the real parser's answer
func kvTable(texts []string) string {
	seen := map[string]bool{}
	var sb strings.Builder
	n := 0
	for _, t := range texts {
		if t == "" || seen[t] {
			continue
		}
		seen[t] = true
		n++
		f, ok := parseKV(t)
		sb.WriteByte(' ')
		sb.WriteString(vh.HxS(t))
		sb.WriteByte(' ')
		if ok {
			sb.WriteString(vh.HxS(string(f)))
		} else {
			sb.WriteString("!")
		}
	}
	return strconv.Itoa(n) + sb.String()
}

// litIt is a model.Iterator over a slice of events (what a direct caller of partition.Service.Write supplies)
type litIt struct {
	evs []model.LogEvent
	i   int
}

func (m *litIt) Next(ctx context.Context) { m.i++ }
func (m *litIt) Get(ctx context.Context) (model.LogEvent, tag.Line, error) {
	if m.i >= len(m.evs) {
		return model.LogEvent{}, "", io.EOF
	}
	return m.evs[m.i], "", nil
}
func (m *litIt) Release()                        {}
func (m *litIt) SetBackward(bool)                {}
func (m *litIt) CurrentPos() records.IteratorPos { return m.i }

// ---------------------------------------------------------------------------------------------
// generators: hostile alphabets and boundary values

var tsBoundary = []int64{0, 1, -1, math.MinInt64, math.MaxInt64, math.MinInt64 + 1, math.MaxInt64 - 1, 1 << 40, -(1 << 40), 1577836800000000000}

func genTs(r *vh.Rng) int64 {
	switch r.Intn(4) {
	case 0:
		return r.PickI64(tsBoundary)
	case 1:
		return int64(r.Intn(7)) - 3
	default:
		return int64(r.U64())
	}
}

var msgFragments = []string{"", "\x00", "\x00\x00", "\xff", "\xfe\xff", "\xc3", "\xc3\xa9", "\xef\xbf\xbd", "\xf0\x9f\x98\x80", "a", "hello", "line\n", "\r\n", "\"", "`", "\\", "=", ",", "{", "}", " ", "\x7f", "\x80", "a\x00b", "{k=v}"}

func genBytes(r *vh.Rng, n int) string {
	b := make([]byte, n)
	for i := range b {
		switch r.Intn(6) {
		case 0:
			b[i] = 0
		case 1:
			b[i] = 0xff
		case 2:
			b[i] = byte(0x80 + r.Intn(0x40))
		default:
			b[i] = byte(r.Intn(256))
		}
	}
	return string(b)
}

// genMsg: hostile message bytes; length classes around the varint boundaries
func genMsg(r *vh.Rng) string {
	switch r.Intn(10) {
	case 0:
		return ""
	case 1, 2, 3:
		return r.PickS(msgFragments)
	case 4:
		return r.PickS(msgFragments) + r.PickS(msgFragments) + r.PickS(msgFragments)
	case 5:
		return genBytes(r, r.PickI([]int{126, 127, 128, 129}))
	default:
		return genBytes(r, r.Range(1, 40))
	}
}

// field texts: tricky but VALID (accepted by field.NewFieldsFromKVString) and INVALID ones
var validFieldTexts = []string{"", "a=b", "c=d,e=f", `k="x,y"`, "{z=1}", " sp = v ", "a=", `q="with \"esc\""`, "n=\xc3\xa9", "k=`raw,=`", "a=b,a=c", "x=1,y=2,z=3",
	"long=" + strings.Repeat("v", 255), strings.Repeat("k", 255) + "=v", `e=""`, "u=\xef\xbf\xbd", "t=a\tb"}
var invalidFieldTexts = []string{"oops", `q="unclosed`, "=b", strings.Repeat("k", 256) + "=v", "a=" + strings.Repeat("v", 256), "a=b,c", "{a=b", `a="\z"`}

func init() {
	// keep the generator honest: validity is decided by the real parser
	var v, iv []string
	for _, t := range validFieldTexts {
		if _, ok := parseKV(t); ok {
			v = append(v, t)
		}
	}
	for _, t := range invalidFieldTexts {
		if _, ok := parseKV(t); !ok {
			iv = append(iv, t)
		}
	}
	validFieldTexts, invalidFieldTexts = v, iv
}

func genFieldsBin(r *vh.Rng) string {
	switch r.Intn(6) {
	case 0, 1:
		return ""
	case 2:
		f, _ := field.NewFieldsFromSlice("k", strings.Repeat("v", r.Intn(5)))
		return string(f)
	case 3:
		f, _ := parseKV(r.PickS(validFieldTexts))
		return string(f)
	case 4:
		return genBytes(r, r.PickI([]int{1, 2, 127, 128, 129})) // the record codec does not look inside
	default:
		f, _ := field.NewFieldsFromSlice("a", genBytes(r, r.Intn(6)), genBytes(r, 1+r.Intn(3)), "")
		return string(f)
	}
}

// ---------------------------------------------------------------------------------------------
// deferred comparison with the model driver: every section collects request lines with the implementation's
// answer in the model's vocabulary; pending spec failures are attributed once IMPL = MODEL is known.

type chk struct {
	line  string
	impl  string
	fn    string                 // mirrored function, for the mismatch report
	norm  func(string) string    // optional: canonicalise the model's answer before comparing
	input interface{}
	skip  func(model string) bool // optional: model answers for which no comparison is made (counted)
	after func(model string)      // optional: called with the model's answer (IMPL-vs-SPEC evaluated against driver-side SPEC)
}

type pendingSF struct {
	at int // index of the chk whose equality decides impl_eq_model (-1: decided by caller)
	sf vh.SpecFailure
}

type collector struct {
	mu      sync.Mutex
	section string
	chks    []chk
	pend    []pendingSF
}

func (c *collector) add(k chk) int {
	c.mu.Lock()
	defer c.mu.Unlock()
	c.chks = append(c.chks, k)
	return len(c.chks) - 1
}

// merge appends another collector's content (used by parallel workers: each history has its own collector)
func (c *collector) merge(o *collector) {
	c.mu.Lock()
	defer c.mu.Unlock()
	base := len(c.chks)
	c.chks = append(c.chks, o.chks...)
	for _, p := range o.pend {
		if p.at >= 0 {
			p.at += base
		}
		c.pend = append(c.pend, p)
	}
}

func (c *collector) specFailAt(at int, sf vh.SpecFailure) {
	c.mu.Lock()
	c.pend = append(c.pend, pendingSF{at, sf})
	c.mu.Unlock()
}

// finish runs the driver over all lines and reports mismatches / spec failures
func (c *collector) finish() { c.finishWith(nil) }

// finishWith: like finish, with the model's answers already computed (one per chk, in order) when ans != nil
func (c *collector) finishWith(ans []string) {
	if ans == nil {
		lines := make([]string, len(c.chks))
		for i, k := range c.chks {
			lines[i] = k.line
		}
		var err error
		ans, err = vh.Batch(args.Driver, lines)
		if err != nil {
			res.Fatal(args.Out, "driver (%s): %v", c.section, err)
		}
	}
	eq := make([]bool, len(c.chks))
	skipped := 0
	for i, k := range c.chks {
		m := ans[i]
		if k.skip != nil && k.skip(m) {
			if k.fn != "SPEC" && k.line != "" && !strings.HasPrefix(k.line, "w.") {
				skipped++
			}
			eq[i] = true
		} else {
			if k.norm != nil {
				m = k.norm(m)
			}
			eq[i] = m == k.impl
			if !eq[i] {
				res.Mismatch(vh.Mismatch{Section: c.section, Function: k.fn, Input: k.input, Impl: clip(k.impl), Model: clip(m)})
			}
		}
		if k.after != nil {
			k.after(ans[i])
		}
	}
	if skipped > 0 {
		res.Note("%s: %d model answers skipped (input outside the parse table)", c.section, skipped)
	}
	// report failures in case order (directed cases and corpus entries first), not in the order they were noticed
	sort.SliceStable(c.pend, func(i, j int) bool { return c.pend[i].at < c.pend[j].at })
	for _, p := range c.pend {
		sf := p.sf
		if p.at >= 0 {
			sf.ImplEqModel = eq[p.at]
			if sf.Model == "" {
				sf.Model = clip(ans[p.at])
			}
		}
		if !sf.ImplEqModel {
			sf.Finding = "" // a failure on which IMPL and MODEL differ is never a known finding
		}
		res.SpecFail(sf)
	}
}

func clip(s string) string {
	if len(s) > 600 {
		return s[:600] + fmt.Sprintf("…(%d bytes)", len(s))
	}
	return s
}

// showEvsBin renders events in the driver's format "n ts/msg/fields"
type binEv struct {
	Ts     int64
	Msg    string
	Fields string
}

func showEvs(evs []binEv) string {
	var sb strings.Builder
	sb.WriteString(strconv.Itoa(len(evs)))
	for _, e := range evs {
		sb.WriteByte(' ')
		sb.WriteString(tsU(e.Ts))
		sb.WriteByte('/')
		sb.WriteString(vh.HxS(e.Msg))
		sb.WriteByte('/')
		sb.WriteString(vh.HxS(e.Fields))
	}
	return sb.String()
}

// parseEvs is the inverse of showEvs (on the part after "ok ")
func parseEvs(s string) ([]binEv, bool) {
	toks := strings.Fields(s)
	if len(toks) == 0 {
		return nil, false
	}
	n, err := strconv.Atoi(toks[0])
	if err != nil || len(toks) != n+1 {
		return nil, false
	}
	out := make([]binEv, 0, n)
	for _, t := range toks[1:] {
		p := strings.Split(t, "/")
		if len(p) != 3 {
			return nil, false
		}
		u, err := strconv.ParseUint(p[0], 10, 64)
		if err != nil {
			return nil, false
		}
		out = append(out, binEv{int64(u), string(vh.UnHx(p[1])), string(vh.UnHx(p[2]))})
	}
	return out, true
}

func apiEvs(evs []wEv) []*api.LogEvent {
	out := make([]*api.LogEvent, len(evs))
	for i, e := range evs {
		out[i] = &api.LogEvent{Timestamp: e.Ts, Message: string(e.Msg), Tags: string(e.ETags), Fields: string(e.Fields)}
	}
	return out
}

// wEv is a client-side event: fields are KV text
type wEv struct {
	Ts     int64 `json:"ts"`
	Msg    HS    `json:"msg"`
	ETags  HS    `json:"etags,omitempty"`
	Fields HS    `json:"fields,omitempty"`
}

func wEvLine(evs []wEv) string {
	var sb strings.Builder
	sb.WriteString(strconv.Itoa(len(evs)))
	for _, e := range evs {
		fmt.Fprintf(&sb, " %s %s %s %s", tsU(e.Ts), vh.HxS(string(e.Msg)), vh.HxS(string(e.ETags)), vh.HxS(string(e.Fields)))
	}
	return sb.String()
}

func textsOf(wf string, evs []wEv) []string {
	t := []string{wf}
	for _, e := range evs {
		t = append(t, string(e.Fields))
	}
	return t
}
