package main

import (
	"context"
	"fmt"
	"io"
	"strconv"
	"strings"

	"github.com/logrange/logrange/pkg/model"
	"github.com/logrange/logrange/pkg/partition"
	"github.com/logrange/logrange/pkg/tmindex"
	"github.com/logrange/range/pkg/records"
	"github.com/logrange/range/pkg/records/chunk"
	"github.com/logrange/range/pkg/records/journal"
	"verifharness/internal/vh"
)

// section tailrace: deterministic replay of finding #34 (a reader at the tail racing a writer). Both journal iterators take
// the journal.Journal interface, so the race is replayed without goroutines: a scripted journal of two chunks whose last
// chunk answers Count() from a script (the i-th read returns script[min(i, len-1)]) and whose chunk iterator follows the
// library contract A.1 (the confirmed count is read at each Get / Next / position-changing SetPos).

type sChunk struct {
	id     chunk.Id
	script []uint32
	reads  int
	recs   []string
}

func (c *sChunk) Close() error { return nil }
func (c *sChunk) Id() chunk.Id { return c.id }
func (c *sChunk) Write(ctx context.Context, it records.Iterator) (int, uint32, error) {
	return 0, 0, nil
}
func (c *sChunk) Sync()       {}
func (c *sChunk) Size() int64 { return 0 }
func (c *sChunk) Count() uint32 {
	i := c.reads
	if i >= len(c.script) {
		i = len(c.script) - 1
	}
	c.reads++
	return c.script[i]
}
func (c *sChunk) AddListener(l chunk.Listener)      {}
func (c *sChunk) Iterator() (chunk.Iterator, error) { return &sChunkIt{c: c}, nil }

// sChunkIt: chunk iterator per contract A.1, forward and backward
type sChunkIt struct {
	c   *sChunk
	pos int64
	bk  bool
}

func (i *sChunkIt) Close() error                    { return nil }
func (i *sChunkIt) Release()                        {}
func (i *sChunkIt) SetBackward(b bool)              { i.bk = b }
func (i *sChunkIt) Pos() int64                      { return i.pos }
func (i *sChunkIt) CurrentPos() records.IteratorPos { return i.pos }
func (i *sChunkIt) SetPos(p int64) error {
	if p == i.pos {
		return nil
	}
	cnt := int64(i.c.Count())
	if p > cnt {
		p = cnt
	}
	if p < 0 {
		p = -1
	}
	i.pos = p
	return nil
}
func (i *sChunkIt) Get(ctx context.Context) (records.Record, error) {
	cnt := int64(i.c.Count())
	if i.bk && i.pos >= cnt {
		i.pos = cnt - 1
	}
	if !i.bk && i.pos < 0 {
		i.pos = 0
	}
	if i.pos < 0 || i.pos >= cnt {
		return nil, io.EOF
	}
	return records.Record(i.c.recs[i.pos]), nil
}
func (i *sChunkIt) Next(ctx context.Context) {
	if _, err := i.Get(ctx); err == nil {
		if i.bk {
			i.SetPos(i.pos - 1)
		} else {
			i.pos++
		}
	}
}

type sJournal struct{ cks chunk.Chunks }

func (j *sJournal) Name() string { return "scripted" }
func (j *sJournal) Write(ctx context.Context, rit records.Iterator) (int, journal.Pos, error) {
	return 0, journal.Pos{}, nil
}
func (j *sJournal) Size() uint64                     { return 0 }
func (j *sJournal) Count() uint64                    { return 0 }
func (j *sJournal) Sync()                            {}
func (j *sJournal) Chunks() journal.ChnksController { return &sCtl{j} }

type sCtl struct{ j *sJournal }

func (c *sCtl) JournalName() string { return "scripted" }
func (c *sCtl) GetChunkForWrite(ctx context.Context, ex chunk.Id) (chunk.Chunk, error) {
	return nil, nil
}
func (c *sCtl) Chunks(ctx context.Context) (chunk.Chunks, error)          { return c.j.cks, nil }
func (c *sCtl) WaitForNewData(ctx context.Context, pos journal.Pos) error { return nil }
func (c *sCtl) DeleteChunks(ctx context.Context, last chunk.Id, cdf journal.OnChunkDeleteF) (int, error) {
	return 0, nil
}
func (c *sCtl) LocalFolder() string { return "" }

// an index that knows nothing: every chunk's hull is wider than the range asked for, so the ranged iterator never looks up positions
type sIdx struct{ tmindex.TsIndexer }

func (sIdx) SyncChunks(ctx context.Context, src string, cks chunk.Chunks) []tmindex.RecordsInfo {
	r := make([]tmindex.RecordsInfo, len(cks))
	for i, c := range cks {
		r[i] = tmindex.RecordsInfo{Id: c.Id(), MinTs: 0, MaxTs: 10}
	}
	return r
}
func (sIdx) GetRecordsInfo(src string, cid chunk.Id) (tmindex.RecordsInfo, error) {
	return tmindex.RecordsInfo{Id: cid, MinTs: 0, MaxTs: 10}, nil
}

type sRebuilder struct{}

func (sRebuilder) RebuildIndex(src string, cid chunk.Id, force bool) {}

type tailCase struct {
	Old    int      `json:"old"`    // records of the old chunk (id 10), all read: the reader sits at (10, old)
	Size   int      `json:"size"`   // records the new chunk (id 20) finally holds
	Script []uint32 `json:"script"` // answers of the new chunk's Count(), the last one repeats
	Fuel   int      `json:"fuel"`
	Polls  int      `json:"polls"`
}

type tailOut struct {
	eof  bool
	pos  journal.Pos
	got  []int
	fail string
}

func (o tailOut) String() string {
	if o.fail != "" {
		return "failed: " + o.fail
	}
	g := "-"
	if len(o.got) > 0 {
		p := make([]string, len(o.got))
		for i, x := range o.got {
			p[i] = strconv.Itoa(x)
		}
		g = strings.Join(p, ".")
	}
	e := "0"
	if o.eof {
		e = "1"
	}
	return fmt.Sprintf("eof=%s,pos=%d:%d,got=%s", e, o.pos.CId, o.pos.Idx, g)
}

func runTail(c tailCase, mk func(j journal.Journal) journal.Iterator) (out tailOut) {
	recs := make([]string, c.Size)
	for i := range recs {
		recs[i] = "r" + strconv.Itoa(i)
	}
	olds := make([]string, c.Old)
	for i := range olds {
		olds[i] = "a" + strconv.Itoa(i)
	}
	j := &sJournal{cks: chunk.Chunks{
		&sChunk{id: 10, script: []uint32{uint32(c.Old)}, recs: olds},
		&sChunk{id: 20, script: c.Script, recs: recs},
	}}
	if p := vh.Recover(func() {
		it := mk(j)
		ctx := context.Background()
		it.SetPos(journal.Pos{CId: 10, Idx: uint32(c.Old)})
		_, err := it.Get(ctx)
		out.eof = err != nil
		out.pos = it.Pos()
		eofs := 0
		for k := 0; k < c.Fuel && eofs < c.Polls; k++ {
			rec, err := it.Get(ctx)
			if err != nil {
				eofs++
				continue
			}
			n, _ := strconv.Atoi(strings.TrimPrefix(string(rec), "r"))
			if !strings.HasPrefix(string(rec), "r") {
				n = -1
			}
			out.got = append(out.got, n)
			it.Next(ctx)
		}
	}); p != "" {
		out.fail = "panic: " + p
	}
	return
}

func allOf(n int) string {
	if n == 0 {
		return "-"
	}
	p := make([]string, n)
	for i := range p {
		p[i] = strconv.Itoa(i)
	}
	return strings.Join(p, ".")
}

func runTailCase(c tailCase, col *collector, sec *vh.Section) {
	lib := runTail(c, func(j journal.Journal) journal.Iterator { return journal.NewJIterator(j) })
	ranged := runTail(c, func(j journal.Journal) journal.Iterator {
		return partition.NewJIterator(model.TimeRange{MinTs: -1 << 61, MaxTs: 1 << 61}, j, sIdx{}, sRebuilder{})
	})
	sc := make([]string, len(c.Script))
	for i, x := range c.Script {
		sc[i] = strconv.Itoa(int(x))
	}
	grew := false
	// IMPL (library iterator) vs both Lean models; the class predicate (some end-of-data step saw c1 < c2) comes from the model
	strip := func(m string) string { // "jobs=<probe> tail=<probe>" -> "<probe without grew> | <probe without grew>"
		f := strings.Fields(m)
		if len(f) != 2 {
			return m
		}
		cut := func(x string) string {
			x = x[strings.Index(x, "=")+1:]
			if i := strings.LastIndex(x, ",grew="); i >= 0 {
				grew = grew || strings.HasSuffix(x, "grew=1")
				x = x[:i]
			}
			return x
		}
		return cut(f[0]) + " | " + cut(f[1])
	}
	at := col.add(chk{line: fmt.Sprintf("tail.probe %d %d %d %s", c.Old, c.Fuel, c.Polls, strings.Join(sc, " ")), impl: lib.String() + " | " + lib.String(),
		norm: strip, fn: "journal.JIterator (library) on a scripted journal: observation model | tail model", input: c})
	res.Eval(sec, fmt.Sprint(c))
	want := allOf(c.Size)
	wantStr := "got=" + want
	res.Dist(sec, fmt.Sprintf("size=%d library delivers all=%v", c.Size, strings.HasSuffix(lib.String(), wantStr)))
	if !strings.HasSuffix(lib.String(), wantStr) {
		// attributed to F34 only if IMPL = MODEL on this script and the model saw the count grow inside an end-of-data step
		col.chks[at].after = func(string) {
			sf := vh.SpecFailure{Section: "tailrace", Kind: "tail-skip", Input: c, Impl: clip(lib.String()), Spec: clip("every record of the new chunk, in order: " + wantStr),
				What: "a tailing reader (library journal.JIterator) never returns records that were confirmed between its end-of-data decision and the position it reports"}
			if grew {
				sf.Finding = "F34"
			}
			col.specFailAt(at, sf)
		}
	}
	// control: the ranged iterator of /repo (fixed by 53beb1f) must deliver everything for every script
	if !strings.HasSuffix(ranged.String(), wantStr) {
		res.SpecFail(vh.SpecFailure{Section: "tailrace", Kind: "tail-skip", Input: c, Impl: clip("partition.JIterator: " + ranged.String()), Spec: clip(wantStr),
			What: "the ranged iterator (partition.JIterator) skips records confirmed while it reports end of data (the repair 53beb1f is gone)"})
	}
}

func growthScript(g int, size uint32) []uint32 {
	s := make([]uint32, 0, g+1)
	for i := 0; i < g; i++ {
		s = append(s, 0)
	}
	return append(s, size)
}

func sectionTailRace(rng *vh.Rng, corpus []tailCase) {
	sec := res.Section("tailrace", "system-correspondence",
		"deterministic replay of the reader-at-the-tail race (#34): a scripted journal.Journal (old chunk fully read, new chunk whose Count() answers come from a script, chunk iterator per contract A.1) under the REAL library journal.NewJIterator and the REAL partition.NewJIterator; scripts: growth 0 -> size at Count() read index 0..6 for sizes {1, 2, 150}, old chunk of {0, 1, 3} records, plus stepwise growths; IMPL (library iterator: first Get, position, every delivered record index) vs the Lean observation model JIterObs and vs the tail model on which tail_read_no_skip_partial is proved; SPEC: every record of the new chunk is delivered in order (control: the ranged iterator must satisfy it for every script). non-trivial = every script")
	col := &collector{section: "tailrace"}
	for _, c := range corpus {
		runTailCase(c, col, sec)
	}
	for _, size := range []uint32{1, 2, 150} {
		for g := 0; g <= 6; g++ {
			for _, old := range []int{3, 0, 1} {
				runTailCase(tailCase{Old: old, Size: int(size), Script: growthScript(g, size), Fuel: 700, Polls: 10}, col, sec)
			}
		}
	}
	for _, s := range [][]uint32{{0, 1, 150}, {0, 0, 1, 150}, {0, 1, 1, 150}, {0, 0, 0, 1, 1, 150}, {1, 1, 2, 2, 150}, {0, 75, 150}, {0, 0, 0, 75, 75, 150}, {5, 5, 150}, {5, 150}} {
		runTailCase(tailCase{Old: 3, Size: 150, Script: s, Fuel: 700, Polls: 10}, col, sec)
	}
	n := 40
	if args.Thorough {
		n = 600
	}
	for i := 0; i < n; i++ {
		// random monotone scripts
		size := uint32(rng.PickI([]int{1, 3, 20, 150}))
		l := rng.Range(1, 8)
		s := make([]uint32, l)
		cur := uint32(0)
		for k := range s {
			if rng.Chance(1, 2) {
				cur += uint32(rng.Intn(int(size-cur) + 1))
			}
			s[k] = cur
		}
		s[l-1] = size
		runTailCase(tailCase{Old: rng.PickI([]int{0, 1, 3}), Size: int(size), Script: s, Fuel: 700, Polls: 10}, col, sec)
	}
	col.finish()
	res.Done(sec)
}
