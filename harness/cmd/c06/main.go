// C06 harness — partition identity is tag-set equality; FROM selects exactly the matches.
//
// Sections
//
//	like       unit correspondence: Go's path.Match vs the model's pathMatch (the LIKE operator)
//	tagseval   unit correspondence + SPEC: lql.ParseSource → BuildTagsExpFuncBySource evaluated on tag sets vs the model
//	           builder (MODEL) and the reference evaluator (SPEC); {tags} sources also vs a Go map-subset oracle
//	identity   system: real tindex (in-process server) driven with many spellings of the same sets and with different
//	           sets: GetOrCreateJournal + Release; ids renamed densely; IMPL vs MODEL (goc) vs SPEC (same id iff same set)
//	selection  system: partitions populated through the RPC client, SELECT FROM {tags} / FROM expr / no FROM and
//	           tindex.Visit vs MODEL (visit) vs SPEC (filter by subset / reference evaluator / all)
//	race       racing first writes of one new tag set (different spellings, several goroutines) → one partition
package main

import (
	"context"
	"encoding/hex"
	"encoding/json"
	"fmt"
	"os"
	"path"
	"path/filepath"
	"sort"
	"strconv"
	"strings"
	"sync"
	"time"
	"unicode/utf8"

	"github.com/logrange/logrange/api"
	"github.com/logrange/logrange/pkg/lql"
	"github.com/logrange/logrange/pkg/model/tag"
	"github.com/logrange/logrange/pkg/utils/kvstring"
	"verifharness/internal/lrsrv"
	"verifharness/internal/vh"
)

var (
	args vh.Args
	res  *vh.Result
)

const findingQuoting = "F08-C06" // shared with C08: non-Safe sets print lines that collide or re-read differently

// ---------------------------------------------------------------------------------------------
// helpers

func hx(s string) string { return vh.HxS(s) }

func flatSorted(m map[string]string) []string {
	ks := make([]string, 0, len(m))
	for k := range m {
		ks = append(ks, k)
	}
	sort.Strings(ks)
	r := make([]string, 0, 2*len(ks))
	for _, k := range ks {
		r = append(r, k, m[k])
	}
	return r
}

func isIdent(k string) bool {
	if k == "" {
		return false
	}
	for i := 0; i < len(k); i++ {
		c := k[i]
		if !(c == '_' || (c >= 'a' && c <= 'z') || (c >= 'A' && c <= 'Z') || (i > 0 && c >= '0' && c <= '9')) {
			return false
		}
	}
	switch strings.ToLower(k) {
	case "select", "from", "where", "limit", "offset", "position", "and", "or", "not", "like", "contains", "prefix", "suffix", "range", "partition", "partitions", "pipe", "pipes", "show", "create", "delete", "describe", "truncate", "dryrun", "before", "maxsize", "minsize", "maxdbsize":
		return false
	}
	return true
}

func sortedKeys(m map[string]string) []string {
	ks := make([]string, 0, len(m))
	for k := range m {
		ks = append(ks, k)
	}
	sort.Strings(ks)
	return ks
}

func hexJoin(xs []string) string {
	h := make([]string, len(xs))
	for i, x := range xs {
		h[i] = hx(x)
	}
	return strings.Join(h, " ")
}

func isASCII(s string) bool {
	for i := 0; i < len(s); i++ {
		if s[i] >= 0x80 {
			return false
		}
	}
	return true
}

func kvField(ans, key string) string {
	i := strings.Index(ans, key+"=")
	if i < 0 {
		return ""
	}
	rest := ans[i+len(key)+1:]
	if j := strings.Index(rest, " spec="); j >= 0 && key == "model" {
		return rest[:j]
	}
	return rest
}

var opTok = map[string]string{"<": "lt", ">": "gt", "<=": "le", ">=": "ge", "!=": "ne", "=": "eq", "LIKE": "like", "CONTAINS": "contains", "PREFIX": "prefix", "SUFFIX": "suffix"}

func serIdent(id *lql.Identifier, usesFn *bool) string {
	switch len(id.Params) {
	case 0:
		return "L " + hx(id.Operand)
	case 1:
		*usesFn = true
		return "F " + hx(id.Operand) + " " + serIdent(id.Params[0], usesFn)
	default:
		return "B " + hx(id.Operand)
	}
}

func serOr(or []*lql.OrCondition, usesFn *bool) string {
	var sb strings.Builder
	fmt.Fprintf(&sb, "O %d", len(or))
	for _, o := range or {
		fmt.Fprintf(&sb, " A %d", len(o.And))
		for _, x := range o.And {
			nt := "0"
			if x.Not {
				nt = "1"
			}
			if x.Expr != nil {
				sb.WriteString(" E " + nt + " " + serOr(x.Expr.Or, usesFn))
			} else {
				op, ok := opTok[strings.ToUpper(x.Cond.Op)]
				if !ok {
					op = "other"
				}
				sb.WriteString(" C " + nt + " " + serIdent(x.Cond.Ident, usesFn) + " " + op + " " + hx(x.Cond.Value))
			}
		}
	}
	return sb.String()
}

// serSource: the driver's form of a parsed source; tagsText is the text the {tags} token was taken from
func serSource(src *lql.Source, tagsText string, usesFn *bool) string {
	switch {
	case src == nil:
		return "none"
	case src.Tags != nil:
		m, _ := kvstring.ToMap(tagsText)
		return strings.TrimRight("tags "+hexJoin(flatSorted(m)), " ") + " ;"
	case src.Expr == nil:
		return "expr O 0"
	default:
		return "expr " + serOr(src.Expr.Or, usesFn)
	}
}

// ---------------------------------------------------------------------------------------------
// generators

// pools contain blank twins (a value / name with an inner blank and the same text without it): "app 1"/"app1", "a bc"/"abc",
// "a b"/"ab", "k 1"/"k1" — different sets that must never share a partition
var tagKeys = []string{"a", "b", "name", "ip", "k1", "A", "k 1"}
var tagVals = []string{"1", "2", "app1", "app2", "x", "", "abc", "ABC", "a/b", "app/1", "a/b/c", "10.0.0.1", "Z", "a b", "ab", "app 1", "a bc", "é", "x\"y", " c ", "a=b", "a,b", "\xff", "a\x80b", "x,\xff", "\xc3"}
var safeVals = []string{"1", "2", "app1", "app2", "x", "", "abc", "ABC", "a/b", "app/1", "a/b/c", "10.0.0.1", "Z", "a b", "ab", "app 1", "a bc", "a=b", "a,b", "x\"y\"z"}

func genSet(r *vh.Rng, vals []string) map[string]string {
	m := map[string]string{}
	k := 1 + r.Intn(3)
	for i := 0; i < k; i++ {
		m[r.PickS(tagKeys)] = r.PickS(vals)
	}
	return m
}

func spellValue(r *vh.Rng, v string) string {
	// raw spelling: also for values with inner blanks (kvstring only trims the ends)
	raw := v != "" && !strings.ContainsAny(v, "=,\"`{}") && isASCII(v) && v[0] != ' ' && v[len(v)-1] != ' '
	switch r.Intn(5) {
	case 0:
		if raw {
			return v
		}
	case 1:
		if raw {
			return " " + v + " "
		}
	case 2:
		// kvstring does not treat a backquote as a string delimiter: separators and quotes inside would split the text
		if !strings.ContainsAny(v, "`\r=,\"") {
			return "`" + v + "`"
		}
	case 3:
		return " " + strconv.Quote(v)
	}
	return strconv.Quote(v)
}

func spellSet(r *vh.Rng, m map[string]string) string {
	flat := flatSorted(m)
	pm := r.Perm(len(flat) / 2)
	var sb strings.Builder
	br := r.Chance(1, 3)
	if br {
		sb.WriteString([]string{"{", "{ ", " {"}[r.Intn(3)])
	}
	for i, j := range pm {
		if i > 0 {
			sb.WriteString([]string{",", ", ", " , "}[r.Intn(3)])
		}
		sb.WriteString(flat[2*j])
		sb.WriteString([]string{"=", " = ", "= "}[r.Intn(3)])
		sb.WriteString(spellValue(r, flat[2*j+1]))
	}
	if br {
		sb.WriteString([]string{"}", " }", "} "}[r.Intn(3)])
	}
	return sb.String()
}

var exprIdents = []string{"a", "b", "name", "ip", "k1", "A", "zz"}
var exprVals = []string{"1", "2", "app1", "app*", "a*", `"a/*"`, `"*"`, `"a*c"`, `"*1"`, "a?c", "[a-c]bc", "ABC", "abc", "x", `""`, `"a b"`, `"["`, `"a[", `, `"[b-a]"`, `"\\"`, `"a\\"`, "10.0.0.1", `"*"`, `"a/*"`, "Z", `'x"y'`}
var exprOps = []string{"=", "!=", "<", ">", "<=", ">=", "like", "LIKE", "contains", "prefix", "suffix", "Contains"}

func genCond(r *vh.Rng) string {
	id := r.PickS(exprIdents)
	switch r.Intn(10) {
	case 0:
		id = "upper(" + id + ")"
	case 1:
		id = "lower(" + id + ")"
	case 2:
		id = "LOWER(Upper(" + id + "))"
	case 3:
		if r.Chance(1, 4) {
			id = []string{"trim(" + id + ")", "upper(a, b)", "upper()"}[r.Intn(3)]
		}
	}
	v := strings.TrimSpace(r.PickS(exprVals))
	return id + " " + r.PickS(exprOps) + " " + v
}

func genExpr(r *vh.Rng, depth int) string {
	n := 1 + r.Intn(3)
	var ors []string
	for i := 0; i < n; i++ {
		k := 1 + r.Intn(2)
		var ands []string
		for j := 0; j < k; j++ {
			x := genCond(r)
			group := depth > 0 && r.Chance(1, 4)
			if group {
				x = "(" + genExpr(r, depth-1) + ")"
			}
			if r.Chance(1, 4) || (group && r.Chance(1, 3)) { // NOT before conditions and before groups, at every depth
				x = []string{"not ", "NOT "}[r.Intn(2)] + x
			}
			ands = append(ands, x)
		}
		ors = append(ors, strings.Join(ands, " and "))
		if n > 1 && r.Chance(1, 2) {
			break
		}
	}
	return strings.Join(ors, " OR ")
}

// genSource: text of a FROM source and, for {tags}, the tag text
func genSource(r *vh.Rng) string {
	switch r.Intn(8) {
	case 0:
		return ""
	case 1, 2, 3:
		m := genSet(r, safeVals)
		t := spellSet(r, m)
		if !strings.HasPrefix(strings.TrimSpace(t), "{") {
			t = "{" + t + "}"
		}
		return strings.TrimSpace(t)
	default:
		return genExpr(r, 2)
	}
}

// ---------------------------------------------------------------------------------------------
// like

func sectionLike(rng *vh.Rng) {
	sec := res.Section("like", "unit-correspondence",
		"path.Match(pattern, name) over patterns from {a b c * ? [ ] - ^ \\ / é 0xff} (≤ 7 symbols) and names from {a b c / é 0xff - ]} (≤ 5): 1 / 0 / bad pattern; non-trivial = distinct pair with a meta character in the pattern")
	pa := []string{"a", "b", "c", "*", "?", "[", "]", "-", "^", "\\", "/", "é", "\xff", "*", "["}
	na := []string{"a", "b", "c", "/", "é", "\xff", "-", "]", "a", "b"}
	n := 60000
	if args.Thorough {
		n = 1500000
	}
	var lines, impls []string
	var ins []interface{}
	gen := func(al []string, max int) string {
		var sb strings.Builder
		for k := rng.Intn(max + 1); k > 0; k-- {
			sb.WriteString(al[rng.Intn(len(al))])
		}
		return sb.String()
	}
	for i := 0; i < n; i++ {
		p, nm := gen(pa, 7), gen(na, 5)
		ok, err := path.Match(p, nm)
		e := "0"
		if err != nil {
			e = "bad"
		} else if ok {
			e = "1"
		}
		key := ""
		if strings.ContainsAny(p, "*?[\\") {
			key = p + "\x00" + nm
		}
		res.Eval(sec, key)
		res.Dist(sec, e)
		lines = append(lines, "like "+hx(p)+" "+hx(nm))
		impls = append(impls, e)
		ins = append(ins, map[string]string{"pattern_hex": hx(p), "name_hex": hx(nm), "pattern": fmt.Sprintf("%q", p), "name": fmt.Sprintf("%q", nm)})
	}
	outs, err := vh.Batch(args.Driver, lines)
	if err != nil {
		res.Fatal(args.Out, "driver: %v", err)
	}
	for i := range outs {
		if outs[i] != impls[i] {
			res.Mismatch(vh.Mismatch{Section: "like", Function: "path.Match", Input: ins[i], Impl: impls[i], Model: outs[i]})
		}
	}
	res.Done(sec)
}

// ---------------------------------------------------------------------------------------------
// tagseval

type evalCase struct {
	Source string            `json:"source"`
	Tags   map[string]string `json:"tags"`
}

// implEval: ParseSource + BuildTagsExpFuncBySource + evaluation on the set; "rej" when the builder (or parser) refuses
func implEval(src *lql.Source, perr error, m map[string]string) string {
	if perr != nil {
		return "rej"
	}
	tef, err := lql.BuildTagsExpFuncBySource(src)
	if err != nil {
		return "rej"
	}
	r := "0"
	if p := vh.Recover(func() {
		if tef(tag.MapToSet(m)) {
			r = "1"
		}
	}); p != "" {
		return "panic"
	}
	return r
}

func sectionTagsEval(rng *vh.Rng) {
	sec := res.Section("tagseval", "spec-search",
		"generated FROM sources ({tags} in many spellings; expressions with = != < > <= >= LIKE CONTAINS PREFIX SUFFIX, AND/OR/NOT, parentheses to depth 2, UPPER/LOWER calls incl. nested, unknown and wrong-arity functions, malformed LIKE patterns) parsed by lql.ParseSource, built by BuildTagsExpFuncBySource, evaluated on 4 generated tag sets each; IMPL vs MODEL (builder) vs SPEC (reference evaluator; Go map-subset oracle for {tags}); non-trivial = accepted source with at least one condition, distinct by (source, set)")
	n := 10000
	if args.Thorough {
		n = 300000
	}
	var lines, impls []string
	var ins []evalCase
	add := func(text string, sets []map[string]string) {
		src, perr := lql.ParseSource(text)
		if perr != nil {
			res.Dist(sec, "parse-rejected")
			res.Eval(sec, "")
			return
		}
		usesFn := false
		ser := serSource(src, text, &usesFn)
		for _, m := range sets {
			if usesFn {
				ascii := true
				for k, v := range m {
					ascii = ascii && isASCII(k) && isASCII(v)
				}
				if !ascii {
					continue // the driver's case mapping is ASCII only
				}
			}
			e := implEval(src, perr, m)
			key := ""
			if e != "rej" && text != "" {
				key = text + "\x00" + fmt.Sprint(flatSorted(m))
			}
			res.Eval(sec, key)
			res.Dist(sec, "result:"+e)
			c := evalCase{Source: text, Tags: m}
			if e == "panic" {
				res.SpecFail(vh.SpecFailure{Section: "tagseval", Kind: "panic", Input: c, Impl: "panic", Spec: "0|1|rej", What: "evaluating a built tag condition panics"})
			}
			if src != nil && src.Tags != nil && e != "rej" {
				// Go oracle for {tags}: every pair of the source is in the set
				tm, _ := kvstring.ToMap(text)
				want := "1"
				for k, v := range tm {
					if v2, ok := m[k]; !ok || v2 != v {
						want = "0"
					}
				}
				if want != e {
					res.SpecFail(vh.SpecFailure{Section: "tagseval", Kind: "from-tags-wrong", Input: c, Impl: e, Spec: want, What: "FROM {tags} does not select by 'all given pairs are in the set'"})
				}
			}
			lines = append(lines, strings.TrimRight("eval "+ser+" | "+hexJoin(flatSorted(m)), " "))
			impls = append(impls, e)
			ins = append(ins, c)
		}
	}
	fixed := []string{"", "{a=1}", "a=1", "a=1 and b=2", "a=1 or b=2", "not a=1", "a like \"[\"", "a contains \"b\" and a like \"[\"", "upper(a)=ABC", "lower(upper(a)) = abc",
		"trim(a)=1", "upper(a,b)=1", "(a=1 or b=2) and not (name prefix app)", "a like \"app*\"", "a like \"a[\"", "zz = \"\"", "a < 2", "a >= 10", "{a=1,b=\"2\"}", "{ b = 2 , a = `1` }"}
	for _, t := range fixed {
		add(t, []map[string]string{{"a": "1", "b": "2"}, {"a": "abc", "name": "app1"}, {"b": "2"}, {"a": "ABC"}})
	}
	for _, f := range vh.CorpusFiles(args.Corpus) {
		var c struct {
			Section string   `json:"section"`
			Input   evalCase `json:"input"`
		}
		if vh.ReadJSON(f, &c) == nil && c.Section == "tagseval" {
			add(c.Input.Source, []map[string]string{c.Input.Tags})
		}
	}
	for i := 0; i < n; i++ {
		var sets []map[string]string
		for j := 0; j < 4; j++ {
			sets = append(sets, genSet(rng, tagVals))
		}
		add(genSource(rng), sets)
	}
	outs, err := vh.Batch(args.Driver, lines)
	if err != nil {
		res.Fatal(args.Out, "driver: %v", err)
	}
	for i := range outs {
		model, spec := kvField(outs[i], "model"), kvField(outs[i], "spec")
		if model != impls[i] {
			res.Mismatch(vh.Mismatch{Section: "tagseval", Function: "lql.BuildTagsExpFuncBySource", Input: ins[i], Impl: impls[i], Model: outs[i]})
		}
		if spec != impls[i] && impls[i] != "panic" {
			res.SpecFail(vh.SpecFailure{Section: "tagseval", Kind: "from-expr-wrong", Input: ins[i], Impl: impls[i], Spec: spec, Model: model, ImplEqModel: model == impls[i],
				What: "the built tag condition disagrees with the reference meaning of the expression"})
		}
	}
	res.Done(sec)
}

// ---------------------------------------------------------------------------------------------
// identity

type identCase struct {
	Texts  []string            `json:"texts_hex"`         // the sequence of raw tag texts given to GetOrCreateJournal
	Sets   []map[string]string `json:"sets,omitempty"`    // the generator's tag sets …
	SetIdx []int               `json:"set_idx,omitempty"` // … and which of them each text spells (-1: not a spelling; oracle = the parser)
	Fault  []bool              `json:"fault,omitempty"`   // the tag index cannot be saved during this call (a directory sits where tindex.dat.tmp is written)
}

func (c identCase) fault(i int) bool { return i < len(c.Fault) && c.Fault[i] }

// withSaveFault runs f while the index file cannot be written
func withSaveFault(dir string, f func()) {
	tmp := filepath.Join(dir, "tindex", "tindex.dat.tmp")
	os.MkdirAll(filepath.Join(tmp, "x"), 0755)
	defer os.RemoveAll(tmp)
	f()
}

func (c identCase) texts() []string {
	r := make([]string, len(c.Texts))
	for i, t := range c.Texts {
		b, _ := hex.DecodeString(t)
		r[i] = string(b)
	}
	return r
}

// denotes: the set text i stands for — the generator's own set when the text is one of its spellings (an oracle that
// does not go through the implementation's parser), kvstring.ToMap otherwise
func (c identCase) denotes(i int) (map[string]string, error) {
	if i < len(c.SetIdx) && c.SetIdx[i] >= 0 && c.SetIdx[i] < len(c.Sets) {
		return c.Sets[c.SetIdx[i]], nil
	}
	t := c.texts()[i]
	if len(t) == 0 {
		return map[string]string{}, nil
	}
	return kvstring.ToMap(t)
}

func validUTF8Set(m map[string]string) bool {
	for k, v := range m {
		if !utf8.ValidString(k) || !utf8.ValidString(v) {
			return false
		}
	}
	return true
}

func genIdentCase(rng *vh.Rng) identCase {
	var c identCase
	nsets := 2 + rng.Intn(4)
	var sets []map[string]string
	for i := 0; i < nsets; i++ {
		vals := safeVals
		if rng.Chance(1, 4) {
			vals = tagVals
		}
		m := genSet(rng, vals)
		sets = append(sets, m)
		if rng.Chance(1, 2) {
			// a near neighbour: one pair more, one value changed, or a superset
			n := map[string]string{}
			for k, v := range sets[rng.Intn(len(sets))] {
				n[k] = v
			}
			switch rng.Intn(4) {
			case 0:
				n[rng.PickS(tagKeys)] = rng.PickS(vals)
			case 1:
				for _, k := range sortedKeys(n) {
					n[k] = n[k] + "x"
					break
				}
			default:
				// blank twin: the same set with an inner blank inserted into (or removed from) one value or name
				ks := sortedKeys(n)
				k := ks[rng.Intn(len(ks))]
				v := n[k]
				switch {
				case strings.Contains(strings.TrimSpace(v), " "):
					n[k] = strings.Replace(v, " ", "", -1)
				case len(v) >= 2 && isASCII(v) && !strings.ContainsAny(v, "=,\"`{} "):
					p := 1 + rng.Intn(len(v)-1)
					n[k] = v[:p] + " " + v[p:]
				case strings.Contains(k, " "):
					delete(n, k)
					n[strings.Replace(k, " ", "", -1)] = v
				case len(k) >= 2:
					delete(n, k)
					n[k[:1]+" "+k[1:]] = v
				default:
					n[k] = v + "x"
				}
			}
			sets = append(sets, n)
		}
	}
	// distinct sets only
	seen := map[string]bool{}
	for _, m := range sets {
		if k := fmt.Sprint(flatSorted(m)); !seen[k] {
			seen[k] = true
			c.Sets = append(c.Sets, m)
		}
	}
	sets = c.Sets
	nops := 6 + rng.Intn(14)
	faulty := rng.Chance(1, 2)
	for i := 0; i < nops; i++ {
		si := rng.Intn(len(sets))
		m := sets[si]
		t := spellSet(rng, m)
		c.SetIdx = append(c.SetIdx, si)
		if !validUTF8Set(m) {
			// a recorded case keeps its sets as JSON strings, which cannot hold invalid UTF-8: such texts are judged by the
			// parser oracle (their hex text is exact), and the LQL spellings of the selectability check are not built for them
			c.SetIdx[len(c.SetIdx)-1] = -1
		}
		if rng.Chance(1, 6) {
			c.SetIdx[len(c.SetIdx)-1] = -1
			// the canonical line itself (raw-text fast path) or a malformed text
			if rng.Bool() {
				s := tag.MapToSet(m)
				t = string(s.Line())
			} else {
				t = []string{"", "{}", "a", "a=1,", "=1", "{a=1", "a=\"1"}[rng.Intn(7)]
			}
		}
		c.Texts = append(c.Texts, hex.EncodeToString([]byte(t)))
		c.Fault = append(c.Fault, false)
		if faulty && c.SetIdx[len(c.SetIdx)-1] >= 0 && rng.Chance(1, 4) {
			// this call meets a failing index save; the client then repeats the write (fresh spelling) without the fault
			c.Fault[len(c.Fault)-1] = true
			c.Texts = append(c.Texts, hex.EncodeToString([]byte(spellSet(rng, m))))
			c.SetIdx = append(c.SetIdx, si)
			c.Fault = append(c.Fault, false)
		}
	}
	return c
}

func runIdentCase(c identCase, sec *vh.Section) {
	srv, err := startSrv(lrsrv.NewDir(), lrsrv.Opts{NoRPC: true})
	if err != nil {
		res.Note("identity: %v", err)
		return
	}
	defer func() { srv.Stop(); os.RemoveAll(srv.Dir) }()
	texts := c.texts()
	dense := map[string]int{}
	impls := make([]string, len(texts))
	lines := []string{"reset"}
	maps := make([]map[string]string, len(texts))
	for i, t := range texts {
		var src string
		var err error
		call := func() { src, _, err = srv.TIndex.GetOrCreateJournal(t) }
		if c.fault(i) {
			withSaveFault(srv.Dir, call)
			res.Dist(sec, "save-fault")
		} else {
			call()
		}
		m, perr := c.denotes(i)
		switch {
		case err == nil:
			srv.TIndex.Release(src)
			if _, ok := dense[src]; !ok {
				dense[src] = len(dense)
			}
			impls[i] = fmt.Sprintf("ok %d", dense[src])
			maps[i] = m
		case perr != nil:
			impls[i] = "badtags"
		case len(m) == 0:
			impls[i] = "empty"
		case strings.Contains(err.Error(), "are not valid UTF-8"):
			impls[i] = "badutf8" // fix a7918dd: a partition whose tag line is not valid UTF-8 is refused when it would be created
		case strings.Contains(err.Error(), "cannot be written as a line"):
			impls[i] = "unwritable" // the write-time guard of proposed-fixes/F08r.diff (not in the tree as it is)
		case c.fault(i):
			impls[i] = "savefailed"
		default:
			impls[i] = "other-error:" + err.Error()
		}
		if c.fault(i) {
			lines = append(lines, "gocf "+hx(t)+" 1")
		} else {
			lines = append(lines, "goc "+hx(t)+" 1")
		}
		res.Dist(sec, strings.Fields(impls[i])[0])
	}
	for _, t := range texts {
		lines = append(lines, "safe "+hx(t))
	}
	lines = append(lines, "safest")
	outs, derr := vh.Batch(args.Driver, lines)
	if derr != nil {
		res.Fatal(args.Out, "driver: %v", derr)
	}
	eq := true
	for i := range texts {
		if outs[1+i] != impls[i] {
			eq = false
			res.Mismatch(vh.Mismatch{Section: "identity", Function: "tindex.GetOrCreateJournal (op " + strconv.Itoa(i) + ")", Input: c, Impl: impls[i], Model: outs[1+i]})
			break
		}
	}
	safeOf := outs[1+len(texts) : 1+2*len(texts)]
	safest := outs[len(outs)-1]
	// SPEC: accepted non-empty texts get the same id iff they denote the same set; acceptance = parses to a non-empty set
	for i := range texts {
		acc := strings.HasPrefix(impls[i], "ok ")
		m, perr := c.denotes(i)
		if impls[i] == "savefailed" {
			had := false
			for j := 0; j < i; j++ {
				if maps[j] != nil && perr == nil && kvstring.MapsEquals(maps[j], m) {
					had = true
				}
			}
			if !had {
				continue // refusing the first write of a new set while the index cannot be saved is legitimate
			}
		}
		if impls[i] == "unwritable" && eq {
			continue // refused by the write-time guard, exactly where the model's guard refuses (parse(line m) ≠ m)
		}
		// acceptance oracle: parses to a non-empty set AND (fix a7918dd) the canonical line of the set is valid UTF-8 — stated on
		// the set: strconv.Quote escapes invalid bytes, so a value that triggers quoting never makes the line invalid
		want := perr == nil && len(m) > 0
		if want {
			for k, v := range m {
				if !utf8.ValidString(k) || (!utf8.ValidString(v) && len(v) > 0 && !strings.ContainsAny(v, "=,")) {
					want = false
				}
			}
			if !want {
				res.Dist(sec, "non-utf8-line:"+strings.Fields(impls[i])[0])
				// "still found when they exist": such a partition cannot exist in a fresh index, so every such text must be refused
			}
		}
		if acc != want {
			f := vh.SpecFailure{Section: "identity", Kind: "acceptance", Input: c, Impl: impls[i], Spec: fmt.Sprintf("accepted=%v", want), ImplEqModel: eq,
				What: "a tag text is accepted as a partition identity exactly when it parses to a non-empty set (op " + strconv.Itoa(i) + ")"}
			if eq && acc && safest == "0" {
				// the raw-text fast path: the text is the (unreadable) line of a stored non-Safe set
				f.Finding = findingQuoting
			}
			res.SpecFail(f)
		}
	}
	nontrivial := 0
	for i := range texts {
		for j := i + 1; j < len(texts); j++ {
			if maps[i] == nil || maps[j] == nil {
				continue
			}
			nontrivial++
			same := kvstring.MapsEquals(maps[i], maps[j])
			if (impls[i] == impls[j]) != same {
				kind := "different-sets-share-partition"
				if same {
					kind = "same-set-two-partitions"
				}
				f := vh.SpecFailure{Section: "identity", Kind: kind, Input: c, Impl: fmt.Sprintf("%q→%s %q→%s", texts[i], impls[i], texts[j], impls[j]), Spec: fmt.Sprintf("same partition = %v", same),
					ImplEqModel: eq, What: "two tag texts get the same partition although they denote different sets, or different partitions although they denote the same set"}
				if eq && (safeOf[i] == "0" || safeOf[j] == "0" || safest == "0") {
					f.Finding = findingQuoting
				}
				res.SpecFail(f)
			}
		}
	}
	// every acknowledged partition must be selectable: by an empty FROM, by FROM {its tags} and by an expression over its tags
	visitIDs := func(src *lql.Source) map[int]bool {
		got := map[int]bool{}
		srv.TIndex.Visit(src, func(_ tag.Set, jn string) bool {
			if d, ok := dense[jn]; ok {
				got[d] = true
			} else {
				got[-1] = true
			}
			return true
		}, 0)
		return got
	}
	all := visitIDs(nil)
	for i := range texts {
		if maps[i] == nil {
			continue
		}
		id, _ := strconv.Atoi(strings.TrimPrefix(impls[i], "ok "))
		miss := ""
		if !all[id] {
			miss = "an empty FROM"
		} else if i < len(c.SetIdx) && c.SetIdx[i] >= 0 && safest == "1" {
			set := c.Sets[c.SetIdx[i]]
			if src, perr := lql.ParseSource("{" + string(tagLine(set)) + "}"); perr == nil && !visitIDs(src)[id] {
				miss = "FROM {" + string(tagLine(set)) + "}"
			}
			var conds []string
			simple := true
			for k, v := range set {
				simple = simple && isIdent(k)
				conds = append(conds, k+"="+strconv.Quote(v))
			}
			sort.Strings(conds)
			if simple && miss == "" {
				if src, perr := lql.ParseSource(strings.Join(conds, " and ")); perr == nil && !visitIDs(src)[id] {
					miss = "FROM " + strings.Join(conds, " and ")
				}
			}
		}
		if miss != "" {
			res.SpecFail(vh.SpecFailure{Section: "identity", Kind: "acknowledged-partition-not-selectable", Input: c, Impl: fmt.Sprintf("%q→%s is not visited by %s", texts[i], impls[i], miss), Spec: "visited",
				What: "a partition that was handed out (an acknowledged write) is not selected by an empty FROM / FROM {its tags} / an expression over its tags"})
			break
		}
	}
	lines2 := append(append([]string{}, lines[:1+len(texts)]...), "visit none")
	if outs2, err := vh.Batch(args.Driver, lines2); err == nil {
		var ids []string
		for d := range all {
			if d >= 0 {
				ids = append(ids, strconv.Itoa(d))
			} else {
				ids = append(ids, "u")
			}
		}
		impl := idsOf(ids)
		if all[-1] {
			impl += " u"
		}
		if m := kvField(outs2[len(outs2)-1], "model"); m != impl && eq {
			res.Mismatch(vh.Mismatch{Section: "identity", Function: "tindex.Visit(nil) after the sequence", Input: c, Impl: impl, Model: outs2[len(outs2)-1]})
		}
	}
	// the index holds one partition per distinct id
	cnt := 0
	srv.TIndex.Visit(nil, func(tag.Set, string) bool { cnt++; return true }, 0)
	if cnt != len(dense) {
		res.SpecFail(vh.SpecFailure{Section: "identity", Kind: "partition-count", Input: c, Impl: strconv.Itoa(cnt), Spec: strconv.Itoa(len(dense)), What: "the number of partitions in the index differs from the number of distinct ids handed out"})
	}
	key := ""
	if nontrivial > 0 {
		key = strings.Join(c.Texts, " ")
	}
	res.Eval(sec, key)
}

func sectionIdentity(rng *vh.Rng) {
	sec := res.Section("identity", "system-correspondence",
		"in-process server, real tindex: 6..19 GetOrCreateJournal(+Release) calls over 2..8 tag sets (Safe value pool; 1/4 of the sets from a pool with quotes, blanks, non-ASCII), near-neighbour sets (one pair more, one value longer), every call a fresh spelling (order, blanks, braces, raw / strconv.Quote / backquote), 1/12 the canonical line itself (fast path), 1/12 malformed; ids renamed densely; every answer vs MODEL, every pair of accepted texts vs SPEC (same id iff same set). non-trivial = at least one pair of accepted texts, distinct by text sequence")
	n := 200
	if args.Thorough {
		n = 4500 // ≈70 s on a machine with load average 100
	}
	var cs []identCase
	for _, f := range vh.CorpusFiles(args.Corpus) {
		var c struct {
			Section string    `json:"section"`
			Input   identCase `json:"input"`
		}
		if vh.ReadJSON(f, &c) == nil && c.Section == "identity" {
			cs = append(cs, c.Input)
		}
	}
	for i := 0; i < n; i++ {
		cs = append(cs, genIdentCase(rng))
	}
	parallel(len(cs), 8, func(i int) { runIdentCase(cs[i], sec) })
	res.Done(sec)
}

// startSrv: lrsrv probes a free port and releases it before the server binds; another process can take it meanwhile
func startSrv(dir string, o lrsrv.Opts) (srv *lrsrv.Srv, err error) {
	for try := 0; try < 10; try++ {
		srv, err = lrsrv.Start(dir, o)
		if err == nil || !strings.Contains(err.Error(), "address already in use") {
			return
		}
	}
	return
}

func parallel(n, workers int, f func(i int)) {
	sem := make(chan struct{}, workers)
	var wg sync.WaitGroup
	for i := 0; i < n; i++ {
		wg.Add(1)
		sem <- struct{}{}
		go func(i int) {
			defer func() { <-sem; wg.Done() }()
			guard("parallel", func() { f(i) })
		}(i)
	}
	wg.Wait()
}

// ---------------------------------------------------------------------------------------------
// selection

type selCase struct {
	Partitions []map[string]string `json:"partitions"`
	Sources    []string            `json:"sources"`
	FaultFirst []int               `json:"fault_first,omitempty"` // partitions whose first write meets a failing index save and is repeated
}

func genSelCase(rng *vh.Rng) selCase {
	var c selCase
	seen := map[string]bool{}
	for k := 2 + rng.Intn(6); k > 0; k-- {
		m := genSet(rng, safeVals)
		key := fmt.Sprint(flatSorted(m))
		if seen[key] {
			continue
		}
		seen[key] = true
		c.Partitions = append(c.Partitions, m)
	}
	// proper supersets of an existing partition, so that a FROM {tags} equal to one partition's set must also select others
	for k := rng.Intn(3); k > 0; k-- {
		p := c.Partitions[rng.Intn(len(c.Partitions))]
		sup := map[string]string{}
		for _, key := range sortedKeys(p) {
			sup[key] = p[key]
		}
		sup[[]string{"zone", "rack", "x1"}[rng.Intn(3)]] = rng.PickS(safeVals)
		if key := fmt.Sprint(flatSorted(sup)); !seen[key] {
			seen[key] = true
			c.Partitions = append(c.Partitions, sup)
			c.Sources = append(c.Sources, "{"+spellSet(rng, p)+"}") // exactly an existing partition's set
		}
	}
	if rng.Chance(1, 3) {
		c.FaultFirst = append(c.FaultFirst, rng.Intn(len(c.Partitions)))
	}
	for k := 5 + rng.Intn(6); k > 0; k-- {
		if rng.Chance(1, 3) {
			// aimed at the population: a subset of an existing partition's pairs, as {tags} or as a conjunction
			p := c.Partitions[rng.Intn(len(c.Partitions))]
			sub := map[string]string{}
			for _, k := range sortedKeys(p) {
				if rng.Chance(2, 3) {
					sub[k] = p[k]
				}
			}
			if len(sub) > 0 {
				c.Sources = append(c.Sources, "{"+spellSet(rng, sub)+"}")
				continue
			}
		}
		c.Sources = append(c.Sources, genSource(rng))
	}
	return c
}

func idsOf(msgs []string) string {
	var ids []int
	seen := map[int]bool{}
	for _, m := range msgs {
		if i, err := strconv.Atoi(m); err == nil && !seen[i] {
			seen[i] = true
			ids = append(ids, i)
		}
	}
	sort.Ints(ids)
	s := "ok"
	for _, i := range ids {
		s += " " + strconv.Itoa(i)
	}
	return s
}

func runSelCase(c selCase, sec *vh.Section) {
	dir := lrsrv.NewDir()
	defer os.RemoveAll(dir)
	srv, err := startSrv(dir, lrsrv.Opts{})
	if err != nil {
		res.Note("selection: %v", err)
		return
	}
	defer srv.Stop()
	ctx := context.Background()
	lines := []string{"reset"}
	nExtra := 0 // model lines of refused first writes
	srcToIdx := map[string]int{}
	for i, p := range c.Partitions {
		t := string(tagLine(p))
		var wr api.WriteResult
		write := func() error {
			err := srv.Client.Write(ctx, t, "", []*api.LogEvent{{Timestamp: int64(i + 1), Message: strconv.Itoa(i)}}, &wr)
			if err == nil {
				err = wr.Err
			}
			return err
		}
		for _, fi := range c.FaultFirst {
			if fi == i {
				// the first write of this new tag set arrives while the tag index cannot be saved: it may be refused; the
				// client repeats it after the trouble is over
				var ferr error
				withSaveFault(srv.Dir, func() { ferr = write() })
				res.Dist(sec, fmt.Sprintf("save-fault:refused=%v", ferr != nil))
				if ferr != nil {
					lines = append(lines, "gocf "+hx(t)+" 1")
					nExtra++
				}
			}
		}
		err := write()
		if err != nil {
			res.Note("selection: write %q failed: %v", t, err)
			return
		}
		lines = append(lines, "goc "+hx(t)+" 1")
		if src, _, err := srv.TIndex.GetOrCreateJournal(t); err == nil {
			srv.TIndex.Release(src)
			srcToIdx[src] = i
		}
	}
	// readers only see flushed records: wait (generously — the machine may be loaded) until every written event is readable
	srv.FlushWait()
	for deadline := time.Now().Add(30 * time.Second); time.Now().Before(deadline); {
		var qr api.QueryResult
		if err := srv.Client.Query(ctx, &api.QueryRequest{Query: "select limit 1000", Limit: 1000}, &qr); err == nil && qr.Err == nil && len(qr.Events) >= len(c.Partitions) {
			break
		}
		time.Sleep(20 * time.Millisecond)
	}
	type q struct {
		text, via, impl string
	}
	var qs []q
	for _, s := range c.Sources {
		src, perr := lql.ParseSource(s)
		usesFn := false
		ser := "none"
		if perr == nil {
			ser = serSource(src, s, &usesFn)
		}
		// (1) tindex.Visit
		implV := "rej"
		if perr == nil {
			var got []string
			if err := srv.TIndex.Visit(src, func(_ tag.Set, jn string) bool {
				got = append(got, strconv.Itoa(srcToIdx[jn]))
				return true
			}, 0); err == nil {
				implV = idsOf(got)
			}
			lines = append(lines, "visit "+ser)
			qs = append(qs, q{s, "tindex.Visit", implV})
		}
		// (2) SELECT through the RPC client
		query := "select limit 1000"
		if s != "" {
			query = "select from " + s + " limit 1000"
		}
		if _, lerr := lql.ParseLql(query); lerr != nil || perr != nil {
			res.Dist(sec, "select-unparsable")
			continue
		}
		var qr api.QueryResult
		err := srv.Client.Query(ctx, &api.QueryRequest{Query: query, Limit: 1000}, &qr)
		if err == nil {
			err = qr.Err
		}
		implQ := "rej"
		if err == nil {
			var msgs []string
			for _, ev := range qr.Events {
				msgs = append(msgs, ev.Message)
				// attribution: the event's Tags are the partition's set
				if i, cerr := strconv.Atoi(ev.Message); cerr == nil && i < len(c.Partitions) {
					if got, perr := tag.Parse(ev.Tags); perr != nil || string(got.Line()) != string(tagLine(c.Partitions[i])) {
						res.SpecFail(vh.SpecFailure{Section: "selection", Kind: "wrong-tags-on-event", Input: c, Impl: ev.Tags, Spec: string(tagLine(c.Partitions[i])), What: "an event is returned with the tags of another partition"})
					}
				}
			}
			implQ = idsOf(msgs)
		}
		lines = append(lines, "visit "+ser)
		qs = append(qs, q{s, "SELECT", implQ})
	}
	outs, derr := vh.Batch(args.Driver, lines)
	if derr != nil {
		res.Fatal(args.Out, "driver: %v", derr)
	}
	base := 1 + len(c.Partitions) + nExtra
	for i, x := range qs {
		ans := outs[base+i]
		model, spec := kvField(ans, "model"), kvField(ans, "spec")
		in := map[string]interface{}{"case": c, "source": x.text, "via": x.via}
		key := ""
		if x.impl != "rej" && x.text != "" {
			key = fmt.Sprint(c.Partitions) + x.text + x.via
		}
		res.Eval(sec, key)
		res.Dist(sec, x.via+":"+strings.Fields(x.impl)[0])
		if model != x.impl {
			res.Mismatch(vh.Mismatch{Section: "selection", Function: x.via, Input: in, Impl: x.impl, Model: ans})
		}
		if spec != x.impl {
			res.SpecFail(vh.SpecFailure{Section: "selection", Kind: "selection-wrong", Input: in, Impl: x.impl, Spec: spec, Model: model, ImplEqModel: model == x.impl,
				What: "FROM does not select exactly the partitions whose tags satisfy the source"})
		}
		// Go oracle for {tags} and for the empty source
		if src, perr := lql.ParseSource(x.text); perr == nil && x.impl != "rej" {
			var want []string
			if src == nil {
				for i := range c.Partitions {
					want = append(want, strconv.Itoa(i))
				}
			} else if src.Tags != nil {
				tm, _ := kvstring.ToMap(x.text)
				for i, p := range c.Partitions {
					if kvstring.MapSubset(tm, p) {
						want = append(want, strconv.Itoa(i))
					}
				}
			} else {
				continue
			}
			if idsOf(want) != x.impl {
				res.SpecFail(vh.SpecFailure{Section: "selection", Kind: "selection-wrong", Input: in, Impl: x.impl, Spec: idsOf(want), What: "FROM {tags} / empty FROM does not select exactly the partitions containing all given pairs / all partitions"})
			}
		}
	}
}

func tagLine(m map[string]string) tag.Line {
	s := tag.MapToSet(m)
	return s.Line()
}

func sectionSelection(rng *vh.Rng) {
	sec := res.Section("selection", "system-correspondence",
		"in-process server with RPC: 2..7 partitions with generated Safe tag sets, one event each; 5..10 sources per population ({tags} subsets of existing partitions in fresh spellings, generated {tags}, generated expressions, empty) evaluated by tindex.Visit and by SELECT … FROM … through the client; selected partition sets vs MODEL (visit) vs SPEC (reference evaluator; Go subset oracle); result Tags must be the partition's own. non-trivial = accepted non-empty source, distinct by (population, source, path)")
	n := 80
	if args.Thorough {
		n = 700 // bounded by descriptors: every server leaks ~4 per partition after shutdown (library journals stay open)
	}
	var cs []selCase
	for _, f := range vh.CorpusFiles(args.Corpus) {
		var c struct {
			Section string  `json:"section"`
			Input   selCase `json:"input"`
		}
		if vh.ReadJSON(f, &c) == nil && c.Section == "selection" && len(c.Input.Partitions) > 0 {
			cs = append(cs, c.Input)
		}
	}
	cs = append(cs, selCase{Partitions: []map[string]string{{"a": "1"}, {"a": "1", "b": "2"}, {"b": "2"}, {"a": "2", "name": "app1"}},
		Sources: []string{"", "{a=1}", "{b=2,a=1}", "a=1", "a=1 and b=2", "a=1 or b=2", "not a=1", "name like \"app*\"", "name like \"[\"", "{c=3}", "zz=\"\""}})
	for i := 0; i < n; i++ {
		cs = append(cs, genSelCase(rng))
	}
	parallel(len(cs), 8, func(i int) { runSelCase(cs[i], sec) })
	res.Done(sec)
}

// ---------------------------------------------------------------------------------------------
// race

func sectionRace(rng *vh.Rng) {
	sec := res.Section("race", "stress",
		"racing first writes: G=2..8 goroutines released together, each calling GetOrCreateJournal with its own spelling of one new Safe tag set (R rounds per server, a second distinct set racing in the same round); all callers of a set must get one id, different sets different ids, the index must hold one partition per set (model: tindex_map_inv — the whole look-up-or-create is one critical section). Half of the rounds go through Ingestor.Write from separate RPC clients. non-trivial = every round")
	srv, err := startSrv(lrsrv.NewDir(), lrsrv.Opts{})
	if err != nil {
		res.Fatal(args.Out, "race: %v", err)
	}
	defer func() { srv.Stop(); os.RemoveAll(srv.Dir) }()
	rounds := 600 // cheap (≈1 ms a round); a lost-update window inside getOrCreateJournal needs a few hundred rounds to show reliably
	if args.Thorough {
		rounds = 3000
	}
	total := 0
	for rd := 0; rd < rounds; rd++ {
		g := 2 + rng.Intn(7)
		sets := []map[string]string{genSet(rng, safeVals), genSet(rng, safeVals)}
		sets[0]["round"] = strconv.Itoa(rd)
		sets[1]["round"] = strconv.Itoa(rd)
		sets[1]["second"] = "1"
		texts := make([]string, g)
		which := make([]int, g)
		for i := range texts {
			which[i] = rng.Intn(2)
			texts[i] = spellSet(rng, sets[which[i]])
		}
		ids := make([]string, g)
		errs := make([]error, g)
		start := make(chan struct{})
		var wg sync.WaitGroup
		for i := 0; i < g; i++ {
			wg.Add(1)
			go func(i int) {
				defer wg.Done()
				<-start
				src, _, err := srv.TIndex.GetOrCreateJournal(texts[i])
				if err == nil {
					srv.TIndex.Release(src)
				}
				ids[i], errs[i] = src, err
			}(i)
		}
		close(start)
		wg.Wait()
		byset := map[int]map[string]bool{0: {}, 1: {}}
		bad := ""
		for i := 0; i < g; i++ {
			if errs[i] != nil {
				bad = "error: " + errs[i].Error()
				continue
			}
			byset[which[i]][ids[i]] = true
		}
		distinct := 0
		for s := 0; s < 2; s++ {
			if len(byset[s]) > 1 {
				bad = fmt.Sprintf("set %d got %d partitions", s, len(byset[s]))
			}
			distinct += len(byset[s])
		}
		for id := range byset[0] {
			if byset[1][id] {
				bad = "two different sets share a partition"
			}
		}
		total += distinct
		cnt := total
		if rd%25 == 24 || rd == rounds-1 {
			cnt = 0
			srv.TIndex.Visit(nil, func(tag.Set, string) bool { cnt++; return true }, 0)
		}
		if cnt != total && bad == "" {
			bad = fmt.Sprintf("index holds %d partitions, %d distinct ids were handed out", cnt, total)
		}
		res.Eval(sec, fmt.Sprint(rd, texts))
		res.Dist(sec, fmt.Sprintf("g=%d", g))
		if bad != "" {
			res.SpecFail(vh.SpecFailure{Section: "race", Kind: "racing-first-writes", Input: map[string]interface{}{"texts": texts, "which": which}, Impl: bad, Spec: "one partition per set", What: "racing first writes of a new tag set do not end in exactly one partition for it"})
		}
	}
	res.Done(sec)
}

// ---------------------------------------------------------------------------------------------

func replay(p string) {
	var rp struct {
		Section string          `json:"section"`
		Input   json.RawMessage `json:"input"`
	}
	if err := vh.ReadJSON(p, &rp); err != nil {
		res.Fatal(args.Out, "replay: %v", err)
	}
	switch rp.Section {
	case "identity":
		var c identCase
		json.Unmarshal(rp.Input, &c)
		sec := res.Section("identity", "replay", "replay of one recorded text sequence")
		for i, t := range c.texts() {
			fmt.Printf("op %d: %q\n", i, t)
		}
		runIdentCase(c, sec)
	case "selection":
		var w struct {
			Case *selCase `json:"case"`
		}
		var c selCase
		json.Unmarshal(rp.Input, &w)
		if w.Case != nil {
			c = *w.Case
		} else {
			json.Unmarshal(rp.Input, &c)
		}
		sec := res.Section("selection", "replay", "replay of one recorded population and its sources")
		runSelCase(c, sec)
	case "tagseval":
		var c evalCase
		json.Unmarshal(rp.Input, &c)
		src, perr := lql.ParseSource(c.Source)
		e := implEval(src, perr, c.Tags)
		usesFn := false
		line := "eval none | "
		if perr == nil {
			line = strings.TrimRight("eval "+serSource(src, c.Source, &usesFn)+" | "+hexJoin(flatSorted(c.Tags)), " ")
		}
		ans, _ := vh.Batch(args.Driver, []string{line})
		fmt.Printf("source=%q tags=%v\nIMPL  %s\nMODEL %s\n", c.Source, c.Tags, e, ans[0])
		sec := res.Section("tagseval", "replay", "replay of one recorded source and tag set")
		res.Eval(sec, c.Source)
		if kvField(ans[0], "model") != e {
			res.Mismatch(vh.Mismatch{Section: "tagseval", Function: "lql.BuildTagsExpFuncBySource", Input: c, Impl: e, Model: ans[0]})
		}
		if kvField(ans[0], "spec") != e {
			res.SpecFail(vh.SpecFailure{Section: "tagseval", Kind: "from-expr-wrong", Input: c, Impl: e, Spec: kvField(ans[0], "spec"), What: "the built tag condition disagrees with the reference meaning of the expression"})
		}
	case "drop":
		var c dropCase
		json.Unmarshal(rp.Input, &c)
		sec := res.Section("drop", "replay", "replay of one recorded create / drop / re-address history")
		runDropCase(c, sec)
	case "held":
		var w struct {
			Case heldCase `json:"case"`
		}
		json.Unmarshal(rp.Input, &w)
		sec := res.Section("held", "replay", "replay of one recorded pair of FROMs through a held cursor")
		runHeldCase(w.Case, sec)
	case "idgen":
		var c idgenCase
		json.Unmarshal(rp.Input, &c)
		sec := res.Section("idgen", "replay", "replay of one recorded sequence of process lives")
		runIdgenCase(c, sec)
	case "many":
		var w struct {
			Case manyCase `json:"case"`
		}
		json.Unmarshal(rp.Input, &w)
		sec := res.Section("many", "replay", "replay of one recorded population around the cursor's partition limit")
		runManyCase(w.Case, sec)
	default:
		res.Note("replay: section %q has no single-input replay; re-run the check with the recorded seed", rp.Section)
	}
	res.Write(args.Out)
}

// guard: a panic of the code under test that escapes a section is a failure (recorded with the panic text)
func guard(section string, f func()) {
	if p := vh.Recover(f); p != "" {
		res.SpecFail(vh.SpecFailure{Section: section, Kind: "panic", Input: map[string]string{"section": section}, Impl: p, Spec: "no panic", What: "the code under test panics in section " + section})
	}
}

func main() {
	if len(os.Args) == 3 && os.Args[1] == "-idchild" {
		n, _ := strconv.Atoi(os.Args[2])
		idChildMain(n)
		return
	}
	args = vh.ParseArgs()
	res = vh.NewResult("C06", args)
	if args.Replay != "" {
		replay(args.Replay)
		return
	}
	rng := vh.NewRng(args.Seed)
	guard("like", func() { sectionLike(rng.Fork("like")) })
	guard("tagseval", func() { sectionTagsEval(rng.Fork("tagseval")) })
	guard("identity", func() { sectionIdentity(rng.Fork("identity")) })
	guard("selection", func() { sectionSelection(rng.Fork("selection")) })
	guard("race", func() { sectionRace(rng.Fork("race")) })
	guard("many", func() { sectionMany(rng.Fork("many")) })
	guard("drop", func() { sectionDrop(rng.Fork("drop")) })
	guard("held", func() { sectionHeld(rng.Fork("held")) })
	guard("idgen", func() { sectionIdgen(rng.Fork("idgen")) })
	res.Write(args.Out)
}
