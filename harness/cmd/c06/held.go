package main

// Section "held": FROM through a HELD cursor. A query with WaitTimeout > 0 leaves its cursor in the server's cache; the answer
// carries NextQueryRequest (ReqId, Pos in the `src=pos` form). A follow-up request with that ReqId and position but ANOTHER
// FROM must be answered from the partitions of the FROM that was sent: crsr.ApplyState refuses a state whose query text differs
// (regenerated fact `applyStateChecksQuery`), provider.GetOrCreate then builds a new cursor. If the cached cursor is taken for
// the new request, `FROM {app=b}` is answered with events tagged app=a.
// Oracle: every event of the follow-up answer carries tags that satisfy the NEW source ({tags}: subset oracle; expression: the
// separately checked built function), the answer holds every event of the partitions that are new in the second FROM (positions
// name only sources of the first FROM; a partition both select is read from the given position on), and it equals the answer of the same request without
// a ReqId (a cursor of its own).

import (
	"context"
	"fmt"
	"os"
	"sort"
	"strconv"
	"strings"
	"time"

	"github.com/logrange/logrange/api"
	"github.com/logrange/logrange/pkg/lql"
	"github.com/logrange/logrange/pkg/model/tag"
	"github.com/logrange/logrange/pkg/utils/kvstring"

	"verifharness/internal/lrsrv"
	"verifharness/internal/vh"
)

type heldCase struct {
	Partitions []map[string]string `json:"partitions"` // 3 events each
	Pairs      [][2]string         `json:"pairs"`      // (first FROM — its cursor stays held —, second FROM sent with the same ReqId and position)
}

func heldMatches(src *lql.Source, text string, p map[string]string) bool {
	if src == nil {
		return true
	}
	if src.Tags != nil {
		tm, _ := kvstring.ToMap(text)
		return kvstring.MapSubset(tm, p)
	}
	tef, err := lql.BuildTagsExpFuncBySource(src)
	return err == nil && tef(tag.MapToSet(p))
}

func subsetOf(a, b []string) bool {
	in := map[string]bool{}
	for _, x := range b {
		in[x] = true
	}
	for _, x := range a {
		if !in[x] {
			return false
		}
	}
	return true
}

func runHeldCase(c heldCase, sec *vh.Section) {
	dir := lrsrv.NewDir()
	defer os.RemoveAll(dir)
	srv, err := startSrv(dir, lrsrv.Opts{})
	if err != nil {
		res.Note("held: %v", err)
		return
	}
	defer srv.Stop()
	ctx := context.Background()
	const perPart = 3
	for i, p := range c.Partitions {
		var evs []*api.LogEvent
		for k := 0; k < perPart; k++ {
			evs = append(evs, &api.LogEvent{Timestamp: int64(10*i + k + 1), Message: fmt.Sprintf("%d.%d", i, k)})
		}
		var wr api.WriteResult
		err := srv.Client.Write(ctx, string(tagLine(p)), "", evs, &wr)
		if err == nil {
			err = wr.Err
		}
		if err != nil {
			res.Note("held: write failed: %v", err)
			return
		}
	}
	srv.FlushWait()
	for deadline := time.Now().Add(30 * time.Second); time.Now().Before(deadline); {
		var qr api.QueryResult
		if err := srv.Client.Query(ctx, &api.QueryRequest{Query: "select limit 1000", Limit: 1000}, &qr); err == nil && qr.Err == nil && len(qr.Events) >= perPart*len(c.Partitions) {
			break
		}
		time.Sleep(20 * time.Millisecond)
	}
	partOf := func(msg string) int {
		i, err := strconv.Atoi(strings.SplitN(msg, ".", 2)[0])
		if err != nil {
			return -1
		}
		return i
	}
	q := func(from string) string {
		if from == "" {
			return "select limit 1000"
		}
		return "select from " + from + " limit 1000"
	}
	for _, pr := range c.Pairs {
		first, second := pr[0], pr[1]
		src1, e1 := lql.ParseSource(first)
		src2, e2 := lql.ParseSource(second)
		if e1 != nil || e2 != nil || first == second {
			continue
		}
		n1 := 0
		var want, must []string // want: all events of the partitions the new FROM selects; must: those of partitions the FIRST FROM did not select
		for i, p := range c.Partitions {
			m1 := heldMatches(src1, first, p)
			if m1 {
				n1++
			}
			if heldMatches(src2, second, p) {
				for k := 0; k < perPart; k++ {
					want = append(want, fmt.Sprintf("%d.%d", i, k))
					if !m1 {
						// the position names only sources of the first FROM: a partition that is new in the second FROM is read from its head
						must = append(must, fmt.Sprintf("%d.%d", i, k))
					}
				}
			}
		}
		if n1 == 0 {
			continue // the first query must read something and must not reach the end of its data (it would wait)
		}
		// (1) the first query: 2 of >= 3 events, its cursor stays in the server's cache
		var r1 api.QueryResult
		if err := srv.Client.Query(ctx, &api.QueryRequest{Query: q(first), Limit: 2, WaitTimeout: 1}, &r1); err != nil || r1.Err != nil || len(r1.Events) != 2 {
			res.Note("held: first request %q failed: %v %v", first, err, r1.Err)
			continue
		}
		// (2) same ReqId, the returned position, the other FROM
		rq := r1.NextQueryRequest
		rq.Query = q(second)
		rq.WaitTimeout = 0
		rq.Limit = 1000
		var r2 api.QueryResult
		err2 := srv.Client.Query(ctx, &rq, &r2)
		if err2 == nil {
			err2 = r2.Err
		}
		// (3) the same request with a cursor of its own
		fq := rq
		fq.ReqId = 0
		var r3 api.QueryResult
		err3 := srv.Client.Query(ctx, &fq, &r3)
		if err3 == nil {
			err3 = r3.Err
		}
		in := map[string]interface{}{"case": heldCase{Partitions: c.Partitions, Pairs: [][2]string{pr}}, "first": first, "second": second, "req_id_reused": rq.ReqId != 0, "pos": rq.Pos}
		res.Eval(sec, fmt.Sprint(c.Partitions)+first+"|"+second)
		res.Dist(sec, fmt.Sprintf("reused-reqid=%v", rq.ReqId != 0))
		if err2 != nil {
			res.SpecFail(vh.SpecFailure{Section: "held", Kind: "held-cursor-request-fails", Input: in, Impl: err2.Error(), Spec: "answered from the partitions of the FROM that was sent",
				What: "a request that re-uses the ReqId of a held cursor with another FROM fails"})
			continue
		}
		var got, foreign []string
		for _, ev := range r2.Events {
			got = append(got, ev.Message)
			i := partOf(ev.Message)
			ts, perr := tag.Parse(ev.Tags)
			okTags := perr == nil && i >= 0 && i < len(c.Partitions) && string(ts.Line()) == string(tagLine(c.Partitions[i]))
			if !okTags || !heldMatches(src2, second, c.Partitions[i]) {
				foreign = append(foreign, ev.Message+"{"+ev.Tags+"}")
			}
		}
		var fresh []string
		for _, ev := range r3.Events {
			fresh = append(fresh, ev.Message)
		}
		sort.Strings(got)
		sort.Strings(want)
		sort.Strings(fresh)
		g, w, f := strings.Join(got, " "), strings.Join(want, " "), strings.Join(fresh, " ")
		switch {
		case len(foreign) > 0:
			res.SpecFail(vh.SpecFailure{Section: "held", Kind: "held-cursor-wrong-partitions", Input: in, Impl: strings.Join(foreign, " "), Spec: "only events of partitions matching " + second + ": " + w, Model: "a cursor of its own (no ReqId): " + f, ImplEqModel: g == f,
				What: fmt.Sprintf("after `FROM %s` left its cursor held (WaitTimeout 1), the same ReqId and position with `FROM %s` returns events of partitions the new FROM does not select: the answer is computed from the earlier query's partitions", first, second)})
		case !subsetOf(got, want) || !subsetOf(must, got):
			res.SpecFail(vh.SpecFailure{Section: "held", Kind: "held-cursor-wrong-partitions", Input: in, Impl: g, Spec: "within: " + w + "; at least: " + strings.Join(must, " "), Model: "a cursor of its own (no ReqId): " + f, ImplEqModel: g == f,
				What: fmt.Sprintf("after `FROM %s` left its cursor held, the same ReqId and position with `FROM %s` does not return the events of the partitions the new FROM selects (all events of partitions that are new in it, events from the given position on of partitions both select)", first, second)})
		case err3 == nil && g != f:
			res.Mismatch(vh.Mismatch{Section: "held", Function: "SELECT with a re-used ReqId vs the same request with a cursor of its own", Input: in, Impl: g, Model: f})
		}
	}
}

func sectionHeld(rng *vh.Rng) {
	sec := res.Section("held", "system-correspondence",
		"in-process server with RPC: 3..4 partitions with 3 events each; pairs of sources (first, second): the first query (Limit 2, WaitTimeout 1) leaves its cursor held, the second request carries the returned ReqId and position and ANOTHER FROM ({tags}, expressions, empty): every returned event must come from a partition the new FROM selects and carry that partition's tags, the answer must be all events of those partitions and equal the answer of the same request without ReqId. non-trivial = every pair")
	base := heldCase{
		Partitions: []map[string]string{{"app": "a", "zone": "x"}, {"app": "b", "zone": "x"}, {"app": "c", "zone": "y"}, {"app": "a", "zone": "y", "k1": "1"}},
		Pairs: [][2]string{{"{app=a}", "{app=b}"}, {"{app=b}", "{app=a}"}, {"app=a", "app=b"}, {"{zone=x}", "{zone=y}"}, {"{app=a}", "{app=c}"},
			{"{app=a,zone=x}", "{app=a,zone=y}"}, {"app=a or app=b", "app=c"}, {"{app=b}", ""}, {"", "{app=c}"}, {"zone=y", "not zone=y"},
			{"{app=a}", "{app=z}"}, {"app like \"a*\"", "app like \"b*\""}},
	}
	cs := []heldCase{base}
	n := 1
	if args.Thorough {
		n = 6
	}
	for i := 0; i < n; i++ {
		sc := genSelCase(rng)
		var hc heldCase
		hc.Partitions = sc.Partitions
		for j := 0; j+1 < len(sc.Sources); j += 2 {
			hc.Pairs = append(hc.Pairs, [2]string{sc.Sources[j], sc.Sources[j+1]}, [2]string{sc.Sources[j+1], sc.Sources[j]})
		}
		cs = append(cs, hc)
	}
	for _, f := range vh.CorpusFiles(args.Corpus) {
		var c struct {
			Section string `json:"section"`
			Input   struct {
				Case heldCase `json:"case"`
			} `json:"input"`
		}
		if vh.ReadJSON(f, &c) == nil && c.Section == "held" && len(c.Input.Case.Partitions) > 0 {
			cs = append(cs, c.Input.Case)
		}
	}
	parallel(len(cs), 2, func(i int) { runHeldCase(cs[i], sec) })
	res.Done(sec)
}
