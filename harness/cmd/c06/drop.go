package main

// Section "drop": two spellings of one set denote the same partition ALSO after the partition was dropped. History: write by a
// spelling s (creates the partition) → drop the partition (acquire, LockExclusively, tindex.Delete — what TRUNCATE's deleteJournal
// does) → write by s again → write by another spelling and by the canonical line of the same set. Every call has a deadline: a
// GetOrCreateJournal that does not return within 3 s is the failure `spelling-hangs-after-drop` (a memo keyed by the raw text
// that still points to the dropped, exclusively locked descriptor makes the call spin in its "exclusive, wait 1 ms" loop).
// After the drop all spellings must get ONE new partition (same id for all, different from the dropped id), and the index must
// list exactly one partition for the set.

import (
	"encoding/hex"
	"fmt"
	"os"
	"time"

	"github.com/logrange/logrange/pkg/model/tag"

	"verifharness/internal/lrsrv"
	"verifharness/internal/vh"
)

type dropCase struct {
	Set   map[string]string `json:"set"`
	Texts []string          `json:"texts_hex"` // spellings of Set; Texts[0] creates, then the partition is dropped, then Texts[0], Texts[1:]…
	Other map[string]string `json:"other,omitempty"`
}

func (c dropCase) texts() []string {
	r := make([]string, len(c.Texts))
	for i, t := range c.Texts {
		b, _ := hex.DecodeString(t)
		r[i] = string(b)
	}
	return r
}

// gocDeadline: GetOrCreateJournal(+Release) with a deadline; hung = it did not return
func gocDeadline(srv *lrsrv.Srv, t string, d time.Duration, release bool) (src string, err error, hung bool) {
	type ans struct {
		src string
		err error
	}
	ch := make(chan ans, 1)
	go func() {
		s, _, e := srv.TIndex.GetOrCreateJournal(t)
		if e == nil && release {
			srv.TIndex.Release(s)
		}
		ch <- ans{s, e}
	}()
	select {
	case a := <-ch:
		return a.src, a.err, false
	case <-time.After(d):
		return "", nil, true
	}
}

func runDropCase(c dropCase, sec *vh.Section) {
	srv, err := startSrv(lrsrv.NewDir(), lrsrv.Opts{NoRPC: true})
	if err != nil {
		res.Note("drop: %v", err)
		return
	}
	defer func() { srv.Stop(); os.RemoveAll(srv.Dir) }()
	texts := c.texts()
	if len(texts) < 2 {
		return
	}
	const deadline = 3 * time.Second
	fail := func(kind, impl, spec, what string) {
		res.SpecFail(vh.SpecFailure{Section: "drop", Kind: kind, Input: c, Impl: impl, Spec: spec, What: what})
	}
	if len(c.Other) > 0 {
		if _, e, hung := gocDeadline(srv, string(tagLine(c.Other)), deadline, true); e != nil || hung {
			res.Note("drop: bystander partition: %v hung=%v", e, hung)
			return
		}
	}
	// create by the first spelling, keep it acquired, lock exclusively, delete
	src0, e0, hung := gocDeadline(srv, texts[0], deadline, false)
	if hung || e0 != nil {
		res.Note("drop: first write %q: %v hung=%v", texts[0], e0, hung)
		return
	}
	if !srv.TIndex.LockExclusively(src0) {
		res.Note("drop: LockExclusively(%s) refused", src0)
		srv.TIndex.Release(src0)
		return
	}
	if err := srv.TIndex.Delete(src0); err != nil {
		res.Note("drop: Delete(%s): %v", src0, err)
		return
	}
	res.Eval(sec, fmt.Sprint(c.Texts))
	// after the drop: the same spelling first, then the others
	order := append([]string{texts[0]}, texts[1:]...)
	newSrc := ""
	for i, t := range order {
		src, e, hung := gocDeadline(srv, t, deadline, true)
		switch {
		case hung:
			fail("spelling-hangs-after-drop", fmt.Sprintf("GetOrCreateJournal(%q) (call %d after the drop) did not return within %s", t, i, deadline), "returns the set's new partition",
				"after a partition was dropped, a tag text that denotes its set does not get a partition: the call never returns (other spellings of the same set do)")
			return
		case e != nil:
			fail("spelling-refused-after-drop", fmt.Sprintf("GetOrCreateJournal(%q): %v", t, e), "returns the set's new partition", "after a partition was dropped, a tag text that denotes its set is refused")
			return
		case src == src0:
			fail("dropped-partition-handed-out", fmt.Sprintf("%q → %s", t, src), "a new partition", "after a partition was dropped, its source id is handed out again for a write")
			return
		case newSrc == "":
			newSrc = src
		case src != newSrc:
			fail("same-set-two-partitions", fmt.Sprintf("%q → %s, %q → %s", order[0], newSrc, t, src), "one partition for all spellings of the set",
				"after a partition was dropped, two spellings of the same set get different partitions")
			return
		}
	}
	// the index lists exactly one partition with the set's line
	n := 0
	srv.TIndex.Visit(nil, func(ts tag.Set, jn string) bool {
		if string(ts.Line()) == string(tagLine(c.Set)) {
			n++
		}
		return true
	}, 0)
	if n != 1 {
		fail("partition-count", fmt.Sprint(n), "1", "after drop and re-creation the index does not list exactly one partition for the set")
	}
	res.Dist(sec, "dropped-and-recreated")
}

func sectionDrop(rng *vh.Rng) {
	sec := res.Section("drop", "system-correspondence",
		"in-process server, real tindex: create a partition by a (mostly non-canonical) spelling, drop it (LockExclusively + tindex.Delete, what TRUNCATE's deleteJournal does), then address the set again by the SAME spelling, by other fresh spellings and by the canonical line, every call under a 3 s deadline: all must return one new partition (≠ the dropped id), the index must list exactly one partition for the set. non-trivial = every history")
	n := 12
	if args.Thorough {
		n = 150
	}
	cs := []dropCase{{Set: map[string]string{"a": "1", "b": "2"}, Texts: []string{hex.EncodeToString([]byte("{ b=2, a=1 }")), hex.EncodeToString([]byte("a=1,b=2")), hex.EncodeToString([]byte("b = \"2\" ,a=1"))}, Other: map[string]string{"c": "3"}}}
	for _, f := range vh.CorpusFiles(args.Corpus) {
		var c struct {
			Section string   `json:"section"`
			Input   dropCase `json:"input"`
		}
		if vh.ReadJSON(f, &c) == nil && c.Section == "drop" && len(c.Input.Texts) > 1 {
			cs = append(cs, c.Input)
		}
	}
	for i := 0; i < n; i++ {
		m := genSet(rng, safeVals)
		for !validUTF8Set(m) {
			m = genSet(rng, safeVals)
		}
		c := dropCase{Set: m}
		for k := 2 + rng.Intn(3); k > 0; k-- {
			c.Texts = append(c.Texts, hex.EncodeToString([]byte(spellSet(rng, m))))
		}
		c.Texts = append(c.Texts, hex.EncodeToString([]byte(string(tagLine(m)))))
		if rng.Bool() {
			c.Other = genSet(rng, safeVals)
		}
		cs = append(cs, c)
	}
	parallel(len(cs), 4, func(i int) { runDropCase(cs[i], sec) })
	res.Done(sec)
}
