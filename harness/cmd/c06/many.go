package main

// Section "many": FROM over MANY matching partitions. The cursor asks partition.Service.GetJournals for at most 50
// partitions; a FROM that matches more is REFUSED with an error ("Limit exceeds"). What must never happen is an answer
// from a part of the matches without an error. Populations around the limit (N = 49, 50, 51, 60 partitions
// `grp=g,n=<i>`, the first H of them also `half=a`), every query through SELECT (RPC) and through GetJournals itself with
// limits around the number of matches.

import (
	"context"
	"fmt"
	"os"
	"sort"
	"strconv"
	"time"

	"github.com/logrange/logrange/api"
	"github.com/logrange/logrange/pkg/lql"
	"github.com/logrange/logrange/pkg/model/tag"
	"github.com/logrange/logrange/pkg/utils/kvstring"

	"verifharness/internal/lrsrv"
	"verifharness/internal/vh"
)

type manyCase struct {
	N    int `json:"n"`    // partitions grp=g,n=<i>
	Half int `json:"half"` // the first Half of them also carry half=a
}

// the cursor's request (pkg/cursor/cursor.go: itf.GetJournals(ctx, sel.Source, 50)); a changed constant shows as a
// MISMATCH of the refusal boundary (IMPL vs this model), never as a silent pass
const manyCursorLimit = 50

func (c manyCase) sets() []map[string]string {
	var r []map[string]string
	for i := 0; i < c.N; i++ {
		m := map[string]string{"grp": "g", "n": strconv.Itoa(i)}
		if i < c.Half {
			m["half"] = "a"
		}
		r = append(r, m)
	}
	return r
}

func runManyCase(c manyCase, sec *vh.Section) {
	dir := lrsrv.NewDir()
	defer os.RemoveAll(dir)
	srv, err := startSrv(dir, lrsrv.Opts{})
	if err != nil {
		res.Note("many: %v", err)
		return
	}
	defer srv.Stop()
	ctx := context.Background()
	sets := c.sets()
	for i, p := range sets {
		var wr api.WriteResult
		err := srv.Client.Write(ctx, string(tagLine(p)), "", []*api.LogEvent{{Timestamp: int64(i + 1), Message: strconv.Itoa(i)}}, &wr)
		if err == nil {
			err = wr.Err
		}
		if err != nil {
			res.Note("many: write %d failed: %v", i, err)
			return
		}
	}
	srv.FlushWait()
	// every partition is readable on its own before the many-partition queries are judged (generous: loaded machine)
	for i, p := range sets {
		q := "select from {" + string(tagLine(p)) + "} limit 10"
		ok := false
		for deadline := time.Now().Add(30 * time.Second); time.Now().Before(deadline); {
			var qr api.QueryResult
			if err := srv.Client.Query(ctx, &api.QueryRequest{Query: q, Limit: 10}, &qr); err == nil && qr.Err == nil && len(qr.Events) == 1 {
				ok = true
				break
			}
			time.Sleep(20 * time.Millisecond)
		}
		if !ok {
			res.Note("many: partition %d never became readable; case skipped", i)
			return
		}
	}
	sources := []string{"", "{grp=g}", "grp=g", "{half=a}", "half=a and grp=g", "{grp=g,half=a}", "grp=g and not half=a", "{n=7}", "{grp=h}"}
	for _, s := range sources {
		src, perr := lql.ParseSource(s)
		if perr != nil {
			continue
		}
		tef, berr := lql.BuildTagsExpFuncBySource(src)
		if berr != nil {
			continue
		}
		// SPEC: which partitions match — {tags} by the subset oracle, expressions by the (separately checked) built function
		var want []int
		for i, p := range sets {
			match := false
			if src == nil {
				match = true
			} else if src.Tags != nil {
				tm, _ := kvstring.ToMap(s)
				match = kvstring.MapSubset(tm, p)
			} else {
				match = tef(tag.MapToSet(p))
			}
			if match {
				want = append(want, i)
			}
		}
		in := map[string]interface{}{"case": c, "source": s}
		judge := func(via string, limit int, answered bool, got []int) {
			sort.Ints(got)
			key := fmt.Sprintf("%d/%d %s %s %d", c.N, c.Half, s, via, limit)
			res.Eval(sec, key)
			res.Dist(sec, fmt.Sprintf("%s:matches%slimit:answered=%v", via, map[bool]string{true: "<", false: ">="}[len(want) < limit], answered))
			in := map[string]interface{}{"case": c, "source": s, "via": via, "limit": limit}
			if answered && fmt.Sprint(got) != fmt.Sprint(want) {
				res.SpecFail(vh.SpecFailure{Section: "many", Kind: "partial-selection", Input: in,
					Impl: fmt.Sprintf("answered without an error from %d partitions %v", len(got), got), Spec: fmt.Sprintf("the %d matching partitions, or an error", len(want)),
					What: "FROM answers, without an error, from a set of partitions that is not exactly the set of matching partitions (more matches than the cursor's limit must be refused, not cut)"})
				return
			}
			if answered != (len(want) < limit) {
				res.Mismatch(vh.Mismatch{Section: "many", Function: via, Input: in, Impl: fmt.Sprintf("answered=%v", answered),
					Model: fmt.Sprintf("answered=%v (%d matches, limit %d: refused iff matches >= limit)", len(want) < limit, len(want), limit)})
			}
		}
		_ = in
		// (1) partition.Service.GetJournals with limits around the number of matches
		limits := []int{manyCursorLimit}
		if len(want) > 1 {
			limits = append(limits, len(want)-1, len(want), len(want)+1)
		}
		for _, lim := range limits {
			js, err := srv.Parts.GetJournals(ctx, src, lim)
			var got []int
			seen := map[string]bool{}
			for ln, j := range js {
				if ts, perr := tag.Parse(string(ln)); perr == nil {
					if i, cerr := strconv.Atoi(ts.Tag("n")); cerr == nil {
						got = append(got, i)
					}
				}
				if !seen[j.Name()] {
					seen[j.Name()] = true
					srv.TIndex.Release(j.Name())
				}
			}
			judge("partition.GetJournals", lim, err == nil, got)
		}
		// (2) SELECT through the RPC client
		query := "select limit 1000"
		if s != "" {
			query = "select from " + s + " limit 1000"
		}
		var qr api.QueryResult
		qerr := srv.Client.Query(ctx, &api.QueryRequest{Query: query, Limit: 1000}, &qr)
		if qerr == nil {
			qerr = qr.Err
		}
		var got []int
		if qerr == nil {
			seen := map[int]bool{}
			for _, ev := range qr.Events {
				if i, cerr := strconv.Atoi(ev.Message); cerr == nil && !seen[i] {
					seen[i] = true
					got = append(got, i)
				}
			}
		}
		judge("SELECT", manyCursorLimit, qerr == nil, got)
	}
}

func sectionMany(rng *vh.Rng) {
	sec := res.Section("many", "system-correspondence",
		"in-process server with RPC: N partitions grp=g,n=<i> (N around the cursor's limit of 50: 49, 50, 51, 60; the first H also half=a, H around 25 and around 49..51), one event each; sources (empty, {grp=g}, grp=g, {half=a}, conjunctions, NOT, a single partition, no match) through partition.Service.GetJournals with limits matches-1, matches, matches+1, 50 and through SELECT: an answer must come from exactly the matching partitions (SPEC: subset oracle / built function), a refusal exactly when matches >= limit (MODEL). non-trivial = every (population, source, path, limit)")
	cs := []manyCase{{N: 51, Half: 49}, {N: 50, Half: 50}, {N: 49, Half: 25}}
	if args.Thorough {
		cs = append(cs, manyCase{N: 60, Half: 51})
		for i := 0; i < 4; i++ {
			n := 45 + rng.Intn(20)
			cs = append(cs, manyCase{N: n, Half: rng.Intn(n + 1)})
		}
	}
	for _, f := range vh.CorpusFiles(args.Corpus) {
		var c struct {
			Section string `json:"section"`
			Input   struct {
				Case manyCase `json:"case"`
			} `json:"input"`
		}
		if vh.ReadJSON(f, &c) == nil && c.Section == "many" && c.Input.Case.N > 0 {
			cs = append(cs, c.Input.Case)
		}
	}
	parallel(len(cs), 2, func(i int) { runManyCase(cs[i], sec) })
	res.Done(sec)
}
