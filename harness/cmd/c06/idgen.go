package main

// Section "idgen": partition source ids across RESTARTS. tindex.newSrc() takes its ids from utils.NextSimpleId(), a counter
// that every OS process seeds once (package init) from the clock: (UnixNano & 0xFFFFFFFFFFFF0000) | hostId, and advances by
// 0x10000 per id — one id per tick of 65 536 ns. The ids are PERSISTENT (they name the journals on disk and are the values of
// tindex.dat), so `tindex_map_inv`'s "a created partition gets a fresh id" needs, across restarts, that a new process never
// re-issues an id an earlier process issued. The contract that makes this true (Props.C06Ids.ids_disjoint_across_lives): a
// process that issued n ids is followed by a process that starts at least n ticks (n × 65.5 µs) after it STARTED — i.e. no
// process issues more than ~15 258 ids per second averaged over its life — and the clock is not set back.
// The section runs that contract on the real generator: it re-executes this binary as child processes ("lives"), each
// printing n ids obtained through tindex.VerifNewSrc(), the next life starting a generous time after the previous START, and
// demands that no id of a later life is an id of an earlier life, that ids grow within a life, and that every id round-trips
// through the "%X%02X" spelling (distinct counters give distinct source ids).

import (
	"bufio"
	"fmt"
	"os"
	"os/exec"
	"strconv"
	"strings"
	"time"

	"github.com/logrange/logrange/pkg/tindex"

	"verifharness/internal/vh"
)

type idgenCase struct {
	Lives []int `json:"lives"`  // ids issued by each life (child process), in order
	GapMs int   `json:"gap_ms"` // the next life starts at least this long after the START of the previous one
}

// idChildMain: `<harness> -idchild <n>` — print the wall clock (ns) and n source ids, one per line
func idChildMain(n int) {
	w := bufio.NewWriter(os.Stdout)
	fmt.Fprintf(w, "start %d\n", time.Now().UnixNano())
	for i := 0; i < n; i++ {
		fmt.Fprintln(w, tindex.VerifNewSrc())
	}
	w.Flush()
}

func runIdgenCase(c idgenCase, sec *vh.Section) {
	const tickNs = 65536
	seen := map[string]int{} // id -> life
	var prevStart time.Time
	var prevWall int64
	for li, n := range c.Lives {
		if li > 0 {
			// the contract: at least n_prev ticks (and the configured gap) since the previous life STARTED
			need := time.Duration(c.Lives[li-1])*tickNs*time.Nanosecond + time.Duration(c.GapMs)*time.Millisecond
			if d := time.Until(prevStart.Add(need)); d > 0 {
				time.Sleep(d)
			}
		}
		launch := time.Now()
		out, err := exec.Command(os.Args[0], "-idchild", strconv.Itoa(n)).Output()
		if err != nil {
			res.Note("idgen: child process failed: %v", err)
			return
		}
		lines := strings.Fields(strings.TrimSpace(string(out)))
		if len(lines) != n+2 || lines[0] != "start" {
			res.Note("idgen: unexpected child output (%d tokens)", len(lines))
			return
		}
		wall, _ := strconv.ParseInt(lines[1], 10, 64)
		if li > 0 && wall < prevWall+int64(c.Lives[li-1])*tickNs {
			// the wall clock was set back (or hardly advanced) between the lives: outside the contract, nothing to judge
			res.Note("idgen: wall clock did not advance by the previous life's %d ticks between two lives (clock set back?); case skipped", c.Lives[li-1])
			return
		}
		prevStart, prevWall = launch, wall
		ids := lines[2:]
		var last uint64
		for i, id := range ids {
			res.Eval(sec, fmt.Sprintf("%v/%d/%d", c.Lives, li, i))
			// "%X%02X": the counter in hex followed by two digits that are a function of it
			if len(id) < 3 {
				res.SpecFail(vh.SpecFailure{Section: "idgen", Kind: "source-id-malformed", Input: c, Impl: id, Spec: "hex counter + 2 hex digits", What: "a partition source id is not the hex counter followed by two hex digits"})
				return
			}
			ctr, perr := strconv.ParseUint(id[:len(id)-2], 16, 64)
			if perr != nil || fmt.Sprintf("%X%02X", ctr, (ctr>>16)&0xFF) != id {
				res.SpecFail(vh.SpecFailure{Section: "idgen", Kind: "source-id-malformed", Input: c, Impl: id, Spec: "hex counter + 2 hex digits", What: "a partition source id does not spell its counter back"})
				return
			}
			if i > 0 && ctr <= last {
				res.SpecFail(vh.SpecFailure{Section: "idgen", Kind: "source-id-not-increasing", Input: c, Impl: fmt.Sprintf("%X after %X", ctr, last), Spec: "strictly increasing within a process", What: "the ids one process issues do not grow"})
				return
			}
			last = ctr
			if l0, dup := seen[id]; dup {
				res.SpecFail(vh.SpecFailure{Section: "idgen", Kind: "source-id-repeats-after-restart", Input: c,
					Impl: fmt.Sprintf("id %s (no. %d of life %d) was issued by life %d before", id, i+1, li, l0),
					Spec: "an id that names a stored partition is never issued again",
					What: "a new OS process re-issues a partition source id an earlier process issued although it started more than one tick (65.5 µs) per issued id after it: two tag sets would share one journal (writes with different tag sets land in one partition)"})
				return
			}
		}
		for _, id := range ids {
			seen[id] = li
		}
		res.Dist(sec, fmt.Sprintf("life-of-%d-ids", n))
	}
}

func sectionIdgen(rng *vh.Rng) {
	sec := res.Section("idgen", "unit-contract",
		"partition source ids across restarts: this binary re-executed as child processes (lives), each issuing n ids through tindex.newSrc(); the next life starts at least n ticks of 65 536 ns plus a gap after the START of the previous one (the contract of Props.C06Ids.ids_disjoint_across_lives; a wall clock that did not advance accordingly skips the case). No id of a later life may be an id of an earlier life; ids grow within a life; every id spells its counter back. non-trivial = every id")
	cs := []idgenCase{{Lives: []int{3000, 3000, 200}, GapMs: 300}}
	if args.Thorough {
		cs = append(cs, idgenCase{Lives: []int{20000, 5000, 5000, 100}, GapMs: 200}, idgenCase{Lives: []int{1 + rng.Intn(5000), 1 + rng.Intn(5000), 1000}, GapMs: 100 + rng.Intn(400)})
	}
	for _, f := range vh.CorpusFiles(args.Corpus) {
		var c struct {
			Section string    `json:"section"`
			Input   idgenCase `json:"input"`
		}
		if vh.ReadJSON(f, &c) == nil && c.Section == "idgen" && len(c.Input.Lives) > 0 {
			cs = append(cs, c.Input)
		}
	}
	// the arithmetic model of the seed (Model/IdGen.lean: t / 65536 * 65536 + h) against Go's uint64 operations
	for i := 0; i < 20000; i++ {
		x := uint64(rng.Intn(1<<31))<<33 ^ uint64(rng.Intn(1<<31))<<2 ^ uint64(rng.Intn(4))
		if i%5 == 0 {
			x = uint64(time.Now().UnixNano()) + uint64(rng.Intn(1<<30))
		}
		h := uint64(rng.Intn(65536))
		res.Eval(sec, "")
		if (x&0xFFFFFFFFFFFF0000)|h != x/65536*65536+h {
			res.Mismatch(vh.Mismatch{Section: "idgen", Function: "(x & 0xFFFFFFFFFFFF0000) | h", Input: map[string]uint64{"x": x, "h": h}, Impl: fmt.Sprint((x & 0xFFFFFFFFFFFF0000) | h), Model: fmt.Sprint(x/65536*65536 + h)})
		}
	}
	for _, c := range cs {
		runIdgenCase(c, sec)
	}
	res.Done(sec)
}
