// C08 harness — tag lines and field lists the system emits parse back to the same values.
//
// Sections
//
//	corpus     witnesses of the open findings and minimised past failures, replayed first
//	kvunit     unit correspondence: kvstring.RemoveCurlyBraces / TrimSpaces / SplitString — exhaustive short strings
//	           over a 9 symbol alphabet + random longer ones from the weighted alphabet
//	quote      unit correspondence: strconv.Quote / strconv.Unquote (random bytes, IsPrint table boundaries, mutated
//	           quoted texts) + the contract unquote(quote s) = s evaluated on IMPL
//	tags       unit correspondence of tag.Parse / Set.Line / tag.MapToSet + SPEC search parse∘line∘parse = parse,
//	           line determinism under Go's map order, independence of spelling
//	fields     unit correspondence of NewFieldsFromKVString / AsKVString / Check / Concat + SPEC search (round trip,
//	           well-formedness of the binary encoding) + pipe provenance fieldsParseQuiet(line) = the set's pairs
//	system     lrsrv: events written through the RPC client with generated tags / fields, Tags / Fields of query
//	           results parsed back and compared with what was sent; clean restart (persisted tindex keys re-read)
package main

import (
	"context"
	"encoding/hex"
	"encoding/json"
	"fmt"
	"os"
	"path/filepath"
	"sort"
	"strconv"
	"strings"
	"time"
	"unicode/utf8"

	"github.com/logrange/logrange/api"
	"github.com/logrange/logrange/pkg/model/field"
	"github.com/logrange/logrange/pkg/model/tag"
	"github.com/logrange/logrange/pkg/utils/kvstring"
	"verifharness/internal/lrsrv"
	"verifharness/internal/vh"
)

var (
	args vh.Args
	res  *vh.Result
)

const findingQuoting = "F08"  // values/keys emitted unquoted although kvstring cannot read them back
const findingLimit = "F08b"   // 255 byte limit applied to the raw (quoted) piece: a value whose quoted form is longer is printed as text the parser rejects
const findingWrap = "F08b1"   // FIXED by 72eac47 (limit not re-tested after Unquote: wrapped length byte); tagged so that a recurrence names it
const findingQKey = "F08c"    // field parser unquotes names, tag parser does not
const findingLongTag = "F08d" // tags have no length limit, fields have: provenance of a tag piece > 255 bytes is silently empty

// ---------------------------------------------------------------------------------------------
// generators

var alphaW = []string{`"`, `"`, "`", `\`, `\`, "=", ",", "{", "}", " ", " ", "\x00", "\n", "\r", "\t", "\x7f", "\x80", "\xff", "\xc3",
	"é", "\u00a0", "\u200b", "\ufffd", "𝄞", "\xed\xa0\x80", "a", "b", "k", "x", "0", "7", "n", "u", "U", "'", "z"}

func genStr(r *vh.Rng, maxLen int) string {
	n := r.Intn(maxLen + 1)
	var sb strings.Builder
	for i := 0; i < n; i++ {
		sb.WriteString(alphaW[r.Intn(len(alphaW))])
	}
	return sb.String()
}

var keyPool = []string{"a", "b", "k1", "name", "zz", "A", "é", "a.b", "{k", "~t", "|p", "k\"", "q\"q\"", "k}", "x y", "'s", "`b", "\\", "ÿ"}

func genKey(r *vh.Rng) string {
	if r.Chance(1, 5) {
		return genStr(r, 3)
	}
	return r.PickS(keyPool)
}

var valPool = []string{"", "v", "x\"y", " c ", "}", "`b", "\"", "a=b", "a,b", "a}", "{a", "x\\", "\\\"", "\"q\"", "x\"y\"z", "é", "\xff", " ", "\n", "a b", "v}", "`", "''", "\x00"}

func genVal(r *vh.Rng) string {
	if r.Chance(1, 2) {
		return r.PickS(valPool)
	}
	return genStr(r, 5)
}

// spellValue writes a value in one of the spellings the parser accepts (or, rarely, one it may not)
func spellValue(r *vh.Rng, v string) string {
	switch r.Intn(8) {
	case 0, 1, 2:
		return strconv.Quote(v)
	case 3:
		if !strings.ContainsAny(v, "`\r") {
			return "`" + v + "`"
		}
		return strconv.Quote(v)
	case 4:
		return " " + strconv.Quote(v) + "  "
	case 5:
		if utf8.ValidString(v) && !strings.ContainsAny(v, "\"\\\n") {
			return `"` + v + `"`
		}
		return strconv.Quote(v)
	default:
		return v // raw
	}
}

func genPairs(r *vh.Rng) [][2]string {
	k := 1 + r.Intn(4)
	if r.Chance(1, 12) {
		k = 0
	}
	ps := make([][2]string, 0, k)
	for j := 0; j < k; j++ {
		ps = append(ps, [2]string{genKey(r), genVal(r)})
	}
	return ps
}

func spellText(r *vh.Rng, ps [][2]string) string {
	var sb strings.Builder
	br := r.Chance(1, 4)
	if br {
		sb.WriteString([]string{"{", " {", "{ ", "{{"}[r.Intn(4)])
	}
	for j, p := range ps {
		if j > 0 {
			sb.WriteString([]string{",", ", ", " ,"}[r.Intn(3)])
		}
		sb.WriteString(p[0])
		sb.WriteString([]string{"=", " = ", "="}[r.Intn(3)])
		sb.WriteString(spellValue(r, p[1]))
	}
	if br {
		sb.WriteString([]string{"}", "} ", " }", "}}"}[r.Intn(4)])
	} else if r.Chance(1, 20) {
		sb.WriteString("}")
	}
	return sb.String()
}

func genTagText(r *vh.Rng) string {
	if r.Chance(1, 8) {
		return genStr(r, 10) // malformed stream
	}
	return spellText(r, genPairs(r))
}

// ---------------------------------------------------------------------------------------------
// helpers

type hexInput struct {
	Hex  string `json:"hex"`
	Text string `json:"text,omitempty"` // informational (Go %q)
}

func hin(s string) hexInput {
	return hexInput{Hex: hex.EncodeToString([]byte(s)), Text: fmt.Sprintf("%q", s)}
}
func (h hexInput) str() string {
	b, _ := hex.DecodeString(h.Hex)
	return string(b)
}

func setsEqual(a, b tag.Set) bool { return a.SubsetOf(b) && b.SubsetOf(a) }

// the parsers must answer every input: a panic is recorded as a failure of the property and turned into an error so
// that the section goes on
func tagParse(t string) (s tag.Set, err error) {
	if p := vh.Recover(func() { s, err = tag.Parse(t) }); p != "" {
		res.SpecFail(vh.SpecFailure{Section: "tags", Kind: "panic", Input: hin(t), Impl: p, Spec: "no panic", What: "tag.Parse panics"})
		return tag.EmptySet, fmt.Errorf("panic: %s", p)
	}
	return
}

func fieldsParse(t string) (f field.Fields, err error) {
	if p := vh.Recover(func() { f, err = field.NewFieldsFromKVString(t) }); p != "" {
		res.SpecFail(vh.SpecFailure{Section: "fields", Kind: "panic", Input: hin(t), Impl: p, Spec: "no panic", What: "NewFieldsFromKVString panics"})
		return "", fmt.Errorf("panic: %s", p)
	}
	return
}

func fieldsParseQuiet(t string) field.Fields {
	f, _ := fieldsParse(t)
	return f
}

func kvField(ans, key string) string {
	for _, f := range strings.Fields(ans) {
		if strings.HasPrefix(f, key+"=") {
			return f[len(key)+1:]
		}
	}
	return ""
}

func first(ans string) string {
	if i := strings.IndexByte(ans, ' '); i >= 0 {
		return ans[:i]
	}
	return ans
}

func hexJoin(xs []string) string {
	h := make([]string, len(xs))
	for i, x := range xs {
		h[i] = vh.HxS(x)
	}
	return strings.Join(h, " ")
}

func okList(xs []string, err error) string {
	if err != nil {
		return "err"
	}
	if len(xs) == 0 {
		return "ok"
	}
	return "ok " + hexJoin(xs)
}

// batch of (request, impl answer, input) compared with the model afterwards
type batch struct {
	section string
	lines   []string
	impls   []string
	fn      []string
	inputs  []interface{}
}

func (b *batch) add(fn, line, impl string, in interface{}) {
	b.lines = append(b.lines, line)
	b.impls = append(b.impls, impl)
	b.fn = append(b.fn, fn)
	b.inputs = append(b.inputs, in)
}

func (b *batch) run() []string {
	outs, err := vh.Batch(args.Driver, b.lines)
	if err != nil {
		res.Fatal(args.Out, "driver: %v", err)
	}
	for i := range outs {
		if b.impls[i] != "" && outs[i] != b.impls[i] {
			res.Mismatch(vh.Mismatch{Section: b.section, Function: b.fn[i], Input: b.inputs[i], Impl: b.impls[i], Model: outs[i]})
		}
	}
	return outs
}

// ---------------------------------------------------------------------------------------------
// kvunit

func sectionKVUnit(rng *vh.Rng) {
	sec := res.Section("kvunit", "unit-correspondence",
		"kvstring.RemoveCurlyBraces, TrimSpaces, SplitString('=', ','): every string of length ≤ L over the 9 symbols {\" \\ = , { } blank a b} (L = 5 quick, 6 thorough) plus random strings ≤ 14 symbols from the weighted alphabet; non-trivial = distinct (function, string) with a string of at least 2 bytes")
	sec.Exhaustive = true
	small := []byte{'"', '\\', '=', ',', '{', '}', ' ', 'a', 'b'}
	L, nrand := 5, 20000
	if args.Thorough {
		L, nrand = 6, 600000
	}
	b := &batch{section: "kvunit"}
	one := func(s string) {
		key := ""
		if len(s) >= 2 {
			key = s
		}
		f, err := kvstring.RemoveCurlyBraces(s)
		e := "err"
		if err == nil {
			e = "ok " + vh.HxS(f)
		}
		b.add("kvstring.RemoveCurlyBraces", "rcb "+vh.HxS(s), e, hin(s))
		b.add("kvstring.TrimSpaces", "trim "+vh.HxS(s), vh.HxS(kvstring.TrimSpaces(s)), hin(s))
		var ps []string
		var perr error
		if p := vh.Recover(func() { ps, perr = kvstring.SplitString(s, '=', ',', nil) }); p != "" {
			res.SpecFail(vh.SpecFailure{Section: "kvunit", Kind: "panic", Input: hin(s), Impl: p, Spec: "no panic", What: "kvstring.SplitString panics"})
			perr = fmt.Errorf("panic")
		}
		b.add("kvstring.SplitString", "split "+vh.HxS(s), okList(ps, perr), hin(s))
		for i := 0; i < 3; i++ {
			k := ""
			if key != "" {
				k = fmt.Sprint(i, key)
			}
			res.Eval(sec, k)
		}
	}
	var rec func(prefix []byte, n int)
	rec = func(prefix []byte, n int) {
		one(string(prefix))
		if n == 0 {
			return
		}
		for _, c := range small {
			rec(append(prefix, c), n-1)
		}
	}
	rec(nil, L)
	for i := 0; i < nrand; i++ {
		one(genStr(rng, 14))
	}
	b.run()
	res.Done(sec)
}

// ---------------------------------------------------------------------------------------------
// quote

func sectionQuote(rng *vh.Rng) {
	sec := res.Section("quote", "unit-correspondence",
		"strconv.Quote on random byte strings, every rune at a boundary of the IsPrint table (first/last of each range ±1), surrogates, >U+10FFFF encodings, truncated sequences; strconv.Unquote on quoted texts, mutated quoted texts, backquoted and raw-quoted random strings; contract unquote(quote s) = s on IMPL; non-trivial = distinct (function, input)")
	b := &batch{section: "quote"}
	n := 60000
	if args.Thorough {
		n = 600000
	}
	q := func(s string) {
		qs := strconv.Quote(s)
		b.add("strconv.Quote", "quote "+vh.HxS(s), vh.HxS(qs), hin(s))
		res.Eval(sec, "q"+s)
		u, err := strconv.Unquote(qs)
		if err != nil || u != s {
			res.SpecFail(vh.SpecFailure{Section: "quote", Kind: "quote-contract", Input: hin(s), Impl: fmt.Sprintf("%q %v", u, err), Spec: fmt.Sprintf("%q", s), What: "strconv.Unquote(strconv.Quote(s)) != s: the QuoteContract hypothesis of tags_roundtrip_partial does not hold for this toolchain"})
		}
		if !(len(qs) >= 2 && qs[0] == '"' && qs[len(qs)-1] == '"' && inStringStable(qs[1:len(qs)-1])) {
			res.SpecFail(vh.SpecFailure{Section: "quote", Kind: "quote-contract", Input: hin(s), Impl: qs, Spec: "\"body\" with no bare quote and paired escapes", What: "strconv.Quote(s) does not have the shape the QuoteContract hypothesis demands"})
		}
	}
	uq := func(t string) {
		if len(t) == 0 || (t[0] != '"' && t[0] != '`') {
			return
		}
		u, err := strconv.Unquote(t)
		e := "err"
		if err == nil {
			e = "ok " + vh.HxS(u)
		}
		b.add("strconv.Unquote", "unquote "+vh.HxS(t), e, hin(t))
		res.Eval(sec, "u"+t)
	}
	// IsPrint boundaries
	prev := false
	for r := rune(0); r <= 0x10FFFF+1; r++ {
		p := r <= 0x10FFFF && strconv.IsPrint(r)
		if p != prev {
			for _, x := range []rune{r - 1, r} {
				if x >= 0 && x <= 0x10FFFF {
					s := string(x)
					if x >= 0xD800 && x <= 0xDFFF {
						s = string([]byte{0xED, byte(0x80 | (x>>6)&0x3F), byte(0x80 | x&0x3F)})
					}
					q("a" + s + "b")
					uq(`"` + s + `"`)
				}
			}
		}
		prev = p
	}
	for _, s := range []string{"\xf4\x90\x80\x80", "\xf8\x88\x80\x80\x80", "\xc0\x80", "\xe0\x80\x80", "\xe2\x82", "\xf0\x9f\x98", "\xef\xbf\xbd", "\xef\xbf\xbe", " ", "\u00ad", "\ufeff"} {
		q(s)
		uq(`"` + s + `"`)
		uq("`" + s + "`")
	}
	for i := 0; i < n; i++ {
		s := genStr(rng, 10)
		switch i % 4 {
		case 0:
			q(s)
		case 1:
			t := strconv.Quote(genStr(rng, 6))
			if rng.Chance(1, 2) && len(t) > 2 {
				p := rng.Intn(len(t))
				t = t[:p] + alphaW[rng.Intn(len(alphaW))] + t[p:]
			}
			uq(t)
		case 2:
			uq(`"` + s + `"`)
		case 3:
			if rng.Bool() {
				uq("`" + s + "`")
			} else {
				uq(`"\` + s + `"`)
			}
		}
	}
	b.run()
	res.Done(sec)
}

// inStringStable: SplitString's automaton, started inside a string, stays inside over body (no bare quote, escapes paired)
func inStringStable(body string) bool {
	for i := 0; i < len(body); i++ {
		switch body[i] {
		case '"':
			return false
		case '\\':
			i++
			if i >= len(body) {
				return false
			}
		}
	}
	return true
}

// ---------------------------------------------------------------------------------------------
// tags

type tagsCase struct {
	hexInput
}

// implTagsRT: Parse, Line, Parse again on the implementation
func implTagsRT(t string) (oc, line string, set tag.Set) {
	if p := vh.Recover(func() { oc, line, set = implTagsRT0(t) }); p != "" {
		res.SpecFail(vh.SpecFailure{Section: "tags", Kind: "panic", Input: hin(t), Impl: p, Spec: "no panic", What: "tag.Parse / Set.Line panics"})
		return "panic", "", tag.EmptySet
	}
	return
}

func implTagsRT0(t string) (oc, line string, set tag.Set) {
	set, err := tag.Parse(t)
	if err != nil {
		return "rej", "", set
	}
	line = string(set.Line())
	s2, err := tag.Parse(line)
	switch {
	case err != nil:
		oc = "err"
	case setsEqual(set, s2):
		oc = "same"
	default:
		oc = "diff"
	}
	return
}

func reportTagsRT(section string, in interface{}, oc, line, modelAns string) {
	reportTagsRTk(section, in, oc, line, modelAns, "line")
}

// lineKey: which of the model's lines the implementation's text is compared with ("line" = the line of the parsed
// set; "line2" = the line after one more Parse, what a restarted server prints)
func reportTagsRTk(section string, in interface{}, oc, line, modelAns, lineKey string) {
	if oc != "err" && oc != "diff" {
		return
	}
	eq := (first(modelAns) == oc || lineKey == "line2") && kvField(modelAns, lineKey) == vh.HxS(line)
	f := vh.SpecFailure{Section: section, Kind: map[string]string{"err": "reparse-error", "diff": "reparse-differs"}[oc], Input: in,
		Impl: fmt.Sprintf("%s line=%q", oc, line), Spec: "same", Model: modelAns, ImplEqModel: eq,
		What: "the tag line the system emits for an accepted tag set is rejected by its own parser or denotes another set"}
	if eq && kvField(modelAns, "safe") == "0" {
		f.Finding = findingQuoting
	}
	res.SpecFail(f)
}

func sectionTags(rng *vh.Rng) {
	sec := res.Section("tags", "spec-search",
		"tag texts: 0..4 pairs, keys from a pool (plain, non-ASCII, leading '{', sorting after 'z', with quotes/braces/blanks) or random, values from a boundary pool (empty, x\"y, ' c ', '}', leading backquote, '=' ',' '\\' NUL \\n non-UTF-8 …) or random, each spelled raw / strconv.Quote / backquoted / padded with blanks, optional braces; 1/8 random strings (malformed stream). IMPL tag.Parse → Line → Parse vs MODEL (rt) vs SPEC (same set); MapToSet(m).Line() for arbitrary maps; Line repeated under Go's random map order; second spelling of the same pairs must give the same line. non-trivial = accepted non-empty set, distinct by text")
	n := 120000
	if args.Thorough {
		n = 3000000
	}
	b := &batch{section: "tags"}
	type pend struct {
		kind     string
		in       interface{}
		oc, line string
	}
	var pends []pend
	addText := func(t string) {
		oc, line, set := implTagsRT(t)
		key := ""
		if oc != "rej" && !set.IsEmpty() {
			key = t
		}
		res.Eval(sec, key)
		res.Dist(sec, "text:"+oc)
		b.add("tag.Parse/Set.Line", "rt "+vh.HxS(t), "", hin(t))
		pends = append(pends, pend{"rt", hin(t), oc, line})
		// the parsed map itself
		var m map[string]string
		var err error
		if p := vh.Recover(func() { m, err = kvstring.ToMap(t) }); p != "" {
			err = fmt.Errorf("panic: %s", p)
		}
		if len(t) == 0 {
			m, err = map[string]string{}, nil
		}
		b.add("tag.Parse (map)", "parse "+vh.HxS(t), okList(flatSorted(m), err), hin(t))
		pends = append(pends, pend{"", nil, "", ""})
		if oc != "rej" && oc != "panic" {
			// determinism under map order: rebuild from the map several times
			for i := 0; i < 3; i++ {
				s2 := tag.MapToSet(m)
				if string(s2.Line()) != line {
					res.SpecFail(vh.SpecFailure{Section: "tags", Kind: "line-not-deterministic", Input: hin(t), Impl: string(s2.Line()), Spec: line, What: "two evaluations of line() over the same map differ"})
				}
			}
		}
	}
	for _, f := range vh.CorpusFiles(args.Corpus) {
		var c struct {
			Section string   `json:"section"`
			Input   hexInput `json:"input"`
		}
		if vh.ReadJSON(f, &c) == nil && c.Section == "tags" {
			addText(c.Input.str())
		}
	}
	for _, t := range []string{"", " ", "{}", "a=b", "{a=b}", `a="x\"y",b=" c "`, "a=}", "a=}}", "b=`x`", "a=\"`x\"", `|d=1,{c=2`, "a=\"\"", "a=", "{a=b}}", "{{a=b}}", "a=b,a=c"} {
		addText(t)
	}
	for i := 0; i < n; i++ {
		ps := genPairs(rng)
		if rng.Chance(1, 8) {
			addText(genStr(rng, 10))
			continue
		}
		t1 := spellText(rng, ps)
		addText(t1)
		if i%4 == 0 {
			// independence of spelling: another spelling (and order) of the same pairs
			p2 := append([][2]string{}, ps...)
			dup := false
			seen := map[string]bool{}
			for _, p := range ps {
				if seen[p[0]] {
					dup = true
				}
				seen[p[0]] = true
			}
			if !dup {
				pm := rng.Perm(len(p2))
				q := make([][2]string, len(p2))
				for i, j := range pm {
					q[i] = p2[j]
				}
				t2 := spellText(rng, q)
				s1, e1 := tagParse(t1)
				s2, e2 := tagParse(t2)
				if e1 == nil && e2 == nil && setsEqual(s1, s2) {
					res.Dist(sec, "spelling-pairs")
					if s1.Line() != s2.Line() {
						res.SpecFail(vh.SpecFailure{Section: "tags", Kind: "line-depends-on-spelling", Input: []hexInput{hin(t1), hin(t2)}, Impl: fmt.Sprintf("%q vs %q", s1.Line(), s2.Line()), Spec: "equal lines", What: "two spellings of the same tag set print different lines"})
					}
				}
			}
		}
		if i%5 == 0 {
			// arbitrary map → MapToSet (collector path), model gets the pairs in a random order
			m := map[string]string{}
			for _, p := range ps {
				m[p[0]] = p[1]
			}
			set := tag.MapToSet(m)
			line := string(set.Line())
			s2, err := tagParse(line)
			oc := "same"
			if err != nil {
				oc = "err"
			} else if !setsEqual(set, s2) {
				oc = "diff"
			}
			flat := flatSorted(m)
			pm := rng.Perm(len(flat) / 2)
			var sh []string
			for _, j := range pm {
				sh = append(sh, flat[2*j], flat[2*j+1])
			}
			in := map[string]interface{}{"pairs_hex": strings.Fields(hexJoin(sh)), "text": fmt.Sprintf("%q", m)}
			b.add("tag.MapToSet/tagMap.line", strings.TrimRight("line "+hexJoin(sh), " "), vh.HxS(line), in)
			pends = append(pends, pend{"", nil, "", ""})
			b.add("tag.MapToSet/Set.Line/tag.Parse", strings.TrimRight("maprt "+hexJoin(sh), " "), "", in)
			pends = append(pends, pend{"maprt", in, oc, line})
			res.Eval(sec, "")
			res.Dist(sec, "map:"+oc)
		}
	}
	outs := b.run()
	nsafe, nunsafe := 0, 0
	for i, p := range pends {
		if p.kind == "" {
			continue
		}
		m := outs[i]
		if first(m) != p.oc || (p.oc != "rej" && kvField(m, "line") != vh.HxS(p.line)) {
			res.Mismatch(vh.Mismatch{Section: "tags", Function: b.fn[i], Input: p.in, Impl: p.oc + " line=" + vh.HxS(p.line), Model: m})
		}
		if p.oc != "rej" {
			if kvField(m, "safe") == "1" {
				nsafe++
				sec.Distribution["safe:impl-"+p.oc]++
			} else {
				nunsafe++
				sec.Distribution["not-safe:impl-"+p.oc]++ // how often a set outside the Safe class still round-trips (or not)
			}
		}
		if p.oc != "rej" && p.oc != "panic" {
			// tightness of the class: safeW (Props.C08Tight.tags_roundtrip_weak) — inside it the line must read back as the
			// same set (proved; an IMPL failure here is reported by reportTagsRT / the mismatch above); OUTSIDE it a round trip
			// would refute the conjectured necessity `safeW_necessary` — counted, and kept as a sample
			w := kvField(m, "safew")
			sec.Distribution["safeW="+w+":impl-"+p.oc]++
			if w == "0" && p.oc == "same" && first(m) == "same" {
				res.Sample(map[string]interface{}{"roundtrips-outside-safeW": p.in})
			}
			if w == "1" && p.oc != "same" && first(m) == p.oc {
				res.Mismatch(vh.Mismatch{Section: "tags", Function: "round trip on the class safeW (tags_roundtrip_weak)", Input: p.in, Impl: p.oc, Model: m})
			}
		}
		reportTagsRT("tags", map[string]interface{}{"kind": p.kind, "case": p.in}, p.oc, p.line, m)
	}
	sec.Distribution["accepted:safe"] = nsafe
	sec.Distribution["accepted:not-safe"] = nunsafe
	res.Done(sec)
}

func flatSorted(m map[string]string) []string {
	ks := make([]string, 0, len(m))
	for k := range m {
		ks = append(ks, k)
	}
	sort.Strings(ks)
	r := make([]string, 0, 2*len(ks))
	for _, k := range ks {
		r = append(r, k, m[k])
	}
	return r
}

// ---------------------------------------------------------------------------------------------
// fields

func decodeFields(f string) ([]string, bool) {
	var items []string
	i := 0
	for i < len(f) {
		n := int(f[i])
		if i+1+n > len(f) {
			return nil, false
		}
		items = append(items, f[i+1:i+1+n])
		i += n + 1
	}
	return items, len(items)%2 == 0
}

func implFieldsRT(t string) (oc, kv string, f field.Fields, wf bool) {
	if p := vh.Recover(func() { oc, kv, f, wf = implFieldsRT0(t) }); p != "" {
		res.SpecFail(vh.SpecFailure{Section: "fields", Kind: "panic", Input: hin(t), Impl: p, Spec: "no panic", What: "NewFieldsFromKVString panics"})
		return "panic", "", "", true
	}
	return
}

func implFieldsRT0(t string) (oc, kv string, f field.Fields, wf bool) {
	f, err := field.NewFieldsFromKVString(t)
	if err != nil {
		return "rej", "", f, true
	}
	_, wf = decodeFields(string(f))
	if p := vh.Recover(func() { kv = f.AsKVString() }); p != "" {
		return "panic", "", f, wf
	}
	f2, err := field.NewFieldsFromKVString(kv)
	switch {
	case err != nil:
		oc = "err"
	case f2 == f:
		oc = "same"
	default:
		oc = "diff"
	}
	return
}

func reportFieldsRT(section string, in interface{}, oc, kv string, wf bool, m string) {
	eq := first(m) == oc && (oc == "rej" || oc == "panic" || kvField(m, "kv") == vh.HxS(kv)) && (kvField(m, "wf") == "1") == wf
	if !wf {
		f := vh.SpecFailure{Section: section, Kind: "fields-malformed", Input: in, Impl: "wf=0 " + oc, Spec: "well-formed length-prefixed fields", Model: m, ImplEqModel: eq,
			What: "NewFieldsFromKVString accepts a text and returns a byte string that is not a well-formed field list"}
		if eq && kvField(m, "long") == "1" {
			f.Finding = findingWrap
		}
		res.SpecFail(f)
		return
	}
	if oc != "err" && oc != "diff" && oc != "panic" {
		return
	}
	f := vh.SpecFailure{Section: section, Kind: map[string]string{"err": "reparse-error", "diff": "reparse-differs", "panic": "panic"}[oc], Input: in,
		Impl: fmt.Sprintf("%s kv=%q", oc, kv), Spec: "same", Model: m, ImplEqModel: eq,
		What: "the text AsKVString emits for an accepted field list is rejected by NewFieldsFromKVString or denotes other fields"}
	if eq && kvField(m, "safe") == "0" && oc != "panic" {
		f.Finding = findingQuoting
		// which of the two classes: quoting-safe but too long after quoting → the limit finding
		if kvField(m, "qsafe") == "1" {
			f.Finding = findingLimit
		}
	}
	res.SpecFail(f)
}

func sectionFields(rng *vh.Rng) {
	sec := res.Section("fields", "spec-search",
		"field texts generated like tag texts (duplicates and empty values allowed) plus long pieces around the 255 byte limit (253..257 bytes raw, quoted, quoted with bytes that grow when unquoted); IMPL NewFieldsFromKVString → AsKVString → NewFieldsFromKVString, field.Check, Concat vs MODEL (frt/fromkv/askv/check) vs SPEC (same bytes, well-formed); pipe provenance: fieldsParseQuiet(set.Line()) must list exactly the set's pairs. non-trivial = accepted non-empty list, distinct by text")
	n := 80000
	if args.Thorough {
		n = 2000000
	}
	b := &batch{section: "fields"}
	type pend struct {
		in     interface{}
		oc, kv string
		wf     bool
	}
	pends := map[int]pend{}
	type provPend struct {
		in     interface{}
		oc, pf string
	}
	provs := map[int]provPend{}
	addText := func(t string) {
		oc, kv, f, wf := implFieldsRT(t)
		key := ""
		if oc != "rej" && len(f) > 0 {
			key = t
		}
		res.Eval(sec, key)
		res.Dist(sec, "text:"+oc)
		pends[len(b.lines)] = pend{hin(t), oc, kv, wf}
		b.add("field.NewFieldsFromKVString/AsKVString", "frt "+vh.HxS(t), "", hin(t))
		e := "err"
		if oc != "rej" {
			e = "ok " + vh.HxS(string(f))
		}
		b.add("field.NewFieldsFromKVString", "fromkv "+vh.HxS(t), e, hin(t))
		if oc != "rej" {
			_, cerr := field.Check(string(f))
			c := "1"
			if cerr != nil {
				c = "0"
			}
			b.add("field.Check", "check "+vh.HxS(string(f)), c, hin(string(f)))
		}
	}
	addBin := func(f string) {
		// AsKVString / Check on arbitrary (possibly malformed) binary input
		var kv string
		e := ""
		if p := vh.Recover(func() { kv = field.Fields(f).AsKVString() }); p != "" {
			e = "panic"
		} else {
			e = "ok " + vh.HxS(kv)
		}
		b.add("field.Fields.AsKVString", "askv "+vh.HxS(f), e, hin(f))
		_, cerr := field.Check(f)
		c := "1"
		if cerr != nil {
			c = "0"
		}
		b.add("field.Check", "check "+vh.HxS(f), c, hin(f))
		res.Eval(sec, "")
		res.Dist(sec, "binary:"+first(e))
	}
	// provenance: fields of a canonical line (pipe.worker: fieldsParseQuiet(srcTags))
	addProv := func(m map[string]string) {
		set := tag.MapToSet(m)
		line := string(set.Line())
		if s2, err := tagParse(line); err == nil && setsEqual(set, s2) {
			pf, perr := fieldsParse(line)
			items, _ := decodeFields(string(pf))
			want := flatSorted(m)
			oc := "same"
			if perr != nil {
				oc = "err"
			} else if strings.Join(items, "\x00") != strings.Join(want, "\x00") {
				oc = "diff"
			}
			res.Dist(sec, "provenance:"+oc)
			res.Eval(sec, "prov"+line)
			in := map[string]interface{}{"pairs_hex": strings.Fields(hexJoin(want)), "line": fmt.Sprintf("%q", line)}
			provs[len(b.lines)] = provPend{in, oc, string(pf)}
			b.add("fieldsParse(Set.Line())", strings.TrimRight("prov "+hexJoin(want), " "), "", in)
		}
		addText(line)
	}
	for _, f := range vh.CorpusFiles(args.Corpus) {
		var c struct {
			Section string   `json:"section"`
			Input   hexInput `json:"input"`
		}
		if vh.ReadJSON(f, &c) == nil && c.Section == "fields" {
			addText(c.Input.str())
		}
		var pc struct {
			Section string `json:"section"`
			Input   struct {
				Pairs []string `json:"pairs_hex"`
			} `json:"input"`
		}
		if vh.ReadJSON(f, &pc) == nil && pc.Section == "prov" {
			m := map[string]string{}
			for i := 0; i+1 < len(pc.Input.Pairs); i += 2 {
				m[string(vh.UnHx(pc.Input.Pairs[i]))] = string(vh.UnHx(pc.Input.Pairs[i+1]))
			}
			addProv(m)
		}
	}
	addProv(map[string]string{"\"q\"": "v"})
	for _, t := range []string{"", "a=b", "a=", "a=,b=", "a=\"\"", `a="x\"y"`, "a=\" c \"", "a=}", "{a=b}", "a=b,a=c", "a=`x`"} {
		addText(t)
	}
	for _, l := range []int{252, 253, 254, 255, 256} {
		addText("k=" + strings.Repeat("v", l))
		addText("k=\"" + strings.Repeat("v", l) + "\"")
		addText("k=\"" + strings.Repeat("\x80", l) + "\"")
		addText("k=\"" + strings.Repeat("=", l) + "\"")
		addText("k=\"" + strings.Repeat("\\n", l/2) + "\"")
		addText(strings.Repeat("k", l) + "=v")
	}
	// F08b: short values whose quoted form exceeds the limit (control bytes print as \x01, four bytes each), around the boundary
	for _, n := range []int{61, 62, 63, 64, 65, 70} {
		addText("k=\"=" + strings.Repeat("\x01", n) + "\"")
		addText("k=\"" + strings.Repeat("\x01", n) + ",\",j=1")
		addText("k=`\"=\"" + strings.Repeat("\x7f", n) + "`")
	}
	addText("k=\"" + strings.Repeat("\\\"", 120) + ",\"")
	addText("k=\"" + strings.Repeat("\\\"", 126) + ",\"")
	for i := 0; i < n; i++ {
		switch {
		case i%16 == 0:
			addBin(genStr(rng, 8))
		case i%16 == 1:
			// mostly well-formed binary
			var sb strings.Builder
			for j := rng.Intn(5); j > 0; j-- {
				s := genStr(rng, 4)
				sb.WriteByte(byte(len(s)))
				sb.WriteString(s)
			}
			addBin(sb.String())
		case i%16 == 2:
			ps := genPairs(rng)
			m := map[string]string{}
			for _, p := range ps {
				m[p[0]] = p[1]
			}
			if i%160 == 2 {
				// a tag piece around the field limit (tags themselves have no limit)
				n := rng.PickI([]int{250, 253, 254, 255, 256, 257, 300})
				if rng.Bool() {
					m["long"] = strings.Repeat("v", n)
				} else {
					m["q"] = strings.Repeat("=", n/2) // printed quoted: n/2+2 bytes
					m[strings.Repeat("k", n)] = "1"
				}
			}
			addProv(m)
		default:
			addText(genTagText(rng))
		}
	}
	outs := b.run()
	for i, p := range pends {
		m := outs[i]
		ok := first(m) == p.oc && (kvField(m, "wf") == "1") == p.wf && (p.oc == "rej" || p.oc == "panic" || kvField(m, "kv") == vh.HxS(p.kv))
		if !ok {
			res.Mismatch(vh.Mismatch{Section: "fields", Function: b.fn[i], Input: p.in, Impl: fmt.Sprintf("%s wf=%v kv=%s", p.oc, p.wf, vh.HxS(p.kv)), Model: m})
		}
		reportFieldsRT("fields", p.in, p.oc, p.kv, p.wf, m)
		if p.oc != "rej" {
			cls := "safe"
			if kvField(m, "qsafe") == "0" {
				cls = "not-qsafe"
			} else if kvField(m, "safe") == "0" {
				cls = "too-long"
			}
			sec.Distribution[cls+":impl-"+p.oc]++
		}
	}
	for i, p := range provs {
		m := outs[i]
		eq := first(m) == p.oc && (p.oc == "err" || kvField(m, "items") == vh.HxS(p.pf))
		if !eq {
			res.Mismatch(vh.Mismatch{Section: "fields", Function: b.fn[i], Input: p.in, Impl: p.oc + " items=" + vh.HxS(p.pf), Model: m})
		}
		if p.oc != "same" {
			f := vh.SpecFailure{Section: "fields", Kind: "provenance-differs", Input: p.in, Impl: p.oc + " items=" + vh.HxS(p.pf), Spec: "the pairs of the set", Model: m, ImplEqModel: eq,
				What: "fieldsParseQuiet(tag line) (the provenance fields a pipe attaches) does not list the names and values of the tag set although tag.Parse reads the line back"}
			if eq && kvField(m, "qkey") == "1" {
				f.Finding = findingQKey
			} else if eq && kvField(m, "long") == "1" {
				f.Finding = findingLongTag
			}
			res.SpecFail(f)
		}
	}
	res.Done(sec)
}

// ---------------------------------------------------------------------------------------------
// system

type sysCase struct {
	Tags    hexInput   `json:"tags"`
	Fields  hexInput   `json:"fields"`
	Fields2 hexInput   `json:"event_fields"`
	More    []hexInput `json:"more_event_fields,omitempty"` // further events of the same write (same partition, consecutive records)
	Again   *hexInput  `json:"tags_again,omitempty"`        // a second write names the same set in another spelling (before later partitions are created)
}

type sysBatch struct {
	Cases   []sysCase `json:"cases"`
	Restart bool      `json:"restart"`
}

// spellPairsQuoted: every value through strconv.Quote (always accepted; the stored bytes are exactly the values)
func spellPairsQuoted(ps [][2]string) string {
	var sb strings.Builder
	for i, p := range ps {
		if i > 0 {
			sb.WriteString(",")
		}
		sb.WriteString(strconv.Quote(p[0]) + "=" + strconv.Quote(p[1]))
	}
	return sb.String()
}

func genSysBatch(rng *vh.Rng, k int) sysBatch {
	var sb sysBatch
	for i := 0; i < k; i++ {
		ps := genPairs(rng)
		for j := range ps { // keep RPC / JSON persistence out of the picture: valid UTF-8, no NUL
			if !utf8.ValidString(ps[j][0]) || !utf8.ValidString(ps[j][1]) || strings.ContainsAny(ps[j][0]+ps[j][1], "\x00") {
				ps[j] = [2]string{"u", "v"}
			}
		}
		ps = append(ps, [2]string{"id", strconv.Itoa(i)})
		pm := rng.Perm(len(ps))
		q := make([][2]string, len(ps))
		for a, b := range pm {
			q[a] = ps[b]
		}
		fp := genPairs(rng)
		for j := range fp {
			if len(fp[j][0]) > 40 || len(fp[j][1]) > 40 {
				fp[j] = [2]string{"f", "1"}
			}
		}
		tt, ft := spellText(rng, q), spellText(rng, fp)
		for try := 0; try < 6; try++ { // mostly accepted writes; the last attempt is kept whatever it is
			if _, err := tagParse(tt); err == nil {
				break
			}
			tt = spellText(rng, q)
		}
		if _, err := tagParse(tt); err != nil {
			// the names themselves are not acceptable: plain names, the generated values quoted
			var sbq strings.Builder
			for a, p := range q {
				if a > 0 {
					sbq.WriteString(", ")
				}
				name := p[0]
				if name != "id" {
					name = []string{"a", "b", "k1", "zz", "~t"}[a%5]
				}
				sbq.WriteString(name + "=" + strconv.Quote(p[1]))
			}
			tt = sbq.String()
		}
		for try := 0; try < 6; try++ {
			if _, err := fieldsParse(ft); err == nil {
				break
			}
			ft = spellText(rng, fp)
		}
		if _, err := fieldsParse(ft); err != nil && rng.Chance(3, 4) {
			ft = spellPairsQuoted(fp)
		}
		// event-level field texts: mostly acceptable (one unparsable text rejects the whole write), 1/8 whatever comes
		evText := func() string {
			ps := genPairs(rng)
			t := spellText(rng, ps)
			if rng.Chance(1, 8) {
				return t
			}
			for try := 0; try < 6; try++ {
				if _, err := fieldsParse(t); err == nil {
					return t
				}
				t = spellText(rng, ps)
			}
			return spellPairsQuoted(ps)
		}
		c := sysCase{Tags: hin(tt), Fields: hin(ft), Fields2: hin(evText())}
		if rng.Chance(2, 3) {
			// several events in one write: consecutive records of one partition, messages of equal length; event-level
			// fields: the same names with values of equal length but different content (a cache keyed on the previous
			// event's fields must not confuse them), identical fields, or unrelated fields
			ep := genPairs(rng)
			for j := range ep {
				if len(ep[j][0]) > 40 || len(ep[j][1]) > 40 || ep[j][1] == "" {
					ep[j] = [2]string{"lvl", "info"}
				}
			}
			if len(ep) == 0 {
				ep = [][2]string{{"lvl", "info"}}
			}
			mode := rng.Intn(4)
			c.Fields2 = hin(spellPairsQuoted(ep))
			for j := 1 + rng.Intn(4); j > 0; j-- {
				switch mode {
				case 0, 1: // same names, same value lengths, different content
					vp := make([][2]string, len(ep))
					for a, p := range ep {
						v := []byte(p[1])
						v[len(v)-1] = "abcdefghij"[(int(v[len(v)-1])+j)%10]
						if rng.Bool() {
							v[0] = "klmnopqrst"[(int(v[0])+j)%10]
						}
						vp[a] = [2]string{p[0], string(v)}
					}
					c.More = append(c.More, hin(spellPairsQuoted(vp)))
				case 2:
					c.More = append(c.More, c.Fields2)
				default:
					c.More = append(c.More, hin(evText()))
				}
			}
		}
		if rng.Chance(1, 2) {
			// the partition is named again in a different spelling; partitions created later make the index be saved again
			pm2 := rng.Perm(len(q))
			q2 := make([][2]string, len(q))
			for a, b := range pm2 {
				q2[a] = q[b]
			}
			if t2 := spellText(rng, q2); t2 != tt {
				if s1, e1 := tagParse(tt); e1 == nil {
					if s2, e2 := tagParse(t2); e2 == nil && setsEqual(s1, s2) {
						h := hin(t2)
						c.Again = &h
					}
				}
			}
		}
		sb.Cases = append(sb.Cases, c)
	}
	sb.Restart = rng.Chance(1, 2)
	return sb
}

func runSysBatch(sb sysBatch, sec *vh.Section) {
	dir := lrsrv.NewDir()
	defer os.RemoveAll(dir)
	srv, err := lrsrv.Start(dir, lrsrv.Opts{})
	for try := 0; err != nil && try < 10 && strings.Contains(err.Error(), "address already in use"); try++ {
		srv, err = lrsrv.Start(dir, lrsrv.Opts{}) // the probed free port was taken by another process meanwhile
	}
	if err != nil {
		res.Note("system: %v", err)
		return
	}
	defer func() {
		if srv != nil {
			srv.Stop()
		}
	}()
	ctx := context.Background()
	type exp struct {
		c        sysCase
		set      tag.Set
		flds     field.Fields
		written  bool
		tagsAns  string
		fldsSafe bool
		evf      hexInput
	}
	partitions := 0
	exps := map[string]*exp{}
	var lines []string
	var order []string
	for i, c := range sb.Cases {
		t, f := c.Tags.str(), c.Fields.str()
		evf := []string{c.Fields2.str()}
		for _, m := range c.More {
			evf = append(evf, m.str())
		}
		set, perr := tagParse(t)
		wf, ferr := fieldsParse(f)
		// a text on which a parser panics is already recorded as a failure by the wrappers; it is not sent to the server
		// (the same parser runs there in a goroutine of the RPC layer: the panic would end this process, not the case)
		panics := (perr != nil && strings.HasPrefix(perr.Error(), "panic:")) || (ferr != nil && strings.HasPrefix(ferr.Error(), "panic:"))
		evOK := true // every event's own field text must parse (c6bbc14: the whole packet is validated before anything is written)
		for _, ef := range evf {
			if _, err := fieldsParse(ef); err != nil {
				evOK = false
				if strings.HasPrefix(err.Error(), "panic:") {
					panics = true
				}
			}
		}
		if panics {
			res.Dist(sec, "not-sent:parser-panics")
			continue
		}
		var wr api.WriteResult
		var evs []*api.LogEvent
		for j, ef := range evf {
			// messages of one case have equal length; timestamps keep a case's events consecutive in the merged result
			evs = append(evs, &api.LogEvent{Timestamp: int64(i*10 + j + 1), Message: fmt.Sprintf("%d.%d", i, j), Fields: ef})
		}
		err := srv.Client.Write(ctx, t, f, evs, &wr)
		if err == nil {
			err = wr.Err
		}
		accept := perr == nil && !set.IsEmpty() && ferr == nil && evOK
		res.Dist(sec, fmt.Sprintf("write-accepted=%v", err == nil))
		if err != nil && isResourceErr(err) {
			res.Note("system: write skipped (infrastructure): %v", err)
			continue
		}
		if (err == nil) != accept {
			res.SpecFail(vh.SpecFailure{Section: "system", Kind: "write-acceptance", Input: sb, Impl: fmt.Sprint(err), Spec: fmt.Sprintf("accepted=%v", accept),
				What: "a write is accepted exactly when tag.Parse gives a non-empty set and NewFieldsFromKVString accepts the write-level fields and every event's own fields"})
		}
		if err != nil {
			continue
		}
		partitions++
		res.Dist(sec, fmt.Sprintf("events-per-write=%d", len(evf)))
		if c.Again != nil {
			var wr2 api.WriteResult
			msg := fmt.Sprintf("%d.9", i)
			err2 := srv.Client.Write(ctx, c.Again.str(), f, []*api.LogEvent{{Timestamp: int64(i*10 + 10), Message: msg}}, &wr2)
			if err2 == nil {
				err2 = wr2.Err
			}
			res.Dist(sec, "second-spelling")
			if err2 != nil && !isResourceErr(err2) {
				res.SpecFail(vh.SpecFailure{Section: "system", Kind: "write-acceptance", Input: sb, Impl: fmt.Sprint(err2), Spec: "accepted=true",
					What: "a second write naming an existing partition in another spelling of its tag set is refused"})
			} else if err2 == nil {
				if _, ok := decodeFields(string(wf)); ok {
					exps[msg] = &exp{c: c, set: set, flds: wf, evf: hin("")}
					order = append(order, msg)
					lines = append(lines, "rt "+vh.HxS(t))
				}
			}
		}
		for j, ef := range evf {
			all := string(wf) + string(fieldsParseQuiet(ef))
			if _, ok := decodeFields(all); !ok {
				continue
			}
			msg := fmt.Sprintf("%d.%d", i, j)
			exps[msg] = &exp{c: c, set: set, flds: field.Fields(all), evf: hin(ef)}
			order = append(order, msg)
			lines = append(lines, "rt "+vh.HxS(t))
		}
	}
	if len(order) == 0 {
		return
	}
	outs, derr := vh.Batch(args.Driver, lines)
	if derr != nil {
		res.Fatal(args.Out, "driver: %v", derr)
	}
	for i, m := range order {
		exps[m].tagsAns = outs[i]
	}
	srv.FlushWait()
	waitReadable := func() {
		// readers only see flushed records: wait (generously — the machine may be loaded) until every written event is readable
		for deadline := time.Now().Add(30 * time.Second); time.Now().Before(deadline); {
			var qr api.QueryResult
			if err := srv.Client.Query(ctx, &api.QueryRequest{Query: "select limit 1000", Limit: 1000}, &qr); err == nil && qr.Err == nil && len(qr.Events) >= len(order) {
				return
			}
			time.Sleep(20 * time.Millisecond)
		}
	}
	waitReadable()
	check := func(phase string) {
		var qr api.QueryResult
		err := srv.Client.Query(ctx, &api.QueryRequest{Query: "select limit 1000", Limit: 1000}, &qr)
		if err == nil {
			err = qr.Err
		}
		if err != nil {
			res.SpecFail(vh.SpecFailure{Section: "system", Kind: "query-failed", Input: sb, Impl: err.Error(), Spec: "events", What: "SELECT over all partitions failed (" + phase + ")"})
			return
		}
		seen := map[string]bool{}
		for _, ev := range qr.Events {
			e := exps[ev.Message]
			if e == nil {
				continue
			}
			seen[ev.Message] = true
			res.Eval(sec, phase+e.c.Tags.Hex+"/"+e.c.Fields.Hex)
			// Tags
			lineKey := "line"
			if phase == "restarted" {
				lineKey = "line2" // loadState re-parses the persisted key and prints the re-read set
			}
			modelLine := kvField(e.tagsAns, lineKey)
			if vh.HxS(ev.Tags) != modelLine {
				res.Mismatch(vh.Mismatch{Section: "system", Function: "result Tags (" + phase + ")", Input: sb, Impl: vh.HxS(ev.Tags), Model: modelLine})
			}
			got, perr := tagParse(ev.Tags)
			oc := "same"
			if perr != nil {
				oc = "err"
			} else if !setsEqual(got, e.set) {
				oc = "diff"
			}
			reportTagsRTk("system", map[string]interface{}{"phase": phase, "tags": e.c.Tags, "batch": sb}, oc, ev.Tags, e.tagsAns, lineKey)
			// Fields
			gf, ferr := fieldsParse(ev.Fields)
			if ferr != nil || gf != e.flds {
				want, _ := decodeFields(string(e.flds))
				f := vh.SpecFailure{Section: "system", Kind: "reparse-differs", Input: map[string]interface{}{"phase": phase, "message": ev.Message, "fields": e.c.Fields, "event_fields": e.evf, "batch": sb},
					Impl: fmt.Sprintf("Fields=%q err=%v", ev.Fields, ferr), Spec: fmt.Sprintf("%q", want),
					What: "the Fields text of a query result does not parse back to the fields that were written"}
				// attribute through the model: the model's AsKVString of the same binary fields and its class
				ans, _ := vh.Batch(args.Driver, []string{"askv " + vh.HxS(string(e.flds)), "fsafe " + vh.HxS(string(e.flds))})
				if len(ans) == 2 && ans[0] == "ok "+vh.HxS(ev.Fields) {
					f.ImplEqModel = true
					f.Model = ans[0]
					if ans[1] == "0" {
						f.Finding = findingQuoting
					}
				}
				if ferr != nil {
					f.Kind = "reparse-error"
				}
				res.SpecFail(f)
			}
		}
		for _, m := range order {
			if !seen[m] {
				res.SpecFail(vh.SpecFailure{Section: "system", Kind: "event-missing", Input: sb, Impl: "event " + m + " not returned (" + phase + ")", Spec: "returned", What: "a written event is not returned by SELECT"})
			}
		}
		// SHOW PARTITIONS: one partition per written tag set (every case carries its own id pair)
		if out, err := srv.Exec("show partitions"); err == nil {
			n := -1
			fmt.Sscanf(out, "%d partitions", &n)
			res.Dist(sec, "show-partitions")
			if n != partitions {
				res.SpecFail(vh.SpecFailure{Section: "system", Kind: "partition-listed-twice", Input: map[string]interface{}{"phase": phase, "batch": sb}, Impl: fmt.Sprintf("%d partitions listed", n), Spec: fmt.Sprintf("%d", partitions),
					What: "SHOW PARTITIONS does not list exactly one partition per written tag set"})
			}
		}
		// the persisted tag index: its keys must be exactly the canonical lines of the written sets (MODEL), each key must
		// be read back by tag.Parse as the set it stands for and be that set's line (SPEC)
		checkIndexKeys(dir, phase, sb, sec, func(key string) (string, tag.Set, bool) {
			for _, m := range order {
				if kvField(exps[m].tagsAns, "line") == vh.HxS(key) {
					return exps[m].tagsAns, exps[m].set, true
				}
			}
			return "", tag.EmptySet, false
		}, partitions)
	}
	check("live")
	if sb.Restart {
		srv.Stop()
		srv, err = lrsrv.Start(dir, lrsrv.Opts{})
		for try := 0; err != nil && try < 8 && strings.Contains(err.Error(), "address already in use"); try++ {
			srv, err = lrsrv.Start(dir, lrsrv.Opts{}) // the probed free port was taken by another process meanwhile
		}
		if err != nil && isResourceErr(err) {
			res.Note("system: restart skipped (infrastructure): %v", err)
			return
		}
		if err != nil {
			// the persisted index keys are the lines; a line that does not parse back makes the server refuse to start
			f := vh.SpecFailure{Section: "system", Kind: "reparse-error", Input: sb, Impl: err.Error(), Spec: "starts", What: "the server does not start again: a persisted tag index key is rejected by tag.Parse"}
			bad := false
			for _, m := range order {
				if first(exps[m].tagsAns) == "err" && kvField(exps[m].tagsAns, "safe") == "0" {
					bad = true
				}
			}
			if bad {
				f.ImplEqModel = true
				f.Finding = findingQuoting
			}
			res.SpecFail(f)
			return
		}
		res.Dist(sec, "restart")
		waitReadable()
		check("restarted")
	}
}

// checkIndexKeys reads <dir>/tindex/tindex.dat (a JSON object keyed by tag line)
func checkIndexKeys(dir, phase string, sb sysBatch, sec *vh.Section, caseOf func(key string) (string, tag.Set, bool), partitions int) {
	data, err := os.ReadFile(filepath.Join(dir, "tindex", "tindex.dat"))
	if err != nil {
		res.Note("system: tindex.dat not readable: %v", err)
		return
	}
	var keys map[string]json.RawMessage
	if err := json.Unmarshal(data, &keys); err != nil {
		res.SpecFail(vh.SpecFailure{Section: "system", Kind: "index-file-unreadable", Input: sb, Impl: err.Error(), Spec: "a JSON object", What: "tindex.dat is not a JSON object"})
		return
	}
	res.Dist(sec, "index-keys-checked")
	in := func(k string) interface{} {
		return map[string]interface{}{"phase": phase, "key": hin(k), "batch": sb}
	}
	for k := range keys {
		ans, want, ok := caseOf(k)
		if !ok {
			res.Mismatch(vh.Mismatch{Section: "system", Function: "persisted tindex keys (" + phase + ")", Input: in(k), Impl: "key " + vh.HxS(k), Model: "not the canonical line of any written set"})
			res.SpecFail(vh.SpecFailure{Section: "system", Kind: "index-key-not-canonical", Input: in(k), Impl: fmt.Sprintf("key %q", k), Spec: "every key is the line the system emits for a written tag set",
				What: "the persisted tag index holds a key that is not the canonical line of a written tag set (the spelling a client used, or a second key for one partition)"})
			continue
		}
		got, perr := tagParse(k)
		oc := "same"
		if perr != nil {
			oc = "err"
		} else if !setsEqual(got, want) {
			oc = "diff"
		}
		reportTagsRTk("system", in(k), oc, k, ans, "line")
	}
	if len(keys) != partitions {
		res.SpecFail(vh.SpecFailure{Section: "system", Kind: "index-key-count", Input: map[string]interface{}{"phase": phase, "batch": sb}, Impl: fmt.Sprintf("%d keys", len(keys)), Spec: fmt.Sprintf("%d partitions", partitions),
			What: "the persisted tag index does not hold exactly one key per written tag set"})
	}
}

// ---------------------------------------------------------------------------------------------
// pipes: the provenance fields of piped events (system level)

type pipeCase struct {
	Sources []map[string]string `json:"sources"`      // tag sets of the source partitions (all carry src=1, the pipe's condition)
	EvFlds  []string            `json:"event_fields"` // field text of the events written to each source
}

var pipeKeys = []string{"app", "host", "zone", "a", "b", "k1", "name", "ip", "rack", "dc"}
var pipeVals = []string{"1", "web", "h1", "x,y", "a=b", "", "a b", "10.0.0.1", "Z", "x\"y\"z", "é"}

func genPipeCase(rng *vh.Rng) pipeCase {
	var c pipeCase
	for i := 0; i < 3; i++ {
		m := map[string]string{"src": "1", "id": strconv.Itoa(i)}
		for k := 3 + rng.Intn(3); k > 0; k-- { // at least 5 pairs: an emitter that does not keep the line's order shows
			m[rng.PickS(pipeKeys)] = rng.PickS(pipeVals)
		}
		c.Sources = append(c.Sources, m)
		c.EvFlds = append(c.EvFlds, []string{"", "lvl=info", "lvl=\"a,b\",n=1"}[rng.Intn(3)])
	}
	return c
}

func runPipeCase(c pipeCase, sec *vh.Section) {
	dir := lrsrv.NewDir()
	defer os.RemoveAll(dir)
	srv, err := lrsrv.Start(dir, lrsrv.Opts{WriteFlushMs: 40}) // 40 ms: a starting pipe worker must not meet the library's tail race (C10's F34)
	for try := 0; err != nil && try < 10 && strings.Contains(err.Error(), "address already in use"); try++ {
		srv, err = lrsrv.Start(dir, lrsrv.Opts{WriteFlushMs: 40})
	}
	if err != nil {
		res.Note("pipes: %v", err)
		return
	}
	defer func() { srv.Stop() }() // srv is replaced by the restart below
	ctx := context.Background()
	if _, err := srv.Exec("create pipe pv from src=1"); err != nil {
		res.Note("pipes: create pipe: %v", err)
		return
	}
	type exp struct {
		set  tag.Set
		line string
		evb  field.Fields
		m    map[string]string
	}
	exps := map[string]*exp{}
	var lines []string
	var order []string
	for i, m := range c.Sources {
		set := tag.MapToSet(m)
		line := string(set.Line())
		evb, _ := fieldsParse(c.EvFlds[i])
		var wr api.WriteResult
		evs := []*api.LogEvent{{Timestamp: int64(i*10 + 1), Message: fmt.Sprintf("%d.0", i), Fields: c.EvFlds[i]}, {Timestamp: int64(i*10 + 2), Message: fmt.Sprintf("%d.1", i), Fields: c.EvFlds[i]}}
		err := srv.Client.Write(ctx, line, "", evs, &wr)
		if err == nil {
			err = wr.Err
		}
		if err != nil {
			res.Note("pipes: write %q: %v", line, err)
			return
		}
		for j := 0; j < 2; j++ {
			msg := fmt.Sprintf("%d.%d", i, j)
			exps[msg] = &exp{set: set, line: line, evb: evb, m: m}
			order = append(order, msg)
		}
		lines = append(lines, strings.TrimRight("prov "+hexJoin(flatSorted(m)), " "))
	}
	outs, derr := vh.Batch(args.Driver, lines)
	if derr != nil {
		res.Fatal(args.Out, "driver: %v", derr)
	}
	// waitAndCheck: wait until `expect` copies have arrived (progress based; events a starting worker lost to the library's tail
	// race are C10's), then judge every copy whose message is in `only`
	waitAndCheck := func(phase string, expect int, only map[string]bool) {
		var qr api.QueryResult
		last, lastChange := -1, time.Now()
		for time.Since(lastChange) < 8*time.Second {
			qr = api.QueryResult{}
			if err := srv.Client.Query(ctx, &api.QueryRequest{Query: "select from {logrange.pipe=pv} limit 1000", Limit: 1000}, &qr); err == nil && qr.Err == nil {
				if len(qr.Events) != last {
					last, lastChange = len(qr.Events), time.Now()
				}
				if len(qr.Events) >= expect {
					break
				}
			}
			time.Sleep(50 * time.Millisecond)
		}
		res.Dist(sec, fmt.Sprintf("%s:arrived=%d/%d", phase, len(qr.Events), expect))
		for _, ev := range qr.Events {
			e := exps[ev.Message]
			if e == nil || !only[ev.Message] {
				continue
			}
			i, _ := strconv.Atoi(strings.SplitN(ev.Message, ".", 2)[0])
			res.Eval(sec, e.line+"/"+ev.Message)
			// SPEC: the piped event carries its own fields followed by the names and values of the source's tag set, in the order
			// of the source's tag line (= field.Parse of the line the system emits for the source)
			want := string(e.evb)
			for _, kv := range [][]string{flatSorted(e.m)} {
				for _, x := range kv {
					want += string([]byte{byte(len(x))}) + x
				}
			}
			got, perr := fieldsParse(ev.Fields)
			modelItems := kvField(outs[i], "items")
			wantModel := vh.HxS(string(e.evb) + string(vh.UnHx(modelItems)))
			if perr == nil && vh.HxS(string(got)) != wantModel && first(outs[i]) == "same" {
				res.Mismatch(vh.Mismatch{Section: "pipes", Function: "pipe.worker provenance fields (" + phase + ")", Input: c, Impl: vh.HxS(string(got)), Model: wantModel})
			}
			if perr != nil || string(got) != want {
				wi, _ := decodeFields(want)
				gi, _ := decodeFields(string(got))
				res.SpecFail(vh.SpecFailure{Section: "pipes", Kind: "provenance-differs", Input: map[string]interface{}{"case": c, "message": ev.Message, "phase": phase}, Impl: fmt.Sprintf("Fields=%q → %q err=%v", ev.Fields, gi, perr), Spec: fmt.Sprintf("%q", wi),
					What: "the fields of a piped event (" + phase + ") are not its own fields followed by the names and values of the source's tag set in the order of the source's tag line"})
			}
		}
	}
	firstPhase := map[string]bool{}
	for _, m := range order {
		firstPhase[m] = true
	}
	waitAndCheck("live", len(order), firstPhase)
	// a RESTART between two writes to the same sources: the pipe's source descriptors are loaded from disk now (not met through
	// a write event); what the workers add to the copies must still be the sources' names and values
	srv.Stop()
	srv, err = lrsrv.Start(dir, lrsrv.Opts{WriteFlushMs: 40})
	for try := 0; err != nil && try < 10 && strings.Contains(err.Error(), "address already in use"); try++ {
		srv, err = lrsrv.Start(dir, lrsrv.Opts{WriteFlushMs: 40})
	}
	if err != nil {
		res.Note("pipes: restart skipped (infrastructure): %v", err)
		return
	}
	res.Dist(sec, "restart")
	second := map[string]bool{}
	for i, m := range c.Sources {
		e0 := exps[fmt.Sprintf("%d.0", i)]
		msg := fmt.Sprintf("%d.2", i)
		var wr api.WriteResult
		err := srv.Client.Write(ctx, e0.line, "", []*api.LogEvent{{Timestamp: int64(i*10 + 3), Message: msg, Fields: c.EvFlds[i]}}, &wr)
		if err == nil {
			err = wr.Err
		}
		if err != nil {
			res.Note("pipes: write after restart %q: %v", e0.line, err)
			return
		}
		exps[msg] = &exp{set: e0.set, line: e0.line, evb: e0.evb, m: m}
		second[msg] = true
	}
	waitAndCheck("after-restart", len(order)+len(second), second)
}

func sectionPipes(rng *vh.Rng) {
	sec := res.Section("pipes", "system-correspondence",
		"in-process server, a pipe `from src=1`, three source partitions with 5..7 Safe tags each (values with separators, quotes, blanks, non-ASCII, empty), two events per source with and without own fields; the copies read from {logrange.pipe=pv}: Fields must parse to the event's own fields followed by the source's names and values in tag-line order (SPEC), the provenance part must be the model's field.Parse(line) (MODEL); then a clean RESTART and one more event per source (the pipe's source descriptors come from disk now): same demands on the new copies. non-trivial = every arrived copy, distinct by (source line, message)")
	n := 4
	if args.Thorough {
		n = 40
	}
	var cs []pipeCase
	for _, f := range vh.CorpusFiles(args.Corpus) {
		var c struct {
			Section string   `json:"section"`
			Input   pipeCase `json:"input"`
		}
		if vh.ReadJSON(f, &c) == nil && c.Section == "pipes" && len(c.Input.Sources) > 0 {
			cs = append(cs, c.Input)
		}
	}
	for i := 0; i < n; i++ {
		cs = append(cs, genPipeCase(rng))
	}
	sem := make(chan struct{}, 4)
	done := make(chan struct{}, len(cs))
	for i := range cs {
		sem <- struct{}{}
		go func(i int) {
			defer func() { <-sem; done <- struct{}{} }()
			guard("pipes", func() { runPipeCase(cs[i], sec) })
		}(i)
	}
	for range cs {
		<-done
	}
	res.Done(sec)
}

// isResourceErr: the machine ran out of descriptors / ports (the server's journal layer keeps chunk files open after a
// shutdown, about 4 descriptors per partition and start): not a verdict about the property
func isResourceErr(err error) bool {
	e := err.Error()
	return strings.Contains(e, "too many open files") || strings.Contains(e, "Not enough resources") || strings.Contains(e, "address already in use")
}

func sectionSystem(rng *vh.Rng) {
	sec := res.Section("system", "system-correspondence",
		"in-process server: batches of 6 writes through the RPC client, each with generated tags (valid UTF-8, a unique id pair so that every case is its own partition), request-level fields and event-level fields; SELECT over everything; every result's Tags must equal the model's line and parse back to the written set, its Fields must parse back to the written fields; half of the batches: clean restart (tindex.dat keys re-parsed) and the same comparison. non-trivial = every returned event, distinct by (phase, tags, fields)")
	n := 40
	if args.Thorough {
		n = 250 // bounded by descriptors: every server start leaks ~4 per partition (library journals stay open after shutdown)
	}
	var bs []sysBatch
	for _, f := range vh.CorpusFiles(args.Corpus) {
		var c struct {
			Section string   `json:"section"`
			Input   sysBatch `json:"input"`
		}
		if vh.ReadJSON(f, &c) == nil && c.Section == "system" {
			bs = append(bs, c.Input)
		}
	}
	for i := 0; i < n; i++ {
		bs = append(bs, genSysBatch(rng, 6))
	}
	sem := make(chan struct{}, 6)
	done := make(chan struct{}, len(bs))
	for i := range bs {
		sem <- struct{}{}
		go func(i int) {
			defer func() { <-sem; done <- struct{}{} }()
			guard("system", func() { runSysBatch(bs[i], sec) })
		}(i)
	}
	for range bs {
		<-done
	}
	res.Done(sec)
}

// ---------------------------------------------------------------------------------------------

func replay(path string) {
	var rp struct {
		Section string          `json:"section"`
		Input   json.RawMessage `json:"input"`
	}
	if err := vh.ReadJSON(path, &rp); err != nil {
		res.Fatal(args.Out, "replay: %v", err)
	}
	// inputs are either {"hex":…} or wrapped {"kind":…, "case":{"hex":…}} / {"tags":{"hex":…}, …}
	var h hexInput
	var w struct {
		Case  hexInput  `json:"case"`
		Tags  hexInput  `json:"tags"`
		Batch *sysBatch `json:"batch"`
	}
	json.Unmarshal(rp.Input, &h)
	json.Unmarshal(rp.Input, &w)
	if h.Hex == "" {
		h = w.Case
	}
	switch rp.Section {
	case "tags", "kvunit", "quote":
		t := h.str()
		oc, line, _ := implTagsRT(t)
		ans, _ := vh.Batch(args.Driver, []string{"rt " + vh.HxS(t)})
		fmt.Printf("text=%q\nIMPL  %s line=%q\nMODEL %s\n", t, oc, line, ans[0])
		sec := res.Section("tags", "replay", "replay of one recorded tag text")
		res.Eval(sec, t)
		if first(ans[0]) != oc || (oc != "rej" && kvField(ans[0], "line") != vh.HxS(line)) {
			res.Mismatch(vh.Mismatch{Section: "tags", Function: "tag.Parse/Set.Line", Input: hin(t), Impl: oc + " line=" + vh.HxS(line), Model: ans[0]})
		}
		reportTagsRT("tags", hin(t), oc, line, ans[0])
	case "fields":
		t := h.str()
		oc, kv, _, wf := implFieldsRT(t)
		ans, _ := vh.Batch(args.Driver, []string{"frt " + vh.HxS(t)})
		fmt.Printf("text=%q\nIMPL  %s wf=%v kv=%q\nMODEL %s\n", t, oc, wf, kv, ans[0])
		sec := res.Section("fields", "replay", "replay of one recorded field text")
		res.Eval(sec, t)
		reportFieldsRT("fields", hin(t), oc, kv, wf, ans[0])
	case "system":
		sec := res.Section("system", "replay", "replay of one recorded batch")
		var sb sysBatch
		if w.Batch != nil {
			sb = *w.Batch
		} else {
			json.Unmarshal(rp.Input, &sb)
		}
		runSysBatch(sb, sec)
	case "pipes":
		sec := res.Section("pipes", "replay", "replay of one recorded pipe case (live copies, restart, copies after the restart)")
		var wc struct {
			Case *pipeCase `json:"case"`
		}
		var pc pipeCase
		json.Unmarshal(rp.Input, &wc)
		if wc.Case != nil {
			pc = *wc.Case
		} else {
			json.Unmarshal(rp.Input, &pc)
		}
		runPipeCase(pc, sec)
	default:
		res.Note("replay: unknown section %q", rp.Section)
	}
	res.Write(args.Out)
}

// guard: a panic of the code under test that escapes a section is a failure of the property (the parsers must answer
// every input), recorded with the panic text; the remaining sections still run
func guard(section string, f func()) {
	if p := vh.Recover(f); p != "" {
		res.SpecFail(vh.SpecFailure{Section: section, Kind: "panic", Input: map[string]string{"section": section}, Impl: p, Spec: "no panic", What: "the code under test panics in section " + section})
	}
}

func main() {
	args = vh.ParseArgs()
	res = vh.NewResult("C08", args)
	if args.Replay != "" {
		replay(args.Replay)
		return
	}
	rng := vh.NewRng(args.Seed)
	guard("kvunit", func() { sectionKVUnit(rng.Fork("kvunit")) })
	guard("quote", func() { sectionQuote(rng.Fork("quote")) })
	guard("tags", func() { sectionTags(rng.Fork("tags")) })
	guard("fields", func() { sectionFields(rng.Fork("fields")) })
	guard("system", func() { sectionSystem(rng.Fork("system")) })
	guard("pipes", func() { sectionPipes(rng.Fork("pipes")) })
	res.Write(args.Out)
}
