// c09crash — stress reproduction of finding F56 (NOT run by ./check: it ends in a crash of its own process).
// 8 RPC writers on one partition (MaxChunkSize 150, chunks roll over all the time) + one TRUNCATE loop alternating
// MAXSIZE 1 / BEFORE. On the unchanged tree 3 of 4 runs of 25 s end with
//   panic: nil pointer dereference … ctrlr.(*chunkWrapper).Id ← journal.(*journal).Write (journalint.go:73, after c.Sync())
//   or                              … ctrlr.(*chunkWrapper).Id ← (*fsChnksController).getChunkForWrite (fsccntrlr.go:308)
// build: cd /verif/harness && go build -tags verif -o /tmp/c09crash ./cmd/c09crash ; run: /tmp/c09crash ; echo $?
package main

import (
	"context"
	"fmt"
	"os"
	"sync"
	"sync/atomic"
	"time"

	"github.com/logrange/logrange/api"
	"github.com/logrange/logrange/api/rpc"
	"github.com/logrange/range/pkg/transport"
	"verifharness/internal/lrsrv"
)

func main() {
	nw := 8
	dir := lrsrv.NewDir()
	defer os.RemoveAll(dir)
	srv, err := lrsrv.Start(dir, lrsrv.Opts{MaxChunkSize: 150})
	if err != nil {
		panic(err)
	}
	var seq int64
	stop := make(chan struct{})
	var wg sync.WaitGroup
	for w := 0; w < nw; w++ {
		wg.Add(1)
		go func(w int) {
			defer wg.Done()
			c, err := rpc.NewClient(transport.Config{ListenAddr: srv.Addr})
			if err != nil {
				panic(err)
			}
			defer c.Close()
			for {
				select {
				case <-stop:
					return
				default:
				}
				var evs []*api.LogEvent
				for k := 0; k < 3; k++ {
					s := atomic.AddInt64(&seq, 1)
					evs = append(evs, &api.LogEvent{Timestamp: s, Message: fmt.Sprintf("%06d_w%d", s, w)})
				}
				var wr api.WriteResult
				c.Write(context.Background(), "g=c,p=1", "", evs, &wr)
			}
		}(w)
	}
	t0 := time.Now()
	i := 0
	for time.Since(t0) < 25*time.Second {
		i++
		q := "truncate {g=c,p=1} maxsize 600"
		if i%2 == 0 {
			q = fmt.Sprintf("truncate {g=c,p=1} before \"%d\"", atomic.LoadInt64(&seq)-20)
		}
		if i%2 == 1 {
			q = "truncate {g=c,p=1} maxsize 1"
		}
		srv.Exec(q)
		time.Sleep(200 * time.Microsecond)
	}
	close(stop)
	wg.Wait()
	fmt.Println("no crash; truncations:", i, "events:", seq)
}
