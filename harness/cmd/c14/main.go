// C14 harness — a partition is never deleted, re-created or left locked while someone uses it.
//
// Sections
//
//	raw        unit correspondence of the critical sections (Release / LockExclusively / UnlockExclusively /
//	           Delete / acquire) on the real tindex service incl. misuse (panics) vs the model's raw functions
//	schedules  system correspondence + spec search: generated schedules of up to 4 actors over up to 3 partitions
//	           on the real tindex.inmemService; every step is ONE critical section of the service mutex: callers
//	           run in goroutines of their own and are parked inside the Visit callback and (hook points
//	           tindex.*.wait) inside the three spin loops, so the interleaving inside Visit and behind exclusive
//	           locks is chosen by the schedule. After every step: IMPL state (readers, exclusive, exists per
//	           partition) vs the Lean LTS; the invariants (readers = Σ holds, exclusive ⇒ alone and the holder is
//	           the locker, delete only when unused, callbacks only on live acquired partitions, no panic) evaluated
//	           on IMPL with the harness' own token book-keeping; at the end everything is released: all counts 0 and
//	           every partition can be locked exclusively.
//	callers    the real caller programs (Write, Query, GetJournals ok / limit exceeded / GetOrCreate failure,
//	           GetJournal, Partitions, partition info, Truncate incl. deletion, admin statements) on the in-process
//	           server: after each program every count is back to 0
//	stress     (thorough) free-running TRUNCATE racing queries and writes; afterwards counts 0, every partition
//	           can be locked exclusively
package main

import (
	"bytes"
	"context"
	"encoding/json"
	"fmt"
	"io"
	"os"
	"os/exec"
	"path/filepath"
	"runtime/debug"
	"sort"
	"strings"
	"sync"
	"sync/atomic"
	"time"

	"github.com/logrange/logrange/api"
	"github.com/logrange/logrange/pkg/cursor"
	"github.com/logrange/logrange/pkg/lql"
	"github.com/logrange/logrange/pkg/model"
	"github.com/logrange/logrange/pkg/model/tag"
	"github.com/logrange/logrange/pkg/partition"
	"github.com/logrange/logrange/pkg/tindex"
	"github.com/logrange/logrange/pkg/utils/verifhook"
	"github.com/logrange/range/pkg/records"
	"github.com/logrange/range/pkg/records/journal"
	rerrors "github.com/logrange/range/pkg/utils/errors"
	"verifharness/internal/lrsrv"
	"verifharness/internal/vh"
)

var (
	args vh.Args
	res  *vh.Result
)

const evTimeout = 4 * time.Second

// deadlocks counts the schedules that froze the tag index; after a few of them the section stops (each costs a time-out)
var deadlocks int32

// ---------------------------------------------------------------------------------------------
// engine: the real service, one critical section per step

type evKind int

const (
	evDone evKind = iota
	evSpin
	evCb
	evTimeoutK
)

type event struct {
	kind evKind
	src  string
	err  error
}

type task struct {
	ev     chan event
	resume chan bool
}

// cur is the task whose goroutine is running; exactly one goroutine (the driver or one task) runs at a time.
var cur atomic.Value // *task

func spinHook() {
	t, _ := cur.Load().(*task)
	if t == nil {
		return
	}
	t.ev <- event{kind: evSpin}
	<-t.resume
}

func setHooks(on bool) {
	for _, p := range []string{"tindex.getJournalTags.wait", "tindex.getOrCreateJournal.wait", "tindex.visitWaiting.wait"} {
		if on {
			verifhook.Set(p, spinHook)
		} else {
			verifhook.Set(p, nil)
		}
	}
	if !on {
		cur.Store((*task)(nil))
	}
}

type step struct {
	A    int    `json:"a"`
	Op   string `json:"op"` // goc gt rel lock unlock del visit ret retry shutdown
	S    int    `json:"s,omitempty"`
	T    int    `json:"t,omitempty"`
	F    bool   `json:"f,omitempty"`  // goc: create; gt: lock; visit: skipping; ret: cont
	F2   bool   `json:"f2,omitempty"` // visit: VF_DO_NOT_RELEASE
	Sel  []int  `json:"sel,omitempty"`
	Note string `json:"note,omitempty"`
}

type visitSt struct {
	skipping, dnr bool
	pending       map[int]bool
	cbSrc         int
	spinning      bool
	aborted       bool
}

type actor struct {
	op     *task
	opStep step
	visit  *task
	vis    *visitSt
}

type engine struct {
	svc       tindex.Service
	srcs      []string
	idx       map[string]int
	exists    []bool
	tags      []int
	excl      []bool
	locker    []int
	deletedBy []int
	client    [][]int // client[a][s]: acquisitions actor a has to Release
	vown      [][]int // vown[a][s]: acquisitions a's running Visit gives back itself
	orphan    []int   // orphan[s]: acquisitions of a waiting Visit that was ended by Shutdown without its final section (never given back)
	down      bool    // Shutdown() was called
	acts      []*actor
	lines     []string
	impl      []string
	steps     []step
	dead      bool
	fmu       sync.Mutex
	fails     []vh.SpecFailure
	sec       string
}

func newEngine(k int, sec string) *engine {
	e := &engine{svc: tindex.NewInmemServiceWithConfig(tindex.InMemConfig{DoNotSave: true}), idx: map[string]int{}, sec: sec}
	for i := 0; i < k; i++ {
		e.acts = append(e.acts, &actor{})
		e.client = append(e.client, nil)
		e.vown = append(e.vown, nil)
	}
	e.line("reset", "ok")
	return e
}

func (e *engine) line(l, want string) { e.lines = append(e.lines, l); e.impl = append(e.impl, want) }

func (e *engine) specFail(kind, what, impl, spec string) {
	e.fmu.Lock()
	defer e.fmu.Unlock()
	e.fails = append(e.fails, vh.SpecFailure{Section: e.sec, Kind: kind, Impl: impl, Spec: spec, What: what})
}

func tagLine(t int) string { return fmt.Sprintf("t=v%d", t) }

func selSource(sel []int) *lql.Source {
	parts := []string{}
	for _, t := range sel {
		parts = append(parts, fmt.Sprintf("t=v%d", t))
	}
	s := "t=none"
	if len(parts) > 0 {
		s = strings.Join(parts, " OR ")
	}
	src, err := lql.ParseSource(s)
	if err != nil {
		panic(err)
	}
	return src
}

func (e *engine) addSrc(src string, t int) int {
	i := len(e.srcs)
	e.srcs = append(e.srcs, src)
	e.idx[src] = i
	e.exists = append(e.exists, true)
	e.tags = append(e.tags, t)
	e.excl = append(e.excl, false)
	e.locker = append(e.locker, -1)
	e.deletedBy = append(e.deletedBy, -1)
	e.orphan = append(e.orphan, 0)
	for a := range e.client {
		e.client[a] = append(e.client[a], 0)
		e.vown[a] = append(e.vown[a], 0)
	}
	return i
}

func (e *engine) holds(a, s int) int { return e.client[a][s] + e.vown[a][s] }
func (e *engine) total(s int) int {
	n := e.orphan[s]
	for a := range e.client {
		n += e.holds(a, s)
	}
	return n
}
func (e *engine) isLocker(a int) bool {
	for _, l := range e.locker {
		if l == a {
			return true
		}
	}
	return false
}

// wait for the next event of a running task
func (e *engine) await(t *task) event {
	select {
	case ev := <-t.ev:
		return ev
	case <-time.After(evTimeout):
		e.dead = true
		atomic.AddInt32(&deadlocks, 1)
		e.specFail("deadlock", "a caller neither returned, nor called the visitor, nor reached a wait loop within 4 s: the tag index is frozen", "no event", "progress")
		return event{kind: evTimeoutK}
	}
}

func (e *engine) start(f func(t *task)) (*task, event) {
	t := &task{ev: make(chan event), resume: make(chan bool)}
	cur.Store(t)
	go f(t)
	return t, e.await(t)
}

func (e *engine) resumeTask(t *task, v bool) event {
	cur.Store(t)
	select {
	case t.resume <- v:
	case <-time.After(evTimeout):
		e.dead = true
		atomic.AddInt32(&deadlocks, 1)
		e.specFail("deadlock", "a parked caller did not take its wake-up", "stuck", "progress")
		return event{kind: evTimeoutK}
	}
	return e.await(t)
}

func b2s(b bool) string {
	if b {
		return "1"
	}
	return "0"
}

// applicable tells whether the step follows the calling protocol in the current state (SPEC book-keeping)
func (e *engine) applicable(st step) bool {
	if st.Op == "shutdown" {
		return !e.down // not an actor's step: Shutdown() takes the mutex once, whoever is parked
	}
	if st.A < 0 || st.A >= len(e.acts) {
		return false
	}
	ac := e.acts[st.A]
	blocked := ac.op != nil || (ac.vis != nil && ac.vis.spinning)
	if st.Op == "retry" {
		return blocked
	}
	if blocked {
		return false
	}
	okS := st.S >= 0 && st.S < len(e.srcs)
	if e.isLocker(st.A) && st.Op != "del" && st.Op != "unlock" {
		return false // the exclusive section (deleteJournal) is straight-line
	}
	switch st.Op {
	case "goc":
		return true
	case "gt":
		return okS
	case "rel":
		return okS && e.client[st.A][st.S] > 0 && (e.locker[st.S] != st.A || !e.exists[st.S])
	case "lock":
		return okS && e.holds(st.A, st.S) > 0
	case "unlock":
		return okS && (!e.exists[st.S] || e.locker[st.S] == st.A)
	case "del":
		return okS && (!e.exists[st.S] || !e.excl[st.S] || e.locker[st.S] == st.A)
	case "visit":
		return ac.vis == nil
	case "ret":
		return ac.vis != nil && ac.vis.cbSrc >= 0
	}
	return false
}

func (e *engine) visitEvent(a int, ev event) {
	ac := e.acts[a]
	v := ac.vis
	v.spinning = false
	switch ev.kind {
	case evCb:
		s, ok := e.idx[ev.src]
		if !ok {
			e.specFail("visited-unknown", "the visitor was called on a source that was never handed out", ev.src, "a known source")
			e.dead = true
			return
		}
		// SPEC on IMPL: the visitor only sees a live, acquired, not exclusively locked partition
		r, x, ex := tindex.VerifState(e.svc, ev.src)
		// (skipping flavour: every entry was acquired in the first section; only the visiting actor itself can have
		// locked or deleted one of them since — then the callback on it is the actor's own doing)
		own := v.skipping && ((ex && x && e.locker[s] == a && r == 1) || (!ex && e.deletedBy[s] == a))
		if (!ex || x || r < 1) && !own {
			e.specFail("half-deleted-visited", "the visitor was called on a partition that is deleted, exclusively locked or not acquired",
				fmt.Sprintf("src=%d exists=%v exclusive=%v readers=%d", s, ex, x, r), "exists, not exclusive, readers>=1")
		}
		if !v.pending[s] {
			e.specFail("visited-unexpected", "the visitor was called on a partition outside the snapshot (not matching, locked at snapshot time, or twice)",
				fmt.Sprintf("src=%d", s), "a pending snapshot entry")
		}
		delete(v.pending, s)
		v.cbSrc = s
		if !v.skipping {
			e.line(fmt.Sprintf("vtry %d %d", a, s), "acq")
			e.vown[a][s]++
			if e.down {
				e.specFail("acquired-after-shutdown", "a waiting Visit acquired a partition in a per-item section after Shutdown()", fmt.Sprintf("src=%d", s), "Visit returns WrongState")
			}
		}
	case evSpin:
		v.spinning = true
		e.line(fmt.Sprintf("vwait %d", a), "wait")
		found := false
		for s := range v.pending {
			if e.exists[s] && e.excl[s] {
				found = true
			}
		}
		if !found {
			e.specFail("waits-without-lock", "Visit waits although no pending partition is exclusively locked", "spinning", "progress")
		}
	case evDone:
		if ev.err == rerrors.WrongState {
			// the waiting flavour noticed ims.done in a per-item section: it returns without its final locked section,
			// what it acquired and has not handed to the client stays acquired for ever (the process is about to exit)
			if !e.down {
				e.specFail("visit-error", "Visit returned WrongState although Shutdown() was not called", ev.err.Error(), "nil")
			}
			e.line(fmt.Sprintf("vdown %d", a), "down")
			for s := range e.vown[a] {
				e.orphan[s] += e.vown[a][s]
				e.vown[a][s] = 0
			}
			ac.visit, ac.vis = nil, nil
			return
		}
		if ev.err != nil {
			e.specFail("visit-error", "Visit returned an error", ev.err.Error(), "nil")
		}
		if !v.skipping && !v.aborted {
			e.line(fmt.Sprintf("vdrain %d", a), "ok")
			for s := range v.pending {
				if e.exists[s] {
					e.specFail("visit-skipped-live", "Visit returned without visiting a live matching partition of its snapshot", fmt.Sprintf("src=%d", s), "visited")
				}
			}
		}
		e.line(fmt.Sprintf("vend %d", a), "ok")
		for s := range e.vown[a] {
			e.vown[a][s] = 0
		}
		ac.visit, ac.vis = nil, nil
	}
}

func errName(err error) string {
	switch err {
	case nil:
		return "ok"
	case rerrors.NotFound:
		return "notfound"
	case rerrors.WrongState:
		return "wrongstate"
	}
	if strings.Contains(err.Error(), "shut-down") {
		return "down"
	}
	return "err:" + err.Error()
}

// exec performs one step under a watchdog: every call into the tag index made by a step (also the non-blocking ones:
// Release, LockExclusively, Delete, the state inspection) must return; a step that does not come back within the limit is
// a spec failure `deadlock` (the replay is the schedule so far), and the service instance is abandoned, never touched again.
func (e *engine) exec(st step) bool {
	if e.dead {
		return false
	}
	ok := false
	if !vh.WithTimeout(2*evTimeout+time.Second, func() { ok = e.exec1(st) }) {
		if !e.dead {
			e.dead = true
			atomic.AddInt32(&deadlocks, 1)
			e.specFail("deadlock", fmt.Sprintf("step %+v did not return within %v: the tag index is frozen (a mutex is held for ever)", st, 2*evTimeout+time.Second), "no return", "every critical section ends")
		}
		return true
	}
	return ok
}

// exec1 performs one step; false = not applicable (skipped)
func (e *engine) exec1(st step) bool {
	if e.dead || !e.applicable(st) {
		return false
	}
	if st.Op == "shutdown" {
		e.steps = append(e.steps, st)
		e.svc.(interface{ Shutdown() }).Shutdown()
		e.line("shutdown", "ok")
		e.down = true
		e.check()
		return true
	}
	a := st.A
	ac := e.acts[a]
	e.steps = append(e.steps, st)
	switch st.Op {
	case "retry":
		if ac.op != nil {
			ev := e.resumeTask(ac.op, true)
			e.opEvent(a, ev)
		} else {
			ev := e.resumeTask(ac.visit, true)
			e.visitEvent(a, ev)
		}
	case "goc", "gt":
		ac.opStep = st
		var t *task
		var ev event
		if st.Op == "goc" {
			t, ev = e.start(func(t *task) {
				var src string
				var err error
				if st.F {
					src, _, err = e.svc.GetOrCreateJournal(tagLine(st.T))
				} else {
					src, _, err = e.svc.GetJournal(tagLine(st.T))
				}
				t.ev <- event{kind: evDone, src: src, err: err}
			})
		} else {
			t, ev = e.start(func(t *task) {
				_, err := e.svc.GetJournalTags(e.srcs[st.S], st.F)
				t.ev <- event{kind: evDone, err: err}
			})
		}
		ac.op = t
		e.opEvent(a, ev)
	case "rel":
		p := vh.Recover(func() { e.svc.Release(e.srcs[st.S]) })
		if p != "" {
			e.line(fmt.Sprintf("rel %d %d", a, st.S), "panic")
			e.specFail("panic", "Release panicked for a caller that releases what it acquired", p, "no panic")
			e.dead = true // the mutex stays locked after the panic
			return true
		}
		e.line(fmt.Sprintf("rel %d %d", a, st.S), "ok")
		e.client[a][st.S]--
	case "lock":
		ok := e.svc.LockExclusively(e.srcs[st.S])
		e.line(fmt.Sprintf("lock %d %d", a, st.S), fmt.Sprint(ok))
		if ok {
			if e.total(st.S) != 1 || !e.exists[st.S] || e.excl[st.S] {
				e.specFail("exclusive-not-alone", "LockExclusively succeeded although somebody else holds the partition (or it is gone / already locked)",
					fmt.Sprintf("src=%d holders=%d", st.S, e.total(st.S)), "holders=1")
			}
			e.excl[st.S] = true
			e.locker[st.S] = a
		}
	case "unlock":
		p := vh.Recover(func() { e.svc.UnlockExclusively(e.srcs[st.S]) })
		if p != "" {
			e.line(fmt.Sprintf("unlock %d %d", a, st.S), "panic")
			e.specFail("panic", "UnlockExclusively panicked for the locker", p, "no panic")
			e.dead = true
			return true
		}
		e.line(fmt.Sprintf("unlock %d %d", a, st.S), "ok")
		if e.exists[st.S] {
			e.excl[st.S] = false
			e.locker[st.S] = -1
		}
	case "del":
		err := e.svc.Delete(e.srcs[st.S])
		e.line(fmt.Sprintf("del %d %d", a, st.S), errName(err))
		if err == nil {
			if e.total(st.S) != 1 || e.locker[st.S] != a {
				e.specFail("deleted-in-use", "Delete removed a partition that somebody else holds", fmt.Sprintf("src=%d holders=%d", st.S, e.total(st.S)), "holders=1 (the deleter)")
			}
			e.exists[st.S] = false
			e.excl[st.S] = false
			e.locker[st.S] = -1
			e.deletedBy[st.S] = a
		}
	case "visit":
		if e.down {
			// Visit returns "already shut-down." from its first locked section: no visit starts
			sel := []string{}
			for _, t := range st.Sel {
				sel = append(sel, fmt.Sprint(t))
			}
			e.line(strings.TrimSpace(fmt.Sprintf("vbegin %d %s %s %s", a, b2s(st.F), b2s(st.F2), strings.Join(sel, " "))), "down")
			flags := 0
			if st.F {
				flags |= tindex.VF_SKIP_IF_LOCKED
			}
			if st.F2 {
				flags |= tindex.VF_DO_NOT_RELEASE
			}
			src := selSource(st.Sel)
			t, ev := e.start(func(t *task) {
				err := e.svc.Visit(src, func(tags tag.Set, jrnl string) bool {
					t.ev <- event{kind: evCb, src: jrnl}
					return <-t.resume
				}, flags)
				t.ev <- event{kind: evDone, err: err}
			})
			if ev.kind == evTimeoutK {
				return true
			}
			if ev.kind != evDone || ev.err == nil || errName(ev.err) != "down" {
				e.specFail("visit-after-shutdown", "a Visit started after Shutdown() did not return the shut-down error at once", fmt.Sprintf("event=%d err=%v", ev.kind, ev.err), "error \"already shut-down.\"")
				ac.visit = t
				e.dead = true
			}
			break
		}
		v := &visitSt{skipping: st.F, dnr: st.F2, pending: map[int]bool{}, cbSrc: -1}
		inSel := map[int]bool{}
		for _, t := range st.Sel {
			inSel[t] = true
		}
		for s := range e.srcs {
			if e.exists[s] && !e.excl[s] && inSel[e.tags[s]] {
				v.pending[s] = true
				if v.skipping {
					e.vown[a][s]++
				}
			}
		}
		ac.vis = v
		sel := []string{}
		for _, t := range st.Sel {
			sel = append(sel, fmt.Sprint(t))
		}
		e.line(strings.TrimSpace(fmt.Sprintf("vbegin %d %s %s %s", a, b2s(st.F), b2s(st.F2), strings.Join(sel, " "))), fmt.Sprintf("ok %d", len(v.pending)))
		flags := 0
		if st.F {
			flags |= tindex.VF_SKIP_IF_LOCKED
		}
		if st.F2 {
			flags |= tindex.VF_DO_NOT_RELEASE
		}
		src := selSource(st.Sel)
		t, ev := e.start(func(t *task) {
			err := e.svc.Visit(src, func(tags tag.Set, jrnl string) bool {
				t.ev <- event{kind: evCb, src: jrnl}
				return <-t.resume
			}, flags)
			t.ev <- event{kind: evDone, err: err}
		})
		ac.visit = t
		e.visitEvent(a, ev)
	case "ret":
		v := ac.vis
		s := v.cbSrc
		e.line(fmt.Sprintf("vcb %d %d %s", a, s, b2s(st.F)), "ok")
		if v.dnr {
			e.vown[a][s]--
			e.client[a][s]++
		}
		v.cbSrc = -1
		v.aborted = !st.F
		ev := e.resumeTask(ac.visit, st.F)
		e.visitEvent(a, ev)
	}
	if !e.dead {
		e.check()
	}
	return true
}

func (e *engine) opEvent(a int, ev event) {
	ac := e.acts[a]
	st := ac.opStep
	var l string
	if st.Op == "goc" {
		l = fmt.Sprintf("goc %d %d %s", a, st.T, b2s(st.F))
	} else {
		l = fmt.Sprintf("gt %d %d %s", a, st.S, b2s(st.F))
	}
	switch ev.kind {
	case evSpin:
		e.line(l, "wait")
	case evDone:
		ac.op = nil
		if st.Op == "goc" {
			if ev.err != nil {
				e.line(l, errName(ev.err))
				return
			}
			s, ok := e.idx[ev.src]
			if !ok {
				s = e.addSrc(ev.src, st.T)
			} else if !e.exists[s] || e.excl[s] {
				e.specFail("half-deleted-acquired", "an acquisition by tags returned a deleted or exclusively locked partition", fmt.Sprintf("src=%d", s), "live, not exclusive")
			}
			e.client[a][s]++
			e.line(l, fmt.Sprintf("ok %d", s))
			if e.down {
				e.specFail("acquired-after-shutdown", "an acquisition by tags succeeded after Shutdown()", fmt.Sprintf("src=%d", s), "error \"already shut-down.\"")
			}
		} else {
			e.line(l, errName(ev.err))
			if ev.err == nil {
				if !e.exists[st.S] || e.excl[st.S] {
					e.specFail("half-deleted-acquired", "GetJournalTags succeeded on a deleted or exclusively locked partition", fmt.Sprintf("src=%d", st.S), "live, not exclusive")
				}
				if st.F {
					e.client[a][st.S]++
					if e.down {
						e.specFail("acquired-after-shutdown", "GetJournalTags(lock) succeeded after Shutdown()", fmt.Sprintf("src=%d", st.S), "error \"already shut-down.\"")
					}
				}
			}
		}
	}
}

func (e *engine) implState() string {
	parts := []string{}
	for i, src := range e.srcs {
		r, x, ex := tindex.VerifState(e.svc, src)
		if !ex {
			parts = append(parts, fmt.Sprintf("%d:gone", i))
		} else {
			parts = append(parts, fmt.Sprintf("%d:%d:%s", i, r, b2s(x)))
		}
	}
	n := 0
	for a := range e.client {
		for s := range e.client[a] {
			n += e.holds(a, s)
		}
	}
	for _, o := range e.orphan {
		n += o
	}
	parts = append(parts, fmt.Sprintf("holds=%d", n), "panicked=0")
	return strings.Join(parts, " ")
}

// check compares the state with the model (line "state") and evaluates the invariants (SPEC) on IMPL
func (e *engine) check() {
	e.line("state", e.implState())
	for s, src := range e.srcs {
		r, x, ex := tindex.VerifState(e.svc, src)
		if ex != e.exists[s] {
			e.specFail("existence", "a partition exists/does not exist contrary to the successful creates and deletes", fmt.Sprintf("src=%d exists=%v", s, ex), fmt.Sprint(e.exists[s]))
			continue
		}
		if !ex {
			continue
		}
		if r != e.total(s) {
			kind := "leak"
			if r < e.total(s) {
				kind = "double-release"
			}
			e.specFail(kind, "readers differs from the number of outstanding acquisitions", fmt.Sprintf("src=%d readers=%d", s, r), fmt.Sprintf("holders=%d", e.total(s)))
		}
		if x && (r != 1 || e.locker[s] < 0 || e.holds(e.locker[s], s) != 1) {
			e.specFail("exclusive-not-alone", "an exclusively locked partition has readers != 1 or the holder is not the locker", fmt.Sprintf("src=%d readers=%d", s, r), "readers=1 held by the locker")
		}
		if x != e.excl[s] {
			e.specFail("exclusive-flag", "the exclusive flag differs from the successful lock/unlock calls", fmt.Sprintf("src=%d exclusive=%v", s, x), fmt.Sprint(e.excl[s]))
		}
	}
}

// finish brings the schedule to quiescence: unlock, let everybody finish, release everything; then counts must be 0
// and every partition lockable
func (e *engine) finish() {
	for s := range e.srcs {
		if e.locker[s] >= 0 {
			e.exec(step{A: e.locker[s], Op: "unlock", S: s, Note: "drain"})
		}
	}
	for round := 0; round < 200 && !e.dead; round++ {
		busy := false
		for a, ac := range e.acts {
			switch {
			case ac.op != nil || (ac.vis != nil && ac.vis.spinning):
				busy = true
				e.exec(step{A: a, Op: "retry", Note: "drain"})
			case ac.vis != nil && ac.vis.cbSrc >= 0:
				busy = true
				e.exec(step{A: a, Op: "ret", F: true, Note: "drain"})
			}
		}
		if !busy {
			break
		}
	}
	for a := range e.acts {
		if e.dead {
			break
		}
		if e.acts[a].op != nil || e.acts[a].vis != nil {
			e.specFail("hang", "a caller is still waiting although no partition is exclusively locked", fmt.Sprintf("actor %d", a), "finished")
			e.dead = true
		}
	}
	for a := range e.acts {
		for s := range e.srcs {
			for !e.dead && e.client[a][s] > 0 {
				if !e.exec(step{A: a, Op: "rel", S: s, Note: "drain"}) {
					break
				}
			}
		}
	}
	if e.dead {
		return
	}
	for s, src := range e.srcs {
		if e.dead {
			return // (a panicking Release leaves the service mutex locked)
		}
		r, x, ex := tindex.VerifState(e.svc, src)
		if ex && (r != e.orphan[s] || x) {
			e.specFail("leak", "activity stopped but readers is not back to 0 (+ what a Visit interrupted by Shutdown kept; or the partition is still exclusively locked)", fmt.Sprintf("src=%d readers=%d exclusive=%v", s, r, x), fmt.Sprintf("readers=%d", e.orphan[s]))
		}
		if ex && !e.down {
			// it can be locked exclusively (and so deleted) now
			a := 0
			e.exec(step{A: a, Op: "gt", S: s, F: true, Note: "probe"})
			if !e.svc.LockExclusively(src) {
				e.specFail("leak", "at quiescence a partition cannot be locked exclusively", fmt.Sprintf("src=%d", s), "lockable")
			} else {
				e.svc.UnlockExclusively(src)
			}
			e.exec(step{A: a, Op: "rel", S: s, Note: "probe"})
		}
	}
}

// abandon lets parked goroutines of a dead engine go (best effort)
func (e *engine) abandon() {
	cur.Store((*task)(nil))
	for _, ac := range e.acts {
		for _, t := range []*task{ac.op, ac.visit} {
			if t != nil {
				go func(t *task) {
					for i := 0; i < 50; i++ {
						select {
						case t.resume <- false:
						case <-t.ev:
						case <-time.After(200 * time.Millisecond):
							return
						}
					}
				}(t)
			}
		}
	}
}

// ---------------------------------------------------------------------------------------------
// generator

func gen(e *engine, rng *vh.Rng, nTags int) step {
	if !e.down {
		// at most one Shutdown per schedule (~20-30 % of the schedules); aimed at the moments a waiting Visit is in progress
		den := 340
		for _, ac := range e.acts {
			if ac.vis != nil && !ac.vis.skipping {
				den = 16
			}
		}
		if rng.Chance(1, den) {
			return step{Op: "shutdown"}
		}
	}
	a := rng.Intn(len(e.acts))
	ac := e.acts[a]
	if ac.op != nil || (ac.vis != nil && ac.vis.spinning) {
		return step{A: a, Op: "retry"}
	}
	var c []step
	add := func(w int, s step) {
		if e.applicable(s) {
			for i := 0; i < w; i++ {
				c = append(c, s)
			}
		}
	}
	add(3, step{A: a, Op: "ret", F: true})
	add(1, step{A: a, Op: "ret", F: false})
	if ac.vis == nil {
		sel := []int{}
		for t := 0; t < nTags; t++ {
			if rng.Chance(2, 3) {
				sel = append(sel, t)
			}
		}
		add(3, step{A: a, Op: "visit", Sel: sel, F: rng.Bool(), F2: rng.Chance(1, 3)})
	}
	add(2, step{A: a, Op: "goc", T: rng.Intn(nTags), F: rng.Chance(3, 4)})
	if len(e.srcs) > 0 {
		add(2, step{A: a, Op: "gt", S: rng.Intn(len(e.srcs)), F: rng.Chance(5, 6)})
	}
	for s := range e.srcs {
		add(2, step{A: a, Op: "rel", S: s})
		if e.holds(a, s) > 0 && e.exists[s] {
			add(3, step{A: a, Op: "lock", S: s})
		}
		if e.locker[s] == a {
			add(4, step{A: a, Op: "del", S: s})
			add(3, step{A: a, Op: "unlock", S: s})
		} else if rng.Chance(1, 12) {
			add(1, step{A: a, Op: "del", S: s})
			add(1, step{A: a, Op: "unlock", S: s})
		}
	}
	if len(c) == 0 {
		return step{A: a, Op: "goc", T: rng.Intn(nTags), F: true}
	}
	return c[rng.Intn(len(c))]
}

type schedCase struct {
	Actors int    `json:"actors"`
	Tags   int    `json:"tags"`
	Steps  []step `json:"steps"`
}

type schedOut struct {
	c     schedCase
	lines []string
	impl  []string
	fails []vh.SpecFailure
}

// runSchedule: rng != nil generates n steps online; otherwise replays c.Steps (skipping what is not applicable)
func runSchedule(c schedCase, rng *vh.Rng, n int, sec *vh.Section) schedOut {
	e := newEngine(c.Actors, "schedules")
	if rng != nil {
		for i := 0; i < n && !e.dead; i++ {
			e.exec(gen(e, rng, c.Tags))
		}
	} else {
		for _, s := range c.Steps {
			if s.Note == "drain" || s.Note == "probe" {
				continue
			}
			e.exec(s)
		}
	}
	nGen := len(e.steps)
	if !e.dead {
		if !vh.WithTimeout(60*time.Second, e.finish) && !e.dead {
			e.dead = true
			atomic.AddInt32(&deadlocks, 1)
			e.specFail("deadlock", "bringing the schedule to quiescence did not finish within 60 s: the tag index is frozen", "no return", "every critical section ends")
		}
	}
	if e.dead {
		e.abandon()
	}
	if nGen > len(e.steps) {
		nGen = len(e.steps)
	}
	c.Steps = append([]step{}, e.steps[:nGen]...)
	e.fmu.Lock()
	fails := append([]vh.SpecFailure{}, e.fails...)
	e.fmu.Unlock()
	for i := range fails {
		fails[i].Input = c
	}
	kinds := map[string]bool{}
	for _, s := range c.Steps {
		res.Dist(sec, s.Op)
		kinds[s.Op] = true
	}
	if kinds["shutdown"] {
		res.Dist(sec, "schedules-with-shutdown")
	}
	for _, l := range e.lines {
		if strings.HasPrefix(l, "vdown ") {
			res.Dist(sec, "visit-interrupted-by-shutdown")
		}
	}
	key := ""
	if nGen >= 5 && len(kinds) >= 3 {
		key = fmt.Sprint(c.Steps)
	}
	res.Eval(sec, key)
	nl := len(e.lines)
	if len(e.impl) < nl {
		nl = len(e.impl)
	}
	return schedOut{c: c, lines: append([]string{}, e.lines[:nl]...), impl: append([]string{}, e.impl[:nl]...), fails: fails}
}

// compare the recorded answers with the model's; the first differing line of a schedule is a mismatch. A spec
// failure is reported with whether the model agreed with the implementation on the whole schedule.
func judge(outs []schedOut, section string) {
	var lines []string
	for _, o := range outs {
		lines = append(lines, o.lines...)
	}
	ans, err := vh.Batch(args.Driver, lines)
	if err != nil {
		res.Fatal(args.Out, "driver: %v", err)
	}
	k := 0
	for _, o := range outs {
		eq := true
		for j := range o.lines {
			if ans[k+j] != o.impl[j] {
				eq = false
				from := j - 6
				if from < 0 {
					from = 0
				}
				res.Mismatch(vh.Mismatch{Section: section, Function: "tindex critical section: " + o.lines[j] + " (after: " + strings.Join(o.lines[from:j], "; ") + ")",
					Input: o.c, Impl: o.impl[j], Model: ans[k+j]})
				break
			}
		}
		k += len(o.lines)
		for _, f := range o.fails {
			f.ImplEqModel = eq
			res.SpecFail(f)
		}
	}
}

func sectionSchedules(rng *vh.Rng) {
	sec := res.Section("schedules", "system-correspondence",
		"generated schedules (quick 15000 x <=30 steps, thorough 60000 x <=40) of 2..4 actors over <=3 tag lines on the real tindex.inmemService, one critical section per step (callers parked in the Visit callback and in the three wait loops via hook points): acquire by tags (create or not), acquire by id (lock or not), Release, LockExclusively, Delete, UnlockExclusively, Visit of both flavours with and without VF_DO_NOT_RELEASE, visitor continuing or aborting, retries of waiting callers; state compared with the Lean LTS after every step, invariants evaluated on the implementation, final drain to quiescence; non-trivial = at least 5 steps of at least 3 kinds, distinct by step list")
	setHooks(true)
	defer setHooks(false)
	n, maxSteps := 15000, 30
	if args.Thorough {
		n, maxSteps = 60000, 40
	}
	var outs []schedOut
	for _, f := range vh.CorpusFiles(args.Corpus) {
		var rp struct {
			Section string    `json:"section"`
			Input   schedCase `json:"input"`
		}
		if vh.ReadJSON(f, &rp) == nil && rp.Section == "schedules" && len(rp.Input.Steps) > 0 {
			outs = append(outs, runSchedule(rp.Input, nil, 0, sec))
		}
	}
	flush := func() {
		judge(outs, "schedules")
		outs = outs[:0]
	}
	for i := 0; i < n; i++ {
		if atomic.LoadInt32(&deadlocks) >= 3 {
			res.Note("schedules: stopped after %d of %d schedules: %d of them froze the tag index", i, n, deadlocks)
			break
		}
		c := schedCase{Actors: rng.Range(2, 4), Tags: rng.Range(1, 3)}
		o := runSchedule(c, rng, rng.Range(4, maxSteps), sec)
		if i < 2 {
			res.Sample(map[string]interface{}{"section": "schedules", "case": o.c})
		}
		outs = append(outs, o)
		if len(outs) >= 2000 {
			flush()
		}
	}
	flush()
	res.Done(sec)
}

// ---------------------------------------------------------------------------------------------
// raw: the critical sections without protocol (misuse included)

type rawCase struct {
	Ops []string `json:"ops"` // "create t" "acq s" "rel s" "lock s" "unlock s" "del s"
}

func runRaw(c rawCase, sec *vh.Section) schedOut {
	svc := tindex.NewInmemServiceWithConfig(tindex.InMemConfig{DoNotSave: true})
	var srcs []string
	o := schedOut{}
	line := func(l, w string) { o.lines = append(o.lines, l); o.impl = append(o.impl, w) }
	line("reset", "ok")
	executed := []string{}
	for _, op := range c.Ops {
		var k string
		var x int
		fmt.Sscanf(op, "%s %d", &k, &x)
		if k != "create" && (x < 0 || x >= len(srcs)) {
			continue
		}
		executed = append(executed, op)
		res.Dist(sec, k)
		dead := false
		switch k {
		case "create":
			src, _, err := svc.GetOrCreateJournal(tagLine(100 + len(srcs)))
			if err != nil {
				continue
			}
			srcs = append(srcs, src)
			line(fmt.Sprintf("goc 9 %d 1", 100+len(srcs)-1), fmt.Sprintf("ok %d", len(srcs)-1))
		case "acq":
			// never blocks here: performed only when not exclusively locked (checked through the export)
			_, excl, ex := tindex.VerifState(svc, srcs[x])
			if ex && excl {
				line(fmt.Sprintf("raw.acq %d", x), "wait")
				break
			}
			_, err := svc.GetJournalTags(srcs[x], true)
			line(fmt.Sprintf("raw.acq %d", x), errName(err))
		case "rel":
			_, _, ex := tindex.VerifState(svc, srcs[x])
			p := vh.Recover(func() { svc.Release(srcs[x]) })
			switch {
			case p != "":
				line(fmt.Sprintf("raw.rel %d", x), "panic")
				dead = true
			case !ex:
				line(fmt.Sprintf("raw.rel %d", x), "absent")
			default:
				line(fmt.Sprintf("raw.rel %d", x), "ok")
			}
		case "lock":
			line(fmt.Sprintf("raw.lock %d", x), fmt.Sprint(svc.LockExclusively(srcs[x])))
		case "unlock":
			_, _, ex := tindex.VerifState(svc, srcs[x])
			p := vh.Recover(func() { svc.UnlockExclusively(srcs[x]) })
			switch {
			case p != "":
				line(fmt.Sprintf("raw.unlock %d", x), "panic")
				dead = true
			case !ex:
				line(fmt.Sprintf("raw.unlock %d", x), "absent")
			default:
				line(fmt.Sprintf("raw.unlock %d", x), "ok")
			}
		case "del":
			line(fmt.Sprintf("raw.del %d", x), errName(svc.Delete(srcs[x])))
		}
		if dead {
			break // the service mutex stays locked after a panic
		}
		st := []string{}
		for i, src := range srcs {
			r, xx, ex := tindex.VerifState(svc, src)
			if !ex {
				st = append(st, fmt.Sprintf("%d:gone", i))
			} else {
				st = append(st, fmt.Sprintf("%d:%d:%s", i, r, b2s(xx)))
			}
		}
		o.lines = append(o.lines, "state")
		o.impl = append(o.impl, "PREFIX "+strings.Join(st, " "))
	}
	c.Ops = executed
	o.c = schedCase{}
	key := ""
	if len(executed) >= 4 {
		key = fmt.Sprint(executed)
	}
	res.Eval(sec, key)
	rawInputs = append(rawInputs, c)
	return o
}

var rawInputs []rawCase

func sectionRaw(rng *vh.Rng) {
	sec := res.Section("raw", "unit-correspondence",
		"random sequences (quick 1500, thorough 20000, <=14 ops) of create / acquire / Release / LockExclusively / UnlockExclusively / Delete on <=2 partitions WITHOUT following the protocol (release of what is not held, unlock of what is not locked, delete of what is not locked: panics and error codes), each answer and the (readers, exclusive, exists) state compared with the model's raw functions; non-trivial = at least 4 ops, distinct by op list")
	n := 1500
	if args.Thorough {
		n = 20000
	}
	var outs []schedOut
	rawInputs = nil
	for i := 0; i < n; i++ {
		c := rawCase{Ops: []string{"create 0"}}
		k := rng.Range(2, 14)
		for j := 0; j < k; j++ {
			op := rng.PickS([]string{"create", "acq", "acq", "acq", "rel", "rel", "rel", "lock", "lock", "unlock", "unlock", "del"})
			c.Ops = append(c.Ops, fmt.Sprintf("%s %d", op, rng.Intn(2)))
		}
		outs = append(outs, runRaw(c, sec))
	}
	var lines []string
	for _, o := range outs {
		lines = append(lines, o.lines...)
	}
	ans, err := vh.Batch(args.Driver, lines)
	if err != nil {
		res.Fatal(args.Out, "driver: %v", err)
	}
	k := 0
	for i, o := range outs {
		for j := range o.lines {
			want := o.impl[j]
			got := ans[k+j]
			ok := got == want
			if strings.HasPrefix(want, "PREFIX ") {
				w := strings.TrimPrefix(want, "PREFIX ")
				ok = strings.HasPrefix(got, w+" holds=") || (w == "" && strings.HasPrefix(got, "holds="))
				want = w
			}
			if !ok {
				res.Mismatch(vh.Mismatch{Section: "raw", Function: "tindex critical section: " + o.lines[j], Input: rawInputs[i], Impl: want, Model: got})
				break
			}
		}
		k += len(o.lines)
	}
	res.Done(sec)
}

// ---------------------------------------------------------------------------------------------
// callers: the real caller programs on the in-process server

// failCtrl wraps the journal controller: GetOrCreate fails for the chosen sources (the error return the
// journal.Controller interface allows)
type failCtrl struct {
	journal.Controller
	mu   sync.Mutex
	fail map[string]bool
	// race: the next Size() probe of the journal raceSrc lets raceFn run to completion before it returns the size it
	// saw — "another client's call completes between a caller's probe and its next tag-index call" made deterministic
	raceSrc string
	raceFn  func()
	armed   int32
	// hook: called at every GetOrCreate (inside the visitors of GetJournals / Partitions: between two critical sections
	// of the tag index)
	hook func(jn string)
}

func (f *failCtrl) GetOrCreate(ctx context.Context, jn string) (journal.Journal, error) {
	f.mu.Lock()
	bad := f.fail[jn]
	race := f.raceSrc == jn && f.raceFn != nil
	hook := f.hook
	f.mu.Unlock()
	if hook != nil {
		hook(jn)
	}
	if bad {
		return nil, fmt.Errorf("verif: injected GetOrCreate failure for %s", jn)
	}
	j, err := f.Controller.GetOrCreate(ctx, jn)
	if err == nil && race {
		return &raceJournal{Journal: j, fc: f}, nil
	}
	return j, err
}

// raceJournal is the journal of failCtrl.raceSrc: its first Size() after arming runs the racing call
type raceJournal struct {
	journal.Journal
	fc *failCtrl
}

func (r *raceJournal) Size() uint64 {
	sz := r.Journal.Size()
	if atomic.CompareAndSwapInt32(&r.fc.armed, 1, 0) {
		r.fc.raceFn()
	}
	return sz
}

type callersCase struct {
	Progs []string `json:"progs"`
}

var callerProgs = []string{"write0", "write1", "write2", "query", "queryOne", "getjournals", "getjournals-limit", "getjournal",
	"partitions", "info", "truncate-dry", "truncate", "truncate-empty", "show", "describe",
	"truncate-dry-global", "truncate-global", "truncate-dry-global-lql", "truncate-global-lql",
	"truncate-race-write", "hold", "hold", "unhold", "cursor-open", "cursor-close", "cursor-expire-busy", "cursor-badpos", "cursor-badpos-cached", "cursor-badpos-rpc", "cursor-badquery", "cursor-toomany",
	"getjournals-fail"}

// counts compares every partition's reader count with the acquisitions the case itself still holds on purpose
// (expected; nil = none): "" = fine, else the failure kind (leak: more readers than holders; double-release: fewer,
// somebody's hold was taken away)
func counts(srv *lrsrv.Srv, expected map[string]int) (string, string) {
	kind := ""
	out := []string{}
	for _, src := range tindex.VerifSources(srv.TIndex) {
		r, x, _ := tindex.VerifState(srv.TIndex, src)
		w := expected[src]
		if r > w || x {
			kind = "leak"
		} else if r < w && kind == "" {
			kind = "double-release"
		}
		out = append(out, fmt.Sprintf("%d/%d:%s", r, w, b2s(x)))
	}
	return strings.Join(out, " "), kind
}

func runCallers(c callersCase, sec *vh.Section) {
	dir := lrsrv.NewDir()
	defer os.RemoveAll(dir)
	srv, err := lrsrv.Start(dir, lrsrv.Opts{})
	if err != nil {
		res.Note("callers: %v", err)
		return
	}
	defer func() {
		// (after a panic inside Release the tag index mutex stays locked: a shutdown would wait for ever)
		if !vh.WithTimeout(3*time.Second, srv.Stop) {
			res.Note("callers: the server did not shut down within 3 s after %v", c.Progs)
		}
	}()
	fc := &failCtrl{Controller: srv.Parts.Journals, fail: map[string]bool{}}
	srv.Parts.Journals = fc
	ctx := context.Background()
	tagsOf := func(i int) string { return fmt.Sprintf("c14=p%d", i) }
	all, _ := lql.ParseSource("c14 like \"p*\"")
	write := func(i int) {
		var wr api.WriteResult
		evs := []*api.LogEvent{{Timestamp: 1, Message: "m1"}, {Timestamp: 2, Message: "m2"}}
		if err := srv.Client.Write(ctx, tagsOf(i), "", evs, &wr); err != nil || wr.Err != nil {
			res.Note("callers: write failed: %v %v", err, wr.Err)
		}
		srv.FlushWait()
	}
	write(0)
	// acquisitions the case keeps on purpose across programs ("another client"): direct holds and an open cached cursor
	expected := map[string]int{}
	var holds []string
	var openCur cursor.Cursor
	var openDelta map[string]int
	pv, _ := cursor.ProviderVerifOf(srv.Cursors)
	qAll := "select from c14 like \"p*\" limit 10"
	readers := func() map[string]int {
		m := map[string]int{}
		for _, src := range tindex.VerifSources(srv.TIndex) {
			r, _, _ := tindex.VerifState(srv.TIndex, src)
			m[src] = r
		}
		return m
	}
	manyMade := false
	for pi, p := range c.Progs {
		res.Dist(sec, p)
		finding := ""
		modelSame := false
		pnc := ""
		finished := vh.WithTimeout(30*time.Second, func() {
			pnc = vh.Recover(func() {
				switch p {
				case "hold":
					// another client acquires a partition and keeps it
					srcs := tindex.VerifSources(srv.TIndex)
					if len(srcs) > 0 {
						src := srcs[pi%len(srcs)]
						if _, _, err := srv.Parts.GetJournal(ctx, src); err == nil {
							holds = append(holds, src)
							expected[src]++
						}
					}
				case "unhold":
					if n := len(holds); n > 0 {
						src := holds[n-1]
						holds = holds[:n-1]
						srv.Parts.Release(src)
						expected[src]--
					}
				case "cursor-open":
					// another client's request with a cached cursor (WaitTimeout > 0): its partitions stay acquired
					if openCur == nil {
						before := readers()
						cu, err := srv.Cursors.GetOrCreate(ctx, cursor.State{Query: qAll}, true)
						if err == nil && cu != nil && !cursor.IsEmptyCurVerif(cu) {
							openCur, openDelta = cu, map[string]int{}
							for src, r := range readers() {
								if d := r - before[src]; d != 0 {
									openDelta[src] = d
									expected[src] += d
									if d != 1 {
										res.SpecFail(vh.SpecFailure{Section: "callers", Kind: "leak", Input: callersCase{Progs: c.Progs[:pi+1]}, Impl: fmt.Sprintf("readers moved by %d", d), Spec: "+1", What: "a new cursor acquires each of its partitions exactly once"})
									}
								}
							}
						}
					}
				case "cursor-close":
					if openCur != nil {
						srv.Cursors.Release(ctx, openCur)
						pv.Age(400 * time.Second) // idle expiry instead of sleeping
						pv.SweepByTime()
						for src, d := range openDelta {
							expected[src] -= d
						}
						openCur, openDelta = nil, nil
					}
				case "cursor-expire-busy":
					// a request keeps a cached cursor longer than the busy time-out: the sweeper drops the holder from the cache
					// while the request is still reading. The cursor's partitions must stay acquired until the request gives
					// the cursor back, and then be released exactly once.
					cu, delta := openCur, openDelta
					if cu == nil {
						before := readers()
						c2, err := srv.Cursors.GetOrCreate(ctx, cursor.State{Query: qAll}, true)
						if err != nil || c2 == nil || cursor.IsEmptyCurVerif(c2) {
							return
						}
						cu, delta = c2, map[string]int{}
						for src, r := range readers() {
							if d := r - before[src]; d != 0 {
								delta[src] = d
								expected[src] += d
							}
						}
					}
					openCur, openDelta = nil, nil
					pv.Age(400 * time.Second) // busy time-out (300 s) passed, instead of sleeping
					pv.SweepByTime()
					if st, kind := counts(srv, expected); kind != "" {
						res.SpecFail(vh.SpecFailure{Section: "callers", Kind: "released-while-held", Input: callersCase{Progs: c.Progs[:pi+1]}, Impl: st, Spec: "readers = holders (the request still holds the cursor)",
							What: "the cursor cache's sweeper dropped a cursor that a request still holds (busy longer than the busy time-out) and its partitions were given back while the request is still reading: the partition can be deleted under a reader"})
						for src, d := range delta {
							expected[src] -= d
						}
						return
					}
					srv.Cursors.Release(ctx, cu) // no longer cached: closed now, partitions released once
					for src, d := range delta {
						expected[src] -= d
					}
				case "cursor-badpos", "cursor-badpos-cached":
					// newCursor's error path after the partitions were acquired: the position cannot be applied
					if cu, err := srv.Cursors.GetOrCreate(ctx, cursor.State{Query: qAll, Pos: "garbage"}, p == "cursor-badpos-cached"); err == nil && cu != nil {
						srv.Cursors.Release(ctx, cu)
					}
				case "cursor-badpos-rpc":
					// (first in this goroutine, where a panic is recovered and the counts can be looked at: a double release
					// inside the RPC handler's goroutine would take the whole process down)
					if cu, err := srv.Cursors.GetOrCreate(ctx, cursor.State{Query: qAll, Pos: "garbage"}, false); err == nil && cu != nil {
						srv.Cursors.Release(ctx, cu)
					}
					if _, kind := counts(srv, expected); kind != "" {
						return
					}
					var qr api.QueryResult
					srv.Client.Query(ctx, &api.QueryRequest{Query: qAll, Pos: "garbage", Limit: 10}, &qr)
				case "cursor-badquery":
					srv.Cursors.GetOrCreate(ctx, cursor.State{Query: "select from from"}, false)
					srv.Cursors.GetOrCreate(ctx, cursor.State{Query: qAll + " position \"nonsense\""}, false)
				case "cursor-toomany":
					// more partitions than a cursor may merge (50): GetJournals' limit path below newCursor
					if !manyMade {
						manyMade = true
						for i := 0; i < 52; i++ {
							if src, _, err := srv.TIndex.GetOrCreateJournal(fmt.Sprintf("c14=m%d", i)); err == nil {
								srv.TIndex.Release(src)
							}
						}
					}
					if cu, err := srv.Cursors.GetOrCreate(ctx, cursor.State{Query: "select from c14 like \"m*\" limit 1"}, false); err == nil && cu != nil {
						srv.Cursors.Release(ctx, cu)
					}
				case "write0", "write1", "write2":
					write(int(p[5] - '0'))
				case "query", "queryOne":
					q := "select from c14 like \"p*\" limit 10"
					if p == "queryOne" {
						q = "select from c14=p0 limit 1"
					}
					var qr api.QueryResult
					srv.Client.Query(ctx, &api.QueryRequest{Query: q, Limit: 10}, &qr)
				case "getjournals":
					m, err := srv.Parts.GetJournals(ctx, all, 50)
					if err == nil {
						for _, j := range m {
							if r, _, _ := tindex.VerifState(srv.TIndex, j.Name()); r != 1+expected[j.Name()] {
								res.SpecFail(vh.SpecFailure{Section: "callers", Kind: "leak", Input: c, Impl: fmt.Sprintf("readers=%d while GetJournals' result is held", r), Spec: "1", What: "a journal returned by GetJournals is not acquired exactly once"})
							}
						}
						for _, j := range m {
							srv.Parts.Release(j.Name())
						}
					}
				case "getjournals-limit":
					srv.Parts.GetJournals(ctx, all, 1) // "limit exceeds" as soon as one journal is collected
				case "getjournals-fail":
					srcs := tindex.VerifSources(srv.TIndex)
					if len(srcs) == 0 {
						return
					}
					fc.mu.Lock()
					fc.fail[srcs[0]] = true
					fc.mu.Unlock()
					one, _ := lql.ParseSource("c14 like \"p*\"")
					m, err := srv.Parts.GetJournals(ctx, one, 50)
					fc.mu.Lock()
					fc.fail = map[string]bool{}
					fc.mu.Unlock()
					if err == nil {
						for _, j := range m {
							srv.Parts.Release(j.Name())
						}
						return
					}
					// class predicate of F15: GetJournals returned the error of Journals.GetOrCreate (visitor aborted)
					if strings.Contains(err.Error(), "injected GetOrCreate failure") {
						finding = "F15"
						// MODEL: the same program in the LTS keeps exactly one acquisition on the failing partition
						ans, _ := vh.Batch(args.Driver, []string{"reset", "goc 0 7 1", "rel 0 0", "vbegin 1 0 1 7", "vtry 1 0", "vcb 1 0 0", "vend 1", "state"})
						r, _, _ := tindex.VerifState(srv.TIndex, srcs[0])
						modelSame = len(ans) == 8 && ans[7] == "0:1:0 holds=1 panicked=0" && r == 1
					}
				case "getjournal":
					srcs := tindex.VerifSources(srv.TIndex)
					if len(srcs) > 0 {
						if _, _, err := srv.Parts.GetJournal(ctx, srcs[pi%len(srcs)]); err == nil {
							srv.Parts.Release(srcs[pi%len(srcs)])
						}
					}
					srv.Parts.GetJournal(ctx, "nosuchsource")
				case "partitions":
					srv.Parts.Partitions(ctx, all, 0, 10)
				case "info":
					srv.Parts.GetParitionInfo(tagsOf(0))
					srv.Parts.GetParitionInfo("c14=nosuch")
				case "truncate-dry":
					srv.Parts.Truncate(ctx, partition.TruncateParams{DryRun: true, TagsExpr: all, MaxSrcSize: 1}, nil)
				case "truncate":
					srv.Parts.Truncate(ctx, partition.TruncateParams{TagsExpr: all, MaxSrcSize: 1}, nil)
				case "truncate-dry-global":
					// nothing to cut per partition, but the data base is over its size: the global pass acquires each partition
					srv.Parts.Truncate(ctx, partition.TruncateParams{DryRun: true, TagsExpr: all, MaxDBSize: 1}, nil)
				case "truncate-global":
					srv.Parts.Truncate(ctx, partition.TruncateParams{TagsExpr: all, MaxDBSize: 1}, nil)
				case "truncate-dry-global-lql":
					srv.Exec("truncate dryrun maxdbsize 1")
				case "truncate-global-lql":
					srv.Exec("truncate maxdbsize 1")
				case "truncate-empty":
					// a partition known to the tag index only (size 0): Truncate deletes it from inside its visit
					if src, _, err := srv.TIndex.GetOrCreateJournal(fmt.Sprintf("c14=pe%d", pi)); err == nil {
						srv.TIndex.Release(src)
					}
					srv.Parts.Truncate(ctx, partition.TruncateParams{TagsExpr: all, MaxSrcSize: 1 << 40}, nil)
				case "truncate-race-write":
					// TRUNCATE finds a partition empty; before it locks the partition another client's write completes
					// (acquire, write, release): LockExclusively succeeds, the re-check under the lock sees the data and
					// the deletion is given up — the partition must be neither locked nor acquired afterwards, and the
					// next writer must get it
					tg := fmt.Sprintf("c14=pr%d", pi)
					src, _, err := srv.TIndex.GetOrCreateJournal(tg)
					if err != nil {
						return
					}
					srv.TIndex.Release(src)
					raced := false
					fc.mu.Lock()
					fc.raceSrc = src
					fc.raceFn = func() {
						it := &sliceIt{evs: []model.LogEvent{{Timestamp: 5, Msg: []byte("raced")}}}
						if err := srv.Parts.Write(ctx, tg, it, true); err == nil {
							raced = true
						}
					}
					fc.mu.Unlock()
					atomic.StoreInt32(&fc.armed, 1)
					srv.Parts.Truncate(ctx, partition.TruncateParams{TagsExpr: all, MaxSrcSize: 1 << 40}, nil)
					atomic.StoreInt32(&fc.armed, 0)
					fc.mu.Lock()
					fc.raceSrc, fc.raceFn = "", nil
					fc.mu.Unlock()
					if raced {
						res.Dist(sec, "truncate-race-write:raced")
						// the next writer must obtain the partition (an exclusively locked one makes it spin for ever)
						if !vh.WithTimeout(10*time.Second, func() {
							if s2, _, err := srv.TIndex.GetOrCreateJournal(tg); err == nil {
								srv.TIndex.Release(s2)
							}
						}) {
							res.SpecFail(vh.SpecFailure{Section: "callers", Kind: "deadlock", Input: callersCase{Progs: c.Progs[:pi+1]}, Impl: "a writer spins on the partition TRUNCATE gave up deleting", Spec: "acquired", What: "after TRUNCATE gave up deleting a partition (a write completed between its emptiness probe and LockExclusively) the partition stays exclusively locked: the next writer never gets it"})
						}
					}
				case "getjournals-shutdown", "partitions-shutdown":
					// Shutdown() of the tag index arrives while a waiting Visit is between two callbacks: the next per-item
					// section returns WrongState WITHOUT the final locked section. GetJournals (VF_DO_NOT_RELEASE) must give
					// back everything it collected (theorems program_balanced_shutdown, callers_getjournals_owes_nothing);
					// Partitions (auto-release) legitimately keeps what its skipped final section would have released — exactly
					// the entries visited so far (shutdown_orphans), nothing else. Last program of a case: the index is dead afterwards.
					write(0)
					write(1)
					visited := map[string]bool{}
					fc.mu.Lock()
					fc.hook = func(jn string) {
						if sd, ok := srv.TIndex.(interface{ Shutdown() }); ok && len(visited) == 0 {
							sd.Shutdown()
						}
						visited[jn] = true
					}
					fc.mu.Unlock()
					var err error
					if p == "getjournals-shutdown" {
						var m map[tag.Line]journal.Journal
						m, err = srv.Parts.GetJournals(ctx, all, 50)
						if err == nil {
							for _, j := range m {
								srv.Parts.Release(j.Name())
							}
						}
					} else {
						_, err = srv.Parts.Partitions(ctx, all, 0, 10)
					}
					fc.mu.Lock()
					fc.hook = nil
					fc.mu.Unlock()
					res.Dist(sec, fmt.Sprintf("%s:visited=%d,err=%v", p, len(visited), err != nil))
					if p == "partitions-shutdown" && err != nil {
						// the interrupted auto-release visit owes the entries it visited: book them as expected holds
						for jn := range visited {
							expected[jn]++
						}
					}
				case "show":
					srv.Exec("show partitions")
				case "describe":
					srv.Exec("describe partition {c14=p0}")
				}
			})
		})
		if !finished {
			res.SpecFail(vh.SpecFailure{Section: "callers", Kind: "deadlock", Input: callersCase{Progs: c.Progs[:pi+1]}, Impl: "caller program " + p + " did not return within 30 s", Spec: "returns", What: "a caller program hangs: the tag index is frozen (a mutex is held for ever)"})
			return
		}
		if pnc != "" {
			res.SpecFail(vh.SpecFailure{Section: "callers", Kind: "panic", Input: callersCase{Progs: c.Progs[:pi+1]}, Impl: pnc, Spec: "no panic", What: "caller program " + p + " panicked"})
			return
		}
		st, kind := "", ""
		if !vh.WithTimeout(10*time.Second, func() { st, kind = counts(srv, expected) }) {
			res.SpecFail(vh.SpecFailure{Section: "callers", Kind: "deadlock", Input: callersCase{Progs: c.Progs[:pi+1]}, Impl: "the tag index does not answer after caller program " + p, Spec: "answers", What: "the tag index is frozen after a caller program (a mutex is held for ever)"})
			return
		}
		if kind != "" {
			what := "after caller program " + p + " finished, a partition is still acquired (readers/holders) or exclusively locked"
			if kind == "double-release" {
				what = "after caller program " + p + " finished, a partition has fewer readers than holders: somebody else's acquisition was released"
			}
			f := vh.SpecFailure{Section: "callers", Kind: kind, Input: callersCase{Progs: c.Progs[:pi+1]}, Impl: st, Spec: "readers = the holds kept on purpose, nothing exclusive",
				What: what, ImplEqModel: modelSame}
			if finding != "" && modelSame {
				f.Finding = finding
				f.Model = "0:1:0 holds=1"
			}
			res.SpecFail(f)
			return // the leaked count stays: later programs would report it again
		}
	}
	key := ""
	if len(c.Progs) >= 3 {
		key = fmt.Sprint(c.Progs)
	}
	res.Eval(sec, key)
}

func sectionCallers(rng *vh.Rng) {
	sec := res.Section("callers", "spec-search",
		"sequences of the real caller programs on the in-process server (RPC Write and Query, partition.Service.GetJournals incl. limit exceeded and an injected Journals.GetOrCreate failure, GetJournal, Partitions, GetParitionInfo, cursor creation through the provider and over RPC incl. its failures (position that cannot be applied — un-cached, cached, over RPC —, unparsable query, more than 50 partitions) with and without another client holding the partitions (a direct hold, an open cached cursor), Truncate dry/real/deleting an empty partition/global pass (MAXDBSIZE exceeded) dry and real through the service and through the TRUNCATE statement, SHOW PARTITIONS, DESCRIBE PARTITION; TRUNCATE giving a deletion up because another client's write completed between its emptiness probe and LockExclusively; as a last program Shutdown() of the tag index arriving between two callbacks of GetJournals' / Partitions' waiting Visit — GetJournals must give everything back, Partitions may keep exactly the entries it visited): after every program every reader count equals the holds kept on purpose (0 without them) and nothing is exclusively locked, every program returns within 30 s; non-trivial = at least 3 programs, distinct by program list")
	var cases []callersCase
	for _, f := range vh.CorpusFiles(args.Corpus) {
		var rp struct {
			Section string      `json:"section"`
			Input   callersCase `json:"input"`
		}
		if vh.ReadJSON(f, &rp) == nil && rp.Section == "callers" && len(rp.Input.Progs) > 0 {
			cases = append(cases, rp.Input)
		}
	}
	n := 24
	if args.Thorough {
		n = 300
	}
	for i := 0; i < n; i++ {
		c := callersCase{}
		k := rng.Range(3, 9)
		for j := 0; j < k; j++ {
			// the failure-injection program at most once and last (its leak would mask everything after it)
			c.Progs = append(c.Progs, callerProgs[rng.Intn(len(callerProgs)-1)])
		}
		if rng.Chance(1, 6) {
			c.Progs = append(c.Progs, "getjournals-fail")
		} else if rng.Chance(1, 4) {
			// terminal programs: the tag index is shut down in the middle of a waiting Visit
			c.Progs = append(c.Progs, []string{"getjournals-shutdown", "partitions-shutdown"}[rng.Intn(2)])
		}
		cases = append(cases, c)
	}
	var wg sync.WaitGroup
	sem := make(chan struct{}, 8)
	for _, c := range cases {
		wg.Add(1)
		sem <- struct{}{}
		go func(c callersCase) {
			defer wg.Done()
			defer func() { <-sem }()
			runCallers(c, sec)
		}(c)
	}
	wg.Wait()
	res.Done(sec)
}

// panicOrigin returns the function in which a recovered panic was raised (the frame below runtime's panic frames)
func panicOrigin(stack string) string {
	lines := strings.Split(stack, "\n")
	for i, l := range lines {
		if strings.HasPrefix(l, "panic(") || strings.HasPrefix(l, "runtime.sigpanic(") {
			for j := i + 2; j < len(lines); j += 2 {
				if !strings.HasPrefix(lines[j], "runtime.") {
					return lines[j]
				}
			}
		}
	}
	return ""
}

// sliceIt is a model.Iterator over a slice (in-process writes)
type sliceIt struct {
	evs []model.LogEvent
	i   int
}

func (s *sliceIt) Next(ctx context.Context) { s.i++ }
func (s *sliceIt) Get(ctx context.Context) (model.LogEvent, tag.Line, error) {
	if s.i >= len(s.evs) {
		return model.LogEvent{}, "", io.EOF
	}
	return s.evs[s.i], "", nil
}
func (s *sliceIt) Release()                        {}
func (s *sliceIt) SetBackward(bool)                {}
func (s *sliceIt) CurrentPos() records.IteratorPos { return s.i }

func recoverStack(f func()) (p string) {
	defer func() {
		if r := recover(); r != nil {
			st := string(debug.Stack())
			if len(st) > 3000 {
				st = st[:3000]
			}
			p = fmt.Sprint(r) + "\n" + st
		}
	}()
	f()
	return ""
}

// ---------------------------------------------------------------------------------------------
// stress (thorough): TRUNCATE racing queries and writes, free running

// sectionStress runs the race in a child process: a fatal fault deep inside the journal library / time index (chunk
// removed under a reader or writer — not this property) would otherwise take the whole harness down.
func sectionStress(rng *vh.Rng) {
	out := filepath.Join(os.TempDir(), fmt.Sprintf("c14-stress-%d-%d.json", os.Getpid(), args.Seed))
	defer os.Remove(out)
	cmd := exec.Command(os.Args[0], "-tier", args.Tier, "-seed", fmt.Sprint(args.Seed), "-driver", args.Driver, "-out", out, "-corpus", args.Corpus)
	cmd.Env = append(os.Environ(), "C14_STRESS_CHILD=1")
	var stderr bytes.Buffer
	cmd.Stderr = &stderr
	cmd.Stdout = &stderr
	err := cmd.Run()
	var child vh.Result
	if vh.ReadJSON(out, &child) == nil && len(child.Sections) > 0 {
		res.Sections = append(res.Sections, child.Sections...)
		for _, f := range child.SpecFailures {
			res.SpecFail(f)
		}
		for _, n := range child.Notes {
			res.Note("%s", n)
		}
		return
	}
	sec := res.Section("stress", "stress", "free-running TRUNCATE vs queries and writes in a child process")
	txt := stderr.String()
	origin := panicOrigin(txt)
	if strings.HasPrefix(origin, "github.com/logrange/logrange/pkg/tindex.") || strings.Contains(txt, "Could not release") || strings.Contains(txt, "Could not UnlockExclusively") {
		if len(txt) > 3000 {
			txt = txt[:3000]
		}
		res.SpecFail(vh.SpecFailure{Section: "stress", Kind: "panic", Input: map[string]interface{}{"seed": args.Seed}, Impl: txt, Spec: "no panic", What: "the server crashed in the tag index during the TRUNCATE/query/write race"})
	} else {
		res.Note("stress: the child process ended abnormally (%v) outside the tag index (origin %q) — a chunk-level fault in the journal library / time index, not judged here", err, origin)
	}
	res.Done(sec)
}

func stressChild(rng *vh.Rng) {
	sec := res.Section("stress", "stress",
		"free-running goroutines on the in-process server for 40 s, in a child process: 4 writers (RPC Write) over 4 tag lines, 3 readers (un-cached SELECTs over RPC, GetJournals+Release, GetJournal+Release by id), 1 truncator (creates an empty partition through the tag index, then Truncate cutting and deleting everything it can); afterwards: no panic, every reader count 0, nothing exclusively locked, every remaining partition can be locked exclusively. A fault that originates in the journal library / time index (a chunk removed under a reader or writer: chunk level, not this property) is recorded as a note and the run is not judged; a panic in the tag index is a failure. One evaluation per Truncate pass (operations and deleted partitions are in the distribution)")
	dir := lrsrv.NewDir()
	defer os.RemoveAll(dir)
	srv, err := lrsrv.Start(dir, lrsrv.Opts{MaxChunkSize: 4096})
	if err != nil {
		res.Note("stress: %v", err)
		return
	}
	stopOnExit := true
	defer func() {
		if stopOnExit {
			vh.WithTimeout(10*time.Second, srv.Stop)
		}
	}()
	ctx, cancel := context.WithTimeout(context.Background(), 40*time.Second)
	defer cancel()
	all, _ := lql.ParseSource("c14 like \"s*\"")
	var wg sync.WaitGroup
	var ops, nDeleted int64
	var panics sync.Map
	guard := func(name string, f func()) {
		wg.Add(1)
		go func() {
			defer wg.Done()
			for ctx.Err() == nil {
				if p := recoverStack(f); p != "" {
					panics.Store(name, p)
					return
				}
				atomic.AddInt64(&ops, 1)
			}
		}()
	}
	// Chunk-level races (a chunk removed under a reader or writer) can crash inside the journal library and the time
	// index; they are not this property. The section therefore runs in a child process (see sectionStress) and a crash
	// that does not originate in the tag index is recorded as a note, not judged.
	for w := 0; w < 4; w++ {
		w := w
		guard("writer", func() {
			var wr api.WriteResult
			evs := []*api.LogEvent{{Timestamp: 1, Message: strings.Repeat("x", 200)}, {Timestamp: 2, Message: "y"}}
			srv.Client.Write(context.Background(), fmt.Sprintf("c14=s%d", w), "", evs, &wr)
		})
	}
	for r := 0; r < 3; r++ {
		r := r
		guard("reader", func() {
			switch r {
			case 0:
				var qr api.QueryResult
				srv.Client.Query(context.Background(), &api.QueryRequest{Query: "select from c14 like \"s*\" limit 20", Limit: 20}, &qr)
			case 1:
				if m, err := srv.Parts.GetJournals(context.Background(), all, 50); err == nil {
					for _, j := range m {
						srv.Parts.Release(j.Name())
					}
				}
			default:
				for _, src := range tindex.VerifSources(srv.TIndex) {
					if _, _, err := srv.Parts.GetJournal(context.Background(), src); err == nil {
						srv.Parts.Release(src)
					}
				}
			}
		})
	}
	nTr := 0
	guard("truncator", func() {
		nTr++
		if src, _, err := srv.TIndex.GetOrCreateJournal(fmt.Sprintf("c14=se%d", nTr%3)); err == nil {
			srv.TIndex.Release(src)
		}
		srv.Parts.Truncate(context.Background(), partition.TruncateParams{TagsExpr: all, MaxSrcSize: 1, MaxDBSize: 1}, func(ti partition.TruncateInfo) {
			if ti.Deleted {
				atomic.AddInt64(&nDeleted, 1)
			}
		})
		time.Sleep(2 * time.Millisecond)
	})
	hung := !vh.WithTimeout(70*time.Second, wg.Wait)
	time.Sleep(100 * time.Millisecond)
	for i := 0; i < nTr; i++ {
		res.Eval(sec, "") // one evaluation per Truncate pass that raced the readers and writers
	}
	tainted, panicked := false, false
	panics.Range(func(k, v interface{}) bool {
		if strings.HasPrefix(panicOrigin(fmt.Sprint(v)), "github.com/logrange/range/") {
			// a chunk removed under a reader inside the journal library (chunk level, C09's area) — not the partition
			// lock protocol; the panic unwinds through Visit, so the counts of this run say nothing
			tainted = true
			res.Note("stress: %v goroutine panicked inside the journal library; counts of this run are not judged: %.1800s", k, fmt.Sprint(v))
			return true
		}
		panicked = true
		res.SpecFail(vh.SpecFailure{Section: "stress", Kind: "panic", Input: map[string]interface{}{"seed": args.Seed}, Impl: fmt.Sprint(v), Spec: "no panic", What: fmt.Sprintf("%v goroutine panicked during the TRUNCATE/query/write race", k)})
		return true
	})
	if hung && !panicked && !tainted {
		res.SpecFail(vh.SpecFailure{Section: "stress", Kind: "hang", Input: map[string]interface{}{"seed": args.Seed}, Impl: "goroutines still blocked 30 s after the race was stopped", Spec: "every operation returns", What: "the TRUNCATE/query/write race did not come to rest (deadlock)"})
	}
	if tainted || hung || panicked {
		// (after a panic inside Release the tag index mutex stays locked: the service cannot be inspected any more)
		stopOnExit = false
		res.Done(sec)
		return
	}
	if st, kind := counts(srv, nil); kind != "" {
		res.SpecFail(vh.SpecFailure{Section: "stress", Kind: "leak", Input: map[string]interface{}{"seed": args.Seed}, Impl: st, Spec: "all readers 0", What: "after the race stopped a partition is still acquired or exclusively locked"})
	}
	for _, src := range tindex.VerifSources(srv.TIndex) {
		if _, err := srv.TIndex.GetJournalTags(src, true); err == nil {
			if !srv.TIndex.LockExclusively(src) {
				res.SpecFail(vh.SpecFailure{Section: "stress", Kind: "leak", Input: map[string]interface{}{"seed": args.Seed}, Impl: "LockExclusively=false", Spec: "true", What: "after the race stopped a partition cannot be locked exclusively"})
			} else {
				srv.TIndex.UnlockExclusively(src)
			}
			srv.TIndex.Release(src)
		}
	}
	res.Dist(sec, fmt.Sprintf("operations=%d", ops))
	res.Dist(sec, fmt.Sprintf("partitions-deleted=%d", nDeleted))
	res.Done(sec)
}

// ---------------------------------------------------------------------------------------------
// restart: callers that run at server start (pipe.Service.Init -> ppipe.catchUp for every loaded pipe)

type restartCase struct {
	Prog string `json:"prog"`
}

// runRestart: a pipe copies from a source; TRUNCATE removes all of the source's chunks while the pipe worker's cursor still
// holds it (the partition stays registered, empty); the server is restarted on the same directory — the pipe is loaded and
// catches up with its sources (acquire by id, look at the chunks, release). Afterwards nobody uses the empty source: its
// reader count must be 0 and TRUNCATE must be able to drop it. Variant "pipe-source-with-data": the source keeps its data
// (no truncate): the catch-up starts a worker; after the worker's cursor is expired (through the provider export) the
// count must be 0 as well.
func runRestart(c restartCase, sec *vh.Section) {
	in := map[string]interface{}{"prog": c.Prog}
	dir := lrsrv.NewDir()
	defer os.RemoveAll(dir)
	srv, err := lrsrv.Start(dir, lrsrv.Opts{})
	if err != nil {
		res.Note("restart: %v", err)
		return
	}
	stopped := false
	stop := func(s *lrsrv.Srv) {
		if !vh.WithTimeout(20*time.Second, s.Stop) {
			res.Note("restart: the server did not shut down within 20 s (%s)", c.Prog)
		}
	}
	defer func() {
		if !stopped {
			stop(srv)
		}
	}()
	ctx := context.Background()
	const tg = "c14=rsrc"
	count := func(s *lrsrv.Srv, q string) int {
		var qr api.QueryResult
		if err := s.Client.Query(ctx, &api.QueryRequest{Query: q, Limit: 1000}, &qr); err != nil || qr.Err != nil {
			return -1
		}
		return len(qr.Events)
	}
	poll := func(d time.Duration, f func() bool) bool {
		for t0 := time.Now(); time.Since(t0) < d; time.Sleep(20 * time.Millisecond) {
			if f() {
				return true
			}
		}
		return f()
	}
	if _, err := srv.Exec("create pipe c14pipe from " + tg); err != nil {
		res.Note("restart: create pipe: %v", err)
		return
	}
	evs := make([]*api.LogEvent, 20)
	for i := range evs {
		evs[i] = &api.LogEvent{Timestamp: int64(100 + i), Message: fmt.Sprintf("event %d", i)}
	}
	var wr api.WriteResult
	if err := srv.Client.Write(ctx, tg, "", evs, &wr); err != nil || wr.Err != nil {
		res.Note("restart: write: %v %v", err, wr.Err)
		return
	}
	if !poll(60*time.Second, func() bool { return count(srv, "select from logrange.pipe=c14pipe limit 1000") == len(evs) }) {
		res.Note("restart: the pipe did not copy the events within 60 s (machine load?)")
		return
	}
	src, _, err := srv.TIndex.GetJournal(tg)
	if err != nil {
		res.Note("restart: source not found: %v", err)
		return
	}
	srv.TIndex.Release(src)
	if c.Prog == "pipe-source-emptied" {
		srv.Exec("truncate " + tg + " maxsize 1")
		if !poll(20*time.Second, func() bool { return count(srv, "select from "+tg+" limit 10") == 0 }) {
			res.Note("restart: the source did not become empty")
			return
		}
		// the chunk files are removed asynchronously: a stop before that resurrects the data at the next start (then the
		// source is not empty after the restart and the scenario is another one)
		if _, j, err := srv.Parts.GetJournal(ctx, src); err == nil {
			folder := j.Chunks().LocalFolder()
			srv.Parts.Release(src)
			poll(10*time.Second, func() bool {
				m, _ := filepath.Glob(filepath.Join(folder, "*.dat"))
				return len(m) == 0
			})
		}
		if _, _, ok := tindex.VerifState(srv.TIndex, src); !ok {
			// (the worker's cursor did not pin it: the partition was dropped; the restart then has nothing to catch up with)
			res.Dist(sec, c.Prog+":source-dropped-before-restart")
		} else {
			res.Dist(sec, c.Prog+":source-empty-but-registered")
		}
	}
	stopped = true
	stop(srv)
	srv2, err := lrsrv.Start(dir, lrsrv.Opts{})
	if err != nil {
		res.Note("restart: second start: %v", err)
		return
	}
	defer stop(srv2)
	if c.Prog == "pipe-source-with-data" {
		// the catch-up may have started a worker (nothing new to copy: it ends at once or waits for data); drop whatever
		// cursor it cached, as its idle time-out would
		if pv, ok := cursor.ProviderVerifOf(srv2.Cursors); ok {
			poll(3*time.Second, func() bool {
				pv.Age(400 * time.Second)
				pv.SweepByTime()
				r, _, _ := tindex.VerifState(srv2.TIndex, src)
				return r == 0
			})
		}
		res.Dist(sec, c.Prog)
	}
	// nobody uses the source now (a background sweep of the time index may hold it for a moment)
	var r int
	var x, ok bool
	free := poll(15*time.Second, func() bool {
		r, x, ok = tindex.VerifState(srv2.TIndex, src)
		return !ok || (r == 0 && !x)
	})
	if !free {
		held := "still acquired"
		if c.Prog == "pipe-source-with-data" {
			// a worker that waits for new data holds the source legitimately (up to 10 s, then its cursor idles): not judged
			res.Dist(sec, c.Prog+":worker-still-holds(not judged)")
			res.Eval(sec, c.Prog)
			return
		}
		res.SpecFail(vh.SpecFailure{Section: "restart", Kind: "leak", Input: in, Impl: fmt.Sprintf("readers=%d exclusive=%v (%s)", r, x, held), Spec: "readers = 0",
			What: "after a restart nobody uses the pipe's empty source partition, yet it stays acquired (the pipe's start-up catch-up did not give it back): the partition can never be deleted"})
		res.Eval(sec, c.Prog)
		return
	}
	if c.Prog == "pipe-source-emptied" && ok {
		if _, j, err := srv2.Parts.GetJournal(ctx, src); err == nil {
			sz := j.Size()
			srv2.Parts.Release(src)
			if sz > 0 {
				// chunk files that were still on disk at the stop came back: not the empty-source scenario (and not C14's business)
				res.Dist(sec, c.Prog+":source-not-empty-after-restart(not judged)")
				res.Eval(sec, c.Prog)
				return
			}
		}
		// (a background task — the time index's clean-up, a rebuild — may hold the partition for a moment and make one
		// TRUNCATE give the deletion up: that is allowed; an unused partition must become deletable, not at the first try)
		var out string
		var terr error
		dropped := poll(20*time.Second, func() bool {
			out, terr = srv2.Exec("truncate " + tg)
			_, _, still := tindex.VerifState(srv2.TIndex, src)
			return !still
		})
		if !dropped {
			res.SpecFail(vh.SpecFailure{Section: "restart", Kind: "undeletable", Input: in, Impl: fmt.Sprintf("TRUNCATE did not drop the empty, unused partition: %q err=%v", out, terr), Spec: "dropped",
				What: "an empty partition that nobody uses cannot be deleted after the restart"})
		}
	}
	res.Eval(sec, c.Prog)
}

func sectionRestart() {
	sec := res.Section("restart", "spec-search",
		"callers that run at server start: a pipe with a saved position is loaded and catches up with its source (ppipe.catchUp: acquire by id, release) — the source emptied by TRUNCATE while the pipe worker's cursor pinned it (registered, no chunks), and the source with its data; after the restart the source's reader count returns to 0 and the empty one can be dropped; non-trivial = every program")
	for _, p := range []string{"pipe-source-emptied", "pipe-source-with-data"} {
		runRestart(restartCase{Prog: p}, sec)
	}
	res.Done(sec)
}

// ---------------------------------------------------------------------------------------------

func replay(path string) {
	var rp struct {
		Section string          `json:"section"`
		Input   json.RawMessage `json:"input"`
	}
	if err := vh.ReadJSON(path, &rp); err != nil {
		res.Fatal(args.Out, "replay: %v", err)
	}
	switch rp.Section {
	case "schedules":
		var c schedCase
		json.Unmarshal(rp.Input, &c)
		sec := res.Section("schedules", "replay", "replay of one recorded schedule")
		setHooks(true)
		o := runSchedule(c, nil, 0, sec)
		setHooks(false)
		ans, _ := vh.Batch(args.Driver, o.lines)
		for i := range ans {
			fmt.Printf("%-40s impl=%-40s model=%s\n", o.lines[i], o.impl[i], ans[i])
		}
		judge([]schedOut{o}, "schedules")
	case "callers":
		var c callersCase
		json.Unmarshal(rp.Input, &c)
		sec := res.Section("callers", "replay", "replay of one recorded program sequence")
		runCallers(c, sec)
		for _, f := range res.SpecFailures {
			fmt.Printf("%s: %s (impl %s)\n", f.Kind, f.What, f.Impl)
		}
	case "restart":
		var c restartCase
		json.Unmarshal(rp.Input, &c)
		sec := res.Section("restart", "replay", "replay of one restart program")
		runRestart(c, sec)
		for _, f := range res.SpecFailures {
			fmt.Printf("%s: %s (impl %s)\n", f.Kind, f.What, f.Impl)
		}
	case "raw":
		var c rawCase
		json.Unmarshal(rp.Input, &c)
		sec := res.Section("raw", "replay", "replay of one recorded op list")
		rawInputs = nil
		o := runRaw(c, sec)
		ans, _ := vh.Batch(args.Driver, o.lines)
		for i := range ans {
			fmt.Printf("%-20s impl=%-30s model=%s\n", o.lines[i], o.impl[i], ans[i])
		}
	default:
		res.Note("replay: section %q has no single-input replay; re-run the check with the recorded seed", rp.Section)
	}
	res.Write(args.Out)
}

func main() {
	args = vh.ParseArgs()
	res = vh.NewResult("C14", args)
	if args.Replay != "" {
		replay(args.Replay)
		return
	}
	rng := vh.NewRng(args.Seed)
	if os.Getenv("C14_STRESS_CHILD") != "" {
		stressChild(rng.Fork("stress"))
		res.Write(args.Out)
		return
	}
	if os.Getenv("C14_ONLY") == "" {
		sectionRaw(rng.Fork("raw"))
		sectionSchedules(rng.Fork("schedules"))
		sectionCallers(rng.Fork("callers"))
		sectionRestart()
	}
	if args.Thorough {
		sectionStress(rng.Fork("stress"))
	}
	sort.SliceStable(res.SpecFailures, func(i, j int) bool { return res.SpecFailures[i].Finding < res.SpecFailures[j].Finding })
	res.Write(args.Out)
}
