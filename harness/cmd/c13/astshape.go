package main

import (
	"fmt"
	"reflect"
	"strings"
)

// The census of pkg/lql's implicit dereferences (tools/extract/c13_sites2.go) discharges three classes by contracts of participle:
// a node slice has no nil element, a mandatory capture is set after a successful parse, and of a two-branch alternation exactly one
// branch is set. astShape checks them on the AST of every accepted text, reading the grammar from the struct tags by reflection (the
// same reading of the tags as the extractor's `optionality`).

func grammarOptionality(t reflect.Type) map[string]string {
	res := map[string]string{}
	type tok struct{ s, field string }
	var toks []tok
	var order []string
	for k := 0; k < t.NumField(); k++ {
		f := t.Field(k)
		tag := string(f.Tag)
		if tag == "" {
			continue
		}
		order = append(order, f.Name)
		for i := 0; i < len(tag); {
			c := tag[i]
			switch {
			case c == '"':
				j := i + 1
				for j < len(tag) && tag[j] != '"' {
					if tag[j] == '\\' {
						j++
					}
					j++
				}
				i = j + 1
			case c == '@':
				toks = append(toks, tok{"@", f.Name})
				i++
				if i < len(tag) && tag[i] == '@' {
					i++
				} else if i < len(tag) && tag[i] == '(' {
					depth := 0
					for i < len(tag) {
						if tag[i] == '(' {
							depth++
						} else if tag[i] == ')' {
							depth--
							if depth == 0 {
								i++
								break
							}
						}
						i++
					}
				}
			case strings.ContainsRune("()[]{}|?*+", rune(c)):
				toks = append(toks, tok{string(c), f.Name})
				i++
			default:
				i++
			}
		}
	}
	type frame struct {
		alts [][]string
		opt  bool
	}
	markOptional := func(fr *frame) {
		for _, a := range fr.alts {
			for _, f := range a {
				res[f] = "optional"
			}
		}
	}
	closeFrame := func(fr *frame, follow string) []string {
		var fields []string
		for _, a := range fr.alts {
			fields = append(fields, a...)
		}
		if fr.opt || follow == "?" || follow == "*" {
			markOptional(fr)
			return fields
		}
		if len(fr.alts) > 1 {
			if len(fr.alts) == 2 && len(fr.alts[0]) == 1 && len(fr.alts[1]) == 1 {
				a, b := fr.alts[0][0], fr.alts[1][0]
				if res[a] == "" {
					res[a] = "alternative:" + b
				}
				if res[b] == "" {
					res[b] = "alternative:" + a
				}
			} else {
				markOptional(fr)
			}
		}
		return fields
	}
	stack := []*frame{{alts: [][]string{{}}}}
	for i := 0; i < len(toks); i++ {
		tk := toks[i]
		top := stack[len(stack)-1]
		switch tk.s {
		case "@":
			top.alts[len(top.alts)-1] = append(top.alts[len(top.alts)-1], tk.field)
		case "(", "[", "{":
			stack = append(stack, &frame{alts: [][]string{{}}, opt: tk.s != "("})
		case "|":
			top.alts = append(top.alts, []string{})
		case ")", "]", "}":
			if len(stack) == 1 {
				continue
			}
			follow := ""
			if i+1 < len(toks) {
				follow = toks[i+1].s
			}
			fields := closeFrame(top, follow)
			stack = stack[:len(stack)-1]
			parent := stack[len(stack)-1]
			parent.alts[len(parent.alts)-1] = append(parent.alts[len(parent.alts)-1], fields...)
		}
	}
	for len(stack) > 1 {
		markOptional(stack[len(stack)-1])
		stack = stack[:len(stack)-1]
	}
	closeFrame(stack[0], "")
	for _, f := range order {
		if res[f] == "" {
			res[f] = "mandatory"
		}
	}
	return res
}

// astShape returns "" or a description of the first violated contract in the AST under v (a pointer to a grammar node)
func astShape(v reflect.Value, depth int) string {
	if depth > 5000 {
		return ""
	}
	for v.Kind() == reflect.Ptr {
		if v.IsNil() {
			return ""
		}
		v = v.Elem()
	}
	if v.Kind() != reflect.Struct || !strings.HasSuffix(v.Type().PkgPath(), "pkg/lql") {
		return ""
	}
	t := v.Type()
	opt := grammarOptionality(t)
	for k := 0; k < t.NumField(); k++ {
		f, fv := t.Field(k), v.Field(k)
		if f.PkgPath != "" { // unexported
			continue
		}
		switch fv.Kind() {
		case reflect.Ptr:
			o := opt[f.Name]
			if fv.Type().Elem().Kind() == reflect.Struct {
				if o == "mandatory" && fv.IsNil() {
					return fmt.Sprintf("%s.%s: a mandatory capture is nil after a successful parse", t.Name(), f.Name)
				}
				if strings.HasPrefix(o, "alternative:") {
					other := v.FieldByName(strings.TrimPrefix(o, "alternative:"))
					if other.Kind() == reflect.Ptr && fv.IsNil() == other.IsNil() {
						return fmt.Sprintf("%s.%s / %s: not exactly one branch of the alternation is set", t.Name(), f.Name, strings.TrimPrefix(o, "alternative:"))
					}
				}
			}
			if s := astShape(fv, depth+1); s != "" {
				return s
			}
		case reflect.Slice:
			for i := 0; i < fv.Len(); i++ {
				e := fv.Index(i)
				if e.Kind() == reflect.Ptr {
					if e.IsNil() {
						return fmt.Sprintf("%s.%s[%d]: a nil element in a node slice", t.Name(), f.Name, i)
					}
					if s := astShape(e, depth+1); s != "" {
						return s
					}
				}
			}
		}
	}
	return ""
}
