package main

import (
	"context"
	"fmt"
	"os"
	"runtime"
	"strings"

	"github.com/logrange/logrange/api"
	"verifharness/internal/lrsrv"
	"verifharness/internal/vh"
)

// lifetime: "never reads outside the request buffer" over time. The query handler decodes its request without copying
// (newBuf = false): rq.Query points into the request body, and a cursor that is HELD between requests (WaitTimeout > 0) keeps
// it in its state. The body must therefore not go back to the server's buffer pool while the cursor lives — otherwise the next
// request body lands in the same memory and the held cursor's query text silently becomes the next request's text: a request
// that names the held ReqId with ANOTHER query of equal length is then compared with itself and answered from the old cursor.
// Oracle: the answer to such a request equals the answer to the same request without a ReqId (a cursor of its own).
// GOMAXPROCS(1) while it runs, so that sync.Pool hands the previous request's buffer to the next one deterministically; both
// requests are padded into one size class of the pool.

type lifetimeCase struct {
	First  string `json:"first"`  // the word the first query filters by (msg contains)
	Second string `json:"second"` // the word of the second query — same length
	Pad    int    `json:"pad"`    // bytes of an always-true padding conjunct
}

func runLifetime(sec *vh.Section, cases []lifetimeCase, verbose bool) {
	dir := lrsrv.NewDir()
	defer os.RemoveAll(dir)
	srv, err := lrsrv.Start(dir, lrsrv.Opts{})
	if err != nil {
		res.Fatal(args.Out, "lifetime: %v", err)
	}
	defer srv.Stop()
	ctx := context.Background()
	var evs []*api.LogEvent
	words := []string{"aaa", "bbb", "one", "two"}
	for i := 0; i < 24; i++ {
		evs = append(evs, &api.LogEvent{Timestamp: int64(i + 1), Message: fmt.Sprintf("%s %s %d", words[i%2], words[2+(i/2)%2], i)})
	}
	var wr api.WriteResult
	if err := srv.Client.Write(ctx, "lt=p1", "", evs, &wr); err != nil || wr.Err != nil {
		res.Note("lifetime: the set-up write failed: %v %v", err, wr.Err)
		return
	}
	srv.FlushWait()
	prev := runtime.GOMAXPROCS(1)
	defer runtime.GOMAXPROCS(prev)
	rounds := 1
	if len(cases) == 1 {
		rounds = 6 // a replayed case: from the second round on at the latest the first request's buffer is the next one's
	}
	msgs := func(r *api.QueryResult) string {
		var l []string
		for _, e := range r.Events {
			l = append(l, e.Message)
		}
		return strings.Join(l, "|")
	}
	for _, c := range cases {
		for r := 0; r < rounds; r++ {
			pad := ` AND NOT msg contains "` + strings.Repeat("p", c.Pad) + `"`
			q := func(w string) string { return `select from lt=p1 where msg contains "` + w + `"` + pad }
			var r1 api.QueryResult
			if err := srv.Client.Query(ctx, &api.QueryRequest{Query: q(c.First), Limit: 2, WaitTimeout: 1}, &r1); err != nil || r1.Err != nil || len(r1.Events) != 2 {
				res.Note("lifetime: first request %q failed: %v %v (%d events)", c.First, err, r1.Err, len(r1.Events))
				continue
			}
			rq := r1.NextQueryRequest
			rq.Query, rq.WaitTimeout, rq.Limit = q(c.Second), 0, 1000
			var r2, r3 api.QueryResult
			err2 := srv.Client.Query(ctx, &rq, &r2)
			fq := rq
			fq.ReqId = 0
			err3 := srv.Client.Query(ctx, &fq, &r3)
			res.Eval(sec, fmt.Sprint(c, r))
			same := err2 == nil && err3 == nil && (r2.Err == nil) == (r3.Err == nil) && msgs(&r2) == msgs(&r3)
			res.Dist(sec, fmt.Sprintf("held-reqid-reused same=%v", same))
			if verbose {
				fmt.Printf("lifetime %v round %d: held=%q fresh=%q err=%v/%v/%v/%v\n", c, r, msgs(&r2), msgs(&r3), err2, r2.Err, err3, r3.Err)
			}
			if !same {
				res.SpecFail(vh.SpecFailure{Section: "lifetime", Kind: "request-buffer-reused", Input: c,
					Impl: fmt.Sprintf("with the held ReqId: %.200s (err %v %v)", msgs(&r2), err2, r2.Err), Spec: fmt.Sprintf("as without a ReqId: %.200s (err %v %v)", msgs(&r3), err3, r3.Err),
					What: "a request that names the ReqId of a held cursor with another query of equal length is answered from the OLD query's cursor: the held cursor's query text lives in a request buffer that was given back to the pool and now holds the new request (a decoded string outlived its buffer)"})
				return
			}
		}
	}
}

func sectionLifetime(rng *vh.Rng) {
	sec := res.Section("lifetime", "system-correspondence",
		"the life of the request buffer: a query with WaitTimeout > 0 leaves a held cursor; the next request names its ReqId and position with ANOTHER query of equal length (padded into the same size class of the server's buffer pool: 30 / 150 / 460 bytes of padding), under GOMAXPROCS(1); oracle: the answer equals the answer to the same request without a ReqId. non-trivial = every case")
	var cases []lifetimeCase
	pairs := [][2]string{{"aaa", "bbb"}, {"bbb", "aaa"}, {"one", "two"}, {"two", "one"}, {"aaa", "two"}, {"one", "bbb"}}
	n := 2
	if args.Thorough {
		n = 12
	}
	for k := 0; k < n; k++ {
		for _, p := range pairs {
			cases = append(cases, lifetimeCase{p[0], p[1], []int{30, 150, 460, 40}[(k+len(cases))%4]})
		}
	}
	_ = rng
	runLifetime(sec, cases, false)
	res.Done(sec)
}
