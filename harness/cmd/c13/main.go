// C13 harness — no request content can crash the server-side decoders and evaluators.
//
// Every implementation call runs in its own goroutine under recover with a deadline; the outcome is one of
// {ok, err, panic, timeout}. The same bytes go to the Lean model (lrmodel_c13); outcomes and, when ok, the decoded
// content are compared (IMPL vs MODEL). The SPEC oracle of "never panics / always answers" is simply: the outcome is
// ok or err. F13 (length varint >= 2^63 - idx in an api/rpc decoder) and F44 (unquoting lengthens a field value beyond 255
// bytes) are FIXED (dbbc1a7, 72eac47): their witnesses stay in the corpus and must pass; a panic / malformed stored list
// that the model (which follows the regenerated facts) shows too and that satisfies the old class predicate is tagged with
// the old id, so that the orchestrator reports "the defect is back".
//
// Sections
//
//	corpus    witnesses of the open findings and past failures, replayed first
//	wire      write packets / query requests / api events / stored records / query results: valid encodings made by the
//	          real encoders, EVERY truncation, EVERY single-length-field corruption, random bytes — real decoders vs model;
//	          encoders vs model; every event a packet stores must have decodable fields (Check, AsKVString)
//	fields    Fields.Value / AsKVString / Check on well-formed lists (spec: total) and on arbitrary bytes (model only);
//	          the builder loop of NewFieldsFromKVString vs model with the real split/trim/unquote as oracles
//	escjson   EscapeJsonStr on random bytes incl. U+FFFD and invalid UTF-8: terminates, equals the model, and the
//	          output is a JSON string that decodes to the input with invalid bytes replaced
//	pos       position strings of every length 0..30 over {hex, non-hex, ':', '='} + structured ones: journal.ParsePos,
//	          crsr.applyStatePos vs model
//	robust    ROBUSTNESS TEST (participle / regexp / kvstring / strconv internals are not modelled): LQL texts
//	          (grammar-like, mutated, nested to depth 2000), tag lines, kv strings, format strings, filters evaluated on
//	          events — under recover; nesting depth vs the model's depth counter; F25 demonstrated in a child process
//	e2e       hostile Write/Query/Execute requests (typed client and raw bodies) against a real server in a CHILD
//	          process per batch (a crash of the server is then an observation, not the end of the harness)
package main

import (
	"bytes"
	"encoding/json"
	"fmt"
	"os"
	"runtime/debug"
	"sort"
	"strconv"
	"strings"
	"sync"
	"time"

	"github.com/logrange/logrange/api"
	"github.com/logrange/logrange/api/rpc"
	"github.com/logrange/logrange/pkg/model"
	"github.com/logrange/logrange/pkg/model/field"
	"github.com/logrange/logrange/pkg/utils/kvstring"
	"github.com/logrange/range/pkg/utils/encoding/xbinary"
	"verifharness/internal/vh"
)

var (
	args vh.Args
	res  *vh.Result
)

const callDeadline = 8 * time.Second // generous: a loaded machine must not turn a slow call into a "hang"

// ---------------------------------------------------------------------------------------------
// guarded calls

type callRes struct {
	Kind string // ok | err | panic | timeout
	Val  string
}

// guarded runs f under recover with a deadline. f returns the canonical value and the error of the call.
func guarded(f func() (string, error)) callRes {
	ch := make(chan callRes, 1)
	go func() {
		defer func() {
			if r := recover(); r != nil {
				ch <- callRes{"panic", fmt.Sprint(r)}
			}
		}()
		v, err := f()
		if err != nil {
			ch <- callRes{"err", err.Error()}
			return
		}
		ch <- callRes{"ok", v}
	}()
	t := time.NewTimer(callDeadline)
	select {
	case r := <-ch:
		t.Stop()
		return r
	case <-t.C:
		return callRes{"timeout", ""}
	}
}

func (c callRes) line() string {
	if c.Kind == "ok" {
		return strings.TrimRight("ok "+c.Val, " ")
	}
	return c.Kind
}

// model answers: "ok …" | "err" | "panic f13=0|1" | "fuel"
func modelKind(ans string) string {
	switch {
	case strings.HasPrefix(ans, "ok"):
		return "ok"
	case strings.HasPrefix(ans, "panic"):
		return "panic"
	case ans == "fuel":
		return "timeout"
	}
	return ans
}

func parallel(n int, f func(i int)) {
	var wg sync.WaitGroup
	sem := make(chan struct{}, 16)
	for i := 0; i < n; i++ {
		wg.Add(1)
		sem <- struct{}{}
		go func(i int) {
			defer wg.Done()
			defer func() { <-sem }()
			f(i)
		}(i)
	}
	wg.Wait()
}

func batch(lines []string) []string {
	out, err := vh.Batch(args.Driver, lines)
	if err != nil {
		res.Fatal(args.Out, "driver: %v", err)
	}
	return out
}

// ---------------------------------------------------------------------------------------------
// wire: inputs

type wireCase struct {
	Kind string `json:"kind"` // wp | qreq | le | ev | qres
	Hex  string `json:"hex"`
	How  string `json:"how,omitempty"` // valid | trunc | corrupt | random
}

func (c wireCase) bytes() []byte { return vh.UnHx(c.Hex) }

var lenValues = []uint64{0, 1, 0x7f, 0x80, 1 << 31, 1<<63 - 1, 1 << 63, 1<<64 - 1, 1<<63 - 2, 1<<63 - 11, 1<<64 - 2}

func varint(v uint64) []byte {
	var b []byte
	for {
		if v > 127 {
			b = append(b, byte(128|(v&127)))
		} else {
			return append(b, byte(v))
		}
		v >>= 7
	}
}

type lenPos struct {
	off, n int
	v      uint64
}

// layout describes where the length fields of a valid encoding are: fixed-width skips (positive numbers) and
// length-prefixed strings (-1), a count field (-4: four bytes, followed by that many repetitions of rep).
func walk(buf []byte, layout []int, rep []int) (lens []lenPos, counts []int) {
	off := 0
	var run func(l []int) bool
	run = func(l []int) bool {
		for _, x := range l {
			switch {
			case x > 0:
				off += x
			case x == -1:
				if off > len(buf) {
					return false
				}
				n, v, err := xbinary.UnmarshalUint(buf[off:])
				if err != nil {
					return false
				}
				lens = append(lens, lenPos{off, n, uint64(v)})
				off += n + int(v)
			case x == -4:
				if off+4 > len(buf) {
					return false
				}
				_, c, _ := xbinary.UnmarshalUint32(buf[off:])
				counts = append(counts, off)
				off += 4
				for i := 0; i < int(c); i++ {
					if !run(rep) {
						return false
					}
				}
			}
		}
		return true
	}
	run(layout)
	return
}

var layouts = map[string][2][]int{
	"wp":   {{-1, -1, -4}, {8, -1, -1, -1}},
	"qreq": {{8, -1, -1, 2, 4, 4}, nil},
	"le":   {{8, -1, -1, -1}, nil},
	"ev":   {{1, 8, -1, -1}, nil},
	"qres": {{-4, 8, -1, -1, 2, 4, 4}, {8, -1, -1, -1}},
}

// variants: the valid encoding, every truncation, every single-length-field corruption
func variants(kind string, buf []byte) []wireCase {
	vs := []wireCase{{kind, vh.Hx(buf), "valid"}}
	for cut := 0; cut < len(buf); cut++ {
		// big encodings (boundary sizes 16383/16384…): the first and last 12 cuts and six in between
		if len(buf) > 700 && cut >= 12 && cut < len(buf)-12 && cut%(len(buf)/6+1) != 0 {
			continue
		}
		vs = append(vs, wireCase{kind, vh.Hx(buf[:cut]), "trunc"})
	}
	ly := layouts[kind]
	lens, counts := walk(buf, ly[0], ly[1])
	for _, lp := range lens {
		vals := append([]uint64{lp.v + 1}, lenValues...)
		if lp.v > 0 {
			vals = append(vals, lp.v-1)
		}
		for _, v := range vals {
			if v == lp.v {
				continue
			}
			nb := append(append(append([]byte{}, buf[:lp.off]...), varint(v)...), buf[lp.off+lp.n:]...)
			vs = append(vs, wireCase{kind, vh.Hx(nb), "corrupt"})
		}
	}
	for _, off := range counts {
		_, c, _ := xbinary.UnmarshalUint32(buf[off:])
		for _, v := range []uint32{0, 1, c + 1, c - 1, 0x7f, 0x80, 1 << 31, 1<<32 - 1} {
			if v == c {
				continue
			}
			nb := append([]byte{}, buf...)
			xbinary.MarshalUint32(v, nb[off:])
			vs = append(vs, wireCase{kind, vh.Hx(nb), "corrupt"})
		}
	}
	return vs
}

// fieldsOfSize builds a well-formed binary field list of exactly total bytes (0, or >= 3): pairs of a 1-byte key and a value of up
// to 255 bytes.
func fieldsOfSize(total int) field.Fields {
	var sb strings.Builder
	pair := func(cost int) { // cost = 2 + 1 + len(value)
		sb.WriteByte(1)
		sb.WriteByte('k')
		sb.WriteByte(byte(cost - 3))
		sb.WriteString(strings.Repeat("v", cost-3))
	}
	r := total
	for r-258 >= 3 {
		pair(258)
		r -= 258
	}
	if r > 258 {
		pair(100)
		r -= 100
	}
	if r >= 3 {
		pair(r)
	}
	return field.Fields(sb.String())
}

// generator pools
var tagPool = []string{"a=b", "", "x=y,z=1", "{a=b}", "name=app1,ip=\"1.2.3.4\"", "a=\xff", "dir=C:\\logs\\", "{app=a,dir=C:\\logs\\}", "p=a\\,q=b"}
var msgPool = []string{"", "hello", "\x00\xff", "line\n", strings.Repeat("m", 130), "é", "\xef\xbf\xbd", "{\"k\":\"v\"}"}
var tsPool = []int64{0, -1, 1, 1 << 62, -1 << 63, 1<<63 - 1, 1568000000000000000}

func fieldPool(rng *vh.Rng) string {
	basic := []string{"a=b", "", "c=d,e=f", `k="x,y"`, "{z=1}", "oops", `q="unclosed`, " sp = v ", "a=", "=b", "kind=level", "kind=level,x=y", "level=x", "kind=other,level=x", "f=f",
		// back-slashes OUTSIDE quotes (a Windows directory), as the last byte, before the closing brace, before a separator, alone
		"dir=C:\\logs\\", "{dir=C:\\logs\\}", "a=b\\,c=d", "a\\=b", "\\", "a=\\", `k="x\`, `k="x\"`, "a=b\\\\", "kind=user", "dir=C:\\logs\\,kind=user",
		strings.Repeat("k", 256) + "=v", "a=" + strings.Repeat("v", 255), "a=" + strings.Repeat("v", 256), "a=`raw`", `a="é\x41"`}
	if rng.Chance(3, 4) {
		return rng.PickS(basic)
	}
	// boundary-directed: quoted values near the 255 limit whose unquoted form has another length
	n := rng.PickI([]int{1, 83, 84, 85, 86, 126, 127, 128, 251, 252, 253})
	fill := rng.PickS([]string{"v", "\xff", "é", "\\n", "\\u00e9", "\xc3"})
	q := rng.PickS([]string{`"`, "`", ""})
	v := strings.Repeat(fill, n)
	if len(v) > 253 {
		v = v[:253]
	}
	return "f=" + q + v + q
}

func genEvents(rng *vh.Rng, max int) []*api.LogEvent {
	n := rng.Intn(max + 1)
	evs := []*api.LogEvent{}
	for k := 0; k < n; k++ {
		evs = append(evs, &api.LogEvent{Timestamp: rng.PickI64(tsPool), Message: rng.PickS(msgPool), Tags: rng.PickS([]string{"", "t=1"}), Fields: fieldPool(rng)})
	}
	return evs
}

func genQueryRequest(rng *vh.Rng) *api.QueryRequest {
	return &api.QueryRequest{ReqId: rng.U64() >> uint(rng.Intn(64)), Query: rng.PickS([]string{"", "select limit 10", "select from a=b where msg contains \"x\"", "\xff\x00"}),
		Pos: rng.PickS([]string{"", "tail", "head", "j=000000000000000a0000000b", "j=1:k=2"}), WaitTimeout: rng.PickI([]int{0, 1, 60, 65535}),
		Offset: rng.PickI([]int{0, 1, -1, 1<<31 - 1, -1 << 31}), Limit: rng.PickI([]int{0, 1, 10000, 1<<32 - 1})}
}

// ---------------------------------------------------------------------------------------------
// wire: implementation side

func showEvs(evs []rpc.VerifC13Event) string {
	var sb strings.Builder
	for _, e := range evs {
		fmt.Fprintf(&sb, " %d/%s/%s", e.Ts, vh.HxS(e.Msg), vh.HxS(e.Fields))
	}
	return sb.String()
}

func showApiEv(e *api.LogEvent) string {
	return fmt.Sprintf("%d/%s/%s/%s", uint64(e.Timestamp), vh.HxS(e.Message), vh.HxS(e.Tags), vh.HxS(e.Fields))
}

func showReq(q *api.QueryRequest) string {
	return fmt.Sprintf("%d %s %s %d %d %d", q.ReqId, vh.HxS(q.Query), vh.HxS(q.Pos), q.WaitTimeout, q.Offset, q.Limit)
}

type wpImpl struct {
	res callRes
	evs []rpc.VerifC13Event
}

// pooledCopy places the request bytes at the start of a larger buffer whose remaining capacity holds poison bytes: this is how
// the rpc server hands bodies to the handlers (bucketed pool: cap > len, stale bytes of earlier requests behind len). A Go
// slice expression is bounded by the capacity, so a decoder that slices without comparing with len(buf) reads those bytes.
func pooledCopy(b []byte) []byte {
	full := make([]byte, len(b)+48)
	copy(full, b)
	for i := len(b); i < len(full); i++ {
		full[i] = []byte{0x00, 0x01, 0x02, 0xA5}[i%4]
	}
	return full[:len(b)]
}

// exactCopy has cap == len (a body that fills its pool bucket exactly): any access behind len panics.
func exactCopy(b []byte) []byte {
	e := make([]byte, len(b))
	copy(e, b)
	return e[:len(b):len(b)]
}

func implWire(c wireCase) (callRes, []rpc.VerifC13Event) { return implWireBuf(c, exactCopy(c.bytes())) }

func implWireBuf(c wireCase, buf []byte) (callRes, []rpc.VerifC13Event) {
	var stored []rpc.VerifC13Event
	r := guarded(func() (string, error) {
		switch c.Kind {
		case "wp":
			tags, evs, err := rpc.VerifC13DecodeWritePacket(buf)
			if err == rpc.ErrVerifC13Runaway {
				panic("runaway: the iterator delivers more events than the body has bytes (it would go on for up to 2^32-1 events)")
			}
			if err != nil {
				return "", err
			}
			stored = evs
			return strings.TrimRight(fmt.Sprintf("%s %d%s", vh.HxS(tags), len(evs), showEvs(evs)), " "), nil
		case "qreq":
			n, q, err := rpc.VerifC13UnmarshalQueryRequest(buf)
			return fmt.Sprintf("%d %s", n, showReq(&q)), err
		case "le":
			n, e, err := rpc.VerifC13UnmarshalLogEvent(buf)
			return fmt.Sprintf("%d %s", n, showApiEv(&e)), err
		case "ev":
			var le model.LogEvent
			n, err := le.Unmarshal(buf, true)
			return fmt.Sprintf("%d %d/%s/%s", n, uint64(le.Timestamp), vh.Hx(le.Msg), vh.HxS(string(le.Fields))), err
		case "qres":
			n, q, err := rpc.VerifC13UnmarshalQueryResult(buf)
			if err != nil {
				return "", err
			}
			parts := make([]string, len(q.Events))
			for i, e := range q.Events {
				parts[i] = showApiEv(e)
			}
			return fmt.Sprintf("%d %d %s | %s", n, len(q.Events), strings.Join(parts, " "), showReq(&q.NextQueryRequest)), nil
		}
		return "", fmt.Errorf("unknown kind")
	})
	return r, stored
}

var modelOp = map[string]string{"wp": "wpdecode", "qreq": "qreq", "le": "le.unmarshal", "ev": "ev.unmarshal", "qres": "qres"}

// kvAnswer is the real field.NewFieldsFromKVString on a text, as a table entry for the driver
func kvAnswer(text []byte) string {
	r := guarded(func() (string, error) {
		f, err := field.NewFieldsFromKVString(string(text))
		return vh.HxS(string(f)), err
	})
	if r.Kind != "ok" {
		return vh.Hx(text) + ":!"
	}
	return vh.Hx(text) + ":" + r.Val
}

// kvBuild is the real field.NewFieldsFromKVString under recover. C13 is about exactly this call not panicking on request text, so a
// panic here is an observation (remembered in kvPanics and reported, with the text as a replayable robust/kv case, by
// flushKvPanics) and never the end of the harness.
var (
	kvPanics   []string
	kvPanicsMu sync.Mutex
)

func kvBuild(kv string) (f field.Fields, err error) {
	if p := vh.Recover(func() { f, err = field.NewFieldsFromKVString(kv) }); p != "" {
		kvPanicsMu.Lock()
		kvPanics = append(kvPanics, kv)
		kvPanicsMu.Unlock()
		return "", fmt.Errorf("panic: %s", p)
	}
	return f, err
}

// flushKvPanics reports the (distinct, at most 8) texts on which an unguarded-looking harness call of NewFieldsFromKVString panicked
func flushKvPanics(sec *vh.Section) {
	kvPanicsMu.Lock()
	ps := kvPanics
	kvPanics = nil
	kvPanicsMu.Unlock()
	seen := map[string]bool{}
	var cases []robustCase
	for _, kv := range ps {
		if !seen[kv] && len(cases) < 8 {
			seen[kv] = true
			cases = append(cases, robustCase{"kv", vh.HxS(kv)})
		}
	}
	if len(cases) > 0 {
		runRobust(sec, cases, false)
	}
}

// expandsOnUnquote is the class predicate of F44 evaluated on the real splitting/unquoting: some item of a KV text
// is at most 255 bytes long, starts with a quote, and strconv.Unquote makes it longer than 255 bytes.
func expandsOnUnquote(texts [][]byte) bool {
	for _, t := range texts {
		hit := false
		vh.Recover(func() {
			fine, err := kvstring.RemoveCurlyBraces(string(t))
			if err != nil || len(fine) == 0 {
				return
			}
			parts, err := kvstring.SplitString(fine, '=', ',', nil)
			if err != nil {
				return
			}
			for _, p := range parts {
				v := kvstring.TrimSpaces(p)
				if len(p) <= 255 && len(v) > 0 && (v[0] == '"' || v[0] == '`') {
					if u, err := strconv.Unquote(v); err == nil && len(u) > 255 {
						hit = true
					}
				}
			}
		})
		if hit {
			return true
		}
	}
	return false
}

// storedDecodable: SPEC for "never stores an event whose fields a later read cannot decode"
func storedDecodable(fields string) (ok bool, why string) {
	r := guarded(func() (string, error) {
		if _, err := field.Check(fields); err != nil {
			return "", err
		}
		f := field.Fields(fields)
		_ = f.AsKVString()
		_ = f.Value("f")
		return "", nil
	})
	switch r.Kind {
	case "ok":
		return true, ""
	case "err":
		// Check refuses it; what does the reader do?
		r2 := guarded(func() (string, error) { return field.Fields(fields).AsKVString(), nil })
		return false, "field.Check rejects the stored fields; AsKVString: " + r2.Kind
	}
	return false, "reading the stored fields: " + r.Kind + " " + r.Val
}

// runWire compares a set of cases; returns the number of spec failures it reported
func runWire(sec *vh.Section, cases []wireCase, verbose bool) {
	impls := make([]callRes, len(cases))
	pooled := make([]callRes, len(cases)) // the same bytes in a buffer with spare capacity holding poison bytes
	stored := make([][]rpc.VerifC13Event, len(cases))
	parallel(len(cases), func(i int) {
		c := cases[i]
		if c.Kind == "qres" {
			// client-side decoder: a hostile count makes it allocate count*8 bytes before reading anything — skip those
			b := c.bytes()
			if len(b) >= 4 {
				if _, n, _ := xbinary.UnmarshalUint32(b); n > 1<<16 {
					impls[i] = callRes{"skip", ""}
					return
				}
			}
		}
		impls[i], stored[i] = implWire(c)
		pooled[i], _ = implWireBuf(c, pooledCopy(c.bytes()))
	})
	// pass 1: the KV texts of the write packets
	var l1 []string
	var idx1 []int
	for i, c := range cases {
		if c.Kind == "wp" {
			l1 = append(l1, "wptexts "+c.Hex)
			idx1 = append(idx1, i)
		}
	}
	a1 := batch(l1)
	texts := make([][][]byte, len(cases))
	tables := make([]string, len(cases))
	parallel(len(idx1), func(k int) {
		i := idx1[k]
		var ts [][]byte
		var tb []string
		for _, t := range strings.Fields(a1[k]) {
			b := vh.UnHx(t)
			ts = append(ts, b)
			tb = append(tb, kvAnswer(b))
		}
		if len(ts) == 0 || len(a1[k]) > 0 {
			// the empty text is always a possible field text
			tb = append(tb, kvAnswer(nil))
		}
		texts[i] = ts
		tables[i] = strings.Join(tb, " ")
	})
	// pass 2: decode
	l2 := make([]string, len(cases))
	for i, c := range cases {
		l2[i] = modelOp[c.Kind] + " " + c.Hex
		if c.Kind == "wp" {
			l2[i] += " " + tables[i]
		}
	}
	a2 := batch(l2)
	// pass 3: model's view of stored fields that the implementation could not decode
	type sf struct {
		i      int
		fields string
		why    string
	}
	var bad []sf
	var mu sync.Mutex
	parallel(len(cases), func(i int) {
		for _, e := range stored[i] {
			if e.Fields == "" {
				continue
			}
			if ok, why := storedDecodable(e.Fields); !ok {
				mu.Lock()
				bad = append(bad, sf{i, e.Fields, why})
				mu.Unlock()
				break
			}
		}
	})
	sort.Slice(bad, func(a, b int) bool { return bad[a].i < bad[b].i })
	var l3 []string
	for _, b := range bad {
		l3 = append(l3, "f.check "+vh.HxS(b.fields), "f.items "+vh.HxS(b.fields))
	}
	a3 := batch(l3)

	for i, c := range cases {
		im := impls[i]
		if im.Kind == "skip" {
			continue
		}
		key := ""
		if len(c.Hex) > 1 {
			key = c.Kind + c.Hex
			if len(key) > 200 {
				key = key[:200] + fmt.Sprint(len(key))
			}
		}
		res.Eval(sec, key)
		res.Dist(sec, c.Kind+"/"+c.How+"/"+im.Kind)
		mk := modelKind(a2[i])
		if verbose {
			fmt.Printf("%s %s\n  impl : %s\n  model: %s\n", c.Kind, c.Hex, im.line(), a2[i])
		}
		// the outcome must not depend on what lies behind len(buf): same bytes, spare capacity with poison bytes
		if po := pooled[i]; po.line() != im.line() && !(po.Kind == "panic" && im.Kind == "panic") {
			res.Dist(sec, c.Kind+"/"+c.How+"/pooled-differs")
			res.SpecFail(vh.SpecFailure{Section: "wire", Kind: "reads-outside-buffer", Input: c,
				Impl: "cap>len (poison behind len): " + po.line() + " || cap==len: " + im.line(), Spec: "the same outcome for the same request bytes", Model: a2[i],
				ImplEqModel: false, What: "decoder " + modelOp[c.Kind] + " reads bytes behind the end of the request buffer (its outcome depends on the spare capacity of the buffer)"})
			if w := map[bool]string{true: "panic", false: a2[i]}[mk == "panic"]; po.line() != w {
				res.Mismatch(vh.Mismatch{Section: "wire", Function: modelOp[c.Kind] + " (buffer with spare capacity)", Input: c, Impl: po.line(), Model: a2[i]})
			}
		}
		if c.Kind == "ev" && im.Kind == "panic" && mk == "panic" && strings.Contains(a2[i], "f13=1") {
			// remark, not a failure of C13: model.LogEvent.Unmarshal (pkg/model) keeps the direct library call; it is applied only to
			// records the server marshalled itself, never to request bytes (Props.C13.record_decode_total_partial / cex_record_varint)
			res.Dist(sec, "ev/"+c.How+"/library-varint-panic (remark: stored-record decoder, not reachable from requests)")
			continue
		}
		if im.Kind == "panic" || im.Kind == "timeout" {
			f := vh.SpecFailure{Section: "wire", Kind: map[string]string{"panic": "panic", "timeout": "hang"}[im.Kind], Input: c,
				Impl: im.Kind + " " + im.Val, Spec: "a result or an error", Model: a2[i], ImplEqModel: mk == im.Kind,
				What: "decoder " + modelOp[c.Kind] + " does not answer with a result or an error on these request bytes"}
			if im.Kind == "panic" && mk == "panic" && strings.Contains(a2[i], "f13=1") {
				f.Finding = "F13"
			}
			res.SpecFail(f)
			if mk != im.Kind {
				res.Mismatch(vh.Mismatch{Section: "wire", Function: modelOp[c.Kind], Input: c, Impl: im.line(), Model: a2[i]})
			}
			continue
		}
		want := a2[i]
		if mk == "panic" {
			want = "panic"
		}
		if im.line() != want {
			res.Mismatch(vh.Mismatch{Section: "wire", Function: modelOp[c.Kind], Input: c, Impl: im.line(), Model: a2[i]})
		}
	}
	for k, b := range bad {
		c := cases[b.i]
		mcheck, mitems := a3[2*k], a3[2*k+1]
		f := vh.SpecFailure{Section: "wire", Kind: "stored-fields-undecodable", Input: c, Impl: b.why,
			Spec:  "every event a Write stores has a field list that field.Check accepts and AsKVString/Value can read",
			Model: "check=" + mcheck + " items=" + modelKind(mitems), ImplEqModel: mcheck == "0",
			What: "a Write request is accepted and stores an event whose binary field list is malformed; reading it back (AsKVString in the query path) fails"}
		if f.ImplEqModel && expandsOnUnquote(texts[b.i]) {
			f.Finding = "F44"
		}
		res.SpecFail(f)
	}
}

func sectionWire(rng *vh.Rng) {
	sec := res.Section("wire", "unit-correspondence",
		"write packets (0..3 events, field texts incl. quoted values around the 255-byte limit), query requests, api events, stored records and query results encoded by the real encoders; for each: the valid bytes, EVERY truncation, EVERY single length/count field replaced by {0,1,len±1,0x7f,0x80,2^31,2^63-11,2^63-2,2^63-1,2^63,2^64-2,2^64-1}; plus random byte strings; real decoder under recover+deadline vs Lean model (outcome kind and decoded content); non-trivial = non-empty input, distinct by bytes")
	n := 330
	if args.Thorough {
		n = 3200
	}
	var cases []wireCase
	var encLines, encImpl []string
	var encCases []wireCase
	for i := 0; i < n; i++ {
		tags, flds, evs := rng.PickS(tagPool), fieldPool(rng), genEvents(rng, 3)
		buf := rpc.VerifC13EncodeWritePacket(tags, flds, evs)
		cases = append(cases, variants("wp", buf)...)
		l := fmt.Sprintf("wpencode %s %s", vh.HxS(tags), vh.HxS(flds))
		for _, e := range evs {
			l += fmt.Sprintf(" %d %s %s %s", uint64(e.Timestamp), vh.HxS(e.Message), vh.HxS(e.Tags), vh.HxS(e.Fields))
		}
		encLines, encImpl, encCases = append(encLines, l), append(encImpl, vh.Hx(buf)), append(encCases, wireCase{"wp", vh.Hx(buf), "encode"})
		if i < 2 {
			res.Sample(map[string]interface{}{"section": "wire", "tags": tags, "fields": flds, "events": len(evs), "packet": vh.Hx(buf)})
		}
		if i%3 == 0 {
			q := genQueryRequest(rng)
			qb := rpc.VerifC13WriteQueryRequest(q)
			cases = append(cases, variants("qreq", qb)...)
			encLines = append(encLines, fmt.Sprintf("qreq.write %d %s %s %d %d %d", q.ReqId, vh.HxS(q.Query), vh.HxS(q.Pos), q.WaitTimeout, q.Offset, q.Limit))
			encImpl, encCases = append(encImpl, vh.Hx(qb)), append(encCases, wireCase{"qreq", vh.Hx(qb), "encode"})
			evs2 := genEvents(rng, 2)
			rb := rpc.VerifC13WriteQueryResult(&api.QueryResult{Events: evs2, NextQueryRequest: *q})
			cases = append(cases, variants("qres", rb)...)
		}
		if i%3 == 1 {
			e := &api.LogEvent{Timestamp: rng.PickI64(tsPool), Message: rng.PickS(msgPool), Tags: rng.PickS(tagPool), Fields: fieldPool(rng)}
			eb := rpc.VerifC13WriteLogEvent(e)
			cases = append(cases, variants("le", eb)...)
			encLines = append(encLines, fmt.Sprintf("le.write %d %s %s %s", uint64(e.Timestamp), vh.HxS(e.Message), vh.HxS(e.Tags), vh.HxS(e.Fields)))
			encImpl, encCases = append(encImpl, vh.Hx(eb)), append(encCases, wireCase{"le", vh.Hx(eb), "encode"})
		}
		if i%3 == 2 {
			f, _ := kvBuild(rng.PickS([]string{"", "a=b", "k=v,x=y"}))
			msg := []byte(rng.PickS(msgPool))
			if i%12 == 2 {
				// sizes around the varint boundaries of the two length prefixes
				f = fieldsOfSize(rng.PickI([]int{0, 3, 126, 127, 128, 129, 16382, 16383, 16384, 16385, 20000}))
				msg = bytes.Repeat([]byte{'m'}, rng.PickI([]int{0, 5, 127, 128, 16383, 16384}))
			}
			le := model.LogEvent{Timestamp: rng.PickI64(tsPool), Msg: msg, Fields: f}
			eb := make([]byte, le.WritableSize())
			// what partition's iwrapper does: a buffer of WritableSize() bytes, Marshal into it (iwrapper ignores the error)
			n, merr := le.Marshal(eb)
			res.Dist(sec, fmt.Sprintf("ev/marshal fields=%d msg=%d", len(f), len(msg)))
			if merr != nil || n != len(eb) {
				res.SpecFail(vh.SpecFailure{Section: "wire", Kind: "stored-record-undecodable", Input: map[string]interface{}{"fields_bytes": len(f), "msg_bytes": len(msg), "fields": vh.HxS(string(f))},
					Impl: fmt.Sprintf("WritableSize=%d, Marshal wrote %d, err=%v", len(eb), n, merr), Spec: "Marshal fills a buffer of WritableSize() bytes without error",
					What: "LogEvent.WritableSize() does not match what Marshal needs: the record buffer the partition sizes with it (iwrapper ignores Marshal's error) is stored truncated and no later read of the partition can decode it"})
			}
			cases = append(cases, variants("ev", eb)...)
			encLines = append(encLines, fmt.Sprintf("ev.marshal %d %s %s", uint64(le.Timestamp), vh.Hx(le.Msg), vh.HxS(string(f))))
			encImpl, encCases = append(encImpl, vh.Hx(eb)), append(encCases, wireCase{"ev", vh.Hx(eb), "encode"})
		}
		// random bytes into every decoder
		rb := make([]byte, rng.Intn(40))
		for j := range rb {
			rb[j] = byte(rng.PickI([]int{0, 1, 2, 0x7f, 0x80, 0xff, 0x20, 0x21, rng.Intn(256)}))
		}
		for _, k := range []string{"wp", "qreq", "le", "ev", "qres"} {
			cases = append(cases, wireCase{k, vh.Hx(rb), "random"})
		}
	}
	runWire(sec, cases, false)
	flushKvPanics(sec)
	// encoders
	ea := batch(encLines)
	for i := range ea {
		res.Eval(sec, "enc"+encImpl[i])
		res.Dist(sec, encCases[i].Kind+"/encode")
		if ea[i] != encImpl[i] {
			res.Mismatch(vh.Mismatch{Section: "wire", Function: "encoder " + strings.Fields(encLines[i])[0], Input: encLines[i], Impl: encImpl[i], Model: ea[i]})
		}
	}
	res.Done(sec)
}

// ---------------------------------------------------------------------------------------------
// corpus and replay

type corpusEntry struct {
	Section string          `json:"section"`
	Input   json.RawMessage `json:"input"`
}

func runEntry(e corpusEntry, sec *vh.Section, verbose bool) {
	switch e.Section {
	case "wire":
		var c wireCase
		json.Unmarshal(e.Input, &c)
		runWire(sec, []wireCase{c}, verbose)
	case "fields":
		var c fieldsCase
		json.Unmarshal(e.Input, &c)
		runFields(sec, []fieldsCase{c}, verbose)
	case "escjson":
		var c strCase
		json.Unmarshal(e.Input, &c)
		runEscJSON(sec, []strCase{c}, verbose)
	case "pos":
		var c strCase
		json.Unmarshal(e.Input, &c)
		runPos(sec, []strCase{c}, verbose)
	case "robust":
		var c robustCase
		json.Unmarshal(e.Input, &c)
		runRobust(sec, []robustCase{c}, verbose)
	case "nesting":
		var c nestCase
		json.Unmarshal(e.Input, &c)
		runNesting(sec, c, verbose)
	case "admin":
		var c adminCase
		json.Unmarshal(e.Input, &c)
		runAdmin(sec, []adminCase{c}, verbose)
	case "nesting-hole":
		var c holeCase
		json.Unmarshal(e.Input, &c)
		runNestingHole(sec, c, verbose)
	case "lifetime":
		var c lifetimeCase
		json.Unmarshal(e.Input, &c)
		runLifetime(sec, []lifetimeCase{c}, verbose)
	case "e2e":
		var b e2eBatch
		json.Unmarshal(e.Input, &b)
		runE2EBatch(sec, b, verbose)
	default:
		res.Note("corpus/replay: unknown section %q", e.Section)
	}
}

func sectionCorpus() {
	sec := res.Section("corpus", "corpus", "witnesses of the open findings (F13, F25, F44) and minimised past failures, replayed through the section they belong to")
	for _, f := range vh.CorpusFiles(args.Corpus) {
		var e corpusEntry
		if err := vh.ReadJSON(f, &e); err != nil {
			res.Note("corpus: %s: %v", f, err)
			continue
		}
		runEntry(e, sec, false)
	}
	res.Done(sec)
}

func replay(path string) {
	var e corpusEntry
	if err := vh.ReadJSON(path, &e); err != nil {
		res.Fatal(args.Out, "replay: %v", err)
	}
	sec := res.Section("replay", "replay", "replay of one recorded input")
	runEntry(e, sec, true)
	for _, f := range res.SpecFailures {
		fmt.Printf("SPEC-FAILURE kind=%s finding=%q impl=%s model=%s\n", f.Kind, f.Finding, f.Impl, f.Model)
	}
	for _, m := range res.Mismatches {
		fmt.Printf("MISMATCH %s impl=%s model=%s\n", m.Function, m.Impl, m.Model)
	}
	res.Write(args.Out)
}

func main() {
	debug.SetMemoryLimit(6 << 30)
	if os.Getenv("VERIF_C13_CHILD") != "" {
		childMain()
		return
	}
	args = vh.ParseArgs()
	res = vh.NewResult("C13", args)
	if args.Replay != "" {
		replay(args.Replay)
		return
	}
	rng := vh.NewRng(args.Seed)
	sectionCorpus()
	sectionWire(rng.Fork("wire"))
	sectionFields(rng.Fork("fields"))
	sectionEscJSON(rng.Fork("escjson"))
	sectionPos(rng.Fork("pos"))
	sectionRobust(rng.Fork("robust"))
	sectionAdmin(rng.Fork("admin"))
	sectionLifetime(rng.Fork("lifetime"))
	sectionE2E(rng.Fork("e2e"))
	res.Write(args.Out)
}
