package main

import (
	"bytes"
	"context"
	"encoding/hex"
	"encoding/json"
	"fmt"
	"io/ioutil"
	"os"
	"os/exec"
	"reflect"
	"runtime/debug"
	"sort"
	"strconv"
	"strings"
	"sync"
	"time"
	"unicode/utf8"

	"github.com/logrange/logrange/api"
	"github.com/logrange/logrange/api/rpc"
	"github.com/logrange/logrange/pkg/cursor"
	"github.com/logrange/logrange/pkg/lql"
	"github.com/logrange/logrange/pkg/model"
	"github.com/logrange/logrange/pkg/model/field"
	"github.com/logrange/logrange/pkg/model/tag"
	"github.com/logrange/logrange/pkg/utils"
	"github.com/logrange/logrange/pkg/utils/kvstring"
	"github.com/logrange/range/pkg/records"
	"github.com/logrange/range/pkg/records/journal"
	rrpc "github.com/logrange/range/pkg/rpc"
	"github.com/logrange/range/pkg/transport"
	"verifharness/internal/lrsrv"
	"verifharness/internal/vh"
)

// ---------------------------------------------------------------------------------------------
// fields

type fieldsCase struct {
	Fields string   `json:"fields"`       // hex of the binary field list
	Name   string   `json:"name"`         // hex
	WF     bool     `json:"wf"`           // produced by an ingestion-path constructor
	KV     []string `json:"kv,omitempty"` // the field texts the list was built from
}

func runFields(sec *vh.Section, cases []fieldsCase, verbose bool) {
	var lines []string
	impl := make([][3]callRes, len(cases))
	parallel(len(cases), func(i int) {
		f := field.Fields(vh.UnHx(cases[i].Fields))
		name := string(vh.UnHx(cases[i].Name))
		impl[i][0] = guarded(func() (string, error) { return vh.HxS(f.Value(name)), nil })
		impl[i][1] = guarded(func() (string, error) { return f.AsKVString(), nil })
		impl[i][2] = guarded(func() (string, error) {
			if _, err := field.Check(string(f)); err != nil {
				return "0", nil
			}
			return "1", nil
		})
	})
	for _, c := range cases {
		lines = append(lines, "f.value "+c.Fields+" "+c.Name, "f.items "+c.Fields, "f.check "+c.Fields)
	}
	ans := batch(lines)
	for i, c := range cases {
		mv, mi, mc := ans[3*i], ans[3*i+1], ans[3*i+2]
		key := ""
		if c.Fields != "-" {
			key = c.Fields + "/" + c.Name
		}
		res.Eval(sec, key)
		res.Dist(sec, fmt.Sprintf("wf=%v value=%s askv=%s", c.WF, impl[i][0].Kind, impl[i][1].Kind))
		if verbose {
			fmt.Printf("fields %s name %s\n  Value: impl=%s model=%s\n  AsKVString: impl=%s model=%s\n  Check: impl=%s model=%s\n", c.Fields, c.Name, impl[i][0].line(), mv, impl[i][1].Kind, mi, impl[i][2].Val, mc)
		}
		// Value
		if impl[i][0].line() != mv {
			res.Mismatch(vh.Mismatch{Section: "fields", Function: "Fields.Value", Input: c, Impl: impl[i][0].line(), Model: mv})
		}
		// AsKVString: same outcome kind; when ok the rendering of the model's items with the real quoting
		if impl[i][1].Kind != modelKind(mi) {
			res.Mismatch(vh.Mismatch{Section: "fields", Function: "Fields.AsKVString", Input: c, Impl: impl[i][1].Kind, Model: mi})
		} else if impl[i][1].Kind == "ok" {
			var sb strings.Builder
			for k, it := range strings.Fields(strings.TrimPrefix(mi, "ok")) {
				v := string(vh.UnHx(it))
				if k%2 == 0 {
					if k > 0 {
						sb.WriteByte(',')
					}
					sb.WriteString(v)
					sb.WriteByte('=')
				} else {
					if strings.IndexByte(v, ',') >= 0 || strings.IndexByte(v, '=') >= 0 {
						v = strconv.Quote(v)
					}
					sb.WriteString(v)
				}
			}
			if sb.String() != impl[i][1].Val {
				res.Mismatch(vh.Mismatch{Section: "fields", Function: "Fields.AsKVString (content)", Input: c, Impl: impl[i][1].Val, Model: sb.String()})
			}
		}
		if impl[i][2].Val != mc {
			res.Mismatch(vh.Mismatch{Section: "fields", Function: "field.Check", Input: c, Impl: impl[i][2].Val, Model: mc})
		}
		// SPEC: on a list an ingestion path produced, Value(name) is the value of the first KEY equal to name, "" when there is none
		if c.WF && impl[i][0].Kind == "ok" && impl[i][2].Val == "1" {
			if want := vh.HxS(refValue(string(vh.UnHx(c.Fields)), string(vh.UnHx(c.Name)))); impl[i][0].Val != want {
				res.SpecFail(vh.SpecFailure{Section: "fields", Kind: "wrong-field-value", Input: c, Impl: impl[i][0].Val, Spec: want, Model: mv, ImplEqModel: mv == impl[i][0].line(),
					What: "Fields.Value(name) is not the value of the first field whose NAME is name (a value or a later item was taken for it)"})
			}
		}
		// SPEC: what an ingestion path produced must be readable
		if c.WF {
			for k, nm := range []string{"Value", "AsKVString"} {
				if impl[i][k].Kind != "ok" {
					f := vh.SpecFailure{Section: "fields", Kind: "stored-fields-undecodable", Input: c, Impl: nm + ": " + impl[i][k].Kind + " " + impl[i][k].Val,
						Spec: "Fields." + nm + " answers on a field list built by NewFieldsFromKVString / Concat", Model: mv + " | " + modelKind(mi),
						ImplEqModel: modelKind([]string{mv, mi}[k]) == impl[i][k].Kind,
						What:        "a field list built from request text by NewFieldsFromKVString is malformed: reading it fails"}
					if f.ImplEqModel && expandsOnUnquote(kvTexts(c.KV)) {
						f.Finding = "F44"
					}
					res.SpecFail(f)
					break
				}
			}
			if impl[i][2].Val != "1" && impl[i][0].Kind == "ok" && impl[i][1].Kind == "ok" {
				f := vh.SpecFailure{Section: "fields", Kind: "stored-fields-undecodable", Input: c, Impl: "field.Check rejects it", Spec: "well-formed", Model: "check=" + mc,
					ImplEqModel: mc == "0", What: "a field list built from request text by NewFieldsFromKVString is malformed (field.Check rejects it)"}
				if f.ImplEqModel && expandsOnUnquote(kvTexts(c.KV)) {
					f.Finding = "F44"
				}
				res.SpecFail(f)
			}
		}
	}
}

// listItems walks a well-formed binary field list
func listItems(f string) []string {
	var its []string
	for idx := 0; idx < len(f); {
		n := int(f[idx])
		if idx+1+n > len(f) {
			break
		}
		its = append(its, f[idx+1:idx+1+n])
		idx += n + 1
	}
	return its
}

// refValue is the reference meaning of Fields.Value on a well-formed list
func refValue(f, name string) string {
	its := listItems(f)
	for i := 0; i+1 < len(its); i += 2 {
		if its[i] == name {
			return its[i+1]
		}
	}
	return ""
}

func kvTexts(kv []string) [][]byte {
	var r [][]byte
	for _, k := range kv {
		r = append(r, []byte(k))
	}
	return r
}

// buildLine: the builder loop of NewFieldsFromKVString vs the model, with the real split / trim / unquote as oracles
func buildLine(kv string) (line string, impl string, ok bool) {
	var parts []string
	p := vh.Recover(func() {
		fine, err := kvstring.RemoveCurlyBraces(kv)
		if err != nil || len(fine) == 0 {
			return
		}
		ps, err := kvstring.SplitString(fine, '=', ',', nil)
		if err != nil {
			return
		}
		parts = ps
	})
	if p != "" || len(parts) == 0 {
		return "", "", false
	}
	seen := map[string]bool{}
	line = "f.build"
	for _, x := range parts {
		if seen[x] {
			return "", "", false // the driver's oracle tables are keyed by the text
		}
		seen[x] = true
		t := trimSpacesG(x)
		u := "="
		if len(t) > 0 && (t[0] == '"' || t[0] == '`') {
			if s, err := strconv.Unquote(t); err != nil {
				u = "!"
			} else {
				u = vh.HxS(s)
				if s == "" {
					u = "-"
				}
			}
		}
		line += fmt.Sprintf(" %s %s %s", vh.HxS(x), vh.HxS(t), u)
	}
	// distinct trimmed texts too
	seenT := map[string]bool{}
	for _, x := range parts {
		t := trimSpacesG(x)
		if seenT[t] {
			return "", "", false
		}
		seenT[t] = true
	}
	f, err := kvBuild(kv)
	if err != nil {
		return line, "err", true
	}
	return line, strings.TrimRight("ok "+vh.HxS(string(f)), " "), true
}

// trimSpacesG: kvstring.TrimSpaces under recover (a panic gives a text no trimming can yield; the builder comparison then differs)
func trimSpacesG(x string) (t string) {
	if p := vh.Recover(func() { t = kvstring.TrimSpaces(x) }); p != "" {
		return "\x00panic:" + p
	}
	return t
}

func sectionFields(rng *vh.Rng) {
	sec := res.Section("fields", "unit-correspondence",
		"binary field lists: (a) built by NewFieldsFromKVString from generated KV texts (0..4 pairs, values incl. quoted ones whose unquoted length crosses 255, empty values, 255/256-byte items) and concatenations — SPEC: Value/AsKVString/Check answer; (b) the same lists with one byte changed, truncated, or random bytes — model comparison only (Value/AsKVString may panic there; unreachable from the API); (c) the builder loop of NewFieldsFromKVString vs the model with the real SplitString/TrimSpaces/Unquote as oracles; non-trivial = non-empty list, distinct by (list, name)")
	n := 1500
	if args.Thorough {
		n = 40000
	}
	var cases []fieldsCase
	var bl, bi []string
	var bkv []string
	names := []string{"f", "a", "", "k", "zz", strings.Repeat("k", 255)}
	for i := 0; i < n; i++ {
		np := rng.Intn(4)
		var kvs []string
		for j := 0; j <= np; j++ {
			kvs = append(kvs, strings.TrimPrefix(fieldPool(rng), "{"))
		}
		kv := strings.Join(kvs[:1+rng.Intn(len(kvs))], ",")
		if rng.Chance(1, 6) {
			kv = fieldPool(rng)
		}
		f, err := kvBuild(kv)
		if err == nil {
			kvs2 := []string{kv}
			if rng.Chance(1, 4) {
				kv2 := fieldPool(rng)
				if f2, err2 := kvBuild(kv2); err2 == nil {
					f = f + f2 // Concat
					kvs2 = append(kvs2, kv2)
				}
			}
			cases = append(cases, fieldsCase{vh.HxS(string(f)), vh.HxS(rng.PickS(names)), true, kvs2})
			// names that occur in the list itself: every key, every value, in particular the LAST value
			var cerr error
			if p := vh.Recover(func() { _, cerr = field.Check(string(f)) }); p != "" {
				cerr = fmt.Errorf("panic: %s", p) // runFields meets and reports it (Check is one of its three guarded calls)
			}
			if cerr == nil {
				if its := listItems(string(f)); len(its) > 0 {
					cases = append(cases, fieldsCase{vh.HxS(string(f)), vh.HxS(its[len(its)-1]), true, kvs2})
					cases = append(cases, fieldsCase{vh.HxS(string(f)), vh.HxS(its[rng.Intn(len(its))]), true, kvs2})
				}
			}
			if i < 2 {
				res.Sample(map[string]interface{}{"section": "fields", "kv": kv, "fields": vh.HxS(string(f))})
			}
			// mutations: arbitrary bytes
			b := []byte(f)
			if len(b) > 0 {
				m := append([]byte{}, b...)
				m[rng.Intn(len(m))] = byte(rng.PickI([]int{0, 1, 2, 3, 0x7f, 0xff, rng.Intn(256)}))
				cases = append(cases, fieldsCase{vh.Hx(m), vh.HxS(rng.PickS(names)), false, nil})
				cases = append(cases, fieldsCase{vh.Hx(b[:rng.Intn(len(b))]), vh.HxS(rng.PickS(names)), false, nil})
			}
		}
		rb := make([]byte, rng.Intn(12))
		for j := range rb {
			rb[j] = byte(rng.PickI([]int{0, 1, 2, 3, 'a', 'f', 0xff}))
		}
		cases = append(cases, fieldsCase{vh.Hx(rb), vh.HxS(rng.PickS([]string{"a", "f", "", "af"})), false, nil})
		if l, im, ok := buildLine(kv); ok {
			bl, bi, bkv = append(bl, l), append(bi, im), append(bkv, kv)
		}
	}
	runFields(sec, cases, false)
	flushKvPanics(sec)
	ba := batch(bl)
	for i := range ba {
		res.Eval(sec, "build"+bl[i])
		res.Dist(sec, "build/"+strings.Fields(bi[i])[0])
		if ba[i] != bi[i] {
			res.Mismatch(vh.Mismatch{Section: "fields", Function: "field.NewFieldsFromKVString (builder loop)", Input: bkv[i], Impl: bi[i], Model: ba[i]})
		}
	}
	res.Done(sec)
}

// ---------------------------------------------------------------------------------------------
// EscapeJsonStr

type strCase struct {
	S string `json:"s"` // hex
}

func runEscJSON(sec *vh.Section, cases []strCase, verbose bool) {
	impl := make([]callRes, len(cases))
	// in chunks: a call that hangs leaves a spinning goroutine behind, so stop feeding the escaper once a chunk has hung
	for lo := 0; lo < len(cases); lo += 64 {
		hi := lo + 64
		if hi > len(cases) {
			hi = len(cases)
		}
		parallel(hi-lo, func(k int) {
			s := string(vh.UnHx(cases[lo+k].S))
			impl[lo+k] = guarded(func() (string, error) { return vh.HxS(utils.EscapeJsonStr(s)), nil })
		})
		hung := false
		for k := lo; k < hi; k++ {
			hung = hung || impl[k].Kind == "timeout"
		}
		if hung && hi < len(cases) {
			res.Note("escjson: a call hung; the remaining %d strings of this batch were not given to the implementation", len(cases)-hi)
			cases = cases[:hi]
			impl = impl[:hi]
			break
		}
	}
	lines := make([]string, len(cases))
	for i, c := range cases {
		lines[i] = "escjson " + c.S
	}
	ans := batch(lines)
	for i, c := range cases {
		key := ""
		if c.S != "-" {
			key = c.S
		}
		res.Eval(sec, key)
		res.Dist(sec, impl[i].Kind)
		if verbose {
			fmt.Printf("escjson %s\n  impl : %s\n  model: %s\n", c.S, impl[i].line(), ans[i])
		}
		if impl[i].Kind != "ok" {
			res.SpecFail(vh.SpecFailure{Section: "escjson", Kind: map[string]string{"panic": "panic", "timeout": "hang", "err": "error"}[impl[i].Kind], Input: c,
				Impl: impl[i].Kind + " " + impl[i].Val, Spec: "returns", Model: ans[i], ImplEqModel: modelKind(ans[i]) == impl[i].Kind,
				What: "EscapeJsonStr does not return on this string"})
		}
		if impl[i].line() != ans[i] && !(impl[i].Kind == "timeout" && ans[i] == "fuel") {
			res.Mismatch(vh.Mismatch{Section: "escjson", Function: "utils.EscapeJsonStr", Input: c, Impl: impl[i].line(), Model: ans[i]})
		}
		if impl[i].Kind == "ok" {
			// SPEC: a JSON string literal that decodes to the input with every invalid byte replaced by U+FFFD
			var back string
			s := string(vh.UnHx(c.S))
			want := strings.ToValidUTF8(s, "�")
			if strings.ToValidUTF8(s, "") != s {
				// ToValidUTF8 replaces a *run* of invalid bytes by one replacement; the escaper replaces each byte
				var sb strings.Builder
				for j := 0; j < len(s); {
					r, size := utf8.DecodeRuneInString(s[j:])
					if r == utf8.RuneError && size == 1 {
						sb.WriteString("�")
					} else {
						sb.WriteString(s[j : j+size])
					}
					j += size
				}
				want = sb.String()
			}
			if err := json.Unmarshal(vh.UnHx(impl[i].Val), &back); err != nil || back != want {
				res.SpecFail(vh.SpecFailure{Section: "escjson", Kind: "wrong-escape", Input: c, Impl: impl[i].Val, Spec: vh.HxS(want),
					What: "EscapeJsonStr's output is not a JSON string literal for the input"})
			}
		}
	}
}

func sectionEscJSON(rng *vh.Rng) {
	sec := res.Section("escjson", "unit-correspondence",
		"strings of 0..24 bytes from {ASCII, quote, backslash, control bytes, valid 2/3/4-byte runes, the well-formed U+FFFD (EF BF BD), lone continuation bytes, truncated sequences, overlong and surrogate encodings, 0xff}; all strings of length <= 2 over a 12-byte alphabet exhaustively; EscapeJsonStr under a deadline vs model and vs json.Unmarshal; non-trivial = non-empty, distinct by string")
	pieces := []string{"a", "\"", "\\", "\n", "\r", "\t", "\x00", "\x1f", " ", "é", "€", "\U0001F600", "\xef\xbf\xbd", "\x80", "\xbf", "\xc3", "\xe2\x82", "\xf0\x9f\x98",
		"\xc0\x80", "\xed\xa0\x80", "\xff", "\xf4\x90\x80\x80", "\xef\xbf", "\xef", "\x7f", "/", "<"}
	var cases []strCase
	cases = append(cases, strCase{vh.HxS("\xef\xbf\xbd")}, strCase{"-"})
	alpha := []byte{'a', '"', '\\', '\n', 0, 0x7f, 0x80, 0xbf, 0xc3, 0xef, 0xbd, 0xff}
	for _, a := range alpha {
		cases = append(cases, strCase{vh.Hx([]byte{a})})
		for _, b := range alpha {
			cases = append(cases, strCase{vh.Hx([]byte{a, b})})
		}
	}
	n := 3000
	if args.Thorough {
		n = 100000
	}
	for i := 0; i < n; i++ {
		var sb strings.Builder
		k := rng.Intn(8)
		for j := 0; j < k; j++ {
			sb.WriteString(rng.PickS(pieces))
		}
		cases = append(cases, strCase{vh.HxS(sb.String())})
	}
	runEscJSON(sec, cases, false)
	res.Done(sec)
}

// ---------------------------------------------------------------------------------------------
// positions

func runPos(sec *vh.Section, cases []strCase, verbose bool) {
	impl := make([][2]callRes, len(cases))
	parallel(len(cases), func(i int) {
		s := string(vh.UnHx(cases[i].S))
		impl[i][0] = guarded(func() (string, error) {
			p, err := journal.ParsePos(s)
			return fmt.Sprintf("%d %d", uint64(p.CId), p.Idx), err
		})
		impl[i][1] = guarded(func() (string, error) { return "", cursor.VerifC13ApplyStatePos(s) })
	})
	var lines []string
	for _, c := range cases {
		lines = append(lines, "pos "+c.S, "statepos "+c.S)
	}
	ans := batch(lines)
	for i, c := range cases {
		key := ""
		if c.S != "-" {
			key = c.S
		}
		res.Eval(sec, key)
		res.Dist(sec, fmt.Sprintf("len=%d parse=%s apply=%s", len(vh.UnHx(c.S)), impl[i][0].Kind, impl[i][1].Kind))
		if verbose {
			fmt.Printf("pos %s\n  ParsePos: impl=%s model=%s\n  applyStatePos: impl=%s model=%s\n", c.S, impl[i][0].line(), ans[2*i], impl[i][1].Kind, ans[2*i+1])
		}
		for k, fn := range []string{"journal.ParsePos", "crsr.applyStatePos"} {
			im := impl[i][k]
			if im.Kind == "panic" || im.Kind == "timeout" {
				res.SpecFail(vh.SpecFailure{Section: "pos", Kind: map[string]string{"panic": "panic", "timeout": "hang"}[im.Kind], Input: c, Impl: im.Kind + " " + im.Val,
					Spec: "a position or an error", Model: ans[2*i+k], ImplEqModel: modelKind(ans[2*i+k]) == im.Kind, What: fn + " does not answer with a result or an error on this position string"})
			}
		}
		if impl[i][0].line() != ans[2*i] {
			res.Mismatch(vh.Mismatch{Section: "pos", Function: "journal.ParsePos", Input: c, Impl: impl[i][0].line(), Model: ans[2*i]})
		}
		if impl[i][1].Kind != modelKind(ans[2*i+1]) {
			res.Mismatch(vh.Mismatch{Section: "pos", Function: "crsr.applyStatePos", Input: c, Impl: impl[i][1].Kind, Model: ans[2*i+1]})
		}
	}
}

func sectionPos(rng *vh.Rng) {
	sec := res.Section("pos", "unit-correspondence",
		"position strings: every length 0..30 filled from the classes {hex digit (both cases), non-hex byte ('g','G','_','+','-',' ',0x00,0xff), ':', '='}; every length 0..5 over {'0','a','g',':','='} exhaustively; structured <id>=<24 hex> lists with one byte changed / dropped / doubled separators / duplicated ids; journal.ParsePos and crsr.applyStatePos vs model; non-trivial = non-empty, distinct by string")
	var cases []strCase
	small := []byte{'0', 'a', 'g', ':', '='}
	var rec func(prefix []byte, left int)
	rec = func(prefix []byte, left int) {
		cases = append(cases, strCase{vh.Hx(prefix)})
		if left == 0 {
			return
		}
		for _, c := range small {
			rec(append(append([]byte{}, prefix...), c), left-1)
		}
	}
	rec(nil, 5)
	hexd := "0123456789abcdefABCDEF"
	non := []byte{'g', 'G', '_', '+', '-', ' ', 0, 0xff, 'x'}
	reps := 40
	if args.Thorough {
		reps = 1500
	}
	for ln := 0; ln <= 30; ln++ {
		for r := 0; r < reps; r++ {
			b := make([]byte, ln)
			pn, ps := rng.PickI([]int{0, 0, 1, 5}), rng.PickI([]int{0, 1, 3})
			for j := range b {
				switch x := rng.Intn(20); {
				case x < pn:
					b[j] = non[rng.Intn(len(non))]
				case x < pn+ps:
					b[j] = ":="[rng.Intn(2)]
				default:
					b[j] = hexd[rng.Intn(len(hexd))]
				}
			}
			cases = append(cases, strCase{vh.Hx(b)})
			// a valid 24-digit position behind an id, with the same noise
			if ln <= 6 {
				id := strings.Map(func(r rune) rune {
					if r == ':' || r == '=' {
						return 'j'
					}
					return r
				}, string(b))
				p := fmt.Sprintf("%s=%016x%08x", id, rng.U64(), uint32(rng.U64()))
				switch rng.Intn(6) {
				case 0:
					p += ":" + p
				case 1:
					p = p[:rng.Intn(len(p))]
				case 2:
					p += ":k=" + fmt.Sprintf("%016X%08X", rng.U64(), uint32(rng.U64()))
				case 3:
					p = strings.Replace(p, "=", "==", 1)
				case 4:
					q := []byte(p)
					q[rng.Intn(len(q))] = non[rng.Intn(len(non))]
					p = string(q)
				}
				cases = append(cases, strCase{vh.HxS(p)})
			}
		}
	}
	runPos(sec, cases, false)
	res.Done(sec)
}

// ---------------------------------------------------------------------------------------------
// robustness test: parsers and evaluators that are not modelled

type robustCase struct {
	Kind string `json:"kind"` // lql | expr | source | where | tagsexp | tags | kv | format
	S    string `json:"s"`    // hex
}

// sampleEvents: built on first use, through the guarded builder (a parser that panics on these plain texts must be reported as such,
// not end the harness or its child processes in package initialisation)
var (
	sampleOnce sync.Once
	sampleEvs  []*model.LogEvent
)

func sampleEvents() []*model.LogEvent {
	sampleOnce.Do(func() {
		parse := func(kv string) field.Fields { f, _ := kvBuild(kv); return f }
		sampleEvs = []*model.LogEvent{
			{Timestamp: 0, Msg: []byte(""), Fields: ""},
			{Timestamp: 1568000000000000000, Msg: []byte("hello world"), Fields: parse("a=b,c=d")},
			{Timestamp: -1, Msg: []byte("\xff\x00\xef\xbf\xbd"), Fields: parse(`k="x,y"`)},
			{Timestamp: 1<<63 - 1, Msg: []byte(strings.Repeat("m", 300)), Fields: parse("f=" + strings.Repeat("v", 255))},
			// values that are spelled like field names used in filters and formats, in the last and in an inner position
			{Timestamp: 5, Msg: []byte("lvl"), Fields: parse("kind=level")},
			{Timestamp: 6, Msg: []byte("lvl2"), Fields: parse("kind=level,x=y")},
			{Timestamp: 7, Msg: []byte("lvl3"), Fields: parse("f=f,a=zz")},
			// a Windows directory: back-slashes outside quotes, the last byte is one
			{Timestamp: 8, Msg: []byte("dir"), Fields: parse("dir=C:\\logs\\,user=root")},
			{Timestamp: 9, Msg: []byte("usr"), Fields: parse("kind=user")},
		}
	})
	return sampleEvs
}

func implRobust(c robustCase) callRes {
	s := string(vh.UnHx(c.S))
	return guarded(func() (string, error) {
		switch c.Kind {
		case "lql":
			l, err := lql.ParseLql(s)
			if err == nil {
				_ = l.String()
				return astShape(reflect.ValueOf(l), 0), nil
			}
			return "", err
		case "expr":
			e, err := lql.ParseExpr(s)
			if err == nil {
				_ = e.String()
				return astShape(reflect.ValueOf(e), 0), nil
			}
			return "", err
		case "source":
			e, err := lql.ParseSource(s)
			if err == nil {
				_ = e.String()
				return astShape(reflect.ValueOf(e), 0), nil
			}
			return "", err
		case "where":
			f, err := lql.BuildWhereExpFunc(s)
			if err == nil {
				for _, le := range sampleEvents() {
					f(le)
				}
			}
			return "", err
		case "tagsexp":
			f, err := lql.BuildTagsExpFunc(s)
			if err == nil {
				for _, t := range []string{"", "a=b", "name=app1,ip=1.2.3.4"} {
					if ts, err := tag.Parse(t); err == nil {
						f(ts)
					}
				}
			}
			return "", err
		case "tags":
			ts, err := tag.Parse(s)
			if err == nil {
				l := ts.Line()
				_ = ts.Tag("a")
				_ = l.String()
			}
			return "", err
		case "kv":
			_, err := kvstring.ToMap(s)
			f, err2 := field.NewFieldsFromKVString(s)
			if err2 == nil {
				if _, cerr := field.Check(string(f)); cerr == nil {
					_ = f.AsKVString()
				}
			}
			if err != nil {
				return "", err
			}
			return "", err2
		case "reldt":
			return "", lql.VerifC13ParseRelative(s)
		case "format":
			fp, err := model.NewFormatParser(s)
			if err == nil {
				for _, le := range sampleEvents() {
					_ = fp.FormatStr(le, "a=b,c=d")
					_ = fp.FormatStr(le, "{broken")
				}
			}
			return "", err
		}
		return "", fmt.Errorf("unknown kind")
	})
}

func asciiOnlyLower(s string) bool {
	b := []byte(s)
	for i, c := range b {
		if c >= 'A' && c <= 'Z' {
			b[i] = c + 32
		}
	}
	return strings.ToLower(s) == string(b)
}

func runRobust(sec *vh.Section, cases []robustCase, verbose bool) {
	impl := make([]callRes, len(cases))
	parallel(len(cases), func(i int) { impl[i] = implRobust(cases[i]) })
	// MODEL where there is one: NewFormatParser (format strings on which strings.ToLower is ASCII lower-casing) and the nesting
	// guard / depth counter (texts made of parentheses around one condition)
	var ml []string
	var mi []int
	for i, c := range cases {
		s := string(vh.UnHx(c.S))
		if c.Kind == "format" && asciiOnlyLower(s) {
			ml, mi = append(ml, "fmt.parse "+c.S), append(mi, i)
		}
		if c.Kind == "reldt" {
			ml, mi = append(ml, "reldt "+c.S), append(mi, i)
		}
		if c.Kind == "lql" && strings.HasPrefix(s, holePrefix+"(") {
			ml, mi = append(ml, fmt.Sprintf("nest %d %s", 1<<30, c.S)), append(mi, i)
		}
		if c.Kind == "expr" && strings.HasSuffix(strings.TrimLeft(s, "("), "a=1"+strings.Repeat(")", len(s)-len(strings.TrimLeft(s, "(")))) {
			ml, mi = append(ml, fmt.Sprintf("nest %d %s", 1<<30, c.S)), append(mi, i)
		}
	}
	for k, a := range batch(ml) {
		i := mi[k]
		res.Dist(sec, cases[i].Kind+"/model-compared")
		want := modelKind(a)
		if cases[i].Kind == "reldt" && want == "ok" {
			// the model stops at the text handed to strconv.ParseFloat (a total library function): an error of that call is the answer
			body := ""
			if f := strings.Fields(a); len(f) > 1 {
				body = string(vh.UnHx(f[1]))
			}
			if _, err := strconv.ParseFloat(body, 64); err != nil {
				want = "err"
			}
		}
		if want != impl[i].Kind {
			res.Mismatch(vh.Mismatch{Section: "robust", Function: map[string]string{"format": "model.NewFormatParser", "reldt": "lql.parseRalativeDateTime", "expr": "lql.ParseExpr (nesting guard / depth)", "lql": "lql.ParseLql (nesting guard on a text with a tags token)"}[cases[i].Kind],
				Input: cases[i], Impl: impl[i].Kind, Model: a})
		}
	}
	for i, c := range cases {
		key := ""
		if impl[i].Kind == "ok" && c.S != "-" {
			key = c.Kind + c.S
			if len(key) > 160 {
				key = key[:160] + fmt.Sprint(len(key))
			}
		}
		res.Eval(sec, key)
		res.Dist(sec, c.Kind+"/"+impl[i].Kind)
		if verbose {
			fmt.Printf("robust %s %s -> %s %s\n", c.Kind, c.S, impl[i].Kind, impl[i].Val)
		}
		if impl[i].Kind == "ok" && impl[i].Val != "" && (c.Kind == "lql" || c.Kind == "expr" || c.Kind == "source") {
			res.Mismatch(vh.Mismatch{Section: "robust", Function: "participle AST shape (the contracts behind the census classes slice-element / grammar:mandatory / grammar:alternative of Generated/C13Sites.lean)",
				Input: c, Impl: impl[i].Val, Model: "no nil element in a node slice; every mandatory capture set; exactly one branch of a two-branch alternation set"})
		}
		if impl[i].Kind == "ok" && (c.Kind == "lql" || c.Kind == "expr" || c.Kind == "source") {
			res.Dist(sec, c.Kind+"/ast-shape-checked")
		}
		if impl[i].Kind == "panic" || impl[i].Kind == "timeout" {
			res.SpecFail(vh.SpecFailure{Section: "robust", Kind: map[string]string{"panic": "panic", "timeout": "hang"}[impl[i].Kind], Input: c, Impl: impl[i].Kind + " " + impl[i].Val,
				Spec: "a result or an error", What: "parser/evaluator '" + c.Kind + "' does not answer with a result or an error on this text (robustness test; not modelled)"})
		}
	}
}

var whereMode bool // generation is single-threaded: identifiers valid in a WHERE condition only

func genIdent(rng *vh.Rng) string {
	if whereMode {
		return rng.PickS([]string{"msg", "ts", "fields:f", "lower(msg)", "upper(fields:a)", "fields:\"a b\"", "msg", "fields:zz", "fields:level", "fields:kind", "fields:x", "fields:y", "fields:b", "fields:d", "fields:user", "fields:root", "fields:dir", "fields", "fields:", "FIELDS:x", "Fields:level", "fieldsx", "field", "fields:f:g"})
	}
	return rng.PickS([]string{"a", "name", "msg", "ts", "fields:f", "lower(msg)", "upper(name)", "x1", "_", "fields:\"a b\""})
}

func genExpr(rng *vh.Rng, d int) string {
	op := func() string {
		return rng.PickS([]string{"=", "!=", "<", ">", "<=", ">=", "like", "contains", "prefix", "suffix", "CONTAINS", "LIKE"})
	}
	val := func() string {
		return rng.PickS([]string{"1", "\"x\"", "'y'", "abc", "\"[\"", "\"*a?\"", "\"\\\\\"", "10.5", "\"2019-01-01T00:00:00Z\"", "-1", "\"\xff\"", "\"a\\qb\"", "`r`", "99999999999999999999"})
	}
	if d <= 0 || rng.Chance(1, 3) {
		return genIdent(rng) + " " + op() + " " + val()
	}
	switch rng.Intn(4) {
	case 0:
		return "(" + genExpr(rng, d-1) + ")"
	case 1:
		return "not " + genExpr(rng, d-1)
	case 2:
		return genExpr(rng, d-1) + " and " + genExpr(rng, d-1)
	}
	return genExpr(rng, d-1) + " or " + genExpr(rng, d-1)
}

func genSource(rng *vh.Rng) string {
	return rng.PickS([]string{"a=b", "{a=b,c=d}", genExpr(rng, 2), "name like \"x*\"", "{a=\"b\"}}", "{}", "a=b or c=d and not e=f"})
}

// numPool: OFFSET / LIMIT texts for EVERY statement kind that takes them: zero, small, negative, the int32/uint32/int64 extremes and
// one beyond, non-integers
var numPool = []string{"0", "1", "2", "3", "-1", "-2", "-0", "+1", "1000", "1001", "10000", "10001", "2147483647", "2147483648", "-2147483648", "-2147483649", "4294967295", "4294967296",
	"9223372036854775807", "9223372036854775808", "-9223372036854775808", "-9223372036854775809", "99999999999999999999", "1.5", "1e3"}

func offLim(rng *vh.Rng) string {
	q := ""
	if rng.Chance(3, 4) {
		q += " offset " + rng.PickS(numPool)
	}
	if rng.Chance(3, 4) {
		q += " limit " + rng.PickS(numPool)
	}
	return q
}

// f55Class: an admin statement SHOW PARTITIONS with a negative OFFSET or LIMIT (it reaches partition.Service.Partitions)
func f55Class(q string) bool {
	hit := false
	vh.Recover(func() {
		l, err := lql.ParseLql(q)
		if err != nil || l.Show == nil || l.Show.Partitions == nil {
			return
		}
		p := l.Show.Partitions
		hit = (p.Offset != nil && *p.Offset < 0) || (p.Limit != nil && *p.Limit < 0)
	})
	return hit
}

func genLql(rng *vh.Rng) string {
	ident := func() string { return genIdent(rng) }
	expr := func(d int) string { return genExpr(rng, d) }
	src := func() string {
		if rng.Chance(1, 4) {
			return ""
		}
		return " from " + genSource(rng)
	}
	switch rng.Intn(9) {
	case 0, 1, 2:
		q := "select" + src()
		if rng.Bool() {
			q += " where " + expr(3)
		}
		if rng.Chance(1, 3) {
			q += " range [" + rng.PickS([]string{"\"0\":\"6\"", ":\"5\"", "\"-1h\":", "\"x\":\"y\"", ":"}) + "]"
		}
		if rng.Chance(1, 3) {
			q += " position " + rng.PickS([]string{"tail", "head", "\"j=000000000000000a0000000b\"", "\"zz\""})
		}
		if rng.Chance(1, 2) {
			q += offLim(rng)
		}
		return q
	case 3:
		return "show " + rng.PickS([]string{"partitions", "pipes", "partitions a=b", "partitions {a=b}", "partitions " + genSource(rng)}) + offLim(rng)
	case 4:
		return "describe " + rng.PickS([]string{"partition a=b", "partition {a=b}", "pipe p", "partition {", "pipe"}) + rng.PickS([]string{"", offLim(rng)})
	case 5:
		return "truncate" + rng.PickS([]string{"", " dryrun"}) + src() + rng.PickS([]string{"", " minsize 1k", " maxsize 10G", " before \"-1h\"", " maxdbsize 99999999999T", " minsize -1"})
	case 6:
		return "create pipe " + rng.PickS([]string{"p", "select", "p1"}) + src() + rng.PickS([]string{"", " where " + expr(2)})
	case 7:
		return "delete pipe " + ident()
	}
	return expr(4)
}

func mutateText(rng *vh.Rng, s string) string {
	b := []byte(s)
	for k := rng.Range(1, 3); k > 0 && len(b) > 0; k-- {
		p := rng.Intn(len(b))
		switch rng.Intn(5) {
		case 0:
			b = append(b[:p], b[p+1:]...)
		case 1:
			b[p] = byte(rng.PickI([]int{'(', ')', '"', '\'', '`', '\\', '{', '}', '[', ']', 0, 0xff, ',', '=', ' ', '*'}))
		case 2:
			b = append(b[:p], append([]byte(rng.PickS([]string{"((", "\"", "{", "\\", "not ", " and ", "\xff\xfe", "}}", "''"})), b[p:]...)...)
		case 3:
			b = b[:p]
		case 4:
			b = append(b, b[p:]...)
		}
	}
	return string(b)
}

type nestCase struct {
	Depth      int `json:"depth"`
	MaxStackMB int `json:"max_stack_mb"`
}

// runNesting runs the parser in child processes with the goroutine stack limit lowered to MaxStackMB (the default is 1000 MB; the
// limit only scales the depth that is needed): before commit 8131efe a statement with Depth nested parentheses ended the
// process with Go's fatal "stack overflow" (finding F25).
func runNesting(sec *vh.Section, c nestCase, verbose bool) {
	child := func(depth int) (string, string) {
		cmd := exec.Command(os.Args[0])
		cmd.Env = append(os.Environ(), "VERIF_C13_CHILD=nest", fmt.Sprintf("VERIF_C13_NEST=%d,%d", depth, c.MaxStackMB))
		var out, errb bytes.Buffer
		cmd.Stdout, cmd.Stderr = &out, &errb
		done := make(chan error, 1)
		cmd.Start()
		go func() { done <- cmd.Wait() }()
		select {
		case <-done:
		case <-time.After(60 * time.Second):
			cmd.Process.Kill()
			return "timeout", ""
		}
		if strings.Contains(out.String(), "answered") {
			return "answered", out.String()
		}
		if strings.Contains(errb.String(), "stack overflow") || strings.Contains(errb.String(), "stack exceeds") {
			return "fatal-stack-overflow", firstLines(errb.String(), 3)
		}
		return "died", firstLines(errb.String(), 3)
	}
	// regression for the repaired finding F25 (commit 8131efe): depth 1000 is accepted, the witness depth and depth 200 000 are
	// REFUSED with an error, quickly; a recurrence (the child dies of Go's fatal stack overflow) is tagged F25
	t0 := time.Now()
	small, smallOut := child(1000)
	big, msg := child(c.Depth)
	res.Eval(sec, fmt.Sprint("nesting", c))
	res.Dist(sec, "nesting/"+big)
	ans := batch([]string{fmt.Sprintf("nest %d %s", 1<<30, vh.HxS(strings.Repeat("(", 1000)+"a=1"+strings.Repeat(")", 1000))),
		fmt.Sprintf("nest %d %s", c.Depth/10, vh.HxS(strings.Repeat("(", c.Depth)))})
	if verbose {
		fmt.Printf("nesting depth=%d stack=%dMB: 1000 -> %s %s; %d -> %s %s\n  model: %v\n", c.Depth, c.MaxStackMB, small, strings.TrimSpace(smallOut), c.Depth, big, strings.TrimSpace(msg), ans)
	}
	if small != "answered" || !strings.Contains(smallOut, "false") {
		res.SpecFail(vh.SpecFailure{Section: "nesting", Kind: "nesting-1000-not-accepted", Input: nestCase{1000, c.MaxStackMB}, Impl: small + " " + smallOut, Spec: "accepted",
			Model: ans[0], ImplEqModel: modelKind(ans[0]) != "ok", What: "a statement with 1000 nested parentheses is not parsed"})
	}
	if big != "answered" {
		res.SpecFail(vh.SpecFailure{Section: "nesting", Kind: "fatal-stack-overflow", Input: c, Impl: big + ": " + msg, Spec: "refused with an error",
			Model: strings.Join(ans, " | "), ImplEqModel: modelKind(ans[1]) == "panic", Finding: map[bool]string{true: "F25"}[big == "fatal-stack-overflow"],
			What: "lql.ParseLql recursion depth is unbounded (or the parser ended the process in another way: see impl)"})
		return
	}
	if !strings.Contains(msg, "true") {
		res.Mismatch(vh.Mismatch{Section: "nesting", Function: "lql.ParseLql (nesting guard)", Input: c, Impl: "accepted", Model: ans[1]})
	}
	huge, hmsg := child(200000)
	res.Dist(sec, "nesting200000/"+huge)
	if huge != "answered" || !strings.Contains(hmsg, "true") || time.Since(t0) > 90*time.Second {
		f := vh.SpecFailure{Section: "nesting", Kind: "fatal-stack-overflow", Input: nestCase{200000, c.MaxStackMB}, Impl: huge + ": " + hmsg + " after " + time.Since(t0).String(),
			Spec: "refused with an error, quickly", What: "a statement with 200 000 nested parentheses is not refused quickly"}
		if huge != "answered" {
			f.Finding = "F25"
		}
		res.SpecFail(f)
	}
}

// holePrefix: a tags token with a quote character inside — one token for the lexer, the start of a string literal for a scan
// that does its own literal skipping
const holePrefix = "select from {a=b'} where "

type holeCase struct {
	Prefix     string `json:"prefix"`
	Depth      int    `json:"depth"`
	MaxStackMB int    `json:"max_stack_mb"`
}

// runNestingHole: the nesting limit must hold behind a tags token too. (1) in-process: the text nested Depth/… = 3000 deep must be
// refused; (2) child process with the stack limit lowered: Depth levels must not end the process.
func runNestingHole(sec *vh.Section, c holeCase, verbose bool) {
	nest := func(d int) string { return c.Prefix + strings.Repeat("(", d) + "a=1" + strings.Repeat(")", d) }
	q := nest(3000)
	r := guarded(func() (string, error) { _, err := lql.ParseLql(q); return "", err })
	ans := batch([]string{fmt.Sprintf("nest %d %s", 1<<30, vh.HxS(q)), "nest.hole " + vh.HxS(q), fmt.Sprintf("nest %d %s", 2000, vh.HxS(nest(c.Depth)))})
	res.Eval(sec, fmt.Sprint("nesting-hole", c))
	res.Dist(sec, "nesting-hole/3000/"+r.Kind)
	if verbose {
		fmt.Printf("nesting-hole %q: depth 3000 -> %s (model %s, class %s)\n", c.Prefix, r.Kind, ans[0], ans[1])
	}
	if modelKind(ans[0]) != r.Kind {
		res.Mismatch(vh.Mismatch{Section: "nesting", Function: "lql.ParseLql (nesting guard on a text with a tags token)", Input: c, Impl: r.Kind, Model: ans[0]})
	}
	if r.Kind == "err" {
		// regression for the repaired finding F25b (commit 6345cd4): 200 000 levels behind the tags token are refused too, quickly
		// (only tried when 3000 levels were refused: otherwise it would end this process)
		big := nest(200000)
		t0 := time.Now()
		r2 := guarded(func() (string, error) { _, err := lql.ParseLql(big); return "", err })
		res.Dist(sec, "nesting-hole/200000/"+r2.Kind)
		if r2.Kind != "err" || time.Since(t0) > 10*time.Second {
			res.SpecFail(vh.SpecFailure{Section: "nesting", Kind: "nesting-guard-bypassed", Input: holeCase{c.Prefix, 200000, c.MaxStackMB}, Impl: r2.Kind + " after " + time.Since(t0).String(),
				Spec: "refused with an error, quickly", What: "a statement with 200 000 nested parentheses behind a tags token is not refused quickly"})
		}
	}
	if r.Kind == "ok" {
		f := vh.SpecFailure{Section: "nesting", Kind: "nesting-guard-bypassed", Input: c, Impl: "a statement with 3000 nested parentheses is accepted", Spec: "refused (limit 1000)",
			Model: ans[0] + " class=" + ans[1], ImplEqModel: modelKind(ans[0]) == "ok", What: "the nesting limit does not hold for a text with a quote character inside a {…} tags token"}
		if f.ImplEqModel && ans[1] == "1" {
			f.Finding = "F25b"
		}
		res.SpecFail(f)
		// the consequence, in a child process with a small stack
		cmd := exec.Command(os.Args[0])
		cmd.Env = append(os.Environ(), "VERIF_C13_CHILD=nest", fmt.Sprintf("VERIF_C13_NEST=%d,%d", c.Depth, c.MaxStackMB), "VERIF_C13_NEST_PREFIX="+c.Prefix)
		var out, errb bytes.Buffer
		cmd.Stdout, cmd.Stderr = &out, &errb
		cmd.Run()
		died := strings.Contains(errb.String(), "stack overflow") || strings.Contains(errb.String(), "stack exceeds")
		res.Dist(sec, fmt.Sprintf("nesting-hole/child died=%v", died))
		if died {
			f2 := vh.SpecFailure{Section: "nesting", Kind: "fatal-stack-overflow", Input: c, Impl: "fatal-stack-overflow: " + firstLines(errb.String(), 2), Spec: "refused with an error",
				Model: ans[2], ImplEqModel: modelKind(ans[2]) == "panic", What: "lql.ParseLql recursion depth is unbounded behind a tags token with a quote character"}
			if f2.ImplEqModel && ans[1] == "1" {
				f2.Finding = "F25b"
			}
			res.SpecFail(f2)
		}
	}
}

func firstLines(s string, n int) string {
	ls := strings.Split(s, "\n")
	if len(ls) > n {
		ls = ls[:n]
	}
	return strings.Join(ls, " / ")
}

func sectionRobust(rng *vh.Rng) {
	sec := res.Section("robust", "spec-search",
		"ROBUSTNESS TEST, not a proof (participle, regexp, kvstring and strconv internals are not modelled): grammar-like generated LQL statements, expressions and sources, 1..3 byte-level mutations of them, parentheses / NOT chains nested to depth 2000, tag lines, KV strings, format strings ({msg}, {ts.format(..)}, {vars:..}, broken braces, multi-byte runes); accepted filters and formats are evaluated on four sample events; every call under recover with an 8 s deadline; oracle: a result or an error. Nesting depth of paren-only texts is also compared with the model's depth counter. non-trivial = accepted text, distinct by (kind, text)")
	n := 2500
	if args.Thorough {
		n = 60000
	}
	var cases []robustCase
	add := func(k, s string) { cases = append(cases, robustCase{k, vh.HxS(s)}) }
	for i := 0; i < n; i++ {
		q := genLql(rng)
		if rng.Bool() {
			q = mutateText(rng, q)
		}
		add("lql", q)
		switch i % 6 {
		case 0:
			e := genExpr(rng, 4)
			if rng.Chance(1, 3) {
				e = mutateText(rng, e)
			}
			add("expr", e)
			add("where", e)
			whereMode = true
			w := genExpr(rng, 4)
			whereMode = false
			if rng.Chance(1, 4) {
				w = mutateText(rng, w)
			}
			add("where", w)
		case 1:
			e := genSource(rng)
			if rng.Chance(1, 3) {
				e = mutateText(rng, e)
			}
			add("source", e)
			add("tagsexp", e)
		case 2:
			t := rng.PickS(tagPool) + rng.PickS([]string{"", ",b=" + strings.Repeat("x", rng.Intn(300)), ",c=\"q\\\"\"", "}", "{{", ",=", ",a"})
			if rng.Bool() {
				t = mutateText(rng, t)
			}
			add("tags", t)
			add("kv", t)
		case 3:
			f := fieldPool(rng)
			if rng.Bool() {
				f = mutateText(rng, f)
			}
			add("kv", f)
		case 4:
			f := rng.PickS([]string{"{msg}", "{msg.json()}", "{ts}", "{ts.format(15:04:05.000)}", "{vars}", "{vars:a}", "{VARS:İ}", "a{{b", "{}", "{ msg }", "{ts.format()}", "{vars:}", "{ts.format(2006", "é{msg}\xff", "{\xff}", "{ts.format(\xff)}", "{msg", "}{", "{vars:f}{vars:zz}", "{vars:level}", "{vars:kind}|{vars:y}", "{vars:d}{vars:b}", "{vars:user}{vars:dir}", "{vars:root}"})
			if rng.Bool() {
				f = mutateText(rng, f+rng.PickS([]string{"", "{msg}", " x "}))
			}
			add("format", f)
		case 5:
			e := mutateText(rng, genLql(rng))
			add("where", e)
			add("tagsexp", e)
		}
	}
	// nesting to depth 2000 (stack use grows linearly; see the nesting case for the fatal end of this family)
	for _, d := range []int{1, 999, 1000, 1001, 3000} {
		add("lql", holePrefix+strings.Repeat("(", d)+"a=1"+strings.Repeat(")", d))
		add("lql", "select from {a=\"} where "+strings.Repeat("(", d)+"a=1"+strings.Repeat(")", d))
	}
	for _, d := range []int{1, 2, 10, 100, 500, 999, 1000, 1001, 2000} {
		add("lql", "select where "+strings.Repeat("(", d)+"a=1"+strings.Repeat(")", d))
		add("expr", strings.Repeat("(", d)+"a=1"+strings.Repeat(")", d))
		add("where", strings.Repeat("not ", d)+"msg contains \"x\"")
		add("lql", "select where "+strings.Repeat("(", d)+"a=1") // unbalanced
		add("tagsexp", strings.Repeat("(", d)+"a=1"+strings.Repeat(")", d))
		add("lql", "select from "+strings.Repeat("{", d))
	}
	// relative date-times (`-<number>(m|h|d)`): every text of up to 3 bytes over the bytes the function looks at, longer ones at random;
	// compared with the model of its indexing (Model/LqlSites.lean), and as time points of real statements
	{
		al := []byte{'-', 'm', 'h', 'd', '1', '.', ' ', 'M'}
		var rec func(p []byte, left int)
		rec = func(p []byte, left int) {
			add("reldt", string(p))
			if left > 0 {
				for _, c := range al {
					rec(append(append([]byte{}, p...), c), left-1)
				}
			}
		}
		rec(nil, 3)
		for k := 0; k < 200; k++ {
			b := make([]byte, rng.Range(1, 9))
			for j := range b {
				b[j] = al[rng.Intn(len(al))]
			}
			if rng.Bool() {
				b[0] = '-'
			}
			add("reldt", string(b))
			if k < 12 {
				add("reldt", []string{"-1.5h", "-24m", "-3d", "-0m", "-1e3h", "-infh", "-nanm", "-1.5H", "--1h", "-1h ", "-h", "-.5d"}[k])
			}
			if k < 60 {
				add("lql", "select range [\""+string(b)+"\":]")
				add("where", "ts < \""+string(b)+"\"")
				add("lql", "truncate dryrun before \""+string(b)+"\"")
			}
		}
	}
	// back-slashes outside quotes in tag lines / field texts / sources (a Windows directory), in every position incl. the last byte
	for _, t := range []string{"dir=C:\\logs\\", "{app=a,dir=C:\\logs\\}", "a=b\\", "a=\\", "\\", "a\\", "a\\=b", "a=b\\,c=d", "{a=b\\}", "{a=b}\\", "a=\"b\"\\", "a=\"b\\", "a=`b`\\", "a=b,\\", "a=b\\\\"} {
		add("tags", t)
		add("kv", t)
		add("source", t)
		add("tagsexp", t)
		add("lql", "select from "+t+" limit 1")
		add("lql", "SELECT FROM {"+strings.Trim(t, "{}")+"} LIMIT 1")
		add("lql", "show partitions "+t)
		add("lql", "describe partition "+t)
		add("lql", "create pipe p from "+t)
		add("lql", "truncate dryrun "+t)
	}
	runRobust(sec, cases, false)
	flushKvPanics(sec)
	res.Done(sec)
}

// ---------------------------------------------------------------------------------------------
// admin statements with OFFSET / LIMIT, in-process under recover (Admin.Execute and backend.Querier.Query run in the caller's goroutine)

type adminCase struct {
	Parts  int    `json:"parts"` // partitions written before
	Kind   string `json:"kind"`  // showparts | showpipes | select | describe | query
	Offset string `json:"offset,omitempty"`
	Limit  string `json:"limit,omitempty"`
	ROff   int    `json:"req_offset,omitempty"` // query: QueryRequest.Offset / Limit
	RLim   int    `json:"req_limit,omitempty"`
}

func (c adminCase) text() string {
	q := map[string]string{"showparts": "show partitions", "showpipes": "show pipes", "select": "select from adm=p0", "describe": "describe partition {adm=p0}", "query": "select from adm=p0"}[c.Kind]
	if c.Offset != "" {
		q += " offset " + c.Offset
	}
	if c.Limit != "" {
		q += " limit " + c.Limit
	}
	return q
}

func optNum(s string) (string, bool) {
	if s == "" {
		return "none", true
	}
	n, err := strconv.ParseInt(s, 10, 64)
	if err != nil {
		return "", false
	}
	return strconv.FormatInt(n, 10), true
}

// f55Line: the model request for a SHOW PARTITIONS statement over n partitions ("" when an argument is not an int64)
func f55Line(q string, n int) string {
	line := ""
	vh.Recover(func() {
		l, err := lql.ParseLql(q)
		if err != nil || l.Show == nil || l.Show.Partitions == nil {
			return
		}
		o, li := "none", "none"
		if p := l.Show.Partitions.Offset; p != nil {
			o = strconv.Itoa(*p)
		}
		if p := l.Show.Partitions.Limit; p != nil {
			li = strconv.Itoa(*p)
		}
		line = fmt.Sprintf("showparts %d %s %s", n, o, li)
	})
	if line == "" {
		return "showparts 0 none none"
	}
	return line
}

func f55ModelPanics(q string) bool {
	for _, n := range []int{0, 1, 2} {
		if a := batch([]string{f55Line(q, n)}); len(a) == 1 && strings.HasPrefix(a[0], "panic f55=1") {
			return true
		}
	}
	return false
}

func runAdmin(sec *vh.Section, cases []adminCase, verbose bool) {
	byParts := map[int][]int{}
	for i, c := range cases {
		byParts[c.Parts] = append(byParts[c.Parts], i)
	}
	impl := make([]callRes, len(cases))
	for np, idxs := range byParts {
		dir := lrsrv.NewDir()
		srv, err := lrsrv.Start(dir, lrsrv.Opts{})
		if err != nil {
			res.Fatal(args.Out, "admin: %v", err)
		}
		for k := 0; k < np; k++ {
			var wr api.WriteResult
			srv.Client.Write(context.Background(), fmt.Sprintf("adm=p%d", k), "", []*api.LogEvent{{Timestamp: int64(k + 1), Message: "m"}, {Timestamp: int64(k + 2), Message: "n"}}, &wr)
		}
		srv.FlushWait()
		for _, i := range idxs {
			c := cases[i]
			impl[i] = guarded(func() (string, error) {
				if c.Kind == "query" || c.Kind == "select" {
					req := &api.QueryRequest{Query: c.text(), Offset: c.ROff, Limit: c.RLim}
					if c.Kind == "select" {
						req.Limit = 10
					}
					r, err := srv.Querier.Query(context.Background(), req)
					if err != nil {
						return "", err
					}
					return fmt.Sprint(len(r.Events)), nil
				}
				r, err := srv.Admin.Execute(api.ExecRequest{Query: c.text()})
				if err != nil {
					return "", err
				}
				var k int
				fmt.Sscanf(r.Output, "%d partitions", &k)
				return fmt.Sprint(k), nil
			})
		}
		srv.Stop()
		os.RemoveAll(dir)
	}
	var lines []string
	var li []int
	for i, c := range cases {
		if c.Kind != "showparts" {
			continue
		}
		o, ok1 := optNum(c.Offset)
		l, ok2 := optNum(c.Limit)
		if ok1 && ok2 {
			lines, li = append(lines, fmt.Sprintf("showparts %d %s %s", c.Parts, o, l)), append(li, i)
		}
	}
	ans := map[int]string{}
	for k, a := range batch(lines) {
		ans[li[k]] = a
	}
	for i, c := range cases {
		im := impl[i]
		res.Eval(sec, fmt.Sprint(c))
		res.Dist(sec, c.Kind+"/"+im.Kind)
		m, modelled := ans[i]
		if verbose {
			fmt.Printf("admin %q over %d partitions: impl=%s %.200s model=%s\n", c.text(), c.Parts, im.line(), im.Val, m)
		}
		if im.Kind == "panic" || im.Kind == "timeout" {
			f := vh.SpecFailure{Section: "admin", Kind: map[string]string{"panic": "panic", "timeout": "hang"}[im.Kind], Input: c, Impl: im.Kind + " " + im.Val, Spec: "a result or an error",
				Model: m, ImplEqModel: modelled && modelKind(m) == im.Kind, What: "the statement '" + c.text() + "' is not answered with a result or an error"}
			if f.ImplEqModel && strings.Contains(m, "f55=1") && f55Class(c.text()) {
				f.Finding = "F55"
			}
			res.SpecFail(f)
		}
		if modelled {
			want := m
			if modelKind(m) == "panic" {
				want = "panic"
			}
			if im.line() != want {
				res.Mismatch(vh.Mismatch{Section: "admin", Function: "backend.cmdShowPartitions + partition.Service.Partitions (paging)", Input: c, Impl: im.line(), Model: m})
			}
		}
	}
}

func sectionAdmin(rng *vh.Rng) {
	sec := res.Section("admin", "system-correspondence",
		"statements that take OFFSET / LIMIT, executed in-process under recover on a real server with 0, 1 and 3 partitions: SHOW PARTITIONS for EVERY pair from the boundary pool {absent, 0, 1, 2, 3, -1, -2, -0, +1, 1000, 1001, int32/uint32/int64 extremes and one beyond, 1.5, 1e3} — outcome and page size compared with the Lean model of the paging arithmetic; SHOW PIPES, SELECT (text offsets/limits through backend.Querier.Query), DESCRIBE with the same pool, and backend.Querier.Query with QueryRequest.Offset / Limit at 0, ±1 and the int32 / int64 extremes — oracle: a result or an error. non-trivial = every case")
	pool := append([]string{""}, numPool...)
	var cases []adminCase
	for _, np := range []int{0, 1, 3} {
		for _, o := range pool {
			for _, l := range pool {
				cases = append(cases, adminCase{Parts: np, Kind: "showparts", Offset: o, Limit: l})
			}
		}
		for _, kind := range []string{"showpipes", "select", "describe"} {
			for k := 0; k < 60; k++ {
				cases = append(cases, adminCase{Parts: np, Kind: kind, Offset: rng.PickS(pool), Limit: rng.PickS(pool)})
			}
		}
		ext := []int{0, 1, -1, 10000, 10001, 1<<31 - 1, -1 << 31, 1<<63 - 1, -1 << 63}
		for _, ro := range ext {
			for _, rl := range ext {
				cases = append(cases, adminCase{Parts: np, Kind: "query", ROff: ro, RLim: rl})
			}
		}
	}
	runAdmin(sec, cases, false)
	res.Done(sec)
}

// ---------------------------------------------------------------------------------------------
// end to end, in a child process per batch

type e2eReq struct {
	Kind   string `json:"kind"` // write | query | exec | raw
	Tags   string `json:"tags,omitempty"`
	Flds   string `json:"flds,omitempty"`
	Evs    []e2eE `json:"evs,omitempty"`
	Query  string `json:"query,omitempty"`
	Pos    string `json:"pos,omitempty"`
	Off    int    `json:"off,omitempty"`
	Lim    int    `json:"lim,omitempty"`
	Func   int    `json:"func,omitempty"`   // raw: rpc function id
	Expect string `json:"expect,omitempty"` // the answer this request must get (ok | operr), when it is known
	Body   string `json:"body,omitempty"`   // raw: hex
}
type e2eE struct {
	Ts     int64  `json:"ts"`
	Msg    string `json:"msg"`
	Fields string `json:"fields"`
}

// Go strings are arbitrary bytes, JSON strings are not: encoding/json replaces invalid UTF-8 by U+FFFD, which would silently turn a
// hostile request into a tame one on its way to the child process / the replay file. Texts that are not valid UTF-8 travel as "hex:…".
func encS(s string) string {
	if utf8.ValidString(s) && !strings.HasPrefix(s, "hex:") {
		return s
	}
	return "hex:" + hex.EncodeToString([]byte(s))
}

func decS(s string) string {
	if strings.HasPrefix(s, "hex:") {
		if b, err := hex.DecodeString(s[4:]); err == nil {
			return string(b)
		}
	}
	return s
}

type e2eEPlain e2eE
type e2eReqPlain e2eReq

func (e e2eE) MarshalJSON() ([]byte, error) {
	p := e2eEPlain(e)
	p.Msg, p.Fields = encS(p.Msg), encS(p.Fields)
	return json.Marshal(p)
}

func (e *e2eE) UnmarshalJSON(b []byte) error {
	var p e2eEPlain
	if err := json.Unmarshal(b, &p); err != nil {
		return err
	}
	p.Msg, p.Fields = decS(p.Msg), decS(p.Fields)
	*e = e2eE(p)
	return nil
}

func (r e2eReq) MarshalJSON() ([]byte, error) {
	p := e2eReqPlain(r)
	p.Tags, p.Flds, p.Query, p.Pos = encS(p.Tags), encS(p.Flds), encS(p.Query), encS(p.Pos)
	return json.Marshal(p)
}

func (r *e2eReq) UnmarshalJSON(b []byte) error {
	var p e2eReqPlain
	if err := json.Unmarshal(b, &p); err != nil {
		return err
	}
	p.Tags, p.Flds, p.Query, p.Pos = decS(p.Tags), decS(p.Flds), decS(p.Query), decS(p.Pos)
	*r = e2eReq(p)
	return nil
}

type e2eBatch struct {
	Reqs   []e2eReq `json:"reqs"`
	MaxRec int      `json:"max_rec,omitempty"` // the server's configured MaxRecordSize (0 = default, 1 MiB)
}
type e2eOut struct {
	Readback []string `json:"readback"` // acknowledged writes to rb=… partitions that could not be read back completely
	Answers  []string `json:"answers"`  // per request: ok | operr | transport-error | timeout
	Alive    bool     `json:"alive"`
	Note     string   `json:"note"`
}

// safeForE2E: the request must not belong to a class that is known to kill the process (F13, F44): decided at unit level
func safeWriteBody(body []byte) bool {
	r, evs := implWire(wireCase{"wp", vh.Hx(body), ""})
	if r.Kind == "panic" || r.Kind == "timeout" {
		return false
	}
	for _, e := range evs {
		if ok, _ := storedDecodable(e.Fields); !ok {
			return false
		}
	}
	return true
}

func runE2EBatch(sec *vh.Section, b e2eBatch, verbose bool) {
	dir := lrsrv.NewDir()
	defer os.RemoveAll(dir)
	in, logf, outf := dir+"/batch.json", dir+"/progress.log", dir+"/out.json"
	jb, _ := json.Marshal(b)
	ioutil.WriteFile(in, jb, 0644)
	cmd := exec.Command(os.Args[0])
	cmd.Env = append(os.Environ(), "VERIF_C13_CHILD=e2e", "VERIF_C13_E2E="+in+","+logf+","+outf+","+dir+"/srv")
	var errb bytes.Buffer
	cmd.Stderr = &errb
	cmd.Start()
	done := make(chan error, 1)
	go func() { done <- cmd.Wait() }()
	var werr error
	select {
	case werr = <-done:
	case <-time.After(180 * time.Second):
		cmd.Process.Kill()
		werr = fmt.Errorf("child timed out")
	}
	var out e2eOut
	ob, _ := ioutil.ReadFile(outf)
	json.Unmarshal(ob, &out)
	pl, _ := ioutil.ReadFile(logf)
	last := -1
	if f := strings.Fields(string(pl)); len(f) > 0 {
		last, _ = strconv.Atoi(f[len(f)-1])
	}
	for i := range b.Reqs {
		a := "not-reached"
		if i < len(out.Answers) {
			a = out.Answers[i]
		}
		res.Eval(sec, fmt.Sprint(b.Reqs[i]))
		res.Dist(sec, b.Reqs[i].Kind+"/"+a)
	}
	if verbose {
		fmt.Printf("e2e: %d requests, child err=%v alive=%v last=%d note=%s\n  answers=%v\n  stderr=%s\n", len(b.Reqs), werr, out.Alive, last, out.Note, out.Answers, firstLines(errb.String(), 6))
	}
	if werr != nil || !out.Alive {
		var culprit interface{} = b
		if last >= 0 && last < len(b.Reqs) {
			culprit = e2eBatch{Reqs: b.Reqs[:last+1]}
		}
		f55 := ""
		if last >= 0 && last < len(b.Reqs) && b.Reqs[last].Kind == "exec" && f55Class(b.Reqs[last].Query) &&
			strings.Contains(errb.String(), "partition.(*Service).Partitions") && f55ModelPanics(b.Reqs[last].Query) {
			f55 = "F55"
		}
		res.SpecFail(vh.SpecFailure{Section: "e2e", Kind: "server-died", Input: culprit, Finding: f55, ImplEqModel: f55 != "", Impl: fmt.Sprintf("child: %v; alive=%v; %s; %s", werr, out.Alive, out.Note, firstLines(errb.String(), 4)),
			Spec: "the server answers every request and is alive afterwards", What: "a request ended the server process or left it unable to answer (last request sent: the last of the recorded batch)"})
		return
	}
	for _, rb := range out.Readback {
		res.SpecFail(vh.SpecFailure{Section: "e2e", Kind: "acknowledged-write-unreadable", Input: b, Impl: rb, Spec: "every event of an acknowledged write is returned by a query of its partition",
			What: "a Write was acknowledged but reading the partition back fails, does not return its events, or returns an event with another event's fields (a stored record that no later read can decode correctly)"})
	}
	for i, a := range out.Answers {
		if e := b.Reqs[i].Expect; e != "" && a != e && a != "timeout" && a != "transport-error" {
			res.SpecFail(vh.SpecFailure{Section: "e2e", Kind: "wrong-answer", Input: e2eBatch{Reqs: b.Reqs[:i+1]}, Impl: a, Spec: e,
				What: "the server's answer to the last request of the recorded batch is not the expected one (a malformed body must be refused with an error)"})
		}
	}
	for i, a := range out.Answers {
		if a == "timeout" || a == "transport-error" {
			res.SpecFail(vh.SpecFailure{Section: "e2e", Kind: "no-answer", Input: e2eBatch{Reqs: b.Reqs[:i+1]}, Impl: a, Spec: "a result or an error",
				What: "the server did not answer a request (the last of the recorded batch) within 10 s"})
			break
		}
	}
}

// f13Bodies: the two former witnesses and four length corruptions of valid bodies from the class
func f13Bodies(rng *vh.Rng) []e2eReq {
	rs := []e2eReq{{Kind: "raw", Func: 100, Body: "ffffffffffffffffff01", Expect: "operr"},
		{Kind: "raw", Func: 200, Body: "0000000000000001feffffffffffffff7f", Expect: "operr"}}
	big := []uint64{1<<63 - 1, 1 << 63, 1<<64 - 1, 1<<63 - 2, 1<<64 - 2}
	for k := 0; k < 4; k++ {
		kind, fn := "wp", 100
		buf := rpc.VerifC13EncodeWritePacket(rng.PickS(tagPool), "a=b", genEvents(rng, 2))
		if k%2 == 1 {
			kind, fn = "qreq", 200
			q := genQueryRequest(rng)
			q.WaitTimeout, q.Limit = 0, 1
			buf = rpc.VerifC13WriteQueryRequest(q)
		}
		ly := layouts[kind]
		lens, _ := walk(buf, ly[0], ly[1])
		j := rng.Intn(len(lens))
		lp := lens[j]
		nb := append(append(append([]byte{}, buf[:lp.off]...), varint(big[rng.Intn(len(big))])...), buf[lp.off+lp.n:]...)
		r := e2eReq{Kind: "raw", Func: fn, Body: vh.Hx(nb)}
		if j < 2 || kind == "qreq" {
			r.Expect = "operr" // a corrupted length inside the event list of a write only ends the batch: the write is acknowledged
		}
		rs = append(rs, r)
	}
	return rs
}

func sectionE2E(rng *vh.Rng) {
	sec := res.Section("e2e", "system-correspondence",
		"batches of ~60 hostile requests against a real server (server.Start wiring, loop-back RPC) running in a child process: typed Write (odd tags, field texts, messages), typed Query (generated/mutated LQL, odd positions, offsets, limits), Execute (generated/mutated statements), and RAW request bodies sent to the Write / Query / Execute / EnsurePipe endpoints (truncated and length-corrupted encodings incl. the former F13 class, which must be refused with an error; bodies that panic or store undecodable fields at unit level are not sent; random bytes / broken JSON); after the batch the server must still accept a write and answer a query for it. non-trivial = every request")
	batches := 3
	if args.Thorough {
		batches = 40
	}
	var f55Own []string
	for bi := 0; bi < batches; bi++ {
		var b e2eBatch
		// read-back family: writes to partitions rb=<n> (some with field blocks around and above 16384 bytes), then filters that
		// name fields — including names that are spelled like stored VALUES — evaluated on those partitions
		for k := 0; k < 6; k++ {
			tags := fmt.Sprintf("rb=p%dq%d", bi, k)
			var evs []e2eE
			var aevs []*api.LogEvent
			for j := rng.Range(1, 3); j > 0; j-- {
				flds := fieldPool(rng)
				if k == 0 || rng.Chance(1, 5) {
					var sb strings.Builder
					for x := rng.PickI([]int{64, 65, 66, 70}); x > 0; x-- {
						fmt.Fprintf(&sb, "f%d=%s,", x, strings.Repeat("v", rng.PickI([]int{249, 250, 251})))
					}
					flds = sb.String() + "kind=level"
				}
				e := e2eE{rng.PickI64(tsPool), rng.PickS(msgPool), flds}
				evs = append(evs, e)
				aevs = append(aevs, &api.LogEvent{Timestamp: e.Ts, Message: e.Msg, Fields: e.Fields})
			}
			wf := rng.PickS([]string{"", "kind=level", "x=y,kind=level", "a=b"})
			if safeWriteBody(rpc.VerifC13EncodeWritePacket(tags, wf, aevs)) {
				b.Reqs = append(b.Reqs, e2eReq{Kind: "write", Tags: tags, Flds: wf, Evs: evs})
				for j := 0; j < 3; j++ {
					whereMode = true
					w := genExpr(rng, 2)
					whereMode = false
					if j == 0 {
						// names that are spelled like the values stored above (last and inner position)
						w = rng.PickS([]string{"fields:level = \"x\"", "fields:y contains \"q\" or fields:level != \"\"", "not fields:level prefix \"a\""})
					}
					b.Reqs = append(b.Reqs, e2eReq{Kind: "query", Query: "select from " + tags + " where " + w + " limit 50", Lim: 50})
				}
			}
		}
		// the former F13 class (a length varint >= 2^63 - idx) no longer ends the process: it goes to the real server too and
		// must be refused with an error
		b.Reqs = append(b.Reqs, f13Bodies(rng)...)
		// an event WITH fields followed by events WITHOUT fields in one partition (a reader that keeps state between events must
		// not hand the first event's fields to the next), long and short messages alternating
		{
			tags := fmt.Sprintf("rb=mixp%d", bi)
			evs := []e2eE{{1, strings.Repeat("with-fields ", 40), "a=" + strings.Repeat("v", 200) + ",c=" + strings.Repeat("w", 250)},
				{2, "nofields " + strings.Repeat("x", 700), ""}, {3, "nofields y", ""}, {4, "with-fields again", "k=v"}, {5, "nofields z", ""}}
			b.Reqs = append(b.Reqs, e2eReq{Kind: "write", Tags: tags, Evs: evs})
			b.Reqs = append(b.Reqs, e2eReq{Kind: "query", Query: "select from " + tags + " where fields:a != \"zz\" or fields:k = \"v\" limit 50", Lim: 50})
		}
		// a packet well below MaxRecordSize (1 MiB) whose one event is bigger than that once its field text is unquoted: every
		// quoted run of 85 invalid UTF-8 bytes (87 bytes of text) is a 255-byte item. It must be refused, or be readable.
		if bi == 0 {
			var sb strings.Builder
			item := "\"" + strings.Repeat("\xff", 85) + "\""
			for k := 0; k < 2100; k++ {
				if k > 0 {
					sb.WriteByte(',')
				}
				sb.WriteString(item + "=" + item)
			}
			b.Reqs = append(b.Reqs, e2eReq{Kind: "write", Tags: "rb=bigrec", Evs: []e2eE{{1, "ordinary", "a=b"}}})
			b.Reqs = append(b.Reqs, e2eReq{Kind: "write", Tags: "rb=bigrec", Evs: []e2eE{{2, "expands", sb.String()}}})
		}
		for len(b.Reqs) < 60 {
			switch rng.Intn(8) {
			case 0, 1:
				var evs []e2eE
				for _, e := range genEvents(rng, 3) {
					evs = append(evs, e2eE{e.Timestamp, e.Message, e.Fields})
				}
				tags, flds := rng.PickS(tagPool), fieldPool(rng)
				var aevs []*api.LogEvent
				for _, e := range evs {
					aevs = append(aevs, &api.LogEvent{Timestamp: e.Ts, Message: e.Msg, Fields: e.Fields})
				}
				if safeWriteBody(rpc.VerifC13EncodeWritePacket(tags, flds, aevs)) {
					b.Reqs = append(b.Reqs, e2eReq{Kind: "write", Tags: tags, Flds: flds, Evs: evs})
				}
			case 2, 3:
				q := genLql(rng)
				if rng.Bool() {
					q = mutateText(rng, q)
				}
				b.Reqs = append(b.Reqs, e2eReq{Kind: "query", Query: q, Pos: rng.PickS([]string{"", "tail", "head", "zz", "j=000000000000000a0000000b", "a=b:c", strings.Repeat("=", 30)}),
					Off: rng.PickI([]int{0, 1, -1, 100, -100}), Lim: rng.PickI([]int{1, 10, 100})})
			case 4:
				q := genLql(rng)
				if strings.HasPrefix(q, "truncate") && !strings.Contains(q, "dryrun") {
					q = strings.Replace(q, "truncate", "truncate dryrun", 1)
				}
				if rng.Bool() {
					q = mutateText(rng, q)
				}
				if f55Class(q) {
					// SHOW PARTITIONS with a negative OFFSET/LIMIT ends the process on a tree without the guard (finding F55): it gets
					// children of its own below and is exercised exhaustively, under recover, in the admin section
					f55Own = append(f55Own, q)
					continue
				}
				b.Reqs = append(b.Reqs, e2eReq{Kind: "exec", Query: q})
			case 5:
				// raw write bodies: variants of a valid packet that do not fall into the process-killing classes
				vs := variants("wp", rpc.VerifC13EncodeWritePacket(rng.PickS(tagPool), fieldPool(rng), genEvents(rng, 2)))
				for k := 0; k < 4; k++ {
					v := vs[rng.Intn(len(vs))]
					if safeWriteBody(v.bytes()) {
						b.Reqs = append(b.Reqs, e2eReq{Kind: "raw", Func: 100, Body: v.Hex})
					}
				}
			case 6:
				q := genQueryRequest(rng)
				q.WaitTimeout, q.Limit = 0, rng.PickI([]int{0, 1, 10})
				q.Offset = rng.PickI([]int{0, 1, -1})
				vs := variants("qreq", rpc.VerifC13WriteQueryRequest(q))
				for k := 0; k < 4; k++ {
					v := vs[rng.Intn(len(vs))]
					r, _ := implWire(v)
					if r.Kind == "panic" || r.Kind == "timeout" {
						continue
					}
					// keep only bodies whose wait timeout is still 0 (a corrupted length can shift it; the server would then block for up to 60 s)
					if n, dq, err := rpc.VerifC13UnmarshalQueryRequest(v.bytes()); err == nil && n > 0 && dq.WaitTimeout != 0 {
						continue
					}
					b.Reqs = append(b.Reqs, e2eReq{Kind: "raw", Func: 200, Body: v.Hex})
				}
			case 7:
				body := rng.PickS([]string{"", "{", "{\"Query\":1}", "{\"Query\":\"show partitions\"}", "null", "[1,2]", "{\"Name\":\"\xff\",\"TagsCond\":\"a=\"}", "{\"Name\":\"p\",\"TagsCond\":\"{\",\"FilterCond\":\"((\"}", "\xff\xfe\x00"})
				b.Reqs = append(b.Reqs, e2eReq{Kind: "raw", Func: rng.PickI([]int{300, 400}), Body: vh.HxS(body)})
			}
		}
		if bi == 0 {
			res.Sample(map[string]interface{}{"section": "e2e", "first_requests": b.Reqs[:3]})
		}
		runE2EBatch(sec, b, false)
	}
	// record sizes around the configured limit (a small one, so that it is cheap): limit-2 … limit+6, without and with fields. A
	// record of at most MaxRecordSize bytes must be acknowledged and readable, a bigger one must be refused — and whatever was
	// acknowledged must be served by a later read of its partition (a chunk reader's buffer has MaxRecordSize bytes)
	{
		const limit = 4096
		b := e2eBatch{MaxRec: limit}
		uv := func(n int) int {
			k := 1
			for n > 127 {
				n >>= 7
				k++
			}
			return k
		}
		for wi, withF := range []bool{false, true} {
			for d := -2; d <= 6; d++ {
				tags := fmt.Sprintf("rb=rec%dd%d", wi, d+2)
				wf, ef, fbin := "", "", 0
				if withF {
					wf, ef, fbin = "a=b", "k=v", 8 // two pairs of one-byte items: 4 bytes each
				}
				// record = version 1 + timestamp 8 + varint(len msg) + msg [+ varint(len fields) + fields]
				over := 9
				if fbin > 0 {
					over += uv(fbin) + fbin
				}
				L := limit + d - over - 2
				if uv(L) != 2 {
					continue
				}
				exp := "ok"
				if d > 0 {
					exp = "operr"
				}
				b.Reqs = append(b.Reqs,
					e2eReq{Kind: "write", Tags: tags, Flds: wf, Evs: []e2eE{{1, "small-before", ef}}, Expect: "ok"},
					e2eReq{Kind: "write", Tags: tags, Flds: wf, Evs: []e2eE{{2, strings.Repeat("m", L), ef}}, Expect: exp},
					e2eReq{Kind: "write", Tags: tags, Flds: wf, Evs: []e2eE{{3, "small-after", ef}}, Expect: "ok"},
					e2eReq{Kind: "query", Query: "select from " + tags + " limit 10", Lim: 10, Expect: "ok"})
			}
		}
		// the same boundary inside ONE packet: the boundary / oversize event directly behind an event with the SAME fields text (the
		// empty one too), behind another text, and as the third event — a validation that looks at an event only when its fields text
		// differs from its predecessor's must not let the size test go with it. One oversize event refuses the whole packet.
		type pk struct {
			prevF, bigF, wf string
			lead            int // small events in front of the boundary event
		}
		for vi, v := range []pk{{"", "", "", 1}, {"k=v", "k=v", "", 1}, {"k=v", "k=v", "a=b", 1}, {"k=v", "x=y", "", 1}, {"", "", "", 2}, {"", "", "a=b", 1}} {
			for di, d := range []int{-1, 0, 1, 3, 6, 200} {
				tags := fmt.Sprintf("rb=pk%dd%d", vi, di)
				fbin := 0
				if v.bigF != "" {
					fbin += 4
				}
				if v.wf != "" {
					fbin += 4
				}
				over := 9
				if fbin > 0 {
					over += uv(fbin) + fbin
				}
				L := limit + d - over - 2
				if uv(L) != 2 {
					continue
				}
				exp := "ok"
				if d > 0 {
					exp = "operr"
				}
				var evs []e2eE
				for k := 0; k < v.lead; k++ {
					evs = append(evs, e2eE{int64(10 + k), "lead", v.prevF})
				}
				evs = append(evs, e2eE{20, strings.Repeat("M", L), v.bigF}, e2eE{21, "tail", v.bigF})
				b.Reqs = append(b.Reqs,
					e2eReq{Kind: "write", Tags: tags, Flds: v.wf, Evs: []e2eE{{1, "small-before", v.prevF}}, Expect: "ok"},
					e2eReq{Kind: "write", Tags: tags, Flds: v.wf, Evs: evs, Expect: exp},
					e2eReq{Kind: "query", Query: "select from " + tags + " limit 10", Lim: 10, Expect: "ok"})
			}
		}
		runE2EBatch(sec, b, false)
	}
	// the F55 class, one statement per child (a partition first, so that LIMIT is reached): at most three per run
	for i, q := range f55Own {
		if i >= 3 {
			break
		}
		runE2EBatch(sec, e2eBatch{Reqs: []e2eReq{{Kind: "write", Tags: "rb=f55", Evs: []e2eE{{Ts: 1, Msg: "m"}}}, {Kind: "exec", Query: q}}}, false)
	}
	// F25, in its own child
	runNesting(sec, nestCase{Depth: 20000, MaxStackMB: 64}, false)
	runNestingHole(sec, holeCase{Prefix: holePrefix, Depth: 20000, MaxStackMB: 64}, false)
	res.Done(sec)
}

// ---------------------------------------------------------------------------------------------
// child processes

type rawBody []byte

func childMain() {
	switch os.Getenv("VERIF_C13_CHILD") {
	case "nest":
		var d, mb int
		fmt.Sscanf(os.Getenv("VERIF_C13_NEST"), "%d,%d", &d, &mb)
		debug.SetMaxStack(mb << 20)
		q := "select where " + strings.Repeat("(", d) + "a=1" + strings.Repeat(")", d)
		if p := os.Getenv("VERIF_C13_NEST_PREFIX"); p != "" {
			q = p + strings.Repeat("(", d) + "a=1" + strings.Repeat(")", d)
		}
		done := make(chan error)
		go func() { _, err := lql.ParseLql(q); done <- err }()
		err := <-done
		fmt.Println("answered", err != nil)
	case "e2e":
		p := strings.Split(os.Getenv("VERIF_C13_E2E"), ",")
		childE2E(p[0], p[1], p[2], p[3])
	}
}

func childE2E(in, logf, outf, dir string) {
	var b e2eBatch
	jb, _ := ioutil.ReadFile(in)
	json.Unmarshal(jb, &b)
	var out e2eOut
	finish := func() {
		ob, _ := json.Marshal(out)
		ioutil.WriteFile(outf, ob, 0644)
	}
	os.MkdirAll(dir, 0755)
	srv, err := lrsrv.Start(dir, lrsrv.Opts{MaxRecordSize: b.MaxRec})
	if err != nil {
		out.Note = "server did not start: " + err.Error()
		finish()
		os.Exit(3)
	}
	conn, err := transport.NewClientConn(transport.Config{ListenAddr: srv.Addr})
	if err != nil {
		out.Note = "raw connection: " + err.Error()
		finish()
		os.Exit(3)
	}
	raw := rrpc.NewClient(conn)
	lf, _ := os.Create(logf)
	acked := map[string]int{}
	for i, r := range b.Reqs {
		fmt.Fprintf(lf, "%d\n", i)
		lf.Sync()
		ctx, cancel := context.WithTimeout(context.Background(), 10*time.Second)
		ans := "ok"
		var terr, operr error
		switch r.Kind {
		case "write":
			var evs []*api.LogEvent
			for _, e := range r.Evs {
				evs = append(evs, &api.LogEvent{Timestamp: e.Ts, Message: e.Msg, Fields: e.Fields})
			}
			var wr api.WriteResult
			terr = srv.Client.Write(ctx, r.Tags, r.Flds, evs, &wr)
			operr = wr.Err
		case "query":
			srv.FlushWait()
			var qr api.QueryResult
			terr = srv.Client.Query(ctx, &api.QueryRequest{Query: r.Query, Pos: r.Pos, Offset: r.Off, Limit: r.Lim}, &qr)
			operr = qr.Err
		case "exec":
			var er api.ExecResult
			er, terr = srv.Client.Execute(ctx, api.ExecRequest{Query: r.Query})
			operr = er.Err
		case "raw":
			var resp []byte
			resp, operr, terr = raw.Call(ctx, r.Func, records.Record(vh.UnHx(r.Body)))
			raw.Collect(resp)
		}
		if ctx.Err() != nil {
			ans = "timeout"
		} else if terr != nil {
			ans = "transport-error"
			// a transport error closes the typed client's connection; it reconnects on the next call. Re-open the raw one.
			if r.Kind == "raw" {
				raw.Close()
				if c2, err := transport.NewClientConn(transport.Config{ListenAddr: srv.Addr}); err == nil {
					raw = rrpc.NewClient(c2)
				}
			}
		} else if operr != nil {
			ans = "operr"
		}
		cancel()
		out.Answers = append(out.Answers, ans)
		if r.Kind == "write" && ans == "ok" && strings.HasPrefix(r.Tags, "rb=") {
			acked[r.Tags] += len(r.Evs)
		}
	}
	// read-back: every acknowledged write to a rb=… partition must be served completely
	srv.FlushWait()
	for tags, n := range acked {
		var qr api.QueryResult
		var err error
		for t0 := time.Now(); time.Since(t0) < 8*time.Second; time.Sleep(25 * time.Millisecond) {
			ctx, cancel := context.WithTimeout(context.Background(), 10*time.Second)
			qr = api.QueryResult{}
			err = srv.Client.Query(ctx, &api.QueryRequest{Query: "select from " + tags + " limit 1000", Limit: 1000}, &qr)
			cancel()
			if err != nil || qr.Err != nil || len(qr.Events) >= n {
				break // an error is final; fewer events than acknowledged may just not be flushed yet
			}
			srv.FlushWait()
		}
		if err != nil || qr.Err != nil || len(qr.Events) != n {
			out.Readback = append(out.Readback, fmt.Sprintf("%s: %d events acknowledged, query returned %d, err=%v operr=%v", tags, n, len(qr.Events), err, qr.Err))
			continue
		}
		for _, e := range qr.Events {
			if strings.HasPrefix(e.Message, "nofields") && e.Fields != "" {
				out.Readback = append(out.Readback, fmt.Sprintf("%s: the event %.20q was written without fields and is served with fields %.60q", tags, e.Message, e.Fields))
				break
			}
		}
	}
	sort.Strings(out.Readback)
	// liveness: a fresh write and a query for it
	ctx, cancel := context.WithTimeout(context.Background(), 10*time.Second)
	defer cancel()
	var wr api.WriteResult
	err = srv.Client.Write(ctx, "verif=alive", "", []*api.LogEvent{{Timestamp: 1, Message: "alive"}}, &wr)
	if err != nil || wr.Err != nil {
		out.Note = fmt.Sprintf("liveness write failed: %v %v", err, wr.Err)
		finish()
		os.Exit(4)
	}
	// readers only see flushed records: poll with a generous margin instead of trusting one flush period (loaded machines)
	var qr api.QueryResult
	for t0 := time.Now(); time.Since(t0) < 8*time.Second; time.Sleep(25 * time.Millisecond) {
		srv.FlushWait()
		qr = api.QueryResult{}
		err = srv.Client.Query(ctx, &api.QueryRequest{Query: "select from verif=alive limit 5", Limit: 5}, &qr)
		if err != nil || qr.Err != nil || len(qr.Events) >= 1 {
			break
		}
	}
	if err != nil || qr.Err != nil || len(qr.Events) != 1 || qr.Events[0].Message != "alive" {
		out.Note = fmt.Sprintf("liveness query failed: %v %v %d events", err, qr.Err, len(qr.Events))
		finish()
		os.Exit(4)
	}
	out.Alive = true
	finish()
	raw.Close()
	srv.Stop()
}
