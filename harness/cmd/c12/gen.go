package main

// Grammar-directed generators for LQL statements, source conditions and filter expressions, and the mutation
// operators that produce the error side. Every choice comes from the seeded vh.Rng.

import (
	"fmt"
	"strings"

	"verifharness/internal/vh"
)

// grammarLits: the literals of every struct of the regenerated grammar (filled from the driver at start); the
// generators spell each clause keyword as the struct tag does, so a renamed keyword is still generated
var grammarLits = map[string][]string{}

// expected literal order per struct (what the generator's clauses are); used when the regenerated grammar has the same
// number of literals for the struct, else the default spelling
var defaultLits = map[string][]string{
	"Lql":        {"SELECT", "DESCRIBE", "TRUNCATE", "SHOW", "CREATE", "DELETE"},
	"Select":     {"FROM", "RANGE", "WHERE", "POSITION", "OFFSET", "LIMIT"},
	"Describe":   {"PARTITION", "PIPE"},
	"Show":       {"PARTITIONS", "PIPES"},
	"Truncate":   {"DRYRUN", "MINSIZE", "MAXSIZE", "BEFORE", "MAXDBSIZE"},
	"Delete":     {"PIPE"},
	"Partitions": {"OFFSET", "LIMIT"},
	"Pipes":      {"OFFSET", "LIMIT"},
	"Pipe":       {"PIPE", "FROM", "WHERE"},
}

// lit returns the spelling of the i-th literal of a struct's grammar
func lit(strct string, i int) string {
	d := defaultLits[strct]
	if g, ok := grammarLits[strct]; ok && len(g) == len(d) {
		return g[i]
	}
	return d[i]
}

// operands: tag names / event fields (small pools so that the sample tag sets and events below hit them),
// identifiers with ':', '.', '/', '-', keywords used as operands
var tagOperands = []string{"a", "b", "name", "ip", "c.d", "x:y", "p/q-r", "_z", "A"}
var whereOperands = []string{"msg", "ts", "fields:f", "fields:g", "MSG", "Ts", "fields:x.y"}
var oddOperands = []string{"limit", "from", "tail", "select", "NOT", "not", "a-", "b:", "fields:", "k/", "pipe", "OR"}
var funcs = []string{"upper", "lower", "UPPER", "f"}
var ops = []string{"=", "!=", "<", ">", "<=", ">=", "contains", "CONTAINS", "like", "LIKE", "prefix", "Suffix", "PREFIX", "suffix"}
var badOps = []string{"<>", "==", "in", "+"}

// plain values (also used for the sample tag sets / events)
var plainVals = []string{"v", "1", "b", "x", "app1", "10", "abc", "é", "a b", "", "x*", "*", "5", "a  b"}

// delicate values (source text of a double-quoted literal): runs of blanks, leading / trailing blanks, a trailing
// backslash, tabs, quotes — what a text-level rewrite of a printed condition (or a lexer pattern change) disturbs.
// The sample tag sets and events of main.go contain the denoted values, so that truth tables tell them apart.
var delicateLits = []string{`"a  b"`, `"x   y"`, `" lead"`, `"trail  "`, `"C:\\logs\\"`, `"t\tb"`, `"q\"t"`, `"a b"`, `"  "`, `"a\\"`}

// directedCond: operand and operator from small pools, value from the delicate pool (boundary-directed stream)
func directedCond(r *vh.Rng, where bool) string {
	op := r.PickS([]string{"=", "=", "contains", "prefix", "suffix", "!=", "like"})
	id := r.PickS([]string{"a", "name"})
	if where {
		id = r.PickS([]string{"msg", "fields:f"})
	}
	c := id + " " + op + " " + r.PickS(delicateLits)
	if r.Chance(1, 3) { // followed by a second literal (a trailing backslash must not swallow it)
		c += r.PickS([]string{" and ", " or "}) + id + " " + r.PickS([]string{"=", "contains"}) + " " + r.PickS([]string{`"x"`, `"v"`, `"a b"`})
	}
	if r.Chance(1, 6) {
		c = "not (" + c + ")"
	}
	return c
}

// raw string bodies from the weighted alphabet (quotes, escapes, braces, non-ASCII, control bytes)
var strAtoms = []string{"a", "b", "x", "1", " ", "  ", "   ", "}", "{", "=", ",", "\\\"", "\\\\", "\\n", "\\t", "\\x7d", "\\x00", "\\xff", "\\u00e9", "\\U0001F600",
	"é", "ÿ", "日", "'", "`", "*", "?", "[", "]", ":", "(", ")", "\xff", "\xc3", "\x7f", "\x01", "\\'", "\\q", "\\101", "\\400", "\\u12", "\n", "or", "AND", "%"}

func strLit(r *vh.Rng) string {
	switch r.Intn(10) {
	case 0:
		return `"` + r.PickS(plainVals) + `"`
	case 1: // single-quoted
		n := r.Intn(4)
		var sb strings.Builder
		for i := 0; i < n; i++ {
			a := r.PickS(strAtoms)
			if a == "'" {
				a = "\""
			}
			sb.WriteString(a)
		}
		return "'" + sb.String() + "'"
	default:
		n := r.Intn(5)
		var sb strings.Builder
		for i := 0; i < n; i++ {
			a := r.PickS(strAtoms)
			if a == "'" && r.Bool() {
				a = "x"
			}
			sb.WriteString(a)
		}
		return `"` + sb.String() + `"`
	}
}

var numLits = []string{"0", "1", "10", "007", "08", "-3", "+5", "1k", "2Mb", "3kib", "1.5", "1.5k", ".5", "1e3", "2E-1", "10bb", "5b", "5B", "1G", "2gi", "7Pib", "9P",
	"9223372036854775807", "9223372036854775808", "18446744073709551615", "18446744073709551616", "9007199254740993", "10000P", "16384P", "12345678901234567890", "1.9999999999999999", "0.1k", "100T", "-0", "00"}

func value(r *vh.Rng) string {
	switch r.Intn(6) {
	case 0:
		return r.PickS(tagOperands)
	case 1:
		return r.PickS(numLits)
	default:
		return strLit(r)
	}
}

func ident(r *vh.Rng, where bool, d int) string {
	var id string
	switch {
	case r.Chance(1, 12):
		id = r.PickS(oddOperands)
	case where:
		id = r.PickS(whereOperands)
	default:
		id = r.PickS(tagOperands)
	}
	if d > 0 && r.Chance(1, 6) {
		n := r.Range(1, 3)
		ps := []string{}
		for i := 0; i < n; i++ {
			ps = append(ps, ident(r, where, d-1))
		}
		sep := ","
		if r.Chance(1, 4) {
			sep = " , "
		}
		id = r.PickS(funcs) + "(" + strings.Join(ps, sep) + ")"
	}
	return id
}

func cond(r *vh.Rng, where bool) string {
	op := r.PickS(ops)
	if r.Chance(1, 40) {
		op = r.PickS(badOps)
	}
	if r.Chance(1, 30) { // an operator given as a string token
		op = `"` + op + `"`
	}
	sp := " "
	if r.Chance(1, 5) && !isWord(op) {
		sp = ""
	}
	return ident(r, where, 2) + sp + op + sp + value(r)
}

func isWord(s string) bool { return len(s) > 0 && (s[0] >= 'A' && s[0] <= 'Z' || s[0] >= 'a' && s[0] <= 'z') }

func expr(r *vh.Rng, where bool, d int) string {
	n := 1 + r.Intn(3)
	ps := []string{}
	for i := 0; i < n; i++ {
		x := cond(r, where)
		if r.Chance(1, 10) {
			x = directedCond(r, where)
		}
		if d > 0 && r.Chance(1, 3) {
			x = "(" + expr(r, where, d-1) + ")"
			if r.Chance(1, 4) {
				x = "( " + x[1:len(x)-1] + " )"
			}
		}
		if r.Chance(1, 4) {
			x = r.PickS([]string{"NOT ", "not ", "Not "}) + x
		}
		ps = append(ps, x)
		if i < n-1 {
			ps = append(ps, r.PickS([]string{"AND", "and", "OR", "or", "And"}))
		}
	}
	return strings.Join(ps, " ")
}

var tagKeys = []string{"a", "bb", "c.d", "name", "ip", "", " k", "{k", "k\"", "x y"}
var tagVals = []string{"v", "1", "app1", `"a  b"`, `"a b"`, `"x,y"`, `"q\"t"`, `" s "`, `""`, "`raw`", "é", `"unclosed`, `"}"`, `"x}"`, `"x}y"`, `"a=b"`, `"\n"`, `"\xff"`, "a b", "`", `"\\"`, `"{"`, "x*", `"ÿ"`, "v}"}

func tagsLit(r *vh.Rng) string {
	n := 1 + r.Intn(3)
	ps := []string{}
	for i := 0; i < n; i++ {
		k := r.PickS(tagKeys[:5])
		if r.Chance(1, 10) {
			k = r.PickS(tagKeys)
		}
		v := r.PickS(tagVals[:6])
		if r.Chance(1, 3) {
			v = r.PickS(tagVals)
		}
		eq := "="
		if r.Chance(1, 8) {
			eq = " = "
		}
		ps = append(ps, k+eq+v)
	}
	sep := ","
	if r.Chance(1, 6) {
		sep = " , "
	}
	s := "{" + strings.Join(ps, sep) + "}"
	if r.Chance(1, 15) {
		s = "{" + s + "}"
	}
	return s
}

func source(r *vh.Rng, d int) string {
	if r.Chance(2, 5) {
		return tagsLit(r)
	}
	return expr(r, false, d)
}

// date literals: plain integers (raw unix nanoseconds) and absolute forms that do not depend on time.Now; a tenth
// aims at the boundary the date printer is sensitive to (sub-second part a multiple of 10 ms)
func dateLit(r *vh.Rng) string {
	switch r.Intn(10) {
	case 0:
		return `"` + r.PickS([]string{"2019-01-02 12:34:55", "2019-03-11 12:00:00", "2018-12-31", "2019-01-02 12:34:55.120", "2019-01-02 12:34:55.5"}) + `"`
	case 1:
		return fmt.Sprintf(`"%d"`, int64(1546432495)*1000000000+int64(r.Intn(100))*10000000)
	case 2:
		return fmt.Sprintf(`"%d"`, int64(r.Intn(2000000000))*1000000000)
	case 3:
		return fmt.Sprintf(`"%d"`, -int64(r.Intn(2000000000))*1000000+int64(r.Intn(3)))
	default:
		return fmt.Sprintf(`"%d"`, int64(r.U64()>>uint(1+r.Intn(50))))
	}
}

var pipeNames = []string{"p", "p1", "a:b/c", "x.y-z", "_p", "Pipe1", "forwarder:1"}
var posLits = []string{"tail", "HEAD", "TAIL", "head", `"abc=0000000000000000000000FF"`, "xyz", `"x\"y"`, `"}"`, "a:b", `""`, "10", `'p'`}

func stmt(r *vh.Rng, d int) string {
	kw := func(s string) string {
		switch r.Intn(6) {
		case 0:
			return strings.ToLower(s)
		case 1:
			return strings.Title(strings.ToLower(s))
		}
		return s
	}
	switch r.Intn(16) {
	case 0, 1, 2, 3, 4, 5:
		s := kw(lit("Lql", 0))
		if r.Chance(1, 4) {
			s += " " + r.PickS([]string{`"{msg}"`, `"{ts} {vars:a}\n"`, `""`, `'x'`, `"FROM"`})
		}
		if r.Chance(1, 2) {
			s += " " + kw(lit("Select", 0)) + " " + source(r, d)
		}
		if r.Chance(1, 3) {
			switch r.Intn(8) {
			case 0, 1, 2:
				s += " " + kw(lit("Select", 1)) + " " + dateLit(r)
			case 3, 4:
				s += " " + kw(lit("Select", 1)) + " [" + dateLit(r) + ":" + dateLit(r) + "]"
			case 5:
				s += " " + kw(lit("Select", 1)) + " [:" + dateLit(r) + "]"
			case 6:
				s += " " + kw(lit("Select", 1)) + " [" + dateLit(r)
			default:
				s += " " + kw(lit("Select", 1)) + " ["
			}
		}
		if r.Chance(1, 2) {
			s += " " + kw(lit("Select", 2)) + " " + expr(r, true, d)
		}
		if r.Chance(1, 3) {
			s += " " + kw(lit("Select", 3)) + " " + r.PickS(posLits)
		}
		if r.Chance(1, 3) {
			s += " " + kw(lit("Select", 4)) + " " + r.PickS(numLits)
		}
		if r.Chance(1, 3) {
			s += " " + kw(lit("Select", 5)) + " " + r.PickS(numLits)
		}
		return s
	case 6, 7, 8:
		s := kw(lit("Lql", 2))
		if r.Chance(1, 2) {
			s += " " + kw(lit("Truncate", 0))
		}
		if r.Chance(1, 2) {
			s += " " + source(r, d)
		}
		if r.Chance(1, 2) {
			s += " " + kw(lit("Truncate", 1)) + " " + r.PickS(numLits)
		}
		if r.Chance(1, 2) {
			s += " " + kw(lit("Truncate", 2)) + " " + r.PickS(numLits)
		}
		if r.Chance(1, 3) {
			s += " " + kw(lit("Truncate", 3)) + " " + dateLit(r)
		}
		if r.Chance(1, 4) {
			s += " " + kw(lit("Truncate", 4)) + " " + r.PickS(numLits)
		}
		return s
	case 9, 10:
		if r.Bool() {
			s := kw(lit("Lql", 3)) + " " + kw(lit("Show", 0))
			if r.Bool() {
				s += " " + source(r, d)
			}
			if r.Bool() {
				s += " " + kw(lit("Partitions", 0)) + " " + r.PickS(numLits)
			}
			if r.Bool() {
				s += " " + kw(lit("Partitions", 1)) + " " + r.PickS(numLits)
			}
			return s
		}
		s := kw(lit("Lql", 3)) + " " + kw(lit("Show", 1))
		if r.Chance(1, 6) {
			s += " " + source(r, 1)
		}
		if r.Bool() {
			s += " " + kw(lit("Pipes", 0)) + " " + r.PickS(numLits)
		}
		if r.Bool() {
			s += " " + kw(lit("Pipes", 1)) + " " + r.PickS(numLits)
		}
		return s
	case 11:
		if r.Bool() {
			return kw(lit("Lql", 1)) + " " + kw(lit("Describe", 0)) + " " + tagsLit(r)
		}
		return kw(lit("Lql", 1)) + " " + kw(lit("Describe", 1)) + " " + r.PickS(pipeNames)
	case 12, 13:
		s := kw(lit("Lql", 4)) + " " + kw(lit("Pipe", 0)) + " " + r.PickS(pipeNames)
		if r.Bool() {
			s += " " + kw(lit("Pipe", 1)) + " " + source(r, d)
		}
		if r.Bool() {
			s += " " + kw(lit("Pipe", 2)) + " " + expr(r, true, d)
		}
		return s
	case 14:
		return kw(lit("Lql", 5)) + " " + kw(lit("Delete", 0)) + " " + r.PickS(pipeNames)
	default:
		return r.PickS([]string{"SELECT", "SHOW", "DESCRIBE", "TRUNCATE", "CREATE", "DELETE", "show pipes", "show partitions", "select limit 5", "delete pipe"})
	}
}

var junk = []string{"(", ")", ",", "{", "}", `"`, "'", "=", " ", "or", "and", "not", "[", "]", ":", "\n", "x", "1", "select", "pipe", "limit", "\\", "}\"", "<", ">", "!", ".", "-", "é", "\xff", "\t", "\r", "\f", "\v", "\x00", "#", "@", "|", "`", "~", "$", "^", "&", ";", "?"}

func mutate(r *vh.Rng, s string) string {
	if s == "" {
		return r.PickS(junk)
	}
	switch r.Intn(6) {
	case 0: // insert junk
		p := r.Intn(len(s) + 1)
		return s[:p] + r.PickS(junk) + s[p:]
	case 1: // delete a few bytes
		p := r.Intn(len(s))
		q := p + 1 + r.Intn(4)
		if q > len(s) {
			q = len(s)
		}
		return s[:p] + s[q:]
	case 2: // swap two blank-separated pieces
		toks := strings.Fields(s)
		if len(toks) > 1 {
			i := r.Intn(len(toks) - 1)
			toks[i], toks[i+1] = toks[i+1], toks[i]
		}
		return strings.Join(toks, " ")
	case 3: // delete one piece
		toks := strings.Fields(s)
		if len(toks) > 1 {
			i := r.Intn(len(toks))
			toks = append(toks[:i], toks[i+1:]...)
		}
		return strings.Join(toks, " ")
	case 4: // case flip of one letter
		b := []byte(s)
		p := r.Intn(len(b))
		for k := 0; k < len(b); k++ {
			c := b[(p+k)%len(b)]
			if c >= 'a' && c <= 'z' {
				b[(p+k)%len(b)] = c - 32
				break
			}
			if c >= 'A' && c <= 'Z' {
				b[(p+k)%len(b)] = c + 32
				break
			}
		}
		return string(b)
	default: // duplicate a piece
		toks := strings.Fields(s)
		if len(toks) > 0 {
			i := r.Intn(len(toks))
			toks = append(toks[:i+1], toks[i:]...)
		}
		return strings.Join(toks, " ")
	}
}

// random byte soup from the lexer's interesting bytes (lexer correspondence only)
func soup(r *vh.Rng) string {
	atoms := []string{"a", "Z", "_", "1", "9", ".", "-", "+", "e", "E", "k", "b", "i", "\"", "'", "\\", "{", "}", " ", "\n", "\t", "(", ")", ",", "=", "<", ">", "!", "[", "]", ":", "/", "*", "%",
		"or", "OR", "not", "from", "é", "\xff", "\x80", "x", "5", "select", "pipe", "pipes", "partition", "partitions", "maxdbsize", "M", "P", "\r", "\f", "\v", "\x00"}
	n := r.Range(1, 10)
	var sb strings.Builder
	for i := 0; i < n; i++ {
		sb.WriteString(r.PickS(atoms))
	}
	return sb.String()
}
