// C12 harness — LQL statements keep their meaning through print and re-parse.
//
// Sections
//
//	corpus     witnesses of the open findings and minimised past failures, replayed first (section roundtrip / pipe)
//	lexer      unit correspondence: the parser's real token stream (lexer + participle's Unquote) vs the model lexer
//	parse      correspondence: lql.ParseLql AST (canonical, by reflection) and Lql.String() vs the engine on the
//	           regenerated grammar + the model printers; lql.ParseExpr / lql.ParseSource vs engine vs the direct parser
//	roundtrip  SPEC search: ParseLql → String() → ParseLql, meanings compared (real evaluators on both sides, scalars)
//	pipes      CREATE PIPE p FROM S WHERE F through the server vs pipe.Service.CreatePipe with the original texts
package main

import (
	"context"
	"encoding/json"
	"fmt"
	"os"
	"reflect"
	"regexp"
	"sort"
	"strconv"
	"strings"
	"sync"
	"time"
	_ "time/tzdata" // the zone sub-section of datecontract must not depend on the machine's zoneinfo files
	"unicode/utf8"

	"github.com/logrange/logrange/api"
	"github.com/logrange/logrange/pkg/lql"
	"github.com/logrange/logrange/pkg/model"
	"github.com/logrange/logrange/pkg/model/field"
	"github.com/logrange/logrange/pkg/model/tag"
	"github.com/logrange/logrange/pkg/pipe"
	"verifharness/internal/lrsrv"
	"verifharness/internal/vh"
)

var (
	args vh.Args
	res  *vh.Result
)

// ---------------------------------------------------------------------------------------------
// canonical serialisation of the real AST (same text as Logrange.Lql.canonLql)

func canon(v reflect.Value) string {
	for v.Kind() == reflect.Ptr {
		if v.IsNil() {
			return ""
		}
		v = v.Elem()
	}
	t := v.Type()
	switch t.Name() {
	case "TagsVal":
		ts := v.FieldByName("Tags").Addr().Interface().(*tag.Set)
		return "t:" + vh.HxS(ts.Line().String())
	case "DateTime":
		return fmt.Sprintf("dt:%d", v.Int())
	case "Size":
		return fmt.Sprint(v.Uint())
	}
	switch v.Kind() {
	case reflect.String:
		return "s:" + vh.HxS(v.String())
	case reflect.Bool:
		return "1"
	case reflect.Int, reflect.Int64:
		return fmt.Sprint(v.Int())
	case reflect.Slice:
		ps := []string{}
		for i := 0; i < v.Len(); i++ {
			ps = append(ps, canon(v.Index(i)))
		}
		return strings.Join(ps, " ")
	case reflect.Struct:
		var sb strings.Builder
		sb.WriteString("(" + t.Name())
		for i := 0; i < v.NumField(); i++ {
			f := v.Field(i)
			if f.Kind() == reflect.Ptr && f.IsNil() {
				continue
			}
			if f.Kind() == reflect.Slice && f.Len() == 0 {
				continue
			}
			if f.Kind() == reflect.Bool && !f.Bool() {
				continue
			}
			sb.WriteString(" " + t.Field(i).Name + "=[" + canon(f) + "]")
		}
		sb.WriteString(")")
		return sb.String()
	}
	return "?"
}

// ---------------------------------------------------------------------------------------------
// the opaque date parser / printer table handed to the model (C20's territory)

var stableDate = regexp.MustCompile(`^\s*"?(-?\d+|\d{4}-\d\d-\d\d.*)\s*$`)

type dateRow struct {
	lit      string
	ok       bool
	val      int64
	rendered string
}

// dateTable lists, for every String token of the text, what parseLqlDateTime makes of it and how Go prints the
// instant; unstable = some literal parses to a time that depends on time.Now (relative forms, time-only formats)
func dateTable(text string) (rows []dateRow, unstable bool) {
	toks, err := lql.VerifC12Tokens(text)
	if err != nil {
		return nil, false
	}
	seen := map[string]bool{}
	for _, t := range toks {
		if t.Type != "String" || seen[t.Value] {
			continue
		}
		seen[t.Value] = true
		tm, err := lql.VerifC12ParseDateTime(t.Value)
		if err != nil {
			rows = append(rows, dateRow{lit: t.Value})
			continue
		}
		v := tm.UnixNano()
		rows = append(rows, dateRow{lit: t.Value, ok: true, val: v, rendered: renderInstant(v)})
		if !stableDate.MatchString(t.Value) {
			unstable = true
		}
	}
	return
}

// dateLayout: how DateTime.String() renders an instant, as the extractor read it from /repo ("" = time.Time.String())
var dateLayout = ""

// renderInstant is the model printer's date input: Go's own formatting of the instant with the regenerated layout
func renderInstant(v int64) string {
	if dateLayout == "" {
		return time.Unix(0, v).String()
	}
	return time.Unix(0, v).Format(dateLayout)
}

func stmtLine(text string, rows []dateRow) string {
	var sb strings.Builder
	fmt.Fprintf(&sb, "stmt %s %d", vh.HxS(text), len(rows))
	for _, r := range rows {
		ok := "0"
		if r.ok {
			ok = "1"
		}
		fmt.Fprintf(&sb, " %s %s %d %s", vh.HxS(r.lit), ok, r.val, vh.HxS(r.rendered))
	}
	return sb.String()
}

var dtRe = regexp.MustCompile(`dt:-?\d+`)

// parBatch runs the driver over the lines in parallel chunks
func parBatch(lines []string) []string {
	n := len(lines)
	out := make([]string, n)
	workers := 14
	chunk := (n + workers - 1) / workers
	if chunk < 1 {
		chunk = 1
	}
	var wg sync.WaitGroup
	var failed error
	var mu sync.Mutex
	for lo := 0; lo < n; lo += chunk {
		hi := lo + chunk
		if hi > n {
			hi = n
		}
		wg.Add(1)
		go func(lo, hi int) {
			defer wg.Done()
			ans, err := vh.Batch(args.Driver, lines[lo:hi])
			if err != nil {
				mu.Lock()
				failed = err
				mu.Unlock()
				return
			}
			copy(out[lo:hi], ans)
		}(lo, hi)
	}
	wg.Wait()
	if failed != nil {
		res.Fatal(args.Out, "driver: %v", failed)
	}
	return out
}

// ---------------------------------------------------------------------------------------------
// model answers

type modelStmt struct {
	td      string // TRUNCATE through the direct parser: na | same[<wf><lexable>] | diff:...
	ok      bool
	canon   string
	printed string
	classes map[string]bool
}

func parseModelStmt(a string) modelStmt {
	if !strings.HasPrefix(a, "ok ") {
		if i := strings.LastIndex(a, " | "); i >= 0 {
			return modelStmt{td: a[i+3:]}
		}
		return modelStmt{}
	}
	parts := strings.Split(a[3:], " | ")
	if len(parts) != 4 {
		return modelStmt{}
	}
	m := modelStmt{td: parts[3], ok: true, canon: parts[0], printed: string(vh.UnHx(parts[1])), classes: map[string]bool{}}
	if parts[2] != "-" {
		for _, c := range strings.Split(parts[2], ",") {
			m.classes[c] = true
		}
	}
	return m
}

// ---------------------------------------------------------------------------------------------
// meaning of a statement (SPEC side of the round trip): scalar fields + truth tables of its conditions

var sampleTagSets = func() []tag.Set {
	var r []tag.Set
	for _, m := range []map[string]string{
		{}, {"a": "v"}, {"a": "1"}, {"a": "b"}, {"a": "v", "b": "1"}, {"name": "app1", "ip": "10"}, {"a": "x", "name": "abc"}, {"c.d": "v", "x:y": "1"},
		{"a": "é"}, {"a": "a b"}, {"a": ""}, {"bb": "v", "a": "app1"}, {"a": "}"}, {"a": "x}y", "ip": "v"}, {"a": "x,y"}, {"a": "q\"t"}, {"a": " s "}, {"A": "v", "p/q-r": "5"},
		{"a": "a  b"}, {"name": "a  b", "a": "x   y"}, {"a": " lead"}, {"a": "trail  ", "name": "x"}, {"a": "C:\\logs\\"}, {"name": "t\tb"}, {"a": "  "}, {"name": "a\\", "a": "v"}, {"name": "x   y"},
		{"a": "raw"}, {"a": "ÿ"}, {"bb": "1", "c.d": "app1", "name": "v"}, {"a": "\n"}, {"a": "{"}, {"a": "\\"}, {"a": "\xff"}, {"a": "a=b"}, {"a": "x*"},
	} {
		r = append(r, tag.MapToSet(m))
	}
	return r
}()

var sampleEvents = func() []*model.LogEvent {
	var r []*model.LogEvent
	for i, m := range []string{"", "v", "abc", "x", "1", "a b", "é}", "app1 10", "}", "ABC x*", "\"", "5", "日本", "\xff",
		"a  b", "x   y", " lead", "trail  ", "C:\\logs\\", "t\tb", "q\"t", "  ", "a\\", "x a  b x"} {
		fl, _ := field.NewFieldsFromKVString([]string{"", "f=v", "f=1,g=abc", "g=x", "f=\"a b\"", "x.y=5", "f=\"a  b\"", "f=\"x   y\"", "f=\" lead\"", "f=\"trail  \"", "f=\"C:\\\\logs\\\\\"", "f=\"  \""}[i%12])
		r = append(r, &model.LogEvent{Timestamp: []int64{0, 1, 5, 10, 1000, -1}[i%6], Msg: []byte(m), Fields: fl})
	}
	return r
}()

func truthSrc(src *lql.Source) string {
	var out string
	p := vh.Recover(func() {
		f, err := lql.BuildTagsExpFuncBySource(src)
		if err != nil {
			out = "builderr"
			return
		}
		var sb strings.Builder
		for _, ts := range sampleTagSets {
			if f(ts) {
				sb.WriteByte('1')
			} else {
				sb.WriteByte('0')
			}
		}
		out = sb.String()
	})
	if p != "" {
		return "panic"
	}
	return out
}

func truthWhere(e *lql.Expression) string {
	var out string
	p := vh.Recover(func() {
		f, err := lql.BuildWhereExpFuncByExpression(e)
		if err != nil {
			out = "builderr"
			return
		}
		var sb strings.Builder
		for _, ev := range sampleEvents {
			if f(ev) {
				sb.WriteByte('1')
			} else {
				sb.WriteByte('0')
			}
		}
		out = sb.String()
	})
	if p != "" {
		return "panic"
	}
	return out
}

func optS(p *string) string {
	if p == nil {
		return "nil"
	}
	return "=" + *p
}
func optI64(p *int64) string {
	if p == nil {
		return "nil"
	}
	return fmt.Sprint(*p)
}
func optI(p *int) string {
	if p == nil {
		return "nil"
	}
	return fmt.Sprint(*p)
}
func optSz(p *lql.Size) string {
	if p == nil {
		return "nil"
	}
	return fmt.Sprint(uint64(*p))
}
func optDt(p *lql.DateTime) string {
	if p == nil {
		return "nil"
	}
	return fmt.Sprint(int64(*p))
}

// meaning: field name → value. Select.Format nil ≡ "" (it is only ever printed); Pipes.Void is unused by design.
func meaning(l *lql.Lql) map[string]string {
	m := map[string]string{}
	kind := ""
	if s := l.Select; s != nil {
		kind += "select "
		f := ""
		if s.Format != nil {
			f = *s.Format
		}
		m["Select.Format"] = f
		m["src:Select.Source"] = truthSrc(s.Source)
		if s.Range != nil {
			m["Select.Range.TmPoint1"] = optDt(s.Range.TmPoint1)
			m["Select.Range.TmPoint2"] = optDt(s.Range.TmPoint2)
		} else {
			m["Select.Range.TmPoint1"], m["Select.Range.TmPoint2"] = "nil", "nil"
		}
		m["flt:Select.Where"] = truthWhere(s.Where)
		if s.Position != nil {
			m["Select.Position"] = "=" + s.Position.PosId
		} else {
			m["Select.Position"] = "nil"
		}
		m["Select.Offset"] = optI64(s.Offset)
		m["Select.Limit"] = optI64(s.Limit)
	}
	if d := l.Describe; d != nil {
		kind += "describe "
		if d.Partition != nil {
			m["tags:Describe.Partition"] = "=" + d.Partition.Tags.Line().String()
		} else {
			m["tags:Describe.Partition"] = "nil"
		}
		m["Describe.Pipe"] = optS(d.Pipe)
	}
	if t := l.Truncate; t != nil {
		kind += "truncate "
		m["Truncate.DryRun"] = fmt.Sprint(t.DryRun)
		m["src:Truncate.Source"] = truthSrc(t.Source)
		m["Truncate.MinSize"] = optSz(t.MinSize)
		m["Truncate.MaxSize"] = optSz(t.MaxSize)
		m["Truncate.Before"] = optDt(t.Before)
		m["Truncate.MaxDbSize"] = optSz(t.MaxDbSize)
	}
	if s := l.Show; s != nil {
		kind += "show "
		if p := s.Partitions; p != nil {
			kind += "partitions "
			m["src:Show.Partitions.Source"] = truthSrc(p.Source)
			m["Show.Partitions.Offset"] = optI(p.Offset)
			m["Show.Partitions.Limit"] = optI(p.Limit)
		}
		if p := s.Pipes; p != nil {
			kind += "pipes "
			m["Show.Pipes.Offset"] = optI64(p.Offset)
			m["Show.Pipes.Limit"] = optI64(p.Limit)
		}
	}
	if c := l.Create; c != nil {
		kind += "create "
		if p := c.Pipe; p != nil {
			kind += "pipe "
			m["Create.Pipe.Name"] = p.Name
			m["src:Create.Pipe.From"] = truthSrc(p.From)
			m["flt:Create.Pipe.Where"] = truthWhere(p.Where)
		}
	}
	if d := l.Delete; d != nil {
		kind += "delete "
		m["Delete.PipeName"] = optS(d.PipeName)
	}
	m["kind"] = kind
	return m
}

func diffMeaning(a, b map[string]string) []string {
	var d []string
	for k, v := range a {
		if b[k] != v {
			d = append(d, k)
		}
	}
	for k := range b {
		if _, ok := a[k]; !ok {
			d = append(d, k)
		}
	}
	sort.Strings(d)
	return d
}

// which finding class explains a differing field of the meaning
func explains(field string, classes map[string]bool) string {
	switch {
	case field == "Truncate.MaxDbSize" && classes["F12c"]:
		return "F12c"
	case (strings.HasPrefix(field, "Select.Range.") || field == "Truncate.Before") && classes["F12d"]:
		return "F12d"
	case (strings.HasPrefix(field, "src:") || strings.HasPrefix(field, "tags:")) && classes["F12b"]:
		return "F12b"
	}
	return ""
}

// ---------------------------------------------------------------------------------------------
// round trip of one statement (IMPL side), used by the roundtrip section, the corpus and -replay

type rtCase struct {
	Text string `json:"text"`
	// Expect "rejected": a regression case of a repaired parser defect — the statement must not be accepted
	Expect string `json:"expect,omitempty"`
}

type rtImpl struct {
	accepted  bool
	canon     string
	printed   string
	reErr     bool
	reCanon   string
	diff      []string
	rows      []dateRow
	unstable  bool
	rows2     []dateRow
	unstable2 bool
}

func runRT(text string) rtImpl {
	var r rtImpl
	r.rows, r.unstable = dateTable(text)
	l, err := lql.ParseLql(text)
	if err != nil {
		return r
	}
	r.accepted = true
	r.canon = canon(reflect.ValueOf(l))
	r.printed = l.String()
	r.rows2, r.unstable2 = dateTable(r.printed)
	l2, err := lql.ParseLql(r.printed)
	if err != nil {
		r.reErr = true
		return r
	}
	r.reCanon = canon(reflect.ValueOf(l2))
	r.diff = diffMeaning(meaning(l), meaning(l2))
	return r
}

// judgeRT compares one statement's implementation round trip with the model's two answers (statement, printed text)
// and reports correspondence mismatches and IMPL-vs-SPEC failures. Returns a distribution key.
func judgeRT(section string, c rtCase, im rtImpl, a1, a2 string) string {
	m1 := parseModelStmt(a1)
	implS, modelS := "err", "err"
	ic, mc := im.canon, m1.canon
	if im.unstable {
		ic, mc = dtRe.ReplaceAllString(ic, "dt:?"), dtRe.ReplaceAllString(mc, "dt:?")
	}
	if im.accepted {
		implS = "ok " + ic
	}
	if m1.ok {
		modelS = "ok " + mc
	}
	eq := implS == modelS
	if !eq {
		res.Mismatch(vh.Mismatch{Section: section, Function: "lql.ParseLql (lexer + participle engine on the regenerated grammar + captures)", Input: c, Impl: implS, Model: modelS})
	}
	if eq && strings.HasPrefix(m1.td, "diff") {
		eq = false
		res.Mismatch(vh.Mismatch{Section: section, Function: "lql.ParseLql vs the direct statement parser (Logrange.Lql.directLql)", Input: c, Impl: implS, Model: m1.td})
	}
	if !im.accepted {
		if c.Expect == "rejected" {
			return "rejected as expected"
		}
		return "rejected"
	}
	if c.Expect == "rejected" {
		res.Dist(res.Section(section, "", ""), "accepted although the case expects rejection")
	}
	if eq && strings.HasPrefix(m1.td, "same:") && len(m1.td) == 7 && !im.unstable && !m1.classes["F12b"] && !m1.classes["F12e"] {
		// the decidable hypotheses of C12_wf (wfLql: the parser's image minus F12b/F12e) and of the character-level
		// theorems (Lexable: additionally outside F12a) must hold on every accepted statement outside those classes
		want := "11"
		if m1.classes["F12a"] {
			want = "10"
		}
		if m1.td[5:] != want {
			res.Mismatch(vh.Mismatch{Section: section, Function: "hypotheses of C12_wf / print_parse on the parser's image (wfLql, lexable)", Input: c, Impl: "same:" + want, Model: m1.td})
		}
	}
	if eq && !im.unstable && im.printed != m1.printed {
		eq = false
		res.Mismatch(vh.Mismatch{Section: section, Function: "Lql.String() (makeString printers)", Input: c, Impl: fmt.Sprintf("%q", im.printed), Model: fmt.Sprintf("%q", m1.printed)})
	}
	// model's re-parse of the printed text
	m2 := parseModelStmt(a2)
	implR, modelR := "err", "err"
	if !im.reErr {
		implR = "ok " + im.reCanon
	}
	if m2.ok {
		modelR = "ok " + m2.canon
	}
	if im.unstable2 {
		implR, modelR = dtRe.ReplaceAllString(implR, "dt:?"), dtRe.ReplaceAllString(modelR, "dt:?")
	}
	if eq && implR != modelR {
		eq = false
		res.Mismatch(vh.Mismatch{Section: section, Function: "lql.ParseLql on the printed text", Input: map[string]string{"text": c.Text, "printed": im.printed}, Impl: implR, Model: modelR})
	}
	// SPEC: the printed text must parse and mean the same
	if im.reErr {
		fid := ""
		if eq {
			for _, f := range []string{"F12e", "F12g", "F12f", "F12a", "F12b"} {
				if m1.classes[f] {
					fid = f
					break
				}
			}
		}
		res.SpecFail(vh.SpecFailure{Section: section, Kind: "reparse-error", Input: c, Impl: fmt.Sprintf("printed %q is rejected", im.printed), Spec: "the printed statement parses",
			Model: modelR, ImplEqModel: eq, Finding: fid, What: "an accepted statement prints as a text the parser rejects"})
		return "reparse-error " + fid
	}
	if len(im.diff) > 0 && !(im.unstable || im.unstable2) {
		fid := ""
		if eq && m1.classes["F12e"] && im.reCanon == "(Lql)" {
			fid = "F12e" // only the keyword was printed; it re-parses to a statement without any clause struct
		} else if eq {
			for _, f := range im.diff {
				e := explains(f, m1.classes)
				if e == "" {
					fid = ""
					break
				}
				if fid == "" {
					fid = e
				}
			}
		}
		res.SpecFail(vh.SpecFailure{Section: section, Kind: "meaning-changed", Input: c, Impl: fmt.Sprintf("printed %q; differing: %v", im.printed, im.diff), Spec: "same meaning after print and re-parse",
			Model: modelR, ImplEqModel: eq, Finding: fid, What: "an accepted statement means something else after print and re-parse: " + strings.Join(im.diff, ",")})
		return "meaning-changed " + fid
	}
	if c.Expect == "rejected" {
		res.SpecFail(vh.SpecFailure{Section: section, Kind: "reparse-error", Input: c, Impl: fmt.Sprintf("accepted, printed %q", im.printed), Spec: "rejected", ImplEqModel: eq,
			What: "a statement the repaired parser must reject is accepted"})
		return "accepted-unexpectedly"
	}
	return "roundtrip-ok"
}

func runRTBatch(section string, sec *vh.Section, cases []rtCase) {
	ims := make([]rtImpl, len(cases))
	var wg sync.WaitGroup
	sem := make(chan struct{}, 16)
	for i := range cases {
		wg.Add(1)
		sem <- struct{}{}
		go func(i int) {
			defer wg.Done()
			defer func() { <-sem }()
			ims[i] = runRT(cases[i].Text)
		}(i)
	}
	wg.Wait()
	l1 := make([]string, len(cases))
	l2 := make([]string, len(cases))
	for i, c := range cases {
		l1[i] = stmtLine(c.Text, ims[i].rows)
		if ims[i].accepted {
			l2[i] = stmtLine(ims[i].printed, ims[i].rows2)
		} else {
			l2[i] = "noop"
		}
	}
	a1 := parBatch(l1)
	a2 := parBatch(l2)
	for i, c := range cases {
		key := judgeRT(section, c, ims[i], a1[i], a2[i])
		nt := ""
		if ims[i].accepted && len(c.Text) > 12 {
			nt = c.Text
		}
		res.Eval(sec, nt)
		res.Dist(sec, key)
	}
}

// ---------------------------------------------------------------------------------------------
// sections

func genCases(rng *vh.Rng, n int, mutants bool) []rtCase {
	cs := make([]rtCase, 0, n)
	for i := 0; i < n; i++ {
		d := rng.Range(0, 4)
		q := stmt(rng, d)
		if mutants {
			q = mutate(rng, q)
			if rng.Chance(1, 4) {
				q = mutate(rng, q)
			}
		}
		cs = append(cs, rtCase{Text: q})
	}
	return cs
}

func sectionCorpus() {
	sec := res.Section("corpus", "corpus", "witnesses of the open findings and minimised past failures (round trip of one statement each)")
	var cs []rtCase
	var pcs []pipeCase
	for _, f := range vh.CorpusFiles(args.Corpus) {
		var rp struct {
			Section string          `json:"section"`
			Input   json.RawMessage `json:"input"`
		}
		if vh.ReadJSON(f, &rp) != nil {
			continue
		}
		switch rp.Section {
		case "pipes":
			var p pipeCase
			if json.Unmarshal(rp.Input, &p) == nil {
				p.fromRecorded()
				pcs = append(pcs, p)
			}
		default:
			var c rtCase
			if json.Unmarshal(rp.Input, &c) == nil && c.Text != "" {
				cs = append(cs, c)
			}
		}
	}
	runRTBatch("roundtrip", sec, cs)
	if len(pcs) > 0 {
		runPipeCases(sec, pcs)
	}
	res.Done(sec)
}

func sectionLexer(rng *vh.Rng) {
	sec := res.Section("lexer", "unit-correspondence",
		"token streams (types and values after participle's rune-appending unquote) of generated statements, their mutants and byte soups over the lexer's interesting bytes: real parser lexer vs the hand-written maximal-munch model lexer; non-trivial = at least 3 tokens, distinct by text")
	n := 20000
	if args.Thorough {
		n = 300000
	}
	texts := make([]string, 0, n)
	for i := 0; i < n; i++ {
		switch i % 3 {
		case 0:
			texts = append(texts, stmt(rng, rng.Range(0, 3)))
		case 1:
			texts = append(texts, mutate(rng, stmt(rng, 2)))
		default:
			texts = append(texts, soup(rng))
		}
	}
	lines := make([]string, len(texts))
	impls := make([]string, len(texts))
	tt := map[string]string{"Keyword": "K", "Ident": "I", "String": "S", "Operator": "O", "Number": "N", "Tags": "T"}
	for i, t := range texts {
		lines[i] = "lex " + vh.HxS(t)
		toks, err := lql.VerifC12Tokens(t)
		if err != nil {
			impls[i] = "err"
			res.Dist(sec, "lex-error")
			res.Eval(sec, "")
			continue
		}
		var sb strings.Builder
		fmt.Fprintf(&sb, "ok %d", len(toks))
		for _, tk := range toks {
			sb.WriteString(" " + tt[tk.Type] + " " + vh.HxS(tk.Value))
			res.Dist(sec, "tok "+tk.Type)
		}
		impls[i] = sb.String()
		k := ""
		if len(toks) >= 3 {
			k = t
		}
		res.Eval(sec, k)
	}
	outs := parBatch(lines)
	for i := range outs {
		if outs[i] != impls[i] {
			res.Mismatch(vh.Mismatch{Section: "lexer", Function: "lqlLexer + participle.Unquote", Input: map[string]string{"text": texts[i]}, Impl: impls[i], Model: outs[i]})
		}
	}
	res.Done(sec)
}

func sectionParse(rng *vh.Rng) {
	sec := res.Section("parse", "unit-correspondence",
		"(1) whole statements of every kind generated from the grammar (nesting 0..4) and their mutants: lql.ParseLql AST + Lql.String() vs engine on the regenerated grammar + model printers (same cases as the roundtrip section, reported there); (2) generated filter expressions / source conditions and mutants: lql.ParseExpr / lql.ParseSource + String() vs engine (roots Expression / Source) vs the direct recursive-descent parser the theorems are about; non-trivial = accepted, distinct by text")
	n := 12000
	if args.Thorough {
		n = 200000
	}
	type ec struct {
		root string
		text string
	}
	cases := make([]ec, 0, n)
	for i := 0; i < n; i++ {
		var c ec
		if i%2 == 0 {
			c = ec{"expr", expr(rng, rng.Bool(), rng.Range(0, 4))}
		} else {
			c = ec{"source", source(rng, rng.Range(0, 4))}
		}
		if i%3 == 2 {
			c.text = mutate(rng, c.text)
		}
		if c.text == "" {
			c.text = "a=b"
		}
		cases = append(cases, c)
	}
	lines := make([]string, len(cases))
	for i, c := range cases {
		lines[i] = c.root + " " + vh.HxS(c.text)
	}
	outs := parBatch(lines)
	for i, c := range cases {
		impl, printed := "err", ""
		if c.root == "expr" {
			if e, err := lql.ParseExpr(c.text); err == nil && e != nil {
				impl = "ok " + canon(reflect.ValueOf(e))
				printed = e.String()
			}
		} else {
			if s, err := lql.ParseSource(c.text); err == nil && s != nil {
				impl = "ok " + canon(reflect.ValueOf(s))
				printed = s.String()
			}
		}
		// model answer: E=<..> D=<..> P=<hex> C=<..>
		o := outs[i]
		iE, iD, iP, iC := strings.Index(o, "E="), strings.Index(o, " D="), strings.LastIndex(o, " P="), strings.LastIndex(o, " C=")
		if iE != 0 || iD < 0 || iP < 0 || iC < 0 {
			res.Mismatch(vh.Mismatch{Section: "parse", Function: "driver answer", Input: map[string]string{"root": c.root, "text": c.text}, Impl: impl, Model: o})
			continue
		}
		iW := strings.LastIndex(o, " W=")
		if iW < iC {
			res.Mismatch(vh.Mismatch{Section: "parse", Function: "driver answer", Input: map[string]string{"root": c.root, "text": c.text}, Impl: impl, Model: o})
			continue
		}
		e, d, p, cl, w := o[2:iD], o[iD+3:iP], o[iP+3:iC], o[iC+3:iW], o[iW+3:]
		k := ""
		if impl != "err" {
			k = c.text
			res.Dist(sec, c.root+" accepted")
		} else {
			res.Dist(sec, c.root+" rejected")
		}
		res.Eval(sec, k)
		if e != impl {
			res.Mismatch(vh.Mismatch{Section: "parse", Function: "lql.Parse" + strings.Title(c.root) + " vs engine on the regenerated grammar", Input: map[string]string{"root": c.root, "text": c.text}, Impl: impl, Model: e})
			continue
		}
		if d != impl {
			res.Mismatch(vh.Mismatch{Section: "parse", Function: "lql.Parse" + strings.Title(c.root) + " vs direct recursive-descent parser (Logrange.Lql.direct" + strings.Title(c.root) + ")", Input: map[string]string{"root": c.root, "text": c.text}, Impl: impl, Model: d})
			continue
		}
		if impl != "err" && string(vh.UnHx(p)) != printed {
			res.Mismatch(vh.Mismatch{Section: "parse", Function: strings.Title(c.root) + ".String()", Input: map[string]string{"root": c.root, "text": c.text}, Impl: fmt.Sprintf("%q", printed), Model: fmt.Sprintf("%q", string(vh.UnHx(p)))})
			continue
		}
		// the two decidable hypotheses of print_parse_partial (WF = the parser's image, Lexable) must hold on every
		// accepted expression and on every accepted source outside the {..} finding class
		if impl != "err" && cl == "-" && len(w) == 3 {
			res.Dist(sec, c.root+" hypotheses wf,lexable,la="+w)
			if w[:2] != "11" {
				res.Mismatch(vh.Mismatch{Section: "parse", Function: "hypotheses of print_parse_partial on the parser's image (wf, lexable)", Input: map[string]string{"root": c.root, "text": c.text}, Impl: "11", Model: w})
			}
			// laExpr is the hypothesis of print_parse_expr / create_pipe_equiv (no Lexable): it must hold on every accepted
			// expression whose operands are not the one-byte keywords `[`, `]`, `:` (the only token shapes it leaves out)
			if w[2] == '0' && !strings.ContainsAny(c.text, "[]") && !regexp.MustCompile(`(^|[\s(,])\s*:`).MatchString(c.text) {
				res.Mismatch(vh.Mismatch{Section: "parse", Function: "hypothesis laExpr of print_parse_expr on the parser's image", Input: map[string]string{"root": c.root, "text": c.text}, Impl: "1", Model: "0"})
			}
		}
	}
	res.Done(sec)
}

func sectionRoundtrip(rng *vh.Rng) {
	sec := res.Section("roundtrip", "spec-search",
		"statements of every kind generated from the grammar (SELECT, SHOW, DESCRIBE, TRUNCATE, CREATE/DELETE PIPE; nesting 0..4; strings from a weighted alphabet with quotes, escapes, braces, non-ASCII and invalid bytes; identifiers with : . / -; numbers with size suffixes up to 2^64; date literals as integers and absolute dates, a tenth aimed at 10 ms multiples) plus as many mutants (junk insertion, deletions, swaps, duplicates, case flips): ParseLql → String() → ParseLql; the two ASTs must have the same meaning: truth values of every source condition on 36 sample tag sets and of every filter on 24 sample events (incl. values with runs of blanks, leading/trailing blanks, a trailing backslash) (real evaluators on both sides), range, position, offset, limit, sizes, BEFORE, DRYRUN, names, statement kind. Each case is also compared with the model (AST, printed text, re-parse). non-trivial = accepted statement longer than 12 bytes, distinct by text")
	n := 20000
	if args.Thorough {
		n = 300000
	}
	cs := genCases(rng.Fork("gen"), n, false)
	cs = append(cs, genCases(rng.Fork("mut"), n, true)...)
	for i := 0; i < 3; i++ {
		res.Sample(map[string]interface{}{"section": "roundtrip", "text": cs[i].Text})
		res.Sample(map[string]interface{}{"section": "roundtrip", "text": cs[n+i].Text})
	}
	// in chunks, to bound memory in the thorough tier
	for lo := 0; lo < len(cs); lo += 20000 {
		hi := lo + 20000
		if hi > len(cs) {
			hi = len(cs)
		}
		runRTBatch("roundtrip", sec, cs[lo:hi])
	}
	res.Done(sec)
}

// ---------------------------------------------------------------------------------------------
// the date contract the TRUNCATE / RANGE theorems take as a hypothesis: parseLqlDateTime reads the text DateTime.String()
// prints for an instant back to that instant

func sectionDateContract(rng *vh.Rng) {
	sec := res.Section("datecontract", "spec-search",
		"the hypothesis DateContract of token_roundtrip_truncate, on the real functions: for instants v (unix nanoseconds: 0, ±1, whole seconds, every multiple of 10 ms / 1 ms / 1 µs inside sampled seconds, random values over the whole int64 range that time.Unix(0,v) can print with a four-digit year, negative values) parseLqlDateTime(unquote(DateTime(v).String())) == v; non-trivial = every instant, distinct by value")
	n := 12000
	if args.Thorough {
		n = 300000
	}
	vals := []int64{0, 1, -1, 999999999, 1000000000, -1000000000, 1546432495120000000, 1546432495500000000, 1546432495000000001, 1 << 62, -(1 << 62)}
	for i := 0; i < n; i++ {
		base := (int64(rng.U64()>>2) - (1 << 61)) / 1000000000 * 1000000000
		switch i % 6 {
		case 0:
			vals = append(vals, base+int64(rng.Intn(100))*10000000)
		case 1:
			vals = append(vals, base+int64(rng.Intn(1000))*1000000)
		case 2:
			vals = append(vals, base+int64(rng.Intn(1000000))*1000)
		case 3:
			vals = append(vals, base)
		default:
			vals = append(vals, int64(rng.U64()>>1)-(1<<62))
		}
	}
	for _, v := range vals {
		dt := lql.DateTime(v)
		txt, err := strconv.Unquote(dt.String())
		got := int64(0)
		if err == nil {
			var tm time.Time
			if tm, err = lql.VerifC12ParseDateTime(txt); err == nil {
				got = tm.UnixNano()
			}
		}
		res.Eval(sec, fmt.Sprint(v))
		frac := v % 1000000000
		if frac < 0 {
			frac += 1000000000
		}
		switch {
		case frac == 0:
			res.Dist(sec, "whole second")
		case frac%10000000 == 0:
			res.Dist(sec, "multiple of 10 ms")
		case frac%1000000 == 0:
			res.Dist(sec, "multiple of 1 ms")
		default:
			res.Dist(sec, "finer")
		}
		if err != nil || got != v {
			fid := ""
			if dateLayout == "" && frac != 0 && frac%10000000 == 0 && txt == time.Unix(0, v).String() {
				fid = "F12d"
			}
			res.SpecFail(vh.SpecFailure{Section: "datecontract", Kind: "meaning-changed", Input: map[string]interface{}{"text": fmt.Sprintf("TRUNCATE BEFORE \"%d\"", v)},
				Impl: fmt.Sprintf("DateTime(%d).String() = %s is read back as %d (err %v)", v, dt.String(), got, err), Spec: fmt.Sprint(v), ImplEqModel: true, Finding: fid,
				What: "the text DateTime.String() prints for an instant is not read back to that instant by parseLqlDateTime"})
		}
	}
	dateContractZones(sec, rng, vals)
	res.Done(sec)
}

// dateZones: local zones the printed form of an instant depends on (DateTime.String() prints in time.Local with numeric offset
// and zone abbreviation): abbreviations that are not three letters ("+04", "-03", "+0545", "+1245"), half-hour and 45-minute
// offsets, DST in both hemispheres, four-letter abbreviations, UTC
var dateZones = []string{"UTC", "Asia/Dubai", "America/Sao_Paulo", "Asia/Kathmandu", "Asia/Kolkata", "Australia/Lord_Howe",
	"Pacific/Chatham", "America/St_Johns", "Europe/Berlin", "America/Los_Angeles", "Australia/Adelaide", "Africa/Casablanca", "Europe/Lisbon"}

// dateInstantInZone: print v as DateTime.String() does with time.Local = loc and read it back
func dateInstantInZone(loc *time.Location, v int64) (txt string, got int64, err error) {
	old := time.Local
	time.Local = loc
	defer func() { time.Local = old }()
	dt := lql.DateTime(v)
	txt, err = strconv.Unquote(dt.String())
	if err != nil {
		return
	}
	tm, e := lql.VerifC12ParseDateTime(txt)
	if e != nil {
		return txt, 0, e
	}
	return txt, tm.UnixNano(), nil
}

// dateContractZones: "same range / same BEFORE instant" must not depend on the zone the process runs in. The sections run one
// after the other and nothing else formats LQL instants meanwhile, so time.Local is switched in-process (restored after each call).
func dateContractZones(sec *vh.Section, rng *vh.Rng, vals []int64) {
	nRand := 300
	if args.Thorough {
		nRand = 5000
	}
	var inst []int64
	inst = append(inst, 1546432495500000000, 1546432495120000000, 1546432495000000001, 1000000000000000000)
	// every six hours through 2018 and 2019 (+ a sub-second part): both DST switches of every zone, both hemispheres
	for t := int64(1514764800); t < 1577836800; t += 6 * 3600 {
		inst = append(inst, t*1000000000+int64(rng.Intn(1000))*1000000)
	}
	// the hours around the switches at minute resolution would need the zone rules; a dense sweep of two weekends does it for
	// Europe (last Sunday of March / October 2019) and the Americas (10 March / 3 November 2019)
	for _, day := range []int64{1553990400, 1572134400, 1552176000, 1572739200} {
		for m := int64(0); m < 36*60; m += 10 {
			inst = append(inst, (day+m*60)*1000000000+500000000)
		}
	}
	// random instants from 1980 on only: before its standard time a zone's local mean time has an offset with seconds
	// (Asia/Dubai +03:41:12 until 1920, America/Sao_Paulo -03:06:28 until 1914), which the layout's "-0700" cannot carry — such an
	// instant comes back up to 59 s off in those zones (observed on the unchanged tree; documented bound of this sub-section,
	// the UTC run above covers the whole int64 range)
	const from1980 = int64(315532800) * 1000000000
	for i := 0; i < nRand; i++ {
		v := vals[rng.Intn(len(vals))]
		if v < from1980 {
			v = from1980 + int64(rng.U64()%uint64(int64(1893456000)*1000000000-from1980))/1000000*1000000
		}
		inst = append(inst, v)
	}
	for _, zn := range dateZones {
		loc, err := time.LoadLocation(zn)
		if err != nil {
			res.Note("datecontract: zone %s not available: %v", zn, err)
			continue
		}
		bad := 0
		for _, v := range inst {
			txt, got, err := dateInstantInZone(loc, v)
			res.Eval(sec, zn+" "+fmt.Sprint(v))
			if err != nil || got != v {
				bad++
				if bad <= 3 {
					res.SpecFail(vh.SpecFailure{Section: "datecontract", Kind: "meaning-changed",
						Input: map[string]interface{}{"text": fmt.Sprintf("TRUNCATE BEFORE \"%d\"", v), "zone": zn, "instant": v},
						Impl:  fmt.Sprintf("with time.Local = %s DateTime(%d).String() = %q is read back as %d (err %v): off by %d s", zn, v, txt, got, err, (got-v)/1000000000), Spec: fmt.Sprint(v), ImplEqModel: true,
						What:  "the text DateTime.String() prints for a RANGE bound / BEFORE instant is not read back to that instant by parseLqlDateTime when the process runs in this local zone: the range shifts although print and parse both succeed"})
				}
			}
		}
		res.Dist(sec, "zone "+zn)
	}
}

// ---------------------------------------------------------------------------------------------
// pipes

type pipeCase struct {
	From  string `json:"from"`
	Where string `json:"where"`
	// texts that are not valid UTF-8 do not survive JSON: recorded (and replayed) as hex
	FromHex  string `json:"from_hex,omitempty"`
	WhereHex string `json:"where_hex,omitempty"`
	// filter pairs: the filter built in the same process before this one
	BuiltBefore   string   `json:"built_before,omitempty"`
	ProbeLiterals []string `json:"probe_literals,omitempty"`
}

// replayFilterPair: build `before`, then `txt`, in this process; what comes back for `txt` must select like a fresh parse + compile
func replayFilterPair(sec *vh.Section, p pipeCase) {
	var evs []*model.LogEvent
	for _, l := range append(p.ProbeLiterals, "", "zzz") {
		for _, m := range []string{l, "x" + l + "y", l + "y", "x" + l} {
			evs = append(evs, &model.LogEvent{Timestamp: 1, Msg: []byte(m)})
		}
	}
	lql.BuildWhereExpFunc(p.BuiltBefore)
	g, err := lql.BuildWhereExpFunc(p.Where)
	got := whereFuncOn(g, err, evs)
	want := "err"
	if e, perr := lql.ParseExpr(p.Where); perr == nil {
		fresh, berr := lql.BuildWhereExpFuncByExpression(e)
		want = whereFuncOn(fresh, berr, evs)
	}
	res.Eval(sec, "filterpair "+p.Where)
	fmt.Printf("built before %q\nthen         %q\nselects      %s\nfresh        %s\n", p.BuiltBefore, p.Where, got, want)
	if got != want {
		res.SpecFail(vh.SpecFailure{Section: "pipes", Kind: "meaning-changed", Input: map[string]interface{}{"from": "", "where": p.Where, "built_before": p.BuiltBefore, "probe_literals": p.ProbeLiterals},
			Impl: "selects " + got, Spec: want, What: "the filter function built for a WHERE text depends on what was built before in the process"})
	}
}

func (c *pipeCase) fromRecorded() {
	if c.FromHex != "" {
		c.From = string(vh.UnHx(c.FromHex))
	}
	if c.WhereHex != "" {
		c.Where = string(vh.UnHx(c.WhereHex))
	}
}

func pipeInput(c pipeCase) map[string]interface{} {
	in := map[string]interface{}{"from": c.From, "where": c.Where}
	if !utf8.ValidString(c.From) {
		in["from_hex"] = vh.HxS(c.From)
	}
	if !utf8.ValidString(c.Where) {
		in["where_hex"] = vh.HxS(c.Where)
	}
	return in
}

// condsBuild: what newPPipe checks after the UTF-8 rule
func condsBuild(from, where string) bool {
	ok := false
	vh.Recover(func() {
		_, e1 := lql.BuildTagsExpFunc(from)
		_, e2 := lql.BuildWhereExpFunc(where)
		ok = e1 == nil && e2 == nil
	})
	return ok
}

// the refusal of newPPipe (3cf6638): a pipe whose name or conditions are not valid UTF-8 cannot be written to the registry file
func utf8Refusal(err error) bool {
	return err != nil && strings.Contains(err.Error(), "must be valid UTF-8")
}

func truthSrcText(s string) string {
	var out string
	p := vh.Recover(func() {
		src, err := lql.ParseSource(s)
		if err != nil {
			out = "parseerr"
			return
		}
		out = truthSrc(src)
	})
	if p != "" {
		return "panic"
	}
	return out
}

func truthWhereText(s string) string {
	var out string
	p := vh.Recover(func() {
		e, err := lql.ParseExpr(s)
		if err != nil {
			out = "parseerr"
			return
		}
		out = truthWhere(e)
	})
	if p != "" {
		return "panic"
	}
	return out
}

func describeField(out, key string) string {
	for _, l := range strings.Split(out, "\n") {
		if strings.HasPrefix(l, key) {
			return strings.TrimPrefix(l, key)
		}
	}
	return "?"
}

var pipeSrv *lrsrv.Srv
var pipeSeq int

// runPipeCases: CREATE PIPE pA FROM S WHERE F through the server (stores print S / print F) vs CreatePipe{pB, S, F}.
func runPipeCases(sec *vh.Section, cs []pipeCase) {
	if pipeSrv == nil {
		srv, err := lrsrv.Start(lrsrv.NewDir(), lrsrv.Opts{})
		if err != nil {
			res.Fatal(args.Out, "pipes: %v", err)
		}
		pipeSrv = srv
	}
	srv := pipeSrv
	// model: the stored texts are the model's printed source / filter
	var lines []string
	for _, c := range cs {
		lines = append(lines, "source "+vh.HxS(c.From), "expr "+vh.HxS(c.Where))
	}
	outs := parBatch(lines)
	field := func(o, key string) string {
		i := strings.LastIndex(o, " "+key+"=")
		if i < 0 {
			return ""
		}
		rest := o[i+len(key)+2:]
		if j := strings.Index(rest, " "); j >= 0 && (key == "P" || key == "C") {
			rest = rest[:j]
		}
		return rest
	}
	for i, c := range cs {
		pipeSeq++
		na, nb := fmt.Sprintf("pa%d", pipeSeq), fmt.Sprintf("pb%d", pipeSeq)
		q := "create pipe " + na
		if c.From != "" {
			q += " from " + c.From
		}
		if c.Where != "" {
			q += " where " + c.Where
		}
		// the statement must be read as (name, S, F): otherwise the generator did not produce a CREATE PIPE of this shape
		l, perr := lql.ParseLql(q)
		if perr != nil || l.Create == nil || l.Create.Pipe == nil {
			res.Dist(sec, "pipe: statement rejected")
			res.Eval(sec, "")
			continue
		}
		wantFrom, wantWhere := truthSrcText(c.From), truthWhereText(c.Where)
		_, errB := srv.Pipes.CreatePipe(pipe.Pipe{Name: nb, TagsCond: c.From, FltCond: c.Where})
		_, errA := srv.Exec(q)
		mFrom, mWhere := "", ""
		if c.From != "" {
			mFrom = string(vh.UnHx(field(outs[2*i], "P")))
		}
		if c.Where != "" {
			mWhere = string(vh.UnHx(field(outs[2*i+1], "P")))
		}
		classes := map[string]bool{}
		if cl := field(outs[2*i], "C"); cl != "-" && cl != "" {
			for _, x := range strings.Split(cl, ",") {
				classes[x] = true
			}
		}
		res.Eval(sec, c.From+" | "+c.Where)
		in := pipeInput(c)
		stFrom, stWhere := l.Create.Pipe.From.String(), l.Create.Pipe.Where.String()
		// A direct definition whose TEXT is not valid UTF-8 is refused at creation since 3cf6638 (it could not survive a
		// restart unchanged): it is no counter-part, the equivalence clause is vacuous for it. What the property still demands
		// of CREATE PIPE there: the stored (printed) conditions mean what S and F mean — checked below against the real
		// evaluators on the ORIGINAL texts — or CREATE PIPE is refused by the same rule.
		// (only when the UTF-8 rule is the ONLY reason: the same texts build a source and a filter function — what newPPipe
		// checks next; otherwise the direct definition is refused anyway and the ordinary acceptance comparison applies)
		noCounterpart := utf8Refusal(errB) && (!utf8.ValidString(c.From) || !utf8.ValidString(c.Where)) && condsBuild(c.From, c.Where)
		printedInvalid := !utf8.ValidString(stFrom) || !utf8.ValidString(stWhere)
		switch {
		case noCounterpart && errA != nil && utf8Refusal(errA) && printedInvalid:
			res.Dist(sec, "pipe: both refused (texts not valid UTF-8)")
		case errB != nil && errA != nil && !noCounterpart:
			res.Dist(sec, "pipe: both refused")
		case errB != nil && errA == nil && !noCounterpart:
			res.SpecFail(vh.SpecFailure{Section: "pipes", Kind: "pipe-definition-differs", Input: in, Impl: "CREATE PIPE accepted", Spec: "refused like CreatePipe: " + errB.Error(), What: "CREATE PIPE accepts what the direct definition refuses"})
		default:
			if noCounterpart {
				res.Dist(sec, "pipe: direct definition refused (raw text not valid UTF-8), CREATE PIPE judged against S and F alone")
			}
			eq := stFrom == mFrom && stWhere == mWhere
			if !eq {
				res.Mismatch(vh.Mismatch{Section: "pipes", Function: "cmdCreatePipe: p.From.String(), p.Where.String()", Input: in, Impl: fmt.Sprintf("%q %q", stFrom, stWhere), Model: fmt.Sprintf("%q %q", mFrom, mWhere)})
			}
			if errA != nil {
				fid := ""
				if eq && classes["F12b"] {
					fid = "F12b"
				}
				// F-C12-901: the printed FROM text carries a tag key / value with bytes that are not valid UTF-8 raw (tagMap.line()
				// quotes only empty values and values with `=` or `,`), so CREATE PIPE is refused by the persistence rule although the
				// printed text parses back to the same meaning and the same definition written with escapes is created directly
				if fid == "" && eq && !noCounterpart && utf8Refusal(errA) && printedInvalid && !utf8.ValidString(mFrom) &&
					truthSrcText(stFrom) == wantFrom && truthWhereText(stWhere) == wantWhere {
					fid = "F-C12-901"
				}
				res.Dist(sec, "pipe: CREATE PIPE refused "+fid)
				what := "CREATE PIPE p FROM S WHERE F is refused although the pipe defined directly by S and F is created (the printed condition does not parse)"
				if noCounterpart {
					what = "CREATE PIPE p FROM S WHERE F is refused for another reason than texts that are not valid UTF-8 (the printed condition does not parse)"
				}
				res.SpecFail(vh.SpecFailure{Section: "pipes", Kind: "reparse-error", Input: in, Impl: "CREATE PIPE refused: " + errA.Error(), Spec: "created like CreatePipe with the original texts", ImplEqModel: eq, Finding: fid,
					What: what})
				break
			}
			out, derr := srv.Exec("describe pipe " + na)
			desc, gerr := srv.Pipes.GetPipe(na)
			if derr != nil || gerr != nil {
				res.SpecFail(vh.SpecFailure{Section: "pipes", Kind: "pipe-definition-differs", Input: in, Impl: fmt.Sprint(derr, gerr), Spec: "described", What: "DESCRIBE PIPE / GetPipe fails for a pipe just created"})
				break
			}
			gotFrom, gotWhere := desc.TagsCond, desc.FltCond
			// DESCRIBE PIPE travels as JSON text: compared only when the conditions are valid UTF-8 without line breaks
			if utf8.ValidString(gotFrom+gotWhere) && !strings.ContainsAny(gotFrom+gotWhere, "\n\r") {
				if df, dw := describeField(out, "From:      "), describeField(out, "Where:     "); df != gotFrom || dw != gotWhere {
					res.Mismatch(vh.Mismatch{Section: "pipes", Function: "cmdDescribePipe", Input: in, Impl: fmt.Sprintf("%q %q", df, dw), Model: fmt.Sprintf("%q %q", gotFrom, gotWhere)})
				}
			}
			if gotFrom != stFrom || gotWhere != stWhere {
				res.Mismatch(vh.Mismatch{Section: "pipes", Function: "cmdCreatePipe stores the printed conditions / cmdDescribePipe", Input: in, Impl: fmt.Sprintf("%q %q", gotFrom, gotWhere), Model: fmt.Sprintf("%q %q", stFrom, stWhere)})
			}
			hasFrom, hasWhere := truthSrcText(gotFrom), truthWhereText(gotWhere)
			if hasFrom != wantFrom || hasWhere != wantWhere {
				fid := ""
				if eq && hasWhere == wantWhere && classes["F12b"] {
					fid = "F12b"
				}
				res.Dist(sec, "pipe: behaves differently "+fid)
				res.SpecFail(vh.SpecFailure{Section: "pipes", Kind: "meaning-changed", Input: in, Impl: fmt.Sprintf("stored %q / %q select %s / %s", gotFrom, gotWhere, hasFrom, hasWhere), Spec: fmt.Sprintf("%s / %s", wantFrom, wantWhere), ImplEqModel: eq, Finding: fid,
					What: "the pipe created by CREATE PIPE selects other partitions / events than the pipe defined directly by S and F"})
			} else {
				res.Dist(sec, "pipe: equivalent")
			}
		}
		srv.Pipes.DeletePipe(na)
		srv.Pipes.DeletePipe(nb)
	}
}

func sectionPipes(rng *vh.Rng) {
	sec := res.Section("pipes", "system-correspondence",
		"CREATE PIPE pA FROM S WHERE F through Admin.Execute (RPC) vs pipe.Service.CreatePipe{pB, S, F} on one in-process server, S from the source generator (tag sets and expressions, nesting 0..3), F from the filter generator, a third of the cases boundary-directed (string values with runs of blanks, leading/trailing blanks, a trailing backslash followed by a further literal, tabs, quotes): same acceptance; DESCRIBE PIPE pA shows the model's printed S and F; the stored conditions of pA select the same sample tag sets / events as S and F. A few cases also write events and compare what the two pipes copy. non-trivial = every case, distinct by (S, F)")
	n := 400
	if args.Thorough {
		n = 3000
	}
	var cs []pipeCase
	for i := 0; i < n; i++ {
		c := pipeCase{}
		if rng.Chance(5, 6) {
			c.From = source(rng, rng.Range(0, 3))
		}
		if rng.Chance(1, 2) {
			c.Where = expr(rng, true, rng.Range(0, 2))
		}
		if i%3 == 0 { // boundary-directed: delicate string values in S and / or F
			c = pipeCase{}
			if rng.Chance(2, 3) {
				c.From = directedCond(rng, false)
			}
			if c.From == "" || rng.Bool() {
				c.Where = directedCond(rng, true)
			}
		}
		cs = append(cs, c)
	}
	res.Sample(map[string]interface{}{"section": "pipes", "from": cs[0].From, "where": cs[0].Where})
	runPipeCases(sec, cs)
	// a pipe NAME that is not valid UTF-8 must be refused on both routes (3cf6638; the lexer's Ident pattern is ASCII)
	{
		_, e1 := pipeSrv.Pipes.CreatePipe(pipe.Pipe{Name: "p\xff", TagsCond: "a=b"})
		_, e2 := pipeSrv.Exec("create pipe p\xff from a=b")
		res.Eval(sec, "name not valid UTF-8")
		res.Dist(sec, "pipe: name not valid UTF-8")
		if e1 == nil || e2 == nil {
			res.SpecFail(vh.SpecFailure{Section: "pipes", Kind: "pipe-definition-differs", Input: map[string]interface{}{"from": "a=b", "where": "", "name_hex": vh.HxS("p\xff")},
				Impl: fmt.Sprintf("CreatePipe err=%v, CREATE PIPE err=%v", e1, e2), Spec: "both refused", What: "a pipe whose name is not valid UTF-8 is created"})
			pipeSrv.Pipes.DeletePipe("p\xff")
		}
	}
	behaviour(sec, rng)
	filterPairs(sec, rng.Fork("filterpairs"))
	res.Done(sec)
}

// whereFuncOn: a filter function evaluated on probe events ("1"/"0" per event); "err:…" when the text does not build
func whereFuncOn(f lql.WhereExpFunc, err error, evs []*model.LogEvent) string {
	if err != nil || f == nil {
		return "err"
	}
	var sb strings.Builder
	p := vh.Recover(func() {
		for _, ev := range evs {
			if f(ev) {
				sb.WriteByte('1')
			} else {
				sb.WriteByte('0')
			}
		}
	})
	if p != "" {
		return "panic"
	}
	return sb.String()
}

// filterPairs: "the filter builder is a function of its text". In ONE process (this one also hosts the in-process server) filters
// are built back to back that differ only INSIDE a quoted literal — number / kind of blanks, letter case, escape spelling — or only
// OUTSIDE the literals (spacing, keyword case: these must behave alike). What lql.BuildWhereExpFunc (the route newPPipe takes)
// returns for each text must select like a freshly parsed and compiled expression (ParseExpr + BuildWhereExpFuncByExpression) on
// probe events built from the literals themselves, whatever was built before. A few pairs also go through CREATE PIPE back to
// back with events written: each pipe must copy exactly the events its own filter selects.
func filterPairs(sec *vh.Section, rng *vh.Rng) {
	words := []string{"a", "b", "code", "200", "INFO", "Mar", "5", "x:y", "é", "err"}
	ops := []string{"contains", "prefix", "suffix", "=", "like", "!="}
	type pair struct{ l1, l2 string }
	var pairs []pair
	n := 60
	if args.Thorough {
		n = 600
	}
	for i := 0; i < n; i++ {
		w1, w2 := words[rng.Intn(len(words))], words[rng.Intn(len(words))]
		k := rng.Range(2, 4)
		var p pair
		switch i % 6 {
		case 0: // run of blanks inside vs one blank
			p = pair{w1 + strings.Repeat(" ", k) + w2, w1 + " " + w2}
		case 1: // leading / trailing blanks
			p = pair{strings.Repeat(" ", k) + w1, " " + w1}
		case 2: // tab vs blank
			p = pair{w1 + "\t" + w2, w1 + " " + w2}
		case 3: // letter case inside the literal
			p = pair{strings.ToUpper(w1) + " " + w2, strings.ToLower(w1) + " " + w2}
		case 4: // line break vs blank
			p = pair{w1 + "\n" + w2, w1 + " " + w2}
		default: // two runs
			p = pair{w1 + "  " + w2 + "   " + w1, w1 + " " + w2 + " " + w1}
		}
		if rng.Bool() {
			p.l1, p.l2 = p.l2, p.l1
		}
		pairs = append(pairs, p)
	}
	for i, p := range pairs {
		op := ops[i%len(ops)]
		probe := func(m string) *model.LogEvent { return &model.LogEvent{Timestamp: 1, Msg: []byte(m)} }
		evs := []*model.LogEvent{probe(p.l1), probe(p.l2), probe("x" + p.l1 + "y"), probe("x" + p.l2 + "y"), probe(p.l1 + "y"), probe("x" + p.l2), probe(""), probe("zzz")}
		f1 := "msg " + op + " " + strconv.Quote(p.l1)
		f2 := "msg " + op + " " + strconv.Quote(p.l2)
		// the same two filters spelled with other spacing / keyword case OUTSIDE the literal: must behave like f1 / f2
		f1b := "msg   " + strings.ToUpper(op) + "  " + strconv.Quote(p.l1) + " "
		f2b := " MSG " + op + "\t" + strconv.Quote(p.l2)
		for _, txt := range []string{f1, f2, f1b, f2b, f2, f1} {
			g, err := lql.BuildWhereExpFunc(txt)
			got := whereFuncOn(g, err, evs)
			want := "err"
			if e, perr := lql.ParseExpr(txt); perr == nil {
				fresh, berr := lql.BuildWhereExpFuncByExpression(e)
				want = whereFuncOn(fresh, berr, evs)
			}
			res.Eval(sec, "filterpair "+txt)
			if got != want {
				res.SpecFail(vh.SpecFailure{Section: "pipes", Kind: "meaning-changed",
					Input: map[string]interface{}{"from": "", "where": txt, "built_before": f1, "probe_literals": []string{p.l1, p.l2}},
					Impl:  "lql.BuildWhereExpFunc(" + strconv.Quote(txt) + ") selects " + got + " after " + strconv.Quote(f1) + " was built in the same process", Spec: want,
					What:  "the filter function a pipe gets for its WHERE text (lql.BuildWhereExpFunc, as newPPipe calls it) does not select like that text parsed and compiled afresh: it depends on what was built before in the process"})
			}
		}
		res.Dist(sec, "filterpair: literals differ inside ("+[]string{"blank runs", "edge blanks", "tab/blank", "case", "newline/blank", "two runs"}[i%6]+")")
	}
	// system level: two pipes back to back whose filters differ only inside the literal
	m := 2
	if args.Thorough {
		m = 6
	}
	srv := pipeSrv
	for i := 0; i < m && i < len(pairs); i++ {
		p := pairs[i*6] // blank runs
		pipeSeq++
		run := fmt.Sprintf("fp%d", pipeSeq)
		n1, n2 := "fa"+run, "fb"+run
		f1 := "msg contains " + strconv.Quote(p.l1)
		f2 := "msg contains " + strconv.Quote(p.l2)
		if _, err := srv.Exec("create pipe " + n1 + " from run=" + run + " where " + f1); err != nil {
			res.Note("filterpairs: CREATE PIPE failed for %q: %v", f1, err)
			continue
		}
		if _, err := srv.Exec("create pipe " + n2 + " from run=" + run + " where " + f2); err != nil {
			res.Note("filterpairs: CREATE PIPE failed for %q: %v", f2, err)
			srv.Pipes.DeletePipe(n1)
			continue
		}
		msgs := []string{"x" + p.l1 + "y", "x" + p.l2 + "y", "u" + p.l2 + "v", "zzz"}
		var evs []*api.LogEvent
		for j, mm := range msgs {
			evs = append(evs, &api.LogEvent{Timestamp: int64(j + 1), Message: mm})
		}
		var wr api.WriteResult
		if err := srv.Client.Write(context.Background(), "run="+run+",k=v", "", evs, &wr); err != nil || wr.Err != nil {
			res.Note("filterpairs: write failed: %v %v", err, wr.Err)
		}
		want := func(lit string) int {
			c := 0
			for _, mm := range msgs {
				if strings.Contains(mm, lit) {
					c++
				}
			}
			return c
		}
		count := func(name string) int {
			qr := &api.QueryResult{}
			err := srv.Client.Query(context.Background(), &api.QueryRequest{Query: "select from logrange.pipe=" + name + " limit 1000", Limit: 1000}, qr)
			if err != nil || qr.Err != nil {
				return -1
			}
			return len(qr.Events)
		}
		w1, w2 := want(p.l1), want(p.l2)
		c1, c2 := -2, -3
		deadline := time.Now().Add(8 * time.Second)
		for time.Now().Before(deadline) {
			srv.FlushWait()
			c1, c2 = count(n1), count(n2)
			if c1 == w1 && c2 == w2 {
				break
			}
			time.Sleep(50 * time.Millisecond)
		}
		res.Eval(sec, "filterpair pipes "+f1+" | "+f2)
		res.Dist(sec, "filterpair: two pipes back to back on written events")
		if c1 != w1 || c2 != w2 {
			res.SpecFail(vh.SpecFailure{Section: "pipes", Kind: "meaning-changed", Input: map[string]interface{}{"from": "run=" + run, "where": f2, "built_before": f1},
				Impl: fmt.Sprintf("pipe with %q copied %d events (expected %d), the pipe created right after it with %q copied %d (expected %d)", f1, c1, w1, f2, c2, w2), Spec: "each pipe copies the events its own filter selects",
				What: "two pipes created back to back whose filters differ only inside a quoted literal do not each copy what their own filter selects"})
		}
		srv.Pipes.DeletePipe(n1)
		srv.Pipes.DeletePipe(n2)
	}
}

// behaviour: two pipes (one through CREATE PIPE, one direct) over written events must copy the same events
func behaviour(sec *vh.Section, rng *vh.Rng) {
	srv := pipeSrv
	n := 3
	if args.Thorough {
		n = 12
	}
	conds := []string{"a=v", "{a=v}", "a=v or name like \"app*\"", "not a=v", "{a=v,b=1}", "a = \"x y\" OR b=1", "a = \"x  y\"", "a = \"x  y\" or b=1"}
	partitions := []string{"a=v", "a=v,b=1", "name=app1", "a=x y", "b=1", "a=x  y"}
	for i := 0; i < n; i++ {
		s := conds[rng.Intn(len(conds))]
		pipeSeq++
		na, nb := fmt.Sprintf("ba%d", pipeSeq), fmt.Sprintf("bb%d", pipeSeq)
		if _, err := srv.Exec("create pipe " + na + " from " + s); err != nil {
			res.Note("behaviour: CREATE PIPE failed for %q: %v", s, err)
			continue
		}
		if _, err := srv.Pipes.CreatePipe(pipe.Pipe{Name: nb, TagsCond: s}); err != nil {
			res.Note("behaviour: CreatePipe failed for %q: %v", s, err)
			continue
		}
		want := 0
		f, _ := lql.BuildTagsExpFunc(s)
		for pi, p := range partitions {
			var wr api.WriteResult
			evs := []*api.LogEvent{{Timestamp: int64(pi + 1), Message: fmt.Sprintf("m%d-%d", i, pi)}, {Timestamp: int64(pi + 2), Message: "second"}}
			ptags := p + fmt.Sprintf(",run=r%d", pipeSeq)
			if err := srv.Client.Write(context.Background(), ptags, "", evs, &wr); err != nil || wr.Err != nil {
				res.Note("behaviour: write failed: %v %v", err, wr.Err)
			}
			ts, _ := tag.Parse(ptags)
			if f != nil && f(ts) {
				want += 2
			}
		}
		count := func(name string) int {
			qr := &api.QueryResult{}
			err := srv.Client.Query(context.Background(), &api.QueryRequest{Query: "select from logrange.pipe=" + name + " limit 1000", Limit: 1000}, qr)
			if err != nil || qr.Err != nil {
				return -1
			}
			return len(qr.Events)
		}
		ca, cb := -2, -3
		deadline := time.Now().Add(6 * time.Second)
		for time.Now().Before(deadline) {
			srv.FlushWait()
			ca, cb = count(na), count(nb)
			if ca == want && cb == want {
				break
			}
			time.Sleep(50 * time.Millisecond)
		}
		res.Eval(sec, "behaviour "+s)
		res.Dist(sec, "behaviour: pipes compared on written events")
		if ca != cb {
			res.SpecFail(vh.SpecFailure{Section: "pipes", Kind: "meaning-changed", Input: map[string]interface{}{"from": s, "where": ""}, Impl: fmt.Sprintf("CREATE PIPE copy holds %d events, direct pipe %d (expected %d)", ca, cb, want), Spec: "same events",
				What: "the pipe created by CREATE PIPE copies other events than the pipe defined directly"})
		}
		srv.Pipes.DeletePipe(na)
		srv.Pipes.DeletePipe(nb)
	}
}

// ---------------------------------------------------------------------------------------------

// loadGrammarLits asks the driver for the literals of the regenerated grammar (see gen.go: lit)
func loadGrammarLits() {
	out, err := vh.Batch(args.Driver, []string{"lits"})
	if err != nil || len(out) != 1 || !strings.HasPrefix(out[0], "ok") {
		res.Note("driver gave no grammar literals: %v %v", err, out)
		return
	}
	if fa, err := vh.Batch(args.Driver, []string{"facts"}); err == nil && len(fa) == 1 && strings.HasPrefix(fa[0], "ok layout=") {
		dateLayout = string(vh.UnHx(strings.TrimPrefix(strings.Fields(fa[0])[1], "layout=")))
	} else {
		res.Note("driver gave no printer facts: %v %v", err, fa)
	}
	f := strings.Fields(out[0])[1:]
	for i := 0; i+1 < len(f); {
		name := f[i]
		var n int
		fmt.Sscan(f[i+1], &n)
		i += 2
		var ls []string
		for k := 0; k < n && i < len(f); k++ {
			ls = append(ls, string(vh.UnHx(f[i])))
			i++
		}
		grammarLits[name] = ls
	}
	for name, d := range defaultLits {
		if g := grammarLits[name]; strings.Join(g, " ") != strings.Join(d, " ") {
			res.Note("struct %s: the struct tags spell its literals %q (generator default %q)", name, g, d)
		}
	}
}

func replay(path string) {
	var rp struct {
		Section string          `json:"section"`
		Input   json.RawMessage `json:"input"`
	}
	if err := vh.ReadJSON(path, &rp); err != nil {
		res.Fatal(args.Out, "replay: %v", err)
	}
	loadGrammarLits()
	sec := res.Section("replay", "replay", "replay of one recorded input")
	switch rp.Section {
	case "datecontract":
		var c struct {
			Zone    string `json:"zone"`
			Instant int64  `json:"instant"`
		}
		json.Unmarshal(rp.Input, &c)
		if c.Zone == "" {
			c.Zone = "Local"
		}
		loc, err := time.LoadLocation(c.Zone)
		if err != nil {
			res.Fatal(args.Out, "replay: zone %s: %v", c.Zone, err)
		}
		txt, got, perr := dateInstantInZone(loc, c.Instant)
		res.Eval(sec, c.Zone+" "+fmt.Sprint(c.Instant))
		fmt.Printf("zone %s instant %d printed %q read back %d err %v\n", c.Zone, c.Instant, txt, got, perr)
		if perr != nil || got != c.Instant {
			res.SpecFail(vh.SpecFailure{Section: "datecontract", Kind: "meaning-changed", Input: map[string]interface{}{"zone": c.Zone, "instant": c.Instant},
				Impl: fmt.Sprintf("%q read back as %d (err %v)", txt, got, perr), Spec: fmt.Sprint(c.Instant), ImplEqModel: true,
				What: "the printed instant is not read back to the instant in this local zone"})
		}
	case "pipes":
		var p pipeCase
		json.Unmarshal(rp.Input, &p)
		p.fromRecorded()
		if p.BuiltBefore != "" {
			replayFilterPair(sec, p)
		} else {
			runPipeCases(sec, []pipeCase{p})
		}
	case "lexer":
		var c rtCase
		json.Unmarshal(rp.Input, &c)
		toks, err := lql.VerifC12Tokens(c.Text)
		out, _ := vh.Batch(args.Driver, []string{"lex " + vh.HxS(c.Text)})
		fmt.Printf("text  %q\nimpl  %v %v\nmodel %v\n", c.Text, toks, err, out)
	case "parse":
		var c struct {
			Root string `json:"root"`
			Text string `json:"text"`
		}
		json.Unmarshal(rp.Input, &c)
		out, _ := vh.Batch(args.Driver, []string{strings.ToLower(c.Root) + " " + vh.HxS(c.Text)})
		fmt.Printf("text  %q\nmodel %v\n", c.Text, out)
	default:
		var c rtCase
		json.Unmarshal(rp.Input, &c)
		im := runRT(c.Text)
		a := parBatch([]string{stmtLine(c.Text, im.rows), stmtLine(im.printed, im.rows2)})
		key := judgeRT("roundtrip", c, im, a[0], a[1])
		fmt.Printf("text     %q\naccepted %v\nimpl AST %s\nprinted  %q\nre-parse error=%v AST %s\ndiffering %v\nmodel    %s\nmodel re %s\nverdict  %s\n", c.Text, im.accepted, im.canon, im.printed, im.reErr, im.reCanon, im.diff, a[0], a[1], key)
	}
	if pipeSrv != nil {
		pipeSrv.Stop()
		os.RemoveAll(pipeSrv.Dir)
	}
	res.Write(args.Out)
}

func main() {
	args = vh.ParseArgs()
	res = vh.NewResult("C12", args)
	if args.Replay != "" {
		replay(args.Replay)
		return
	}
	rng := vh.NewRng(args.Seed)
	loadGrammarLits()
	sectionCorpus()
	sectionLexer(rng.Fork("lexer"))
	sectionParse(rng.Fork("parse"))
	sectionRoundtrip(rng.Fork("roundtrip"))
	sectionDateContract(rng.Fork("datecontract"))
	sectionPipes(rng.Fork("pipes"))
	if pipeSrv != nil {
		pipeSrv.Stop()
		os.RemoveAll(pipeSrv.Dir)
	}
	res.Write(args.Out)
}
